"""Detect_gen.v: the suffix + content-substring format detection cascade of sidemantic/loaders.py:load_from_directory, regenerated on
every run as a decision tree over atoms  (suffix == s | suffix in (..) | "marker" in content | <oracle>(content)).

Fail-closed: the translator walks the `if suffix == ...: / elif ...` chain that assigns `adapter = XAdapter()` and accepts only tests
built from those atoms with and / or / not; any other statement or test shape raises Unsupported."""
import ast
import os

SRC = "sidemantic/loaders.py"


class Unsupported(Exception):
    pass


def q(s):
    return '"' + s.replace('"', '""') + '"'


def cond(t):
    if isinstance(t, ast.BoolOp):
        parts = [cond(v) for v in t.values]
        op = "CAnd" if isinstance(t.op, ast.And) else "COr"
        acc = parts[0]
        for p in parts[1:]:
            acc = "(%s %s %s)" % (op, acc, p)
        return acc
    if isinstance(t, ast.UnaryOp) and isinstance(t.op, ast.Not):
        return "(CNot %s)" % cond(t.operand)
    if isinstance(t, ast.Compare) and len(t.ops) == 1:
        l, r = t.left, t.comparators[0]
        if isinstance(t.ops[0], ast.Eq) and isinstance(l, ast.Name) and l.id == "suffix" and isinstance(r, ast.Constant):
            return "(CSuffix %s)" % q(r.value)
        if isinstance(t.ops[0], ast.In) and isinstance(l, ast.Name) and l.id == "suffix" and isinstance(r, (ast.Tuple, ast.List)) and all(isinstance(e, ast.Constant) for e in r.elts):
            return "(CSuffixIn [%s])" % "; ".join(q(e.value) for e in r.elts)
        if isinstance(t.ops[0], ast.In) and isinstance(l, ast.Constant) and isinstance(l.value, str) and isinstance(r, ast.Name) and r.id == "content":
            return "(CHas %s)" % q(l.value)
    if isinstance(t, ast.Call) and isinstance(t.func, ast.Name) and len(t.args) == 1 and isinstance(t.args[0], ast.Name) and t.args[0].id == "content":
        return "(CHas %s)" % q("<%s>" % t.func.id)                     # an oracle on the content, e.g. _looks_like_yardstick_sql
    raise Unsupported("line %d: test %s" % (getattr(t, "lineno", 0), ast.unparse(t)[:80]))


def adapter_of(stmts):
    """the adapter a branch body assigns (imports and `content = file_path.read_text()` are skipped); nested if-chains are subtrees"""
    res = None
    for s in stmts:
        if isinstance(s, (ast.ImportFrom, ast.Import)) or (isinstance(s, ast.Expr) and isinstance(s.value, ast.Constant)):
            continue
        if isinstance(s, ast.Assign) and len(s.targets) == 1 and isinstance(s.targets[0], ast.Name):
            if s.targets[0].id == "content":
                continue
            if s.targets[0].id == "adapter" and isinstance(s.value, ast.Call) and isinstance(s.value.func, ast.Name) and not s.value.args:
                res = '(Leaf (Some %s))' % q(s.value.func.id.replace("Adapter", ""))
                continue
        if isinstance(s, ast.If):
            res = tree(s)
            continue
        raise Unsupported("line %d: statement %s" % (s.lineno, ast.unparse(s)[:80]))
    return res or "(Leaf None)"


def tree(node):
    if not isinstance(node, ast.If):
        raise Unsupported("not an if")
    els = "(Leaf None)"
    if node.orelse:
        if len(node.orelse) == 1 and isinstance(node.orelse[0], ast.If):
            els = tree(node.orelse[0])
        else:
            els = adapter_of(node.orelse)
    return "(Ite %s %s %s)" % (cond(node.test), adapter_of(node.body), els)


def find_chain(repo):
    mod = ast.parse(open(os.path.join(repo, SRC)).read())
    fn = next(n for n in mod.body if isinstance(n, ast.FunctionDef) and n.name == "load_from_directory")
    loop = next(n for n in ast.walk(fn) if isinstance(n, ast.For) and "rglob" in ast.unparse(n.iter))
    chains = [s for s in loop.body if isinstance(s, ast.If) and "suffix" in ast.unparse(s.test)]
    if len(chains) != 1:
        raise Unsupported("expected exactly one suffix chain in the file loop, found %d" % len(chains))
    # the statements before the chain must be the known prologue
    idx = loop.body.index(chains[0])
    for s in loop.body[:idx]:
        txt = ast.unparse(s)
        if not (txt.startswith("if not file_path.is_file()") or txt.startswith("if _try_load_python_file") or txt.startswith("adapter = None") or txt.startswith("suffix = file_path.suffix.lower()")):
            raise Unsupported("line %d: unexpected statement before the detection chain: %s" % (s.lineno, txt[:60]))
    return chains[0]


def markers(repo):
    out = []
    for n in ast.walk(find_chain(repo)):
        if isinstance(n, ast.Compare) and isinstance(n.ops[0], ast.In) and isinstance(n.left, ast.Constant) and isinstance(n.left.value, str) and isinstance(n.comparators[0], ast.Name) and n.comparators[0].id == "content":
            if n.left.value not in out:
                out.append(n.left.value)
    return out


def generate(repo, signatures=None):
    t = tree(find_chain(repo))
    sig = ""
    if signatures is not None:
        rows = ";\n   ".join("(%s, %s, [%s], %s)" % (q(lbl), q(suf), "; ".join("[" + "; ".join(q(m) for m in st) + "]" for st in sets), q(exp)) for lbl, suf, sets, exp in signatures)
        sig = ("\n(* MEASURED by the harness on this run: per kind of file an exporter writes (and its own adapter reads valid models from) -- label, suffix,\n"
               "   the marker sets observed, the adapter that must handle it *)\nDefinition signatures : list (string * string * list (list string) * string) :=\n  [%s].\n" % rows)
    return ("(* GENERATED on every run by translator/gen_detect.py from %s (load_from_directory) -- do not edit *)\n" % SRC +
            "From Coq Require Import String List Bool.\nRequire Import V.Model.Loader.\nImport ListNotations.\nOpen Scope string_scope.\n\n"
            "Definition detection_tree : dtree :=\n  %s.\n" % t + sig)
