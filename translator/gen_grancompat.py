"""GranCompat_gen.v: GRANULARITY_HIERARCHY and PreAggregationMatcher._is_granularity_compatible, regenerated from
sidemantic/core/preagg_matcher.py on every run."""
import ast
import os

from translator.py2v_typed import HEADER, Unsupported, dict_literal, find_assign, find_function, function_def

SRC = "sidemantic/core/preagg_matcher.py"


def generate(repo):
    path = os.path.join(repo, SRC)
    mod = ast.parse(open(path).read())
    table, vt = dict_literal(find_assign(mod, "GRANULARITY_HIERARCHY"), "GRANULARITY_HIERARCHY")
    if vt != "int":
        raise Unsupported("GRANULARITY_HIERARCHY values are not ints")
    fn = find_function(mod, "_is_granularity_compatible")
    body = function_def(fn, "is_granularity_compatible", ["str", "str"], "bool", {"GRANULARITY_HIERARCHY": "int"})
    return ("(* GENERATED on every run by translator/gen_grancompat.py from %s -- do not edit *)\n" % SRC) + HEADER + table + "\n\n" + body + "\n"
