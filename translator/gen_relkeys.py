"""RelKeys_gen.v: Relationship.foreign_key_columns / primary_key_columns / junction_keys (relationship.py),
Model.primary_key_columns (model.py) and the nested invert_relationship of SemanticGraph.build_adjacency, regenerated on every run."""
import ast
import os

from translator.py2v_typed import HEADER, Unsupported, find_function, function_def


def _cls_fn(mod, cls, name):
    for n in mod.body:
        if isinstance(n, ast.ClassDef) and n.name == cls:
            hits = [f for f in n.body if isinstance(f, ast.FunctionDef) and f.name == name]
            if len(hits) == 1:
                return hits[0]
    raise Unsupported(f"{cls}.{name} not found")


def generate(repo):
    rel = ast.parse(open(os.path.join(repo, "sidemantic/core/relationship.py")).read())
    mdl = ast.parse(open(os.path.join(repo, "sidemantic/core/model.py")).read())
    sg = ast.parse(open(os.path.join(repo, "sidemantic/core/semantic_graph.py")).read())
    out = ["(* GENERATED on every run by translator/gen_relkeys.py from relationship.py, model.py, semantic_graph.py -- do not edit *)\n" + HEADER]
    out.append(function_def(_cls_fn(rel, "Relationship", "foreign_key_columns"), "foreign_key_columns", [], "strlist", {},
                            selfattrs={"self.name": "str", "self.type": "str", "self.foreign_key": "key"}))
    out.append(function_def(_cls_fn(rel, "Relationship", "primary_key_columns"), "rel_primary_key_columns", [], "strlist", {},
                            selfattrs={"self.primary_key": "key"}))
    out.append(function_def(_cls_fn(rel, "Relationship", "junction_keys"), "junction_keys", [], "keypair", {},
                            selfattrs={"self.type": "str", "self.foreign_key": "key", "self.through_foreign_key": "optstr", "self.related_foreign_key": "optstr"}))
    out.append(function_def(_cls_fn(mdl, "Model", "primary_key_columns"), "model_primary_key_columns", [], "strlist", {},
                            selfattrs={"self.primary_key": "key"}))
    out.append(function_def(find_function(sg, "invert_relationship"), "invert_relationship", ["str"], "str", {}))
    return "\n\n".join(out) + "\n"
