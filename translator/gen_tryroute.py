"""TryRoute_gen.v: what SQLGenerator._try_use_preaggregation does with a query before and after asking the rollup matcher, on scripted
scenarios, extracted from generator.py on every run by executing the method's AST with translator/pyinterp.py (fail closed).
PreAggregationMatcher and _generate_from_preaggregation are scripted: the matcher records what it is asked and answers from the scenario
(does some rollup match the granularity it is asked about; which granularities the matched rollup can serve).  What is extracted is the
method's own logic: which names / granularity / filter texts reach the matcher, when the method gives up before asking, and which
granularities are re-checked on the matched rollup."""
import itertools
import sys

from translator.pyinterp import Interp, Obj, Unsupported, find_function

DIM_ITEMS = [("ev.k", None), ("k", None), ("ev.ts", None), ("ev.ts", "day"), ("ev.ts", "month"), ("ts", "week")]
DIM_LISTS = [[]] + [[d] for d in DIM_ITEMS] + [[a, b] for a, b in itertools.permutations(DIM_ITEMS[:1] + DIM_ITEMS[3:], 2)] + [
    [("ev.ts", "day"), ("ev.ts", "month"), ("ts", "week")], [("ev.ts", "month"), ("ev.k", None), ("ev.ts", "month")], [("ev.ts", "day"), ("ev.ts", None)]]
METRICS = [["ev.rev"], ["rev", "ev.n"]]
FILTERS = [None, [], ["ev.k = 1", "ev_cte.ts > 3 AND evx.k = 2"]]
HAS_PREAGGS = [True, False]
FIND = [True, False]
SERVES = [(), ("day",), ("month",), ("day", "month"), ("day", "month", "week")]
TIME_DIMS = {"ts"}


def scenarios():
    for hp in HAS_PREAGGS:
        for dl in DIM_LISTS:
            for ms in METRICS[:1] if not hp else METRICS:
                for fl in FILTERS[:1] if not hp else FILTERS:
                    for fd in FIND[:1] if not hp else FIND:
                        for sv in SERVES[:1] if not (hp and fd) else SERVES:
                            yield (hp, dl, ms, fl, fd, sv)


def run_one(fn, funcs, sc, real=False):
    hp, dl, ms, fl, fd, sv = sc
    asked = {"find": None, "recheck": []}
    if real:
        import sidemantic.sql.generator as G

        class PA:
            name = "r"

        class Dim:
            def __init__(self, t):
                self.type = t

        class Mod:
            pre_aggregations = [PA()] if hp else []

            def get_dimension(self, n):
                return Dim("time" if n in TIME_DIMS else "categorical") if n in ("k", "ts") else None

        class M:
            def __init__(self, model):
                pass

            def find_matching_preagg(self, metrics=None, dimensions=None, time_granularity=None, filters=None):
                asked["find"] = (list(metrics), list(dimensions), time_granularity, list(filters))
                return Mod.pre_aggregations[0] if fd else None

            def can_satisfy_query(self, preagg=None, query_metrics=None, query_dimensions=None, query_granularity=None, filters=None):
                asked["recheck"].append(query_granularity)
                return query_granularity in sv

        class Gr:
            def get_model(self, n):
                return Mod()
        gen = G.SQLGenerator.__new__(G.SQLGenerator)
        gen.graph = Gr()
        gen._generate_from_preaggregation = lambda **kw: "ROUTED"
        saved = G.PreAggregationMatcher
        G.PreAggregationMatcher = M
        try:
            res = gen._try_use_preaggregation("ev", list(ms), list(dl), None if fl is None else list(fl))
        finally:
            G.PreAggregationMatcher = saved
        return (res, asked["find"], asked["recheck"])
    pa = Obj("preagg", {"name": "r"})

    def get_dimension(n):
        return Obj("dim", {"type": "time" if n in TIME_DIMS else "categorical"}) if n in ("k", "ts") else None
    model = Obj("model", {"pre_aggregations": [pa] if hp else []}, {"get_dimension": get_dimension})

    def find(metrics=None, dimensions=None, time_granularity=None, filters=None):
        asked["find"] = (list(metrics), list(dimensions), time_granularity, list(filters))
        return pa if fd else None

    def can(preagg=None, query_metrics=None, query_dimensions=None, query_granularity=None, filters=None):
        asked["recheck"].append(query_granularity)
        return query_granularity in sv
    matcher_cls = lambda m: Obj("matcher", {}, {"find_matching_preagg": find, "can_satisfy_query": can})
    selfo = Obj("self", {"graph": Obj("graph", {}, {"get_model": lambda n: model})}, {"_generate_from_preaggregation": lambda **kw: "ROUTED"})
    it = Interp({}, {"PreAggregationMatcher": matcher_cls})
    res = it.call_def(fn, ["ev", list(ms), list(dl), None if fl is None else list(fl)], self_obj=selfo)
    if res not in (None, "ROUTED"):
        raise Unsupported("_try_use_preaggregation returns %r" % (res,))
    return (res, asked["find"], asked["recheck"])


def table(repo, real=False):
    fn, funcs = find_function(repo + "/sidemantic/sql/generator.py", "_try_use_preaggregation", "SQLGenerator")
    return [(sc, run_one(fn, funcs, sc, real)) for sc in scenarios()]


def q(s):
    return '"%s"' % s.replace('"', '""')


def opt(s):
    return "None" if s is None else "(Some %s)" % q(s)


def lst(l):
    return "[%s]" % "; ".join(q(x) for x in l)


def generate(repo):
    items = []
    for (hp, dl, ms, fl, fd, sv), (res, find, recheck) in table(repo):
        dims = "[%s]" % "; ".join("(%s, %s)" % (q(d), opt(g)) for d, g in dl)
        f = "None" if find is None else "(Some (%s, %s, %s, %s))" % (lst(find[0]), lst(find[1]), opt(find[2]), lst(find[3]))
        items.append("(%s, %s, %s, %s, %s, %s, (%s, %s, %s))" % ("true" if hp else "false", dims, lst(ms), "None" if fl is None else "(Some %s)" % lst(fl), "true" if fd else "false", lst(sv),
                                                               "true" if res == "ROUTED" else "false", f, lst(recheck)))
    return ("(* GENERATED on every run by translator/gen_tryroute.py from sidemantic/sql/generator.py (_try_use_preaggregation) -- do not edit *)\n"
            "From Coq Require Import String List Bool.\nImport ListNotations.\nOpen Scope string_scope.\n\n"
            "(* per scripted scenario: has the model rollups; the parsed dimensions (reference, granularity); the metric references; the filters; does the matcher find a rollup;\n"
            "   the granularities the found rollup can serve  ->  (routed?, what the matcher was asked: metric names, dimension names, granularity, filter texts; the granularities re-checked) *)\n"
            "Definition tryroute_rows : list (bool * list (string * option string) * list string * option (list string) * bool * list string *\n"
            "                                 (bool * option (list string * list string * option string * list string) * list string)) :=\n  [%s].\n" % ";\n   ".join(items))


if __name__ == "__main__":
    repo = sys.argv[1] if len(sys.argv) > 1 else "/repo"
    a, b = table(repo), table(repo, real=True)
    print(len(a), a == b)
    for x, y in zip(a, b):
        if x != y:
            print(x, y)
            break
