"""Small_gen.v: behaviour tables of four small text-building methods of SQLGenerator, extracted from generator.py on every run by executing
their ASTs with translator/pyinterp.py (fail closed) against scripted stand-ins (sqlglot's parser and identifier quoting, `re`):

  _join_conjuncts                 conditions (with the class sqlglot gives their top-level node: Or / anything else / unparsable) -> text
  _wrap_with_fill_nulls           expression text x fill_nulls_with (None / int / float / str / bool) -> text
  _parse_dimension_refs           dimension references -> (reference, granularity) pairs
  _build_measure_aggregation_sql  aggregation literal x model name x measure name -> aggregate over the CTE's raw column
"""
import re as _re
import sys

from translator.pyinterp import Interp, Obj, PyRaise, Unsupported, find_function

CLS_OR = Obj("class:Or")
CLS_OTHER = Obj("class:Other")

# condition texts with the scripted class of their top-level node
CONDS = {"a = 1": "other", "a = 1 OR b = 2": "or", "x > 0 AND y < 5": "other", "NOT (p OR q)": "other", "c IN (1, 2) OR d IS NULL": "or", "???": "unparsable", "(u OR v)": "other"}
COND_LISTS = [[], ["a = 1"], ["a = 1 OR b = 2"], ["a = 1", "a = 1 OR b = 2"], ["a = 1 OR b = 2", "x > 0 AND y < 5"], ["a = 1 OR b = 2", "c IN (1, 2) OR d IS NULL"],
              ["???"], ["???", "a = 1 OR b = 2", "NOT (p OR q)"], ["(u OR v)", "a = 1"], ["x > 0 AND y < 5", "x > 0 AND y < 5"], ["a = 1", "x > 0 AND y < 5", "c IN (1, 2) OR d IS NULL", "a = 1"]]
FILLS = [None, 0, 7, -3, 1.5, "n/a", "", "it's", True, False]
FILL_EXPRS = ["SUM(x)", "a / NULLIF(b, 0)", ""]
DIMREFS = ["orders.status", "orders.created__month", "orders.created__", "orders.a__b__week", "__day", "orders.x_y", "o.created___month", "plain", "o.d__", "a.b__c.d__year"]
AGGS = ["sum", "count", "count_distinct", "avg", "min", "max", "median", "stddev", "variance", "Sum"]
AGG_NAMES = [("orders", "revenue"), ("order items", "n"), ("t", "select"), ("t", "x y")]


def scripted(dialect="duckdb"):
    def parse_one(text, dialect=None):
        k = CONDS.get(text)
        if k is None:
            raise Unsupported("scenario text %r" % (text,))
        if k == "unparsable":
            raise PyRaise("ParseError", text)
        return Obj("node:" + text, {"__class__": CLS_OR if k == "or" else CLS_OTHER})
    sqlglot = Obj("sqlglot", {}, {"parse_one": parse_one,
                                  "to_identifier": lambda name, quoted=False: Obj("ident", {}, {"sql": lambda dialect=None, _n=name: '"%s"' % _n.replace('"', '""')})})
    exp = Obj("exp", {"Or": CLS_OR})
    re_mod = Obj("re", {}, {"match": lambda pat, s: _re.match(pat, s)})
    selfo = Obj("self", {"dialect": dialect})
    return {"sqlglot": sqlglot, "exp": exp, "re": re_mod}, selfo


def run(repo, name, args):
    fn, funcs = find_function(repo + "/sidemantic/sql/generator.py", name, "SQLGenerator")
    g, selfo = scripted()
    it = Interp(funcs, g)
    it.modules = {"re": g["re"]}
    return it.call_def(fn, args, self_obj=selfo)


def tables(repo, real=False):
    if real:
        return real_tables(repo)
    conj = []
    for l in COND_LISTS:
        r = run(repo, "_join_conjuncts", [list(l)])
        if not isinstance(r, str):
            raise Unsupported("_join_conjuncts returns %r" % (r,))
        conj.append((l, r))
    fills = []
    for e in FILL_EXPRS:
        for f in FILLS:
            r = run(repo, "_wrap_with_fill_nulls", [e, Obj("metric", {"fill_nulls_with": f, "name": "m"})])
            if not isinstance(r, str):
                raise Unsupported("_wrap_with_fill_nulls returns %r" % (r,))
            fills.append((e, f, r))
    r = run(repo, "_parse_dimension_refs", [list(DIMREFS)])
    if not (isinstance(r, list) and len(r) == len(DIMREFS) and all(isinstance(x, tuple) and len(x) == 2 and isinstance(x[0], str) and (x[1] is None or isinstance(x[1], str)) for x in r)):
        raise Unsupported("_parse_dimension_refs returns %r" % (r,))
    refs = list(zip(DIMREFS, r))
    aggs = []
    for a in AGGS:
        for (m, n) in AGG_NAMES:
            r = run(repo, "_build_measure_aggregation_sql", [m, Obj("measure", {"agg": a, "name": n})])
            if not isinstance(r, str):
                raise Unsupported("_build_measure_aggregation_sql returns %r" % (r,))
            aggs.append((a, m, n, r))
    return conj, fills, refs, aggs


def real_tables(repo):
    """the real methods under CPython with the same scripted sqlglot / exp (module globals of generator.py are swapped for the calls)"""
    import sidemantic.sql.generator as G

    class Node:
        pass

    class Or(Node):
        pass

    class FakeExp:
        pass
    FakeExp.Or = Or

    class FakeSqlglot:
        @staticmethod
        def parse_one(text, dialect=None):
            k = CONDS[text]
            if k == "unparsable":
                raise ValueError(text)
            return Or() if k == "or" else Node()

        @staticmethod
        def to_identifier(name, quoted=False):
            class I:
                def sql(self, dialect=None):
                    return '"%s"' % name.replace('"', '""')
            return I()

    class M:
        def __init__(self, **kw):
            self.__dict__.update(kw)
    gen = G.SQLGenerator.__new__(G.SQLGenerator)
    gen.dialect = "duckdb"
    saved = (G.sqlglot, G.exp)
    G.sqlglot, G.exp = FakeSqlglot, FakeExp
    try:
        conj = [(l, gen._join_conjuncts(list(l))) for l in COND_LISTS]
        fills = [(e, f, gen._wrap_with_fill_nulls(e, M(fill_nulls_with=f, name="m"))) for e in FILL_EXPRS for f in FILLS]
        refs = list(zip(DIMREFS, gen._parse_dimension_refs(list(DIMREFS))))
        aggs = [(a, m, n, gen._build_measure_aggregation_sql(m, M(agg=a, name=n))) for a in AGGS for (m, n) in AGG_NAMES]
    finally:
        G.sqlglot, G.exp = saved
    return conj, fills, refs, aggs


def q(s):
    return '"%s"' % s.replace('"', '""')


def fill_term(f):
    if f is None:
        return "FNone"
    if isinstance(f, bool):
        return "FText %s" % q(str(f))
    if isinstance(f, (int, float)):
        return "FText %s" % q(str(f))              # str(number): the model receives the printed number
    return "FStr %s" % q(f)


def generate(repo):
    conj, fills, refs, aggs = tables(repo)
    kind = {"or": "KOr", "other": "KOther", "unparsable": "KUnparsable"}
    c_rows = ";\n   ".join("([%s], %s)" % ("; ".join("(%s, %s)" % (q(t), kind[CONDS[t]]) for t in l), q(r)) for l, r in conj)
    f_rows = ";\n   ".join("(%s, %s, %s)" % (q(e), fill_term(f), q(r)) for e, f, r in fills)
    r_rows = ";\n   ".join("(%s, (%s, %s))" % (q(d), q(x[0]), "None" if x[1] is None else "Some %s" % q(x[1])) for d, x in refs)
    a_rows = ";\n   ".join("(%s, %s, %s, %s)" % (q(a), q(m), q(n), q(r)) for a, m, n, r in aggs)
    return ("(* GENERATED on every run by translator/gen_small.py from sidemantic/sql/generator.py (_join_conjuncts, _wrap_with_fill_nulls, _parse_dimension_refs,\n"
            "   _build_measure_aggregation_sql with _cte_ref / _cte_name / _quote_identifier / _is_simple_identifier inlined) -- do not edit *)\n"
            "From Coq Require Import String List Bool.\nRequire Import V.Model.SmallFns.\nImport ListNotations.\nOpen Scope string_scope.\n\n"
            "Definition conj_rows : list (list (string * ckind) * string) :=\n  [%s].\n\n"
            "Definition fill_rows : list (string * fillv * string) :=\n  [%s].\n\n"
            "Definition dimref_rows : list (string * (string * option string)) :=\n  [%s].\n\n"
            "Definition aggsql_rows : list (string * string * string * string) :=\n  [%s].\n" % (c_rows, f_rows, r_rows, a_rows))


if __name__ == "__main__":
    repo = sys.argv[1] if len(sys.argv) > 1 else "/repo"
    print(tables(repo) == tables(repo, real=True))
    sys.stdout.write(generate(repo))
