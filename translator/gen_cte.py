"""CteShape_gen.v: what SQLGenerator._build_model_cte projects for one model of a query -- the ordered (expression, alias) list, the FROM clause and the pushed-down
WHERE -- on scripted worlds and queries, extracted from generator.py on every run by executing the method's AST with translator/pyinterp.py (fail closed).
Inlined from the source: _find_needed_dimensions, _cte_name and the three local functions of the method.  Scripted (and printed so that every call stays visible):
_quote_alias -> QA(<name>), _quote_identifier -> QI(<name>), _date_trunc -> TRUNC(<gran>,<expr>), _join_conjuncts -> CONJ[a;b], sql_has_aggregate (a text is an
aggregate iff it starts with "AGG:"), sqlglot.parse_one (a filter / inline-aggregate text names a scripted list of (table, column) references; the text BAD does not parse;
a parsed filter prints as P[<references after the table qualifiers were edited>]), Metric.get_dependencies (a scripted set per metric)."""
import sys

from translator.pyinterp import Interp, Obj, PyRaise, Unsupported, find_function

CLS_COLUMN = Obj("class:Column")

# ---------------------------------------------------------------------------------------------------------------- scripted world (plain data)
DIMS_O = [("status", "categorical", None, "status"), ("ts", "time", "day", "created_at"), ("ts2", "time", None, "{model}.updated"), ("xm", "numeric", None, "{model}.a + 1"),
          ("c_id", "numeric", None, "c_id * 1"), ("id", "numeric", None, "id + 0"), ("rev_raw", "categorical", None, "rr")]
# name -> (type, agg, sql, sql_expr, filters, dependencies)
METRICS_O = {
    "rev": (None, "sum", "amount", "amount", [], []),
    "cnt": (None, "count", None, "cnt", [], []),
    "cntstar": (None, "count", "*", "*", [], []),
    "cntx": (None, "count", "x", "x", [], []),
    "cd": (None, "count_distinct", None, "cd", [], []),
    "cdx": (None, "count_distinct", "{model}.u", "{model}.u", [], []),
    "frev": (None, "sum", "amount", "amount", ["{model}.status = 'a'", "{model}x > 1"], []),
    "fcnt": (None, "count", "x", "x", ["f"], []),
    "ratio": ("ratio", None, None, "ratio", [], ["o.rev", "o.cnt"]),
    "der": ("derived", None, "rev + other", "rev + other", [], ["rev", "c.other", "o.frev"]),
    "cyc": ("derived", None, "cyc + cd", "cyc + cd", [], ["o.cyc", "o.cd"]),
    "expr": (None, None, "rev * 2", "rev * 2", [], ["rev"]),
    "inline": (None, None, "AGG:inline", "AGG:inline", [], ["qty"]),
    "tc": ("time_comparison", None, None, "tc", [], ["o.rev"]),
}
GRAPH_METRICS = {"gm": ["o.rev", "c.other"]}
TEXTS = {   # scripted parse trees: text -> (table, column) references; None: does not parse
    "Fs": [("o", "status")], "Fcte": [("o_cte", "ts2")], "Fc": [("c", "x")], "Fmix": [("o", "xm"), ("", "bare"), ("c", "y")], "BAD": None,
    "AGG:inline": [("", "qty"), ("o", "price"), ("o_cte", "status"), ("c", "x"), ("", "rev")],
}
RELS_O = [
    [],
    [("c", "many_to_one", ["c_id"], None, (None, None))],
    [("c", "many_to_one", ["ca", "cb"], None, (None, None)), ("z", "many_to_one", ["z_id"], None, (None, None)), ("c", "one_to_many", ["zz"], None, (None, None))],
]
OTHER_MODELS = [   # (name, relationships); graph.models order: c, o, j, j2
    ("c", [("o", "one_to_many", ["o_fk"], None, (None, None)), ("o", "many_to_one", ["not_here"], None, (None, None)), ("x", "one_to_one", ["x_fk"], None, (None, None))]),
    ("j", [("z", "many_to_many", ["id"], "o", ("o_left", "o_right")), ("o", "one_to_one", ["o_fk", "o_fk2"], None, (None, None))]),
    ("j2", [("z", "many_to_many", ["id"], "o", (None, "o_r2")), ("z", "many_to_many", ["id"], "other", ("no", "no2"))]),
]
PKS = [["id"], ["k1", "k2"]]
SQLS = [None, "SELECT * FROM raw"]
ALL_MODELS = [["o"], ["o", "c"], ["o", "c", "j", "j2"]]
JKS = [None, ["jk", "id", "status"]]
DIM_LISTS = [[], [("o.status", None)], [("o.ts", None)], [("o.ts", "month"), ("o.ts", "year")], [("o.ts", "month"), ("o.ts", "month")], [("o.ts2", "day"), ("o.xm", None)],
             [("o.status", "week")], [("o.c_id", None), ("o.id", None)], [("c.region", None), ("o.nodim", "day")], [("o.rev_raw", None)]]
METRIC_LISTS = [[], ["o.rev"], ["o.cnt", "o.cntstar", "o.cntx"], ["o.cd", "o.cdx"], ["o.frev", "o.fcnt"], ["o.ratio"], ["o.der"], ["o.cyc"], ["o.expr"], ["o.inline"],
                ["o.tc", "c.other"], ["gm", "unknown", "rev"], ["o.rev", "o.rev", "cnt"], ["o.nometric", "inline"]]
FILTER_LISTS = [None, [], ["Fs"], ["Fcte", "Fc"], ["BAD"], ["Fmix", "Fs"]]
ORDERS = [None, ["o.status DESC", "c.region ASC", "plain", "o.ts__month"]]
MFCS = [None, ["status", "extra", "rev", "c_id"]]


def scenarios():
    """(pk index, sql index, rel variant, all_models index, jk index, dims, metrics, filters, order_by, metric_filter_columns)"""
    out = []
    for pk in range(2):
        for sq in range(2):
            for rv in range(3):
                for am in range(3):
                    for jk in range(2):
                        out.append((pk, sq, rv, am, jk, [("o.status", None), ("o.c_id", None)], ["o.rev", "o.cd"], ["Fs"], None, None))
    for sq in range(2):
        for dl in DIM_LISTS:
            for ml in METRIC_LISTS:
                out.append((0, sq, 1, 1, 0, dl, ml, None, None, None))
    for sq in range(2):
        for fl in FILTER_LISTS:
            for ob in ORDERS:
                for mfc in MFCS:
                    for dl in DIM_LISTS[:2]:
                        out.append((0, sq, 1, 1, 0, dl, ["o.rev"], fl, ob, mfc))
    for sq in range(2):
        for ml in METRIC_LISTS:
            out.append((1, sq, 0, 0, 0, [], ml, None, None, ["rev"]))
    return out


# ---------------------------------------------------------------------------------------------------------------- the two executions
def refs_print(refs):
    return "P[%s]" % ",".join(("%s.%s" % (t, n)) if t else n for t, n in refs)


def run_interp(fn, funcs, sc):
    pk, sq, rv, am, jk, dl, ml, fl, ob, mfc = sc

    def mk_rel(r):
        name, typ, fks, through, jkeys = r
        return Obj("rel:" + name, {"name": name, "type": typ, "foreign_key_columns": list(fks), "through": through}, {"junction_keys": lambda _j=jkeys: tuple(_j)})

    def mk_metric(n, spec):
        typ, agg, sql, sql_expr, filters, deps = spec
        return Obj("metric:" + n, {"name": n, "type": typ, "agg": agg, "sql": sql, "sql_expr": sql_expr, "filters": list(filters)}, {"get_dependencies": lambda graph, ctx=None, _d=deps: set(_d)})
    dims = [Obj("dim:" + n, {"name": n, "type": t, "granularity": g, "sql_expr": s}) for n, t, g, s in DIMS_O]
    mets = {n: mk_metric(n, spec) for n, spec in METRICS_O.items()}
    o = Obj("model:o", {"name": "o", "primary_key_columns": list(PKS[pk]), "sql": SQLS[sq], "table": "raw.o", "relationships": [mk_rel(r) for r in RELS_O[rv]], "dimensions": dims},
            {"get_dimension": lambda n: next((d for d in dims if d.attrs["name"] == n), None), "get_metric": lambda n: mets.get(n)})
    models = {}
    for name, rels in OTHER_MODELS[:1]:
        models[name] = Obj("model:" + name, {"name": name, "relationships": [mk_rel(r) for r in rels]})
    models["o"] = o
    for name, rels in OTHER_MODELS[1:]:
        models[name] = Obj("model:" + name, {"name": name, "relationships": [mk_rel(r) for r in rels]})

    def get_model(n):
        if n not in models:
            raise PyRaise("KeyError", n)
        return models[n]

    def get_graph_metric(n):
        if n not in GRAPH_METRICS:
            raise PyRaise("KeyError", n)
        return Obj("gmetric:" + n, {"name": n}, {"get_dependencies": lambda graph, ctx=None, _d=GRAPH_METRICS[n]: set(_d)})
    graph = Obj("graph", {"models": models}, {"get_model": get_model, "get_metric": get_graph_metric})

    def parse_one(text, dialect=None):
        if text not in TEXTS:
            raise Unsupported("scenario text %r" % text)
        if TEXTS[text] is None:
            raise PyRaise("ParseError", text)
        cols = []
        for t, n in TEXTS[text]:
            c = Obj("col", {"table": t, "name": n, "__class__": CLS_COLUMN})

            def setter(key, value, _c=c):
                if key != "table" or value is not None:
                    raise Unsupported("Column.set(%r, %r)" % (key, value))
                _c.attrs["table"] = ""
            c.methods["set"] = setter
            cols.append(c)
        return Obj("tree:" + text, {}, {"find_all": lambda cls, _c=cols: list(_c) if cls is CLS_COLUMN else [],
                                        "sql": lambda dialect=None, _c=cols: refs_print([(x.attrs["table"], x.attrs["name"]) for x in _c])})
    selfo = Obj("self", {"graph": graph, "dialect": "duckdb"},
                {"_quote_alias": lambda n: "QA(%s)" % n, "_quote_identifier": lambda n: "QI(%s)" % n, "_date_trunc": lambda g, e: "TRUNC(%s,%s)" % (g, e),
                 "_join_conjuncts": lambda l: "CONJ[%s]" % ";".join(l)})
    it = Interp({k: v for k, v in funcs.items() if k in ("_find_needed_dimensions", "_cte_name")},
                {"sqlglot": Obj("sqlglot", {}, {"parse_one": parse_one}), "exp": Obj("exp", {"Column": CLS_COLUMN}),
                 "sql_has_aggregate": lambda sql, dialect=None: isinstance(sql, str) and sql.startswith("AGG:")})
    sql = it.call_def(fn, [], dict(model_name="o", dimensions=list(dl), metrics=list(ml), filters=None if fl is None else list(fl), order_by=None if ob is None else list(ob),
                                   all_models=set(ALL_MODELS[am]), metric_filter_columns=None if mfc is None else set(mfc), join_key_columns=None if JKS[jk] is None else list(JKS[jk])),
                      self_obj=selfo)
    if not isinstance(sql, str):
        raise Unsupported("_build_model_cte returns %r" % (sql,))
    return shape(sql)


def run_real(sc):
    import sidemantic.sql.generator as G
    pk, sq, rv, am, jk, dl, ml, fl, ob, mfc = sc

    class B:
        def __init__(self, **kw):
            self.__dict__.update(kw)

    def mk_rel(r):
        name, typ, fks, through, jkeys = r
        return B(name=name, type=typ, foreign_key_columns=list(fks), through=through, junction_keys=lambda _j=jkeys: tuple(_j))

    def mk_metric(n, spec):
        typ, agg, sql, sql_expr, filters, deps = spec
        return B(name=n, type=typ, agg=agg, sql=sql, sql_expr=sql_expr, filters=list(filters), get_dependencies=lambda graph, ctx=None, _d=deps: set(_d))
    dims = [B(name=n, type=t, granularity=g, sql_expr=s) for n, t, g, s in DIMS_O]
    mets = {n: mk_metric(n, spec) for n, spec in METRICS_O.items()}
    o = B(name="o", primary_key_columns=list(PKS[pk]), sql=SQLS[sq], table="raw.o", relationships=[mk_rel(r) for r in RELS_O[rv]], dimensions=dims,
          get_dimension=lambda n: next((d for d in dims if d.name == n), None), get_metric=lambda n: mets.get(n))
    models = {}
    for name, rels in OTHER_MODELS[:1]:
        models[name] = B(name=name, relationships=[mk_rel(r) for r in rels])
    models["o"] = o
    for name, rels in OTHER_MODELS[1:]:
        models[name] = B(name=name, relationships=[mk_rel(r) for r in rels])

    class Gr:
        def get_model(self, n):
            return models[n]

        def get_metric(self, n):
            if n not in GRAPH_METRICS:
                raise KeyError(n)
            return B(name=n, get_dependencies=lambda graph, ctx=None: set(GRAPH_METRICS[n]))
    gr = Gr()
    gr.models = models

    class Column:
        def __init__(self, t, n):
            self.table, self.name = t, n

        def set(self, key, value):
            assert key == "table" and value is None
            self.table = ""

    class Tree:
        def __init__(self, cols):
            self.cols = cols

        def find_all(self, cls):
            return list(self.cols) if cls is Column else []

        def sql(self, dialect=None):
            return refs_print([(c.table, c.name) for c in self.cols])

    class FakeSqlglot:
        @staticmethod
        def parse_one(text, dialect=None):
            if TEXTS[text] is None:
                raise ValueError(text)
            return Tree([Column(t, n) for t, n in TEXTS[text]])

    class FakeExp:
        pass
    FakeExp.Column = Column
    gen = G.SQLGenerator.__new__(G.SQLGenerator)
    gen.graph, gen.dialect = gr, "duckdb"
    gen._quote_alias = lambda n: "QA(%s)" % n
    gen._quote_identifier = lambda n: "QI(%s)" % n
    gen._date_trunc = lambda g, e: "TRUNC(%s,%s)" % (g, e)
    gen._join_conjuncts = lambda l: "CONJ[%s]" % ";".join(l)
    saved = (G.sqlglot, G.exp, G.sql_has_aggregate)
    G.sqlglot, G.exp, G.sql_has_aggregate = FakeSqlglot, FakeExp, (lambda sql, dialect=None: isinstance(sql, str) and sql.startswith("AGG:"))
    try:
        sql = gen._build_model_cte(model_name="o", dimensions=list(dl), metrics=list(ml), filters=None if fl is None else list(fl), order_by=None if ob is None else list(ob),
                                   all_models=set(ALL_MODELS[am]), metric_filter_columns=None if mfc is None else set(mfc), join_key_columns=None if JKS[jk] is None else list(JKS[jk]))
    finally:
        G.sqlglot, G.exp, G.sql_has_aggregate = saved
    return shape(sql)


def shape(sql):
    head, sep, rest = sql.partition(" AS (\n  SELECT\n    ")
    if not sep or not rest.endswith("\n)"):
        raise Unsupported("statement %r" % sql[:200])
    body = rest[:-2]
    cols_txt, sep, tail = body.partition("\n  FROM ")
    if not sep:
        raise Unsupported("statement without FROM %r" % sql[:200])
    frm, sep, where = tail.partition("\n  WHERE ")
    cols = []
    for c in (cols_txt.split(",\n    ") if cols_txt else []):
        e, sep2, a = c.rpartition(" AS ")
        if not sep2:
            raise Unsupported("select item %r" % c)
        cols.append((e, a))
    return (head, cols, frm, where if sep else None)


def table(repo, real=False):
    fn, funcs = find_function(repo + "/sidemantic/sql/generator.py", "_build_model_cte", "SQLGenerator")
    return [(sc, run_real(sc) if real else run_interp(fn, funcs, sc)) for sc in scenarios()]


# ---------------------------------------------------------------------------------------------------------------- Coq text
def q(s):
    return '"%s"' % str(s).replace('"', '""')


def opt(x, f=q):
    return "None" if x is None else "(Some %s)" % f(x)


def lst(l, f=q):
    return "[%s]" % "; ".join(f(x) for x in l)


def pair(f, g):
    return lambda p: "(%s, %s)" % (f(p[0]), g(p[1]))


def rel_v(r):
    name, typ, fks, through, (ja, jb) = r
    return "(mkRel %s %s %s %s %s %s)" % (q(name), q(typ), lst(fks), opt(through), opt(ja), opt(jb))


def generate(repo):
    rows = table(repo)
    dims = lst(DIMS_O, lambda d: "(mkDim %s %s %s %s)" % (q(d[0]), q(d[1]), opt(d[2]), q(d[3])))
    mets = lst(list(METRICS_O.items()), lambda kv: "(mkMet %s %s %s %s %s %s %s %s)" % (
        q(kv[0]), opt(kv[1][0]), opt(kv[1][1]), opt(kv[1][2]), q(kv[1][3]), lst(kv[1][4]), lst(sorted(kv[1][5])),
        "true" if (kv[1][2] or "").startswith("AGG:") else "false"))
    texts = lst(list(TEXTS.items()), lambda kv: "(%s, %s)" % (q(kv[0]), opt(kv[1], lambda refs: lst(refs, pair(q, q)))))
    items = []
    for (pk, sq, rv, am, jk, dl, ml, fl, ob, mfc), (head, cols, frm, where) in rows:
        items.append("((%d, %d, %d, %d, %d, %s, %s, %s, %s, %s)%%nat,\n    (%s, %s, %s, %s))" % (
            pk, sq, rv, am, jk, lst(dl, pair(q, opt)), lst(ml), opt(fl, lst), opt(ob, lst), opt(mfc, lambda s: lst(sorted(s))),
            q(head), lst(cols, pair(q, q)), q(frm), opt(where)))
    return ("(* GENERATED on every run by translator/gen_cte.py from sidemantic/sql/generator.py (_build_model_cte, _find_needed_dimensions) -- do not edit *)\n"
            "From Coq Require Import String List Bool.\nRequire Import V.Model.CteShape.\nImport ListNotations.\nOpen Scope string_scope.\n\n"
            "(* the scripted world: dimensions and metrics of model o, the parse trees of the scripted texts, the relationship variants of o, the other models of the graph\n"
            "   (graph order: c, o, j, j2), the primary keys, the model SQL, the model sets and the join-key lists the scenarios index *)\n"
            "Definition w_dims : list cdim :=\n  %s.\n"
            "Definition w_metrics : list cmet :=\n  %s.\n"
            "Definition w_graph_metrics : list (string * list string) := %s.\n"
            "Definition w_texts : list (string * option (list (string * string))) :=\n  %s.\n"
            "Definition w_rels_o : list (list crel) :=\n  %s.\n"
            "Definition w_before : list (string * list crel) := %s.\n"
            "Definition w_after : list (string * list crel) := %s.\n"
            "Definition w_pks : list (list string) := %s.\n"
            "Definition w_sqls : list (option string) := %s.\n"
            "Definition w_all_models : list (list string) := %s.\n"
            "Definition w_jks : list (option (list string)) := %s.\n"
            "Definition cte_world : cworld := mkWorld w_dims w_metrics w_graph_metrics w_texts w_rels_o w_before w_after w_pks w_sqls w_all_models w_jks.\n\n"
            "(* per scenario: (pk, sql, relationship variant, model set, join-key list, parsed dimensions, metrics, pushed filters, order_by, metric filter columns)\n"
            "   ->  (CTE name as printed, projected (expression, alias) items, FROM, WHERE) *)\n"
            "Definition cte_rows : list (cte_scenario * (string * list (string * string) * string * option string)) :=\n  [%s].\n" % (
                dims, mets, lst(sorted(GRAPH_METRICS.items()), lambda kv: "(%s, %s)" % (q(kv[0]), lst(sorted(kv[1])))), texts,
                lst(RELS_O, lambda rs: lst(rs, rel_v)), lst(OTHER_MODELS[:1], lambda m: "(%s, %s)" % (q(m[0]), lst(m[1], rel_v))),
                lst(OTHER_MODELS[1:], lambda m: "(%s, %s)" % (q(m[0]), lst(m[1], rel_v))), lst(PKS, lst), lst(SQLS, opt), lst(ALL_MODELS, lst), lst(JKS, lambda x: opt(x, lst)),
                ";\n   ".join(items)))


if __name__ == "__main__":
    repo = sys.argv[1] if len(sys.argv) > 1 else "/repo"
    a, b = table(repo), table(repo, real=True)
    print(len(a), a == b)
    for x, y in zip(a, b):
        if x != y:
            print(x, "\n", y)
            break
    for r in a[:2] + a[100:103] + a[-2:]:
        print(r)
