"""SqlValue_gen.v: what sidemantic.core.sql_definitions._parse_scalar_literal makes of a property value of the SQL definition syntax (MODEL / DIMENSION / METRIC ...),
on scripted texts, extracted from sql_definitions.py on every run by executing the function's AST with translator/pyinterp.py (fail closed; `re.match` is the real one).
The hand-written model is Model/SqlValue.parse_scalar; the unbounded theorem about it is the round trip  parse_scalar (quote s) = s  for every text s."""
import re as _re
import sys

from translator.pyinterp import Interp, Obj, Unsupported, find_function

TEXTS = ["", "'", "''", "'''", "''''", "'a'", "'it''s'", "'a''''b'", "'''a'''", "'status = ''done'''", "'CASE WHEN s = ''x'' THEN ''a, b'' ELSE '''' END'", '"dq"', '"a\'\'b"', '"',
         "'pre-' || status || '-post'", "'a' || 'b'", "'unterminated", "unstarted'", "'mixed\"", "true", "TRUE", "False", "null", "None", "NULL", "none", "nil", "0", "42", "-7", "+3", "007",
         "1.5", "-0.25", "3.", ".5", "1e5", "12abc", "amount", "SUM(amount)", "status = 'a'", "a b", " 'x'", "'x' "]


def tag(v):
    if v is None:
        return ("none", "")
    if isinstance(v, bool):
        return ("bool", "true" if v else "false")
    if isinstance(v, int):
        return ("int", str(v))
    if isinstance(v, float):
        return ("float", repr(v))
    if isinstance(v, str):
        return ("str", v)
    raise Unsupported("_parse_scalar_literal returns %r" % (v,))


def table(repo, real=False):
    if real:
        sys.path.insert(0, repo)
        from sidemantic.core.sql_definitions import _parse_scalar_literal
        return [(t, tag(_parse_scalar_literal(t))) for t in TEXTS]
    fn, _ = find_function(repo + "/sidemantic/core/sql_definitions.py", "_parse_scalar_literal")
    re_mod = Obj("re", {}, {"match": lambda pat, s: _re.match(pat, s)})
    out = []
    for t in TEXTS:
        it = Interp({}, {"re": re_mod, "float": float})
        out.append((t, tag(it.call_def(fn, [t]))))
    return out


def q(s):
    return '"%s"' % s.replace('"', '""')


def generate(repo):
    rows = table(repo)
    coq = {"none": lambda x: "SNone", "bool": lambda x: "(SBool %s)" % x, "int": lambda x: "(SInt (%s))" % x, "float": lambda x: "(SFloat %s)" % q(x), "str": lambda x: "(SStr %s)" % q(x)}
    items = ";\n   ".join("(%s, %s)" % (q(t), coq[k](v)) for t, (k, v) in rows)
    return ("(* GENERATED on every run by translator/gen_sqlvalue.py from sidemantic/core/sql_definitions.py (_parse_scalar_literal) -- do not edit *)\n"
            "From Coq Require Import String List ZArith.\nRequire Import V.Model.SqlValue.\nImport ListNotations.\nOpen Scope string_scope.\n\n"
            "(* value text -> what the parser of the SQL definition syntax makes of it *)\n"
            "Definition sqlvalue_rows : list (string * sval) :=\n  [%s].\n" % items)


if __name__ == "__main__":
    repo = sys.argv[1] if len(sys.argv) > 1 else "/repo"
    a, b = table(repo), table(repo, real=True)
    print(len(a), a == b)
    for x in a[:12]:
        print(x)
