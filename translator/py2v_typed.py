"""Fail-closed Python-`ast` -> Gallina translator for small pure decision functions over strings / ints / bools /
optional ints / string lists and module-level dict-literal tables (typed emission into V.Base.PyLib).

Any AST node outside the supported subset raises Unsupported; the caller turns that into a broken proof obligation
(never a silent default).  Local names are kept, so renaming a local does not change the meaning of the output.
"""
import ast


class Unsupported(Exception):
    pass


def q(s):
    return '"' + s.replace('"', '""') + '"'


HEADER = ("From Coq Require Import ZArith String List Bool.\nRequire Import V.Base.PyLib.\nImport ListNotations.\n"
          "Open Scope string_scope.\n\n")


class Tr:
    """Expressions are translated with a static type in {'str','int','bool','optint','optstr','strlist','none'}."""

    def __init__(self, env, dicts, lists=None, attrs=None, oracles=None):
        self.env = dict(env)
        self.dicts = dicts          # name -> value type ('int' | 'str')
        self.lists = lists or {}    # name -> 'strlist'
        self.attrs = attrs or {}    # (object name, attribute) -> (Gallina variable, type): fields of argument objects
        self.oracles = oracles or {}  # self.<method>(...) -> (Gallina variable, type): calls replaced by a function argument

    def expr(self, e):
        if isinstance(e, ast.Constant):
            if isinstance(e.value, bool):
                return ("true" if e.value else "false", "bool")
            if isinstance(e.value, int):
                return (f"({e.value})%Z", "int")
            if isinstance(e.value, str):
                return (q(e.value), "str")
            if e.value is None:
                return ("None", "none")
            raise Unsupported(ast.dump(e))
        if isinstance(e, ast.Name):
            if e.id in self.env:
                return (e.id, self.env[e.id])
            if e.id in self.lists:
                return (e.id, "strlist")
            raise Unsupported(f"unknown name {e.id}")
        if isinstance(e, ast.Attribute) and isinstance(e.value, ast.Name) and (e.value.id, e.attr) in self.attrs:
            return self.attrs[(e.value.id, e.attr)]
        if (isinstance(e, ast.Call) and isinstance(e.func, ast.Attribute) and isinstance(e.func.value, ast.Name) and e.func.value.id == "self"
                and e.func.attr in self.oracles and not e.keywords):
            return self.oracles[e.func.attr]
        if isinstance(e, ast.Attribute) and isinstance(e.value, ast.Name) and e.value.id == "self":
            k = "self." + e.attr
            if k in self.env:
                return (e.attr, self.env[k])
            raise Unsupported(f"unknown attribute {k}")
        if isinstance(e, ast.JoinedStr):
            parts = []
            for p in e.values:
                if isinstance(p, ast.Constant) and isinstance(p.value, str):
                    parts.append(q(p.value))
                elif isinstance(p, ast.FormattedValue) and p.conversion == -1 and p.format_spec is None:
                    c, t = self.expr(p.value)
                    if t != "str":
                        raise Unsupported("f-string part of type " + t)
                    parts.append(c)
                else:
                    raise Unsupported("f-string part")
            return ("(" + " ++ ".join(parts or ['""']) + ")", "str")
        if isinstance(e, (ast.List, ast.Tuple, ast.Set)):
            parts = [self.expr(x) for x in e.elts]
            if isinstance(e, ast.List) and len(parts) == 1 and parts[0][1] == "key":
                return ("[key_as_str " + parts[0][0] + "]", "strlist")   # [x] where x was tested to be a str
            if all(t == "str" for _, t in parts):
                return ("[" + "; ".join(c for c, _ in parts) + "]", "strlist")
            raise Unsupported("non-string list")
        if isinstance(e, ast.Call) and isinstance(e.func, ast.Name) and e.func.id == "isinstance" and len(e.args) == 2 and isinstance(e.args[1], ast.Name):
            c, t = self.expr(e.args[0])
            if t == "key" and e.args[1].id in ("str", "list"):
                return (f"(key_is_{e.args[1].id} {c})", "bool")
            raise Unsupported("isinstance")
        if (isinstance(e, ast.Call) and isinstance(e.func, ast.Attribute) and e.func.attr == "get"
                and isinstance(e.func.value, ast.Name) and e.func.value.id in self.dicts and not e.keywords):
            d = e.func.value.id
            vt = self.dicts[d]
            k, kt = self.expr(e.args[0])
            if kt != "str":
                raise Unsupported("dict key type")
            if len(e.args) == 1:
                return (f"(assoc_get {d} {k})", "opt" + vt)
            dv, dt = self.expr(e.args[1])
            if dt != vt:
                raise Unsupported("dict default type")
            return (f"(assoc_get_default {d} {k} {dv})", vt)
        if isinstance(e, ast.Call) and isinstance(e.func, ast.Name) and e.func.id == "abs" and len(e.args) == 1:
            c, t = self.expr(e.args[0])
            if t != "int":
                raise Unsupported("abs of non-int")
            return (f"(Z.abs {c})", "int")
        if isinstance(e, ast.BinOp) and isinstance(e.op, (ast.Add, ast.Sub, ast.Mult)):
            l, lt = self.expr(e.left)
            r, rt = self.expr(e.right)
            if lt == rt == "int":
                f = {ast.Add: "Z.add", ast.Sub: "Z.sub", ast.Mult: "Z.mul"}[type(e.op)]
                return (f"({f} {l} {r})", "int")
            raise Unsupported("arith on non-int")
        if isinstance(e, ast.Compare) and len(e.ops) == 1:
            l, lt = self.expr(e.left)
            r, rt = self.expr(e.comparators[0])
            op = e.ops[0]
            if isinstance(op, ast.Is) and rt == "none" and lt.startswith("opt"):
                return (f"(is_none {l})", "bool")
            if isinstance(op, ast.IsNot) and rt == "none" and lt.startswith("opt"):
                return (f"(negb (is_none {l}))", "bool")
            if isinstance(op, ast.Is) and rt == "none" and lt == "key":
                return (f"(key_is_none {l})", "bool")
            if isinstance(op, ast.IsNot) and rt == "none" and lt == "key":
                return (f"(negb (key_is_none {l}))", "bool")
            if isinstance(op, (ast.Eq, ast.NotEq)) and lt == rt == "str":
                c = f"(String.eqb {l} {r})"
                return (c if isinstance(op, ast.Eq) else f"(negb {c})", "bool")
            if isinstance(op, (ast.Eq, ast.NotEq)) and lt == rt == "int":
                c = f"(Z.eqb {l} {r})"
                return (c if isinstance(op, ast.Eq) else f"(negb {c})", "bool")
            if isinstance(op, (ast.In, ast.NotIn)) and lt == "optstr" and rt == "strlist":
                c = f"(opt_in {l} {r})"
                return (c if isinstance(op, ast.In) else f"(negb {c})", "bool")
            if isinstance(op, (ast.Eq, ast.NotEq)) and lt == "optstr" and rt == "str":
                c = f"(opt_eqb {l} {r})"
                return (c if isinstance(op, ast.Eq) else f"(negb {c})", "bool")
            if isinstance(op, (ast.In, ast.NotIn)) and lt == "str" and rt == "strlist":
                c = f"(existsb (String.eqb {l}) {r})"
                return (c if isinstance(op, ast.In) else f"(negb {c})", "bool")
            cmpf = {ast.LtE: "leb", ast.Lt: "ltb", ast.GtE: "geb", ast.Gt: "gtb"}.get(type(op))
            if cmpf and lt == rt == "optint":
                return (f"(opt_{cmpf} {l} {r})", "bool")
            if cmpf and lt == rt == "int":
                return (f"(Z.{cmpf} {l} {r})", "bool")
            raise Unsupported(f"compare {ast.dump(op)} {lt} {rt}")
        if (isinstance(e, ast.BoolOp) and isinstance(e.op, ast.Or) and len(e.values) == 2 and isinstance(e.values[1], ast.List) and not e.values[1].elts
                and self.expr(e.values[0])[1] == "strlist"):
            return self.expr(e.values[0])                      # `xs or []` on a list-or-None field read as a list
        if isinstance(e, ast.BoolOp):
            parts = [self.expr(v) for v in e.values]
            if isinstance(e.op, ast.Or) and len(parts) == 2 and {parts[0][1], parts[1][1]} <= {"key", "optstr"}:
                lift = lambda ct: ct[0] if ct[1] == "key" else f"(key_of_optstr {ct[0]})"
                return (f"(key_or {lift(parts[0])} {lift(parts[1])})", "key")
            if not all(t == "bool" for _, t in parts):
                raise Unsupported("boolop on non-bool")
            f = "orb" if isinstance(e.op, ast.Or) else "andb"
            acc = parts[0][0]
            for c, _ in parts[1:]:
                acc = f"({f} {acc} {c})"
            return (acc, "bool")
        if isinstance(e, ast.UnaryOp) and isinstance(e.op, ast.Not):
            c, t = self.expr(e.operand)
            if t == "optstr":
                return (f"(negb (opt_truthy {c}))", "bool")
            if t == "strlist":
                return (f"(negb (list_truthy {c}))", "bool")
            if t != "bool":
                raise Unsupported("not on non-bool")
            return (f"(negb {c})", "bool")
        if isinstance(e, ast.IfExp):
            c, ct = self.expr(e.test)
            a, at = self.expr(e.body)
            b, bt = self.expr(e.orelse)
            if ct != "bool" or at != bt:
                raise Unsupported("ifexp types")
            return (f"(if {c} then {a} else {b})", at)
        raise Unsupported(ast.dump(e)[:120])

    def body(self, stmts, rettype):
        """Statement list that returns on every path -> Gallina expression of type rettype."""
        if not stmts:
            raise Unsupported("fell off the end of the function")
        s, rest = stmts[0], stmts[1:]
        if isinstance(s, ast.Expr) and isinstance(s.value, ast.Constant) and isinstance(s.value.value, str):
            return self.body(rest, rettype)                       # docstring
        if isinstance(s, ast.Assign) and len(s.targets) == 1 and isinstance(s.targets[0], ast.Name):
            c, t = self.expr(s.value)
            n = s.targets[0].id
            if n in self.env and self.env[n] != t:
                raise Unsupported("re-assignment with another type")
            self.env[n] = t
            return f"let {n} := {c} in\n  {self.body(rest, rettype)}"
        if isinstance(s, ast.Return):
            if s.value is None:
                raise Unsupported("bare return")
            if rettype == "keypair":
                if not (isinstance(s.value, ast.Tuple) and len(s.value.elts) == 2):
                    raise Unsupported("keypair return")
                (a, at), (b, bt) = self.expr(s.value.elts[0]), self.expr(s.value.elts[1])
                a = {"key": a, "optstr": f"(key_of_optstr {a})", "none": "KNone"}.get(at)
                b = {"optstr": b, "none": "None"}.get(bt)
                if a is None or b is None:
                    raise Unsupported("keypair component types")
                return f"({a}, {b})"
            c, t = self.expr(s.value)
            if t == "key" and rettype == "strlist":
                return f"(key_as_list {c})"      # reached only after the None / str tests
            if t != rettype:
                raise Unsupported(f"return type {t}, expected {rettype}")
            return c
        if isinstance(s, ast.If):
            c, t = self.expr(s.test)
            if t == "key":
                c, t = f"(key_truthy {c})", "bool"
            if t == "optstr":
                c, t = f"(opt_truthy {c})", "bool"
            if t == "strlist":
                c, t = f"(list_truthy {c})", "bool"
            if t != "bool":
                raise Unsupported("non-bool test")
            saved = dict(self.env)
            th = self.body(s.body + ([] if _returns(s.body) else rest), rettype)
            self.env = dict(saved)
            el = self.body((s.orelse + ([] if _returns(s.orelse) else rest)) if s.orelse else rest, rettype)
            self.env = saved
            return f"if {c} then {th}\n  else {el}"
        raise Unsupported(ast.dump(s)[:120])


def _returns(stmts):
    """every path through stmts ends in return"""
    if not stmts:
        return False
    last = stmts[-1]
    if isinstance(last, ast.Return):
        return True
    if isinstance(last, ast.If):
        return _returns(last.body) and _returns(last.orelse)
    return False


def dict_literal(node, name):
    """module-level NAME = {str: int|str, ...} -> (Gallina definition, value type)"""
    if not isinstance(node.value, ast.Dict):
        raise Unsupported(f"{name} is not a dict literal")
    items, vt = [], None
    for k, v in zip(node.value.keys, node.value.values):
        if not (isinstance(k, ast.Constant) and isinstance(k.value, str) and isinstance(v, ast.Constant)):
            raise Unsupported(f"{name}: non-literal item")
        if isinstance(v.value, bool) or not isinstance(v.value, (int, str)):
            raise Unsupported(f"{name}: value type")
        t = "int" if isinstance(v.value, int) else "str"
        if vt not in (None, t):
            raise Unsupported(f"{name}: mixed value types")
        vt = t
        items.append(f"({q(k.value)}, {'(%d)%%Z' % v.value if t == 'int' else q(v.value)})")
    ty = "Z" if vt == "int" else "string"
    return f"Definition {name} : list (string * {ty}) :=\n  [" + "; ".join(items) + "].", vt


def find_function(mod, name):
    hits = [n for n in ast.walk(mod) if isinstance(n, ast.FunctionDef) and n.name == name]
    if len(hits) != 1:
        raise Unsupported(f"function {name}: {len(hits)} definitions")
    return hits[0]


def find_assign(mod, name):
    hits = [n for n in mod.body if isinstance(n, ast.Assign) and len(n.targets) == 1 and isinstance(n.targets[0], ast.Name) and n.targets[0].id == name]
    if len(hits) != 1:
        raise Unsupported(f"table {name}: {len(hits)} definitions")
    return hits[0]


def function_def(fn, coqname, argtypes, rettype, dicts, lists=None, selfattrs=None, attrs=None, oracles=None, binders=None):
    """attrs / oracles / binders: see Tr; when `binders` is given the arguments are objects whose fields (attrs) and the
    oracle results become the Gallina function's arguments, in the order of `binders` [(name, type), ...]."""
    args = [a.arg for a in fn.args.args if a.arg != "self"]
    if binders is not None:
        if fn.args.vararg or fn.args.kwarg or fn.args.kwonlyargs:
            raise Unsupported(f"{fn.name}: signature")
        tr = Tr({}, dicts, lists, attrs, oracles)
        body = tr.body(fn.body, rettype)
        cty = {"str": "string", "int": "Z", "bool": "bool", "optint": "option Z", "optstr": "option string", "strlist": "list string"}
        bs = " ".join(f"({a} : {cty[t]})" for a, t in binders)
        return f"Definition {coqname} {bs} : {cty[rettype]} :=\n  {body}."
    if fn.args.vararg or fn.args.kwarg or fn.args.kwonlyargs or len(args) != len(argtypes):
        raise Unsupported(f"{fn.name}: signature")
    env = dict(zip(args, argtypes))
    env.update(selfattrs or {})
    tr = Tr(env, dicts, lists)
    body = tr.body(fn.body, rettype)
    cty = {"str": "string", "int": "Z", "bool": "bool", "optint": "option Z", "optstr": "option string", "key": "pykey",
           "strlist": "list string", "keypair": "(pykey * option string)%type"}
    args = list(args) + [k[5:] for k in (selfattrs or {})]
    argtypes = list(argtypes) + list((selfattrs or {}).values())
    binders = " ".join(f"({a} : {cty[t]})" for a, t in zip(args, argtypes))
    return f"Definition {coqname} {binders} : {cty[rettype]} :=\n  {body}."
