"""Effects_gen.v: every place where code reachable from the query entry points (SemanticLayer.compile / explain / query / sql,
SQLGenerator.generate / generate_view, QueryRewriter.rewrite, PreAggregationMatcher.find_matching_preagg / can_satisfy_query) may WRITE
something that outlives the call:

  store      an attribute / item of an object reached from `self` (the generator, the graph, registered models ...) or of a class
  mutate     a mutator method (append, update, sort, ...) called on such an object
  global     a module-level container mutated, or a module-level name rebound with `global`
  decorator  functools caches (lru_cache / cache / cached_property) on ANY function of the scanned files
  argument   a list / dict the CALLER passed to a public entry point is mutated (directly or by a callee that mutates its parameter)

The scan is a flow-sensitive reachability ("taint") analysis over the Python AST, name-based call resolution, no line numbers in the output
(so that moving code does not change it).  It over-approximates reachability and aliasing through attributes / items / iteration /
`x or y`, and treats copies (list(), sorted(), .copy(), model_copy(), comprehensions, a + b, f-strings) as fresh.  Anything it cannot read
(exec / eval / globals() / setattr with a computed name / __dict__ writes / star-imports of mutable state) raises Unsupported: fail closed.
The generated list is compared, inside Coq, with the hand-reviewed list of writes that the model of the layer's state accounts for."""
import ast
import os

SCOPE = ["sidemantic/sql", "sidemantic/core", "sidemantic/validation.py", "sidemantic/adapters/sidemantic.py", "sidemantic/loaders.py"]
ENTRIES = {("SemanticLayer", "compile"), ("SemanticLayer", "explain"), ("SemanticLayer", "query"), ("SemanticLayer", "sql"),
           ("SQLGenerator", "generate"), ("SQLGenerator", "generate_view"), ("QueryRewriter", "rewrite"),
           ("PreAggregationMatcher", "find_matching_preagg"), ("PreAggregationMatcher", "can_satisfy_query"), ("PreAggregationMatcher", "explain_query"),
           }
# loading and exporting definitions build NEW objects (stores into the graph under construction are their job): only what is kept OUTSIDE the objects they return is listed
# for them -- module-level containers and functools caches
LOAD_ENTRIES = {("SidemanticAdapter", "parse"), ("SidemanticAdapter", "export"), (None, "load_from_directory")}
MUTATORS = {"append", "extend", "insert", "add", "update", "setdefault", "pop", "popitem", "clear", "remove", "discard", "sort", "reverse",
            "appendleft", "popleft", "extendleft", "rotate", "__setitem__", "__delitem__", "move_to_end", "difference_update", "intersection_update",
            "symmetric_difference_update"}
SHALLOW_CALLS = {"list", "dict", "set", "tuple", "sorted", "frozenset", "reversed", "OrderedDict", "deque"}      # new container, SAME elements
SHALLOW_METHODS = {"copy"}
FRESH_CALLS = {"list", "dict", "set", "tuple", "sorted", "frozenset", "str", "int", "float", "bool", "len", "repr", "sum", "min", "max", "any", "all", "enumerate", "zip",
               "range", "reversed", "deepcopy", "copy", "isinstance", "hasattr", "type", "format", "abs", "round", "map", "filter", "next", "iter", "getattr", "id", "hash", "print",
               "ValueError", "KeyError", "TypeError", "Exception", "RuntimeError", "defaultdict", "OrderedDict", "deque", "Counter"}
FRESH_METHODS = {"model_copy", "deepcopy", "model_dump", "dict", "json", "split", "rsplit", "join", "format", "replace", "strip", "lstrip", "rstrip", "lower", "upper",
                 "startswith", "endswith", "sql", "find_all", "walk", "transform", "count", "index", "partition", "rpartition", "title", "encode", "hexdigest", "group", "groups",
                 "match", "search", "findall", "sub", "finditer", "fullmatch", "compile", "splitlines", "isalnum", "isdigit", "zfill", "casefold"}
ALIAS_BUILTINS = {"getattr"}
CACHE_DECORATORS = ("lru_cache", "cache", "cached_property", "memoize", "memoized", "cachedmethod", "cached")


class Unsupported(Exception):
    pass


def scope_files(repo):
    out = []
    for s in SCOPE:
        p = os.path.join(repo, s)
        if os.path.isfile(p):
            out.append(p)
        else:
            out += sorted(os.path.join(p, f) for f in os.listdir(p) if f.endswith(".py"))
    return out


class Func:
    def __init__(self, key, node, cls, fname, module_mutables, parent=None):
        self.key, self.node, self.cls, self.file, self.mm, self.parent = key, node, cls, fname, module_mutables, parent
        a = node.args
        self.params = [x.arg for x in a.posonlyargs + a.args] + ([a.vararg.arg] if a.vararg else []) + [x.arg for x in a.kwonlyargs] + ([a.kwarg.arg] if a.kwarg else [])
        self.effects = set()        # (kind, root, detail)
        self.calls = []             # (callee name, receiver kind, [taint of positional args], {kw: taint})
        self.mut_params = set()


def dec_name(d):
    if isinstance(d, ast.Call):
        d = d.func
    if isinstance(d, ast.Attribute):
        return d.attr
    if isinstance(d, ast.Name):
        return d.id
    return ""


def collect(repo):
    funcs, decorators = {}, []
    for path in scope_files(repo):
        rel = os.path.relpath(path, repo)
        tree = ast.parse(open(path).read())
        mm = set()
        for s in tree.body:
            tgts = s.targets if isinstance(s, ast.Assign) else [s.target] if isinstance(s, ast.AnnAssign) and s.value is not None else []
            v = getattr(s, "value", None)
            if tgts and isinstance(v, (ast.Dict, ast.List, ast.Set, ast.ListComp, ast.DictComp, ast.SetComp)) or (
                    tgts and isinstance(v, ast.Call) and dec_name(v) in ("dict", "list", "set", "defaultdict", "OrderedDict", "deque", "Counter", "WeakValueDictionary", "WeakKeyDictionary")):
                mm |= {t.id for t in tgts if isinstance(t, ast.Name)}
            if isinstance(s, ast.ImportFrom) and any(a.name == "*" for a in s.names):
                raise Unsupported("%s: star import" % rel)

        def visit(body, cls, parent, prefix):
            for s in body:
                if isinstance(s, ast.ClassDef):
                    for d in s.decorator_list:
                        if any(c in dec_name(d).lower() for c in CACHE_DECORATORS):
                            decorators.append(("%s:%s" % (rel, s.name), dec_name(d)))
                    visit(s.body, s.name, None, s.name + ".")
                elif isinstance(s, (ast.FunctionDef, ast.AsyncFunctionDef)):
                    key = "%s:%s%s" % (rel, prefix, s.name)
                    for d in s.decorator_list:
                        if any(dec_name(d).lower() == c or dec_name(d).lower().endswith("_" + c) for c in CACHE_DECORATORS):
                            decorators.append((key, dec_name(d)))
                    f = Func(key, s, cls, rel, mm, parent)
                    funcs[key] = f
                    # nested defs are analysed inside their parent (closures); they are registered so that calls resolve to them
                    for n in ast.walk(s):
                        if n is not s and isinstance(n, (ast.FunctionDef, ast.AsyncFunctionDef)):
                            funcs["%s>%s" % (key, n.name)] = Func("%s>%s" % (key, n.name), n, cls, rel, mm, f)
        visit(tree.body, None, None, "")
    return funcs, sorted(set(decorators))


def path(e):
    if isinstance(e, ast.Name):
        return e.id
    if isinstance(e, ast.Attribute):
        return path(e.value) + "." + e.attr
    if isinstance(e, ast.Subscript):
        return path(e.value) + "[]"
    if isinstance(e, ast.Call):
        return path(e.func) + "()"
    return "?"


class Analyzer(ast.NodeVisitor):
    """one function: environment name -> set of roots {"self", "param:<p>", "global:<g>"}"""

    def __init__(self, f, env):
        self.f, self.env = f, env
        self.globals_declared = set()

    # ---- taint of an expression
    def t(self, e):
        if e is None:
            return set()
        if isinstance(e, ast.Name):
            if e.id in self.env:
                return set(self.env[e.id])
            return {"global:" + e.id} if e.id in self.f.mm else set()
        if isinstance(e, ast.Subscript):
            return {r[5:] if r.startswith("elem~") else r for r in self.t(e.value)}          # an element of a shallow copy is the original's element
        if isinstance(e, (ast.Attribute, ast.Starred)):
            return self.t(e.value)
        if isinstance(e, ast.BoolOp):
            return set().union(*[self.t(v) for v in e.values])
        if isinstance(e, ast.IfExp):
            return self.t(e.body) | self.t(e.orelse)
        if isinstance(e, ast.NamedExpr):
            r = self.t(e.value)
            self.env[e.target.id] = r
            return r
        if isinstance(e, (ast.Tuple,)):
            return set().union(*[self.t(v) for v in e.elts]) if e.elts else set()
        if isinstance(e, ast.Await):
            return self.t(e.value)
        if isinstance(e, ast.Call):
            self.call(e)
            fn = e.func
            if isinstance(fn, ast.Name):
                if fn.id in ALIAS_BUILTINS and e.args:
                    return self.t(e.args[0])
                if fn.id in SHALLOW_CALLS and e.args:
                    return {r if r.startswith("elem~") else "elem~" + r for r in self.t(e.args[0])}
                return set()            # constructors, helpers: fresh
            if isinstance(fn, ast.Attribute):
                if fn.attr in FRESH_METHODS:
                    return set()
                recv = self.t(fn.value)
                if fn.attr in SHALLOW_METHODS:
                    return {r if r.startswith("elem~") else "elem~" + r for r in recv}
                if fn.attr in ("get", "values", "items", "pop", "setdefault", "popitem", "__getitem__"):
                    recv = {r[5:] if r.startswith("elem~") else r for r in recv}
                # own methods build new values; accessors (get*/find*/values/items/...) hand out what the receiver holds
                if isinstance(fn.value, ast.Name) and fn.value.id in ("self", "cls") and not (fn.attr.startswith(("get", "find")) or fn.attr in ("values", "items", "keys")):
                    return set()
                return recv
            return set()
        return set()                    # literals, displays, comprehensions, BinOp, f-strings, compare, lambda: fresh

    def effect(self, kind, roots, detail):
        for r in roots:
            if not r.startswith("elem~"):               # the shallow copy itself is the function's own
                self.f.effects.add((kind, r, detail))

    def call(self, e):
        fn = e.func
        for a in e.args:
            self.generic_expr(a)
        for k in e.keywords:
            self.generic_expr(k.value)
        if isinstance(fn, ast.Name):
            if fn.id in ("exec", "eval", "globals", "vars", "locals", "__import__"):
                raise Unsupported("%s: %s()" % (self.f.key, fn.id))
            if fn.id in ("setattr", "delattr") and e.args:
                self.effect("store", self.t(e.args[0]), "setattr")
            self.f.calls.append((fn.id, "bare", [self.t(a) for a in e.args], {k.arg: self.t(k.value) for k in e.keywords if k.arg}))
        elif isinstance(fn, ast.Attribute):
            self.generic_expr(fn.value)
            if fn.attr == "__setattr__" and e.args:
                self.effect("store", self.t(e.args[0]), "setattr")
            if fn.attr in MUTATORS:
                self.effect("mutate", self.t(fn.value), path(fn))
            recv = "self" if isinstance(fn.value, ast.Name) and fn.value.id in ("self", "cls") else "graph" if (isinstance(fn.value, ast.Attribute) and fn.value.attr == "graph") else "other"
            # ClassName.method(...): the class is known by name
            rname = fn.value.id if isinstance(fn.value, ast.Name) and fn.value.id not in ("self", "cls") else None
            self.f.calls.append((fn.attr, recv if rname is None else "class:" + rname, [self.t(a) for a in e.args], {k.arg: self.t(k.value) for k in e.keywords if k.arg}))

    def generic_expr(self, e):
        """visit an expression for the calls inside it"""
        if isinstance(e, ast.Call):
            self.t(e)
            return
        if isinstance(e, (ast.ListComp, ast.SetComp, ast.GeneratorExp, ast.DictComp)):
            saved = dict(self.env)
            for g in e.generators:
                self.generic_expr(g.iter)
                self.bind(g.target, {r[5:] if r.startswith("elem~") else r for r in (self.t(g.iter) if not isinstance(g.iter, ast.Call) else self._call_taint(g.iter))})
                for c in g.ifs:
                    self.generic_expr(c)
            for part in ([e.key, e.value] if isinstance(e, ast.DictComp) else [e.elt]):
                self.generic_expr(part)
            self.env = saved
            return
        if isinstance(e, ast.Lambda):
            self.generic_expr(e.body)
            return
        if isinstance(e, ast.AST):
            for c in ast.iter_child_nodes(e):
                if isinstance(c, ast.expr):
                    self.generic_expr(c)
                elif isinstance(c, (ast.keyword, ast.comprehension, ast.FormattedValue)):
                    self.generic_expr(c)

    def bind(self, target, roots):
        if isinstance(target, ast.Name):
            if target.id in self.globals_declared:
                self.f.effects.add(("global", "global:" + target.id, "rebind"))
            self.env[target.id] = set(roots)
        elif isinstance(target, (ast.Tuple, ast.List)):
            for x in target.elts:
                self.bind(x, roots)
        elif isinstance(target, ast.Starred):
            self.bind(target.value, roots)
        elif isinstance(target, ast.Attribute):
            self.generic_expr(target.value)
            if isinstance(target.value, ast.Name) and target.value.id == "self" and self.f.node.name == "__init__":
                return                                  # construction of the object itself
            self.effect("store", self.t(target.value), path(target))
        elif isinstance(target, ast.Subscript):
            self.generic_expr(target.value)
            self.generic_expr(target.slice)
            self.effect("store", self.t(target.value), path(target))

    # ---- statements
    def block(self, body):
        for s in body:
            self.stmt(s)

    def stmt(self, s):
        if isinstance(s, (ast.FunctionDef, ast.AsyncFunctionDef)):
            sub = Analyzer(self.f, dict(self.env))
            for p in (x.arg for x in s.args.posonlyargs + s.args.args + s.args.kwonlyargs):
                sub.env[p] = set()                      # parameters of local helpers: what they receive is decided at their call sites (not tracked): fresh
            sub.block(s.body)
            return
        if isinstance(s, ast.ClassDef):
            raise Unsupported("%s: local class" % self.f.key)
        if isinstance(s, ast.Global):
            self.globals_declared |= set(s.names)
            return
        if isinstance(s, ast.Nonlocal):
            return
        if isinstance(s, ast.Assign):
            self.generic_expr(s.value)
            r = self.t(s.value) if not isinstance(s.value, ast.Call) else self._call_taint(s.value)
            for tg in s.targets:
                self.bind(tg, r)
            return
        if isinstance(s, ast.AnnAssign):
            if s.value is not None:
                self.generic_expr(s.value)
                self.bind(s.target, self.t(s.value) if not isinstance(s.value, ast.Call) else self._call_taint(s.value))
            return
        if isinstance(s, ast.AugAssign):
            self.generic_expr(s.value)
            if isinstance(s.target, ast.Name):
                if s.target.id in self.globals_declared:
                    self.f.effects.add(("global", "global:" + s.target.id, "rebind"))
                self.effect("mutate", self.t(s.target), s.target.id + " +=")       # `lst += ...` extends the SAME list
            else:
                self.bind(s.target, set())
            return
        if isinstance(s, ast.Delete):
            for tg in s.targets:
                if not isinstance(tg, ast.Name):
                    self.bind(tg, set())
            return
        if isinstance(s, (ast.For, ast.AsyncFor)):
            self.generic_expr(s.iter)
            for _ in range(2):
                it = self.t(s.iter) if not isinstance(s.iter, ast.Call) else self._call_taint(s.iter)
                self.bind(s.target, {r[5:] if r.startswith("elem~") else r for r in it})
                self.block(s.body)
            self.block(s.orelse)
            return
        if isinstance(s, ast.While):
            self.generic_expr(s.test)
            for _ in range(2):
                self.block(s.body)
            self.block(s.orelse)
            return
        if isinstance(s, ast.If):
            self.generic_expr(s.test)
            before = {k: set(v) for k, v in self.env.items()}
            self.block(s.body)
            after_body = self.env
            self.env = before
            self.block(s.orelse)
            for k, v in after_body.items():
                self.env[k] = self.env.get(k, set()) | v
            return
        if isinstance(s, (ast.With, ast.AsyncWith)):
            for it in s.items:
                self.generic_expr(it.context_expr)
                if it.optional_vars is not None:
                    self.bind(it.optional_vars, self.t(it.context_expr))
            self.block(s.body)
            return
        if isinstance(s, ast.Try):
            self.block(s.body)
            for h in s.handlers:
                self.block(h.body)
            self.block(s.orelse)
            self.block(s.finalbody)
            return
        if isinstance(s, (ast.Expr, ast.Return)):
            if s.value is not None:
                self.generic_expr(s.value)
            return
        if isinstance(s, (ast.Raise, ast.Assert)):
            for c in ast.iter_child_nodes(s):
                if isinstance(c, ast.expr):
                    self.generic_expr(c)
            return
        if isinstance(s, (ast.Pass, ast.Break, ast.Continue, ast.Import, ast.ImportFrom)):
            return
        if isinstance(s, ast.Match):
            raise Unsupported("%s: match statement" % self.f.key)
        raise Unsupported("%s: statement %s" % (self.f.key, type(s).__name__))

    def _call_taint(self, e):
        # generic_expr already visited the call (and recorded it); compute the taint without recording twice
        saved = self.f.calls
        self.f.calls = []
        try:
            return self.t(e)
        finally:
            self.f.calls = saved


def analyse(funcs):
    for f in funcs.values():
        if f.parent is not None:
            continue                                    # nested defs are walked as part of their parent
        env = {}
        for p in f.params:
            env[p] = {"self"} if p in ("self", "cls") else {"param:" + p}
        a = Analyzer(f, env)
        a.block(f.node.body)
        for n in ast.walk(f.node):
            if isinstance(n, ast.Attribute) and n.attr == "__dict__" and isinstance(n.ctx, ast.Store):
                raise Unsupported("%s: __dict__ written" % f.key)
        f.mut_params = {r[6:] for (k, r, d) in f.effects if r.startswith("param:")}


def resolve(funcs, caller, name, recv):
    """name-based call resolution -> list of Func"""
    top = [f for f in funcs.values() if f.parent is None]
    if recv == "bare":
        local = [f for k, f in funcs.items() if f.parent is not None and f.node.name == name and (f.parent is caller or f.parent is caller.parent)]
        if local:
            return []                                   # local helper: analysed inline
        same = [f for f in top if f.cls is None and f.node.name == name and f.file == caller.file]
        if same:
            return same
        return [f for f in top if f.node.name == name and f.cls is None] + [f for f in top if f.cls == name and f.node.name == "__init__"]
    if recv.startswith("class:"):
        named = [f for f in top if f.cls == recv[6:] and f.node.name == name]
        if named or any(f.cls == recv[6:] for f in top):
            return named                                # a class of the scanned files, called by name: its own method (or an inherited one outside the scan)
        recv = "other"
    if recv == "self":
        own = [f for f in top if f.cls == caller.cls and f.node.name == name]
        if own:
            return own
    if recv == "graph":
        g = [f for f in top if f.cls == "SemanticGraph" and f.node.name == name]
        if g:
            return g
    if name in MUTATORS or name in FRESH_METHODS or name in ("get", "items", "values", "keys"):
        return []
    return [f for f in top if f.cls is not None and f.node.name == name]


def close(funcs):
    """propagate: a callee that mutates its parameter mutates what the caller passed (fixpoint)"""
    changed = True
    while changed:
        changed = False
        for f in funcs.values():
            if f.parent is not None:
                continue
            for (name, recv, args, kws) in f.calls:
                for g in resolve(funcs, f, name, recv):
                    if not g.mut_params:
                        continue
                    ps = [p for p in g.params if p not in ("self", "cls")] if g.cls is not None and recv != "bare" or (g.node.name == "__init__") else list(g.params)
                    if recv.startswith("class:") and g.cls is not None and not any(isinstance(d, ast.Name) and d.id in ("staticmethod", "classmethod") for d in g.node.decorator_list):
                        ps = list(g.params)            # Class.method(obj, ...): the instance is passed explicitly
                    if g.cls is not None and recv == "bare" and g.node.name != "__init__" and ps and ps[0] in ("self", "cls"):
                        ps = ps[1:]
                    pairs = list(zip(ps, args)) + [(k, v) for k, v in kws.items()]
                    for p, roots in pairs:
                        if p in g.mut_params:
                            for r in roots:
                                e = ("mutate", r, "via " + g.node.name + "(" + p + ")")
                                if e not in f.effects:
                                    f.effects.add(e)
                                    changed = True
                                    if r.startswith("param:"):
                                        f.mut_params.add(r[6:])


def reachable(funcs, entries=None):
    entries = ENTRIES if entries is None else entries
    top = {k: f for k, f in funcs.items() if f.parent is None}
    seen, todo = set(), [f for f in top.values() if (f.cls, f.node.name) in entries]
    while todo:
        f = todo.pop()
        if f.key in seen:
            continue
        seen.add(f.key)
        for (name, recv, args, kws) in f.calls:
            for g in resolve(funcs, f, name, recv):
                if g.key not in seen:
                    todo.append(g)
    return seen


def table(repo):
    funcs, decorators = collect(repo)
    analyse(funcs)
    close(funcs)
    reach = reachable(funcs)
    rows = set()
    for k in reach:
        f = funcs[k]
        entry = (f.cls, f.node.name) in ENTRIES
        for (kind, root, detail) in f.effects:
            if root == "self":
                rows.add((k, kind, detail))
            elif root.startswith("global:"):
                rows.add((k, "global", root[7:] + " " + detail))
            elif entry:
                rows.add((k, "argument", root[6:] + " " + detail))
    for k in reachable(funcs, LOAD_ENTRIES) - reach:
        for (kind, root, detail) in funcs[k].effects:
            if root.startswith("global:"):
                rows.add((k, "global", root[7:] + " " + detail))
    for key, d in decorators:
        rows.add((key, "decorator", d))
    return sorted(rows), len(funcs), len(reach)


def generate(repo):
    rows, nf, nr = table(repo)
    q = lambda s: '"%s"' % s.replace('"', '""')
    body = ";\n  ".join("(%s, %s, %s)" % (q(a), q(b), q(c)) for a, b, c in rows)
    return ("(* GENERATED by translator/gen_effects.py from sidemantic/sql, sidemantic/core, sidemantic/validation.py -- do not edit.\n"
            "   %d functions scanned, %d reachable from the query entry points. *)\n"
            "From Coq Require Import String List.\nImport ListNotations.\nOpen Scope string_scope.\n\n"
            "Definition effects : list (string * string * string) :=\n  [%s].\n" % (nf, nr, body))


if __name__ == "__main__":
    import sys
    rows, nf, nr = table(sys.argv[1] if len(sys.argv) > 1 else "/repo")
    print(nf, "functions,", nr, "reachable")
    for r in rows:
        print(r)
