"""Derivable_gen.v: PreAggregationMatcher._is_measure_derivable (sidemantic/core/preagg_matcher.py), regenerated on every run.

The metric / rollup objects become their fields (name, agg, filters; measures); the call to
self._find_count_measure_for_avg is an oracle argument (its result for this metric and rollup), modelled separately in
Model/Preagg.v and tied by correspondence.  Fail-closed: anything outside the typed subset raises Unsupported."""
import ast
import os

from translator.py2v_typed import HEADER, Unsupported, find_function, function_def

SRC = "sidemantic/core/preagg_matcher.py"


def generate(repo):
    mod = ast.parse(open(os.path.join(repo, SRC)).read())
    fn = find_function(mod, "_is_measure_derivable")
    args = [a.arg for a in fn.args.args]
    if args != ["self", "query_metric", "preagg"]:
        raise Unsupported("unexpected signature %r" % args)
    body = function_def(fn, "is_measure_derivable", [], "bool", {},
                        attrs={("query_metric", "name"): ("metric_name", "str"), ("query_metric", "agg"): ("metric_agg", "optstr"),
                               ("query_metric", "filters"): ("metric_filters", "strlist"), ("preagg", "measures"): ("rollup_measures", "strlist")},
                        oracles={"_find_count_measure_for_avg": ("count_measure", "optstr")},
                        binders=[("metric_name", "str"), ("metric_agg", "optstr"), ("metric_filters", "strlist"), ("rollup_measures", "strlist"), ("count_measure", "optstr")])
    return ("(* GENERATED on every run by translator/gen_derivable.py from %s (_is_measure_derivable) -- do not edit *)\n" % SRC) + HEADER + body + "\n"
