"""TimeDim_gen.v: the behaviour table of SQLGenerator._apply_default_time_dimensions over scripted models and requests, extracted from
generator.py on every run by executing the function's AST with translator/pyinterp.py (fail closed) and validated against CPython."""
import itertools
import sys

from translator.pyinterp import Interp, Obj, PyRaise, Unsupported, find_function

DIM_SETS = [[], ["A.ts"], ["A.ts__day"], ["A.cat"], ["B.ts__week"], ["A.cat", "B.ts"], ["A.ts__month"], ["B.cat"], ["A.cat", "A.ts__month", "B.cat"]]
METRIC_SETS = [[], ["A.x"], ["B.y"], ["A.x", "B.y"], ["B.y", "A.x", "A.z"], ["glob"], ["C.x", "A.x"]]
MODEL_CFG = [(d, g) for d in (None, "ts") for g in (None, "month")]


def scenarios():
    for ca, cb in itertools.product(MODEL_CFG, MODEL_CFG):
        for mets in METRIC_SETS:
            for dims in DIM_SETS:
                yield {"A": ca, "B": cb}, mets, dims


def scripted_graph(cfg):
    def get_model(name):
        if name not in cfg:
            raise PyRaise("KeyError", name)
        d, g = cfg[name]

        def get_dimension(dn):
            if dn == "ts":
                return Obj("dim", {"type": "time", "name": "ts"})
            if dn == "cat":
                return Obj("dim", {"type": "categorical", "name": "cat"})
            return None
        return Obj("model", {"default_time_dimension": d, "default_grain": g, "name": name}, {"get_dimension": get_dimension})
    return Obj("graph", {}, {"get_model": get_model})


def table(repo):
    fn, funcs = find_function(repo + "/sidemantic/sql/generator.py", "_apply_default_time_dimensions", "SQLGenerator")
    rows = []
    for cfg, mets, dims in scenarios():
        it = Interp(funcs)
        out = it.call_def(fn, [list(mets), list(dims)], self_obj=Obj("self", {"graph": scripted_graph(cfg)}))
        if not isinstance(out, list) or not all(isinstance(x, str) for x in out):
            raise Unsupported("_apply_default_time_dimensions returns %r" % (out,))
        rows.append((cfg, mets, dims, out))
    return rows


def real_table(repo):
    from sidemantic.sql.generator import SQLGenerator

    class Dim:
        def __init__(self, t):
            self.type = t

    class M:
        def __init__(self, d, g):
            self.default_time_dimension, self.default_grain = d, g

        def get_dimension(self, dn):
            return {"ts": Dim("time"), "cat": Dim("categorical")}.get(dn)
    rows = []
    for cfg, mets, dims in scenarios():
        class G:
            def get_model(self, name, _cfg=cfg):
                if name not in _cfg:
                    raise KeyError(name)
                return M(*_cfg[name])
        gen = SQLGenerator.__new__(SQLGenerator)
        gen.graph = G()
        rows.append((cfg, mets, dims, gen._apply_default_time_dimensions(list(mets), list(dims))))
    return rows


def q(s):
    return '"%s"' % s


def opt(s):
    return "None" if s is None else "(Some %s)" % q(s)


def dref(ref):
    m, rest = ref.split(".", 1)
    d, _, g = rest.partition("__")
    return "{| dr_model := %s; dr_dim := %s; dr_gran := %s |}" % (q(m), q(d), opt(g or None))


def generate(repo):
    rows = table(repo)
    out = ["(* GENERATED on every run by translator/gen_timedim.py from sidemantic/sql/generator.py (_apply_default_time_dimensions) -- do not edit *)",
           "From Coq Require Import String List Bool.", "Require Import V.Model.TimeDim.", "Import ListNotations.", "Open Scope string_scope.", "",
           "Definition TM (n : string) (d g : option string) : tmodel :=",
           "  {| tm_name := n; tm_dims := [ {| td_name := \"ts\"; td_is_time := true |}; {| td_name := \"cat\"; td_is_time := false |} ]; tm_default := d; tm_grain := g |}.", "",
           "(* per scripted scenario: the models, the metric references (Some model / None for an undotted name), the requested dimensions, the dimensions returned *)",
           "Definition default_rows : list (list tmodel * list (option string) * list dref * list dref) :="]
    items = []
    for cfg, mets, dims, res in rows:
        ms = "[%s]" % "; ".join("TM %s %s %s" % (q(n), opt(cfg[n][0]), opt(cfg[n][1])) for n in ("A", "B"))
        mm = "[%s]" % "; ".join(opt(m.split(".")[0]) if "." in m else "None" for m in mets)
        if any("." not in d for d in dims + res):
            raise Unsupported("undotted dimension reference in a scenario")
        items.append("(%s, %s, [%s], [%s])" % (ms, mm, "; ".join(dref(d) for d in dims), "; ".join(dref(d) for d in res)))
    out.append("  [%s]." % ";\n   ".join(items))
    return "\n".join(out) + "\n"


if __name__ == "__main__":
    sys.stdout.write(generate(sys.argv[1] if len(sys.argv) > 1 else "/repo"))
