"""Interp_gen.v: what ParameterSet.interpolate returns on scripted templates (literal text and {{ name }} holes), extracted from
sidemantic/core/parameter.py on every run by executing the ASTs of interpolate / format / get with translator/pyinterp.py (fail closed)
against a scripted `re` module and scripted parameters whose format_value returns a marker that embeds the raw value -- so a second
substitution pass over an inserted value, a hole filled twice, or a value passed unformatted all show up in the output text."""
import re as _re
import sys

from translator.pyinterp import Interp, Obj, PyRaise, Unsupported, call_closure, find_function

# templates as piece lists: ("lit", text) | ("hole", raw text, name)
H = lambda name, raw=None: ("hole", raw or "{{ %s }}" % name, name)
TEMPLATES = [
    [("lit", "status = "), H("p")],
    [("lit", "a = "), H("p", "{{p}}"), ("lit", " AND b = "), H("q", "{{  q  }}")],
    [("lit", "x = "), H("nope"), ("lit", " AND y = "), H("p")],
    [H("p"), H("q")],
    [("lit", "no holes at all")],
    [("lit", "d >= "), H("p"), ("lit", " AND d < "), H("p")],
    [("lit", "name = '{{ not a hole'")],
    [("lit", "k IN ("), H("q"), ("lit", ", "), H("p"), ("lit", ")")],
]
VALUE_SETS = [{"p": "V1", "q": "V2"}, {"p": "{{ q }}", "q": "V2"}, {"p": "x {{p}} y", "q": "{{ p }}"}, {"p": "it's", "q": ""}, {"p": "V1"}]
PARAMS = ["p", "q"]          # declared parameters; q's default is used when no value is supplied


def text_of(pieces):
    return "".join(p[1] for p in pieces)


def marker(name, value):
    return "<%s|%s>" % (name, value)


def make_self(values):
    def param(name):
        return Obj("param:" + name, {"default_to_today": False, "type": "string", "default_value": "DEF" + name, "name": name},
                   {"format_value": lambda v, _n=name: marker(_n, v)})
    return Obj("self", {"parameters": {n: param(n) for n in PARAMS}, "values": dict(values)})


def scripted_re(it):
    def sub(pattern, repl, s):
        def py_repl(m):
            mo = Obj("match", {}, {"group": lambda i=0: m.group(i)})
            r = call_closure(it, repl, [mo])
            if not isinstance(r, str):
                raise Unsupported("replacement function returned %r" % (r,))
            return r
        return _re.sub(pattern, py_repl, s)
    return Obj("re", {}, {"sub": sub})


def is_template(s):
    return "{{" in s or "{%" in s or "{#" in s


def rows(repo):
    fn, funcs = find_function(repo + "/sidemantic/core/parameter.py", "interpolate", "ParameterSet")
    out = []
    for pieces in TEMPLATES:
        for vals in VALUE_SETS:
            it = Interp(funcs)
            it.modules = {"re": scripted_re(it), "sidemantic.core.template.is_sql_template": is_template,
                          "sidemantic.core.template.render_sql_template": lambda sql, ctx: "<JINJA>"}
            res = it.call_def(fn, [text_of(pieces)], self_obj=make_self(vals))
            if not isinstance(res, str):
                raise Unsupported("interpolate returns %r" % (res,))
            out.append((pieces, vals, res))
    return out


def real_rows(repo):
    from sidemantic.core.parameter import ParameterSet

    class P:
        def __init__(self, name):
            self.name, self.default_to_today, self.type, self.default_value = name, False, "string", "DEF" + name

        def format_value(self, v):
            return marker(self.name, v)
    out = []
    for pieces in TEMPLATES:
        for vals in VALUE_SETS:
            ps = ParameterSet({n: P(n) for n in PARAMS}, dict(vals))
            out.append((pieces, vals, ps.interpolate(text_of(pieces))))
    return out


def q(s):
    return '"%s"' % s.replace('"', '""')


def generate(repo):
    rs = rows(repo)
    items = []
    for pieces, vals, res in rs:
        ps = "; ".join("Lit %s" % q(p[1]) if p[0] == "lit" else "Hole %s %s" % (q(p[1]), q(p[2])) for p in pieces)
        fm = "; ".join("(%s, %s)" % (q(n), q(marker(n, vals.get(n, "DEF" + n)))) for n in PARAMS)
        items.append("([%s], [%s], %s)" % (ps, fm, q(res)))
    return ("(* GENERATED on every run by translator/gen_interp.py from sidemantic/core/parameter.py (ParameterSet.interpolate / format / get) -- do not edit *)\n"
            "From Coq Require Import String List Bool.\nRequire Import V.Model.Interp.\nImport ListNotations.\nOpen Scope string_scope.\n\n"
            "(* per scripted scenario: the template as pieces, the declared parameters with the text format_value returned for their current value, the text returned *)\n"
            "Definition interp_rows : list (list piece * list (string * string) * string) :=\n  [%s].\n" % ";\n   ".join(items))


if __name__ == "__main__":
    sys.stdout.write(generate(sys.argv[1] if len(sys.argv) > 1 else "/repo"))
