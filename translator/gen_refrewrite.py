"""RefRewrite_gen.v: what the two reference-rewriting helpers of SQLGenerator do to the column references of a filter / expression, on scripted texts, extracted from
generator.py on every run by executing the methods' ASTs with translator/pyinterp.py (fail closed):

  _rewrite_model_refs_to_ctes          model.col / model_cte.col  ->  <model>_cte.col for registered models (main-query filters, metric-value filters)
  _rewrite_filter_for_preaggregation   a query filter rewritten to read a rollup table: the model's qualifiers dropped, the rollup's time dimension mapped to its time column

sqlglot is scripted: a text names a list of (table, column) references (the literals and operators around them are not references and are never touched); a parsed text prints
as P[<references after the edits>]; the text BAD... does not parse and takes the methods' textual fallback.  `re` is the real module."""
import re as _re
import sys

from translator.pyinterp import Interp, Obj, PyRaise, Unsupported, find_function

CLS_COLUMN = Obj("class:Column")
MODELS = ["orders", "order_items", "items"]
TEXTS = {
    "T1": [("orders", "status")], "T2": [("orders_cte", "status"), ("", "amount")], "T3": [("order_items", "qty"), ("items", "sku"), ("orders", "id")],
    "T4": [("x", "status"), ("items_cte", "sku")], "T5": [("", "created"), ("orders", "created"), ("orders_cte", "created_at")], "T6": [], "T7": [("order_items_cte", "created"), ("orders", "created_day")],
    "BAD orders.status = 1 AND order_items.qty > orders_cte.x": None, "BAD created >= '2024' AND orders.created < 'created' AND recreated = 1": None, "BAD": None,
}
PREAGGS = [("created", "day"), ("created", None), (None, None), ("status", "month")]


def refs_print(refs):
    return "P[%s]" % ",".join(("%s.%s" % (t, n)) if t else n for t, n in refs)


def scripted(interp=True):
    def parse_one(text, dialect=None):
        if text not in TEXTS:
            raise Unsupported("scenario text %r" % text)
        if TEXTS[text] is None:
            raise PyRaise("ParseError", text)
        cols = []
        for t, n in TEXTS[text]:
            c = Obj("col", {"table": t, "name": n, "__class__": CLS_COLUMN})

            def setter(key, value, _c=c):
                if key == "table":
                    _c.attrs["table"] = "" if value is None else value
                elif key == "this":
                    _c.attrs["name"] = value
                else:
                    raise Unsupported("Column.set(%r)" % (key,))
            c.methods["set"] = setter
            cols.append(c)
        return Obj("tree:" + text, {}, {"find_all": lambda cls, _c=cols: list(_c) if cls is CLS_COLUMN else [],
                                        "sql": lambda dialect=None, _c=cols: refs_print([(x.attrs["table"], x.attrs["name"]) for x in _c])})
    sqlglot = Obj("sqlglot", {}, {"parse_one": parse_one})
    exp = Obj("exp", {"Column": CLS_COLUMN}, {"to_identifier": lambda name, quoted=False: ('"%s"' % name) if quoted else name})
    return sqlglot, exp


def run_cte(repo, text):
    fn, funcs = find_function(repo + "/sidemantic/sql/generator.py", "_rewrite_model_refs_to_ctes", "SQLGenerator")
    sqlglot, exp = scripted()
    selfo = Obj("self", {"dialect": "duckdb", "graph": Obj("graph", {"models": {m: Obj("model:" + m) for m in MODELS}})},
                {"_quote_identifier": lambda n: "QI(%s)" % n, "_is_simple_identifier": lambda n: True})
    it = Interp({k: v for k, v in funcs.items() if k == "_cte_name"}, {"sqlglot": sqlglot, "exp": exp})
    return it.call_def(fn, [text], self_obj=selfo)


def run_preagg(repo, text, pa):
    fn, funcs = find_function(repo + "/sidemantic/sql/generator.py", "_rewrite_filter_for_preaggregation", "SQLGenerator")
    sqlglot, exp = scripted()
    re_mod = Obj("re", {}, {"sub": lambda pat, repl, s: _re.sub(pat, repl, s), "escape": lambda s: _re.escape(s)})
    selfo = Obj("self", {"dialect": "duckdb"})
    it = Interp({}, {"sqlglot": sqlglot, "exp": exp})
    it.modules = {"re": re_mod}
    return it.call_def(fn, [text, Obj("model", {"name": "orders"}), Obj("preagg", {"time_dimension": pa[0], "granularity": pa[1]})], self_obj=selfo)


def real_tables(repo):
    import sidemantic.sql.generator as G

    class Column:
        def __init__(self, t, n):
            self.table, self.name = t, n

        def set(self, key, value):
            if key == "table":
                self.table = "" if value is None else value
            elif key == "this":
                self.name = value
            else:
                raise AssertionError(key)

    class Tree:
        def __init__(self, cols):
            self.cols = cols

        def find_all(self, cls):
            return list(self.cols) if cls is Column else []

        def sql(self, dialect=None):
            return refs_print([(c.table, c.name) for c in self.cols])

    class FakeSqlglot:
        @staticmethod
        def parse_one(text, dialect=None):
            if TEXTS[text] is None:
                raise ValueError(text)
            return Tree([Column(t, n) for t, n in TEXTS[text]])

    class FakeExp:
        @staticmethod
        def to_identifier(name, quoted=False):
            return ('"%s"' % name) if quoted else name
    FakeExp.Column = Column

    class B:
        def __init__(self, **kw):
            self.__dict__.update(kw)
    gen = G.SQLGenerator.__new__(G.SQLGenerator)
    gen.dialect = "duckdb"
    gen.graph = B(models={m: object() for m in MODELS})
    gen._quote_identifier = lambda n: "QI(%s)" % n
    saved = (G.sqlglot, G.exp)
    G.sqlglot, G.exp = FakeSqlglot, FakeExp
    try:
        a = [(t, gen._rewrite_model_refs_to_ctes(t)) for t in TEXTS]
        b = [((t, pa), gen._rewrite_filter_for_preaggregation(t, B(name="orders"), B(time_dimension=pa[0], granularity=pa[1]))) for t in TEXTS for pa in PREAGGS]
    finally:
        G.sqlglot, G.exp = saved
    return a, b


def tables(repo, real=False):
    if real:
        return real_tables(repo)
    a = [(t, run_cte(repo, t)) for t in TEXTS]
    b = [((t, pa), run_preagg(repo, t, pa)) for t in TEXTS for pa in PREAGGS]
    for _, r in a + b:
        if not isinstance(r, str):
            raise Unsupported("a rewriting helper returns %r" % (r,))
    return a, b


def q(s):
    return '"%s"' % str(s).replace('"', '""')


def opt(x, f=q):
    return "None" if x is None else "(Some %s)" % f(x)


def lst(l, f=q):
    return "[%s]" % "; ".join(f(x) for x in l)


def generate(repo):
    a, b = tables(repo)
    texts = lst(list(TEXTS.items()), lambda kv: "(%s, %s)" % (q(kv[0]), opt(kv[1], lambda refs: lst(refs, lambda p: "(%s, %s)" % (q(p[0]), q(p[1]))))))
    ra = lst(a, lambda r: "(%s, %s)" % (q(r[0]), q(r[1])))
    rb = lst(b, lambda r: "((%s, %s, %s), %s)" % (q(r[0][0]), opt(r[0][1][0]), opt(r[0][1][1]), q(r[1])))
    return ("(* GENERATED on every run by translator/gen_refrewrite.py from sidemantic/sql/generator.py (_rewrite_model_refs_to_ctes, _rewrite_filter_for_preaggregation) -- do not edit *)\n"
            "From Coq Require Import String List.\nRequire Import V.Model.RefRewrite.\nImport ListNotations.\nOpen Scope string_scope.\n\n"
            "Definition rr_models : list string := %s.\n"
            "(* scripted texts: the (table, column) references each mentions; None: the text does not parse *)\n"
            "Definition rr_texts : list (string * option (list (string * string))) :=\n  %s.\n"
            "(* text -> what _rewrite_model_refs_to_ctes returns *)\n"
            "Definition cte_ref_rows : list (string * string) :=\n  %s.\n"
            "(* (text, rollup time dimension, rollup granularity) -> what _rewrite_filter_for_preaggregation returns for the model orders *)\n"
            "Definition preagg_ref_rows : list ((string * option string * option string) * string) :=\n  %s.\n" % (lst(MODELS), texts, ra, rb))


if __name__ == "__main__":
    repo = sys.argv[1] if len(sys.argv) > 1 else "/repo"
    a, b = tables(repo), tables(repo, real=True)
    print(len(a[0]), len(a[1]), a == b)
    for x in a[0]:
        print(x)
    for x in a[1][:10] + a[1][-8:]:
        print(x)
