"""Materialize_gen.v: the SHAPE of the statement PreAggregation.generate_materialization_sql writes (the columns of the rollup table, what each stores,
what is grouped by) on scripted rollups, extracted from pre_aggregation.py on every run by executing the method's AST with translator/pyinterp.py
(fail closed) and validated against CPython.  The SQL text is parsed into constructors of Model/MatShape."""
import itertools
import re
import sys

from translator.pyinterp import Interp, Obj, Unsupported, find_function

DIMS = {"ts": ("time", "tsx"), "cat": ("categorical", "catx"), "reg": ("categorical", "regx")}
METS = {"rev": ("sum", "vx"), "cnt": ("count", None), "cntv": ("count", "vx"), "mn": ("min", "vx"), "mx": ("max", "vx"), "av": ("avg", "vx"), "cd": ("count_distinct", "kx"), "med": ("median", "vx")}
TIME = [(None, None), ("ts", "day"), ("ts", "month"), ("ts", None), ("nope", "day")]
DIMSETS = [[], ["cat"], ["cat", "reg"], ["reg", "nope"]]
MEASSETS = [[], ["rev"], ["cnt", "cntv"], ["mn", "mx", "av"], ["cd", "med", "rev"], ["nope", "rev"]]
SOURCES = [("tbl", None), (None, "SELECT 1 AS x")]


def scenarios():
    return itertools.product(TIME, DIMSETS, MEASSETS, SOURCES)


def parse_sql(sql, table, msql):
    m = re.fullmatch(r"SELECT\n  (.*)\nFROM (.*)\nGROUP BY (.*)", sql, flags=re.S)
    if not m:
        raise Unsupported("materialisation statement not understood: %r" % sql)
    items = m.group(1).split(",\n  ") if m.group(1) else []
    src = m.group(2)
    if not ((table and src == table) or (msql and src == "(%s) AS t" % msql)):
        raise Unsupported("FROM clause %r" % src)
    cols = []
    for it in items:
        mm = re.fullmatch(r"DATE_TRUNC\('(\w+)', (\w+)\) as (\w+)", it)
        if mm:
            name = [k for k, v in DIMS.items() if v[1] == mm.group(2)]
            if not name or mm.group(3) != "%s_%s" % (name[0], mm.group(1)):
                raise Unsupported("time column %r" % it)
            cols.append('CTime "%s" "%s"' % (name[0], mm.group(1)))
            continue
        mm = re.fullmatch(r"(\w+) as (\w+)", it)
        if mm:
            if DIMS.get(mm.group(2), (None, None))[1] != mm.group(1):
                raise Unsupported("dimension column %r" % it)
            cols.append('CDim "%s"' % mm.group(2))
            continue
        mm = re.fullmatch(r"COUNT\(\*\) as (\w+)_raw", it)
        if mm:
            cols.append('CAgg "COUNT*" "%s"' % mm.group(1))
            continue
        mm = re.fullmatch(r"COUNT\(DISTINCT (\w+)\) as (\w+)_raw", it)
        if mm:
            if METS.get(mm.group(2), (None, None))[1] != mm.group(1):
                raise Unsupported("measure column %r" % it)
            cols.append('CAgg "COUNT DISTINCT" "%s"' % mm.group(2))
            continue
        mm = re.fullmatch(r"([A-Z_]+)\((\w+)\) as (\w+)_raw", it)
        if mm:
            if METS.get(mm.group(3), (None, None))[1] != mm.group(2):
                raise Unsupported("measure column %r" % it)
            cols.append('CAgg "%s" "%s"' % (mm.group(1), mm.group(3)))
            continue
        raise Unsupported("select item %r" % it)
    gb = [x.strip() for x in m.group(3).split(",")] if m.group(3).strip() else []
    if not all(x.isdigit() for x in gb):
        raise Unsupported("GROUP BY %r" % m.group(3))
    return cols, [int(x) for x in gb]


def table(repo, real=False):
    fn, funcs = find_function(repo + "/sidemantic/core/pre_aggregation.py", "generate_materialization_sql", "PreAggregation")
    rows = []
    for (td, gran), dims, meas, (tbl, msql) in scenarios():
        if real:
            from sidemantic.core.pre_aggregation import PreAggregation

            class D:
                def __init__(self, t, s):
                    self.type, self.sql_expr = t, s

            class Me:
                def __init__(self, a, s):
                    self.agg, self.sql, self.sql_expr = a, s, s

            class Mo:
                table, sql = tbl, msql

                def get_dimension(self, n):
                    return D(*DIMS[n]) if n in DIMS else None

                def get_metric(self, n):
                    return Me(*METS[n]) if n in METS else None
            pa = PreAggregation(name="r", measures=list(meas), dimensions=list(dims), time_dimension=td, granularity=gran)
            sql = pa.generate_materialization_sql(Mo())
        else:
            model = Obj("model", {"table": tbl, "sql": msql},
                        {"get_dimension": lambda n: Obj("dim", {"type": DIMS[n][0], "sql_expr": DIMS[n][1]}) if n in DIMS else None,
                         "get_metric": lambda n: Obj("metric", {"agg": METS[n][0], "sql": METS[n][1], "sql_expr": METS[n][1]}) if n in METS else None})
            selfo = Obj("self", {"time_dimension": td, "granularity": gran, "dimensions": list(dims), "measures": list(meas), "name": "r"})
            sql = Interp(funcs).call_def(fn, [model], self_obj=selfo)
        if not isinstance(sql, str):
            raise Unsupported("generate_materialization_sql returns %r" % (sql,))
        cols, gb = parse_sql(sql, tbl, msql)
        rows.append(((td, gran), dims, meas, cols, gb))
    return rows


def q(s):
    return '"%s"' % s


def opt(s):
    return "None" if s is None else "(Some %s)" % q(s)


def generate(repo):
    rows = table(repo)
    seen, items = set(), []
    for (td, gran), dims, meas, cols, gb in rows:
        key = (td, gran, tuple(dims), tuple(meas))
        if key in seen:
            continue          # the source (table / sub-select) does not change the column list: checked by the parser above
        seen.add(key)
        items.append("(%s, %s, [%s], [%s], [%s], [%s])" % (opt(td), opt(gran), "; ".join(q(d) for d in dims), "; ".join(q(m) for m in meas), "; ".join(cols), "; ".join("%d" % x for x in gb)))
    mets = "; ".join("(%s, %s, %s)" % (q(n), q(a), "true" if s else "false") for n, (a, s) in METS.items())
    return ("(* GENERATED on every run by translator/gen_materialize.py from sidemantic/core/pre_aggregation.py (generate_materialization_sql) -- do not edit *)\n"
            "From Coq Require Import String List Bool.\nRequire Import V.Model.MatShape.\nImport ListNotations.\nOpen Scope string_scope.\n\n"
            "(* the scripted model: known dimensions ts (time), cat, reg; measures with their aggregation literal and whether they have a sql expression *)\n"
            "Definition script_dims : list string := [\"ts\"; \"cat\"; \"reg\"].\n"
            "Definition script_measures : list (string * string * bool) := [%s].\n\n"
            "(* per scripted rollup: time dimension, granularity, dimensions, measures; the columns of the statement, its GROUP BY positions *)\n"
            "Definition mat_rows : list (option string * option string * list string * list string * list col * list nat) :=\n  [%s].\n" % (mets, ";\n   ".join(items)))


if __name__ == "__main__":
    sys.stdout.write(generate(sys.argv[1] if len(sys.argv) > 1 else "/repo"))
