"""MultiFact_gen.v: the verdict of SQLGenerator._needs_preaggregation_for_fanout (does a query take the multi-fact form?) on scripted metric lists
and join paths, extracted from generator.py on every run by executing the method's AST with translator/pyinterp.py (fail closed) and validated
against CPython."""
import itertools
import sys

from translator.pyinterp import Interp, Obj, PyRaise, Unsupported, find_function

INV = {"many_to_one": "one_to_many", "one_to_many": "many_to_one", "one_to_one": "one_to_one"}
PATTERNS = [None, ["many_to_one"], ["one_to_many"], ["one_to_one"], ["one_to_one", "one_to_one"], ["one_to_many", "many_to_one"], ["many_to_one", "many_to_one"]]
METRIC_SETS = [[], ["a.x"], ["a.x", "a.y"], ["a.x", "b.y"], ["b.y", "a.x", "c.z"], ["a.x", "glob"], ["glob", "glob2"], ["c.z", "a.x"]]
PAIRS = [("a", "b"), ("a", "c"), ("b", "c")]


def reverse(p):
    return None if p is None else [INV[t] for t in reversed(p)]


def scenarios():
    for pats in itertools.product(PATTERNS, repeat=3):
        paths = {}
        for (x, y), p in zip(PAIRS, pats):
            paths[(x, y)] = p
            paths[(y, x)] = reverse(p)
        for mets in METRIC_SETS:
            yield paths, mets


def table(repo, real=False):
    fn, funcs = find_function(repo + "/sidemantic/sql/generator.py", "_needs_preaggregation_for_fanout", "SQLGenerator")
    rows = []
    for paths, mets in scenarios():
        if real:
            from sidemantic.sql.generator import SQLGenerator

            class Hop:
                def __init__(self, t):
                    self.relationship = t

            class G:
                def find_relationship_path(self, a, b, _p=paths):
                    p = _p.get((a, b))
                    if p is None:
                        raise ValueError("no path")
                    return [Hop(t) for t in p]
            gen = SQLGenerator.__new__(SQLGenerator)
            gen.graph = G()
            res = gen._needs_preaggregation_for_fanout(list(mets), [])
        else:
            def frp(a, b, _p=paths):
                p = _p.get((a, b))
                if p is None:
                    raise PyRaise("ValueError", "no path")
                return [Obj("hop", {"relationship": t}) for t in p]
            it = Interp(funcs)
            res = it.call_def(fn, [list(mets), []], self_obj=Obj("self", {"graph": Obj("graph", {}, {"find_relationship_path": frp})}))
        if not isinstance(res, bool):
            raise Unsupported("_needs_preaggregation_for_fanout returns %r" % (res,))
        rows.append((paths, mets, res))
    return rows


def q(s):
    return '"%s"' % s


def generate(repo):
    rows = table(repo)
    items = []
    for paths, mets, res in rows:
        ps = "; ".join("(%s, %s, %s)" % (q(a), q(b), "None" if p is None else "(Some [%s])" % "; ".join(q(t) for t in p)) for (a, b), p in sorted(paths.items()))
        ms = "; ".join("(Some %s)" % q(m.split(".")[0]) if "." in m else "None" for m in mets)
        items.append("([%s], [%s], %s)" % (ms, ps, "true" if res else "false"))
    return ("(* GENERATED on every run by translator/gen_multifact.py from sidemantic/sql/generator.py (_needs_preaggregation_for_fanout) -- do not edit *)\n"
            "From Coq Require Import String List Bool.\nImport ListNotations.\nOpen Scope string_scope.\n\n"
            "(* per scripted scenario: the metric references (Some model / None for an undotted name), the join path (hop types; None: no path) for every ordered pair of\n"
            "   the models a, b, c, the verdict *)\n"
            "Definition multifact_rows : list (list (option string) * list (string * string * option (list string)) * bool) :=\n  [%s].\n" % ";\n   ".join(items))


if __name__ == "__main__":
    sys.stdout.write(generate(sys.argv[1] if len(sys.argv) > 1 else "/repo"))
