"""AdapterMaps_gen.v: the aggregation maps of the exporters, regenerated on every run.

For every adapter module the translator looks for calls  X.get(<expr ending in .agg>, <default>)  where X is bound, in the same
function or at module level, to a dict LITERAL of string -> string; it emits the literal table and the default.  Together with:
the aggregation vocabulary (the Literal annotation of Metric.agg), the MEASURED export -> import aggregation table of every adapter
(obtained by the harness on one-measure models) and the replacements listed in known_findings.json.  Fail-closed: a `.get(<..>.agg, ..)`
on something that is not such a literal raises Unsupported."""
import ast
import os

ADAPTER_FILES = ["cube", "metricflow", "lookml", "hex", "rill", "superset", "omni", "bsl", "gooddata", "snowflake", "malloy", "osi", "atscale_sml", "thoughtspot", "holistics"]


class Unsupported(Exception):
    pass


def q(s):
    return '"' + s.replace('"', '""') + '"'


def _str_dict(node):
    if not isinstance(node, ast.Dict):
        return None
    out = []
    for k, v in zip(node.keys, node.values):
        if not (isinstance(k, ast.Constant) and isinstance(k.value, str) and isinstance(v, ast.Constant) and (isinstance(v.value, str) or v.value is None)):
            return None
        out.append((k.value, v.value))
    return out


def export_maps(repo):
    """-> {adapter: [(function name, line, [(agg, token)], default)]}"""
    out = {}
    for name in ADAPTER_FILES:
        path = os.path.join(repo, "sidemantic", "adapters", name + ".py")
        mod = ast.parse(open(path).read())
        module_dicts = {}
        for n in mod.body:
            if isinstance(n, ast.Assign) and len(n.targets) == 1 and isinstance(n.targets[0], ast.Name) and _str_dict(n.value) is not None:
                module_dicts[n.targets[0].id] = _str_dict(n.value)
        found = []
        for fn in ast.walk(mod):
            if not isinstance(fn, ast.FunctionDef):
                continue
            local = dict(module_dicts)
            for n in ast.walk(fn):
                if isinstance(n, ast.Assign) and len(n.targets) == 1 and isinstance(n.targets[0], ast.Name) and _str_dict(n.value) is not None:
                    local[n.targets[0].id] = _str_dict(n.value)
            for n in ast.walk(fn):
                if isinstance(n, ast.Call) and isinstance(n.func, ast.Attribute) and n.func.attr == "get" and n.args and ast.unparse(n.args[0]).endswith(".agg"):
                    if not isinstance(n.func.value, ast.Name) or n.func.value.id not in local:
                        raise Unsupported("%s.py line %d: .get(<..>.agg, ..) on something that is not a string dict literal" % (name, n.lineno))
                    default = None
                    if len(n.args) > 1:
                        if isinstance(n.args[1], ast.Constant) and (isinstance(n.args[1].value, str) or n.args[1].value is None):
                            default = n.args[1].value
                        else:
                            default = "<" + ast.unparse(n.args[1])[:40] + ">"            # a computed default (e.g. the literal itself upper-cased)
                    found.append((fn.name, n.lineno, local[n.func.value.id], default))
        if found:
            out[name] = found
    return out


def agg_vocab():
    from sidemantic.validation import _valid_measure_aggs
    return sorted(_valid_measure_aggs())


def generate(repo, measured, open_findings):
    maps = export_maps(repo)
    vocab = agg_vocab()
    known = {}
    for fid, e in open_findings.items():
        for cell in e.get("cells", []):
            if cell[1].startswith("agg=") or cell[1] == "*":
                known.setdefault(cell[0], set()).add(cell[1][4:] if cell[1].startswith("agg=") else "*")
    opt = lambda s: "None" if s is None else "(Some %s)" % q(s)
    m_txt = ";\n   ".join("(%s, %s, [%s], %s)" % (q(a), q("%s:%d" % (fn, ln)), "; ".join("(%s, %s)" % (q(k), opt(v)) for k, v in table), opt(default))
                          for a, items in sorted(maps.items()) for fn, ln, table, default in items)
    r_txt = ";\n   ".join("(%s, [%s])" % (q(a), "; ".join("(%s, %s)" % (q(x), opt(y)) for x, y in tbl)) for a, tbl in sorted(measured.items()))
    k_txt = "; ".join("(%s, [%s])" % (q(a), "; ".join(q(x) for x in sorted(v))) for a, v in sorted(known.items()))
    return ("(* GENERATED on every run by translator/gen_adaptermaps.py from sidemantic/adapters/*.py, by measurement, and from known_findings.json -- do not edit *)\n"
            "From Coq Require Import String List Bool.\nImport ListNotations.\nOpen Scope string_scope.\n\n"
            "Definition agg_vocab : list string := [%s].\n\n" % "; ".join(q(x) for x in vocab) +
            "(* (adapter, site, literal table, default) of every  X.get(<metric>.agg, default)  in an adapter *)\n"
            "Definition export_agg_maps : list (string * string * list (string * option string) * option string) :=\n  [%s].\n\n" % m_txt +
            "(* measured: aggregation literal of a one-measure model after export -> import (None: dropped or no aggregation) *)\n"
            "Definition measured_roundtrip : list (string * list (string * option string)) :=\n  [%s].\n\n" % r_txt +
            "(* aggregation literals listed per adapter in known_findings.json (\"*\": every literal) *)\n"
            "Definition known_replaced : list (string * list string) := [%s].\n" % k_txt)
