"""AdjProg_gen.v: extract the shared-state access skeleton of SemanticGraph.find_relationship_path / build_adjacency.
Shared state = attributes _adjacency and _adjacency_dirty of self. Every statement that touches them becomes one action,
tagged with its source line; everything else is thread-local and dropped. Fail-closed on shapes it does not understand."""
import ast, sys

SHARED = {"_adjacency", "_adjacency_dirty"}
class Unsupported(Exception): pass

def is_self_attr(n, name=None):
    return isinstance(n, ast.Attribute) and isinstance(n.value, ast.Name) and n.value.id == "self" and (name is None or n.attr == name)

MUTATORS = {"append", "extend", "insert", "add", "update", "setdefault", "pop", "popitem", "clear", "remove", "discard", "sort", "reverse", "appendleft", "popleft"}


def alias_mutations(fn):
    """local names bound to the shared adjacency (x = self._adjacency) must only be READ: a mutator call or a store through such a name changes the structure
    other threads are searching.  Returns the offending (line, text) list."""
    aliases = {n.targets[0].id for n in ast.walk(fn) if isinstance(n, ast.Assign) and len(n.targets) == 1 and isinstance(n.targets[0], ast.Name) and is_self_attr(n.value, "_adjacency")}

    def root(e):
        while isinstance(e, (ast.Attribute, ast.Subscript, ast.Call)):
            e = e.func if isinstance(e, ast.Call) else e.value
        return e.id if isinstance(e, ast.Name) else None
    # a name bound to a PART of the shared structure (neighbours = adjacency[current], edges = adjacency.get(m, ...)) is an alias as well
    changed = True
    while changed:
        changed = False
        for n in ast.walk(fn):
            if isinstance(n, ast.Assign) and len(n.targets) == 1 and isinstance(n.targets[0], ast.Name) and n.targets[0].id not in aliases \
                    and isinstance(n.value, (ast.Subscript, ast.Attribute, ast.Call, ast.Name)) and root(n.value) in aliases \
                    and not (isinstance(n.value, ast.Call) and isinstance(n.value.func, ast.Name)):
                if isinstance(n.value, ast.Call) and isinstance(n.value.func, ast.Attribute) and n.value.func.attr in ("copy", "items", "keys", "values"):
                    continue
                aliases.add(n.targets[0].id)
                changed = True
    bad = []
    for n in ast.walk(fn):
        if isinstance(n, ast.Call) and isinstance(n.func, ast.Attribute) and n.func.attr in MUTATORS and root(n.func.value) in aliases:
            bad.append((n.lineno, ast.unparse(n)[:60]))
        tgts = n.targets if isinstance(n, (ast.Assign, ast.Delete)) else [n.target] if isinstance(n, (ast.AugAssign, ast.AnnAssign)) else []
        for t in tgts:
            if isinstance(t, (ast.Subscript, ast.Attribute)) and root(t) in aliases:
                bad.append((n.lineno, ast.unparse(t)[:60]))
    return bad


def touches(node):
    return any(is_self_attr(n) and n.attr in SHARED for n in ast.walk(node))

def classify_stmt(s, inline):
    """returns list of (action, lineno)"""
    out = []
    if not touches(s) and not any(isinstance(n, ast.Call) and is_self_attr(n.func) and n.func.attr in inline for n in ast.walk(s)):
        return out
    # self._adjacency_dirty = <const>
    if isinstance(s, ast.Assign) and len(s.targets) == 1 and is_self_attr(s.targets[0], "_adjacency_dirty"):
        if isinstance(s.value, ast.Constant) and s.value.value in (True, False):
            return [("SetFlag%s" % s.value.value, s.lineno)]
        raise Unsupported(f"line {s.lineno}: flag assigned a non-constant")
    # self._adjacency = <expr>   (rebinding: publish)
    if isinstance(s, ast.Assign) and len(s.targets) == 1 and is_self_attr(s.targets[0], "_adjacency"):
        if touches(s.value): raise Unsupported(f"line {s.lineno}: publish reads shared state")
        return [("Publish", s.lineno)]
    # local = self._adjacency   (snapshot of the reference)
    if isinstance(s, ast.Assign) and len(s.targets) == 1 and isinstance(s.targets[0], ast.Name) and is_self_attr(s.value, "_adjacency"):
        return [("Snapshot", s.lineno)]
    # self._adjacency.clear()
    if isinstance(s, ast.Expr) and isinstance(s.value, ast.Call) and isinstance(s.value.func, ast.Attribute) and is_self_attr(s.value.func.value, "_adjacency"):
        m = s.value.func.attr
        if m == "clear": return [("ClearInPlace", s.lineno)]
        raise Unsupported(f"line {s.lineno}: method {m} on shared dict")
    # self.build_adjacency()  -> inline callee skeleton
    if isinstance(s, ast.Expr) and isinstance(s.value, ast.Call) and is_self_attr(s.value.func) and s.value.func.attr in inline:
        return [("Call:" + s.value.func.attr, s.lineno)] + inline[s.value.func.attr]
    # if getattr(self, "_adjacency_dirty", True): ...   /  if self._adjacency_dirty: ...
    if isinstance(s, ast.If):
        t = s.test
        # `if not hasattr(self, "_adjacency"): self._adjacency = {}` : defensive init; __init__ always sets the attribute
        if (isinstance(t, ast.UnaryOp) and isinstance(t.op, ast.Not) and isinstance(t.operand, ast.Call) and isinstance(t.operand.func, ast.Name)
                and t.operand.func.id == "hasattr" and len(t.operand.args) == 2 and isinstance(t.operand.args[1], ast.Constant) and t.operand.args[1].value in SHARED):
            return [("InitIfMissing", s.lineno)]
        reads_flag = any((is_self_attr(n, "_adjacency_dirty")) or (isinstance(n, ast.Constant) and n.value == "_adjacency_dirty") for n in ast.walk(t))
        reads_adj = any(is_self_attr(n, "_adjacency") for n in ast.walk(t))
        body = [a for b in s.body for a in classify_stmt(b, inline)]
        orelse = [a for b in s.orelse for a in classify_stmt(b, inline)]
        if reads_flag and not reads_adj:
            return [("IfDirty", s.lineno, body, orelse)]
        if reads_adj and not reads_flag:
            kind = "ReadSharedIn" if not any(isinstance(n, ast.Call) and isinstance(n.func, ast.Name) and n.func.id == "hasattr" for n in ast.walk(t)) else "HasAttr"
            return [(kind, s.lineno)] + body + orelse
        raise Unsupported(f"line {s.lineno}: condition mixes flag and dict")
    if isinstance(s, (ast.For, ast.While)):
        hdr = s.iter if isinstance(s, ast.For) else s.test
        out = [("ReadSharedIter", s.lineno)] if touches(hdr) else []
        inner = [a for b in s.body for a in classify_stmt(b, inline)]
        return out + ([("Loop", s.lineno, inner)] if inner else [])
    if isinstance(s, ast.FunctionDef):     # nested helper (add_edge): record its shared writes as in-place fills when called
        inner = [a for b in s.body for a in classify_stmt(b, inline)]
        inline[s.name] = inner
        return []
    # any other statement that reads or writes through self._adjacency[...] / .append
    writes = any(isinstance(n, ast.Subscript) and is_self_attr(n.value, "_adjacency") and isinstance(n.ctx, ast.Store) for n in ast.walk(s)) \
             or any(isinstance(n, ast.Call) and isinstance(n.func, ast.Attribute) and n.func.attr == "append" and touches(n.func.value) for n in ast.walk(s))
    if writes: return [("FillInPlace", s.lineno)]
    if touches(s): return [("ReadShared", s.lineno)]
    # calls of nested helpers that fill
    for n in ast.walk(s):
        if isinstance(n, ast.Call) and isinstance(n.func, ast.Name) and n.func.id in inline and inline[n.func.id]:
            return [("FillInPlace", s.lineno)]
    return out

def skeleton(path):
    mod = ast.parse(open(path).read()); cls = next(n for n in mod.body if isinstance(n, ast.ClassDef) and n.name == "SemanticGraph")
    fns = {f.name: f for f in cls.body if isinstance(f, ast.FunctionDef)}
    inline = {}
    def body_actions(fn):
        local_inline = dict(inline); acts = []
        for s in fn.body:
            # calls to nested helpers (add_edge(...)) inside loops
            acts += classify_stmt(s, local_inline)
        return acts
    # nested helper calls inside build_adjacency: treat `add_edge(...)` statements as FillInPlace
    ba = fns["build_adjacency"]; helpers = {}
    acts_ba = []
    for s in ba.body: acts_ba += classify_stmt(s, helpers)
    def fill_calls(node):
        return [("FillInPlace", n.lineno) for n in ast.walk(node) if isinstance(n, ast.Call) and isinstance(n.func, ast.Name) and n.func.id in helpers and helpers[n.func.id]]
    fills = sorted(set(fill_calls(ba)), key=lambda a: a[1])
    inline["build_adjacency"] = acts_ba + ([("Loop", ba.lineno, fills)] if fills else [])
    return body_actions(fns["find_relationship_path"])



def flatten(acts):
    """nested skeleton -> flat list of (action, line) in the vocabulary of Model/Conc.v"""
    out = []
    for a in acts:
        k = a[0]
        if k == "IfDirty":
            if a[3]:
                raise Unsupported(f"line {a[1]}: else-branch on the dirty test")
            body = flatten(a[2])
            out.append(("IfDirty %d" % len(body), a[1]))
            out += body
        elif k == "Loop":
            out += flatten(a[2])
        elif k.startswith("Call:") or k in ("InitIfMissing", "HasAttr"):
            continue
        elif k == "Publish":
            out += [("BuildLocal", a[1]), ("Publish", a[1])]
        elif k == "Snapshot":
            out += [("Snapshot", a[1]), ("ReadSnap", a[1])]
        elif k in ("ReadShared", "ReadSharedIn", "ReadSharedIter"):
            out.append(("ReadShared", a[1]))
        elif k == "FillInPlace":
            if not (out and out[-1][0] == "FillInPlace"):
                out.append(("FillInPlace", a[1]))
        elif k == "ClearInPlace":
            out.append(("ClearInPlace", a[1]))
        elif k == "SetFlagFalse":
            out.append(("SetFlagFalse", a[1]))
        else:
            raise Unsupported(f"line {a[1]}: action {k}")
    return out


MUTATORS = {"clear", "append", "update", "setdefault", "pop", "popitem", "add", "remove", "discard", "extend", "insert", "__setitem__", "sort", "reverse"}


def unmodelled_writes(path, roots=("find_relationship_path",)):
    """Every write to an attribute of self (rebinding, item assignment, deletion, mutating method call) in the methods reachable
    from the planning entry points through self.<method>() calls.  The model knows only SHARED; any other written attribute is
    planning state the proofs do not cover (e.g. a memo of resolved paths), so the extraction fails closed."""
    mod = ast.parse(open(path).read())
    cls = next(n for n in mod.body if isinstance(n, ast.ClassDef) and n.name == "SemanticGraph")
    fns = {f.name: f for f in cls.body if isinstance(f, ast.FunctionDef)}
    seen, todo, found = set(), list(roots), []
    while todo:
        name = todo.pop()
        if name in seen or name not in fns:
            continue
        seen.add(name)
        for n in ast.walk(fns[name]):
            if isinstance(n, ast.Call) and is_self_attr(n.func) and n.func.attr in fns:
                todo.append(n.func.attr)
            targets = []
            if isinstance(n, (ast.Assign, ast.AnnAssign, ast.AugAssign)):
                targets = n.targets if isinstance(n, ast.Assign) else [n.target]
            elif isinstance(n, ast.Delete):
                targets = n.targets
            for t in targets:
                for sub in ast.walk(t):
                    if is_self_attr(sub) and sub.attr not in SHARED:
                        found.append((sub.attr, name, getattr(n, "lineno", 0)))
            if isinstance(n, ast.Call) and isinstance(n.func, ast.Attribute) and n.func.attr in MUTATORS:
                base = n.func.value
                while isinstance(base, ast.Subscript):
                    base = base.value
                if is_self_attr(base) and base.attr not in SHARED:
                    found.append((base.attr, name, n.lineno))
    return found


def stray_shared_access(path, roots=("find_relationship_path",), modelled=("find_relationship_path", "build_adjacency")):
    """The skeleton is extracted from find_relationship_path with build_adjacency inlined.  Any OTHER method reachable from the planning entry point through
    self.<method>() calls that reads or writes the shared attributes (a post-processing step that edits the published adjacency in place, a helper that
    re-reads the flag ...) is outside the model: fail closed."""
    mod = ast.parse(open(path).read())
    cls = next(n for n in mod.body if isinstance(n, ast.ClassDef) and n.name == "SemanticGraph")
    fns = {f.name: f for f in cls.body if isinstance(f, ast.FunctionDef)}
    seen, todo, found = set(), list(roots), []
    while todo:
        name = todo.pop()
        if name in seen or name not in fns:
            continue
        seen.add(name)
        for n in ast.walk(fns[name]):
            if isinstance(n, ast.Call) and is_self_attr(n.func) and n.func.attr in fns:
                todo.append(n.func.attr)
            if name not in modelled and is_self_attr(n) and n.attr in SHARED:
                found.append((n.attr, name, getattr(n, "lineno", 0)))
    return found


def add_model_invalidates(path):
    """add_model must mark the adjacency dirty UNCONDITIONALLY (a top-level `self._adjacency_dirty = True`): a model can enter the join graph
    through its own relationships, as another model's target, or as the junction of a many_to_many -- the cache invariant of C15/C19
    (cache = not-built or = build_adjacency(models)) relies on every registration invalidating it"""
    mod = ast.parse(open(path).read())
    cls = next(n for n in mod.body if isinstance(n, ast.ClassDef) and n.name == "SemanticGraph")
    fn = next(f for f in cls.body if isinstance(f, ast.FunctionDef) and f.name == "add_model")
    for s in fn.body:
        if isinstance(s, ast.Assign) and len(s.targets) == 1 and is_self_attr(s.targets[0], "_adjacency_dirty") and isinstance(s.value, ast.Constant) and s.value.value is True:
            return True
    return False


def program(repo):
    import os
    path = os.path.join(repo, "sidemantic/core/semantic_graph.py")
    if not add_model_invalidates(path):
        raise Unsupported("add_model does not unconditionally invalidate the adjacency cache (no top-level `self._adjacency_dirty = True`)")
    tree = ast.parse(open(path).read())
    for cls in [n for n in tree.body if isinstance(n, ast.ClassDef) and n.name == "SemanticGraph"]:
        for fn in [n for n in cls.body if isinstance(n, ast.FunctionDef)]:
            bad = alias_mutations(fn)
            if bad:
                raise Unsupported("the shared adjacency is mutated through a local alias in %s: %s" % (fn.name, "; ".join("line %d `%s`" % b for b in bad[:3])))
    stray = stray_shared_access(path)
    if stray:
        raise Unsupported("the shared adjacency is touched outside the modelled skeleton: " + ", ".join("self.%s in %s (line %d)" % e for e in stray[:4]))
    extra = unmodelled_writes(path)
    if extra:
        raise Unsupported("planning call writes state the model does not know: " + ", ".join("self.%s in %s (line %d)" % e for e in extra[:4]))
    return flatten(skeleton(path))


def generate(repo):
    prog = program(repo)
    items = "; ".join("%s (* line %d *)" % ("(%s)" % a if " " in a else a, ln) for a, ln in prog)
    return ("(* GENERATED on every run by translator/gen_adjprog.py from sidemantic/core/semantic_graph.py -- do not edit *)\n"
            "From Coq Require Import List.\nRequire Import V.Model.Conc.\nImport ListNotations.\n\n"
            "(* shared-state access skeleton of SemanticGraph.find_relationship_path (build_adjacency inlined) *)\n"
            "Definition adjacency_prog : list action :=\n  [" + items + "].\n")
