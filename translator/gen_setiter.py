"""SetIter_gen.v: every `for ... in <set-typed expression>` site of sidemantic/sql/generator.py (and semantic_graph.py),
regenerated on every run, each classified as Sorted (iterates sorted(...)), Irrelevant (the loop body is order-insensitive by a
syntactic criterion) or Raw (order-sensitive body over an unordered set).  Fail-closed: an iteration whose iterable cannot be
typed as set / non-set is reported as Unknown when it looks set-like."""
import ast
import os

FILES = ["sidemantic/sql/generator.py"]


class Unsupported(Exception):
    pass


SET_CALLS = {"set", "frozenset"}
SET_METHODS = {"union", "intersection", "difference", "symmetric_difference", "copy"}
SET_RETURNING_ATTRS = {"get_dependencies"}          # Metric.get_dependencies(...) returns a set
SET_RETURNING_FUNCS = {"_extract_models_from_sql", "find_all_models_for_query"}


def is_dict_of_sets_annotation(a):
    if a is None:
        return False
    t = ast.unparse(a).replace(" ", "")
    return (t.startswith("dict[") or t.startswith("defaultdict[") or t.startswith("Dict[")) and ("set[" in t.split(",", 1)[-1] or t.split(",", 1)[-1].startswith("set"))


ORDER_KEEPING_WRAPPERS = {"enumerate", "list", "tuple", "iter", "zip", "reversed"}      # iterate their argument in ITS order


def is_set_annotation(a):
    if a is None:
        return False
    s = ast.unparse(a)
    return s.startswith("set[") or s == "set" or s.startswith("set |") or "| set" in s or s.startswith("frozenset")


def walk_local(fn):
    """ast.walk that does not descend into nested function definitions"""
    todo = [n for n in fn.body if not isinstance(n, (ast.FunctionDef, ast.AsyncFunctionDef))]
    while todo:
        n = todo.pop()
        yield n
        for ch in ast.iter_child_nodes(n):
            if not isinstance(ch, (ast.FunctionDef, ast.AsyncFunctionDef, ast.Lambda)):
                todo.append(ch)
            elif isinstance(ch, ast.Lambda):
                todo.append(ch)


def nested_functions(fn):
    return [n for n in walk_local(fn) if False] + [ch for n in [fn] + list(walk_local(fn)) for ch in ast.iter_child_nodes(n) if isinstance(ch, ast.FunctionDef) and ch is not fn]


class FnScan(ast.NodeVisitor):
    def __init__(self, fn, fname, inherited=()):
        self.fn, self.fname = fn, fname
        self.setvars = set(inherited)
        self.sites = []
        # a name (re)assigned locally to something that is not a set shadows an inherited set-typed name
        local_assigned = {n.targets[0].id for n in walk_local(fn) if isinstance(n, ast.Assign) and len(n.targets) == 1 and isinstance(n.targets[0], ast.Name)}
        self.setvars -= local_assigned
        self.setvars -= {a.arg for a in fn.args.args + fn.args.kwonlyargs}
        for a in fn.args.args + fn.args.kwonlyargs:
            if is_set_annotation(a.annotation):
                self.setvars.add(a.arg)
        self.dictsetvars = set()
        for a in fn.args.args + fn.args.kwonlyargs:
            if is_dict_of_sets_annotation(a.annotation):
                self.dictsetvars.add(a.arg)
        for n in walk_local(fn):
            # d: dict[str, set[str]] = {}   /   d = defaultdict(set)   /   d.setdefault(k, set())   /   d[k] = set(...)
            if isinstance(n, ast.AnnAssign) and isinstance(n.target, ast.Name) and is_dict_of_sets_annotation(n.annotation):
                self.dictsetvars.add(n.target.id)
            if isinstance(n, ast.Assign) and len(n.targets) == 1 and isinstance(n.targets[0], ast.Name) and isinstance(n.value, ast.Call) and isinstance(n.value.func, ast.Name) \
                    and n.value.func.id == "defaultdict" and n.value.args and isinstance(n.value.args[0], ast.Name) and n.value.args[0].id in SET_CALLS:
                self.dictsetvars.add(n.targets[0].id)
            if isinstance(n, ast.Call) and isinstance(n.func, ast.Attribute) and n.func.attr == "setdefault" and isinstance(n.func.value, ast.Name) and len(n.args) == 2 \
                    and (isinstance(n.args[1], (ast.Set, ast.SetComp)) or (isinstance(n.args[1], ast.Call) and isinstance(n.args[1].func, ast.Name) and n.args[1].func.id in SET_CALLS)):
                self.dictsetvars.add(n.func.value.id)
            if isinstance(n, ast.Assign) and len(n.targets) == 1 and isinstance(n.targets[0], ast.Subscript) and isinstance(n.targets[0].value, ast.Name) \
                    and (isinstance(n.value, (ast.Set, ast.SetComp)) or (isinstance(n.value, ast.Call) and isinstance(n.value.func, ast.Name) and n.value.func.id in SET_CALLS)):
                self.dictsetvars.add(n.targets[0].value.id)
        self.setordered = set()
        for n in walk_local(fn):
            if isinstance(n, ast.Assign) and len(n.targets) == 1 and isinstance(n.value, ast.Call):
                f = n.value.func
                name = f.attr if isinstance(f, ast.Attribute) else f.id if isinstance(f, ast.Name) else None
                if name in SET_ORDERED_DICT_RETURNS:
                    pos, tgt = SET_ORDERED_DICT_RETURNS[name], n.targets[0]
                    if pos is None and isinstance(tgt, ast.Name):
                        self.setordered.add(tgt.id)
                    if pos is not None and isinstance(tgt, ast.Tuple) and pos < len(tgt.elts) and isinstance(tgt.elts[pos], ast.Name):
                        self.setordered.add(tgt.elts[pos].id)
        for n in walk_local(fn):
            # for k, v in d.items() / for v in d.values(): v is one of the sets
            gens = [(n.target, n.iter)] if isinstance(n, ast.For) else [(g.target, g.iter) for g in getattr(n, "generators", [])] if isinstance(n, (ast.ListComp, ast.SetComp, ast.GeneratorExp, ast.DictComp)) else []
            for tgt, it in gens:
                if isinstance(it, ast.Call) and isinstance(it.func, ast.Attribute) and isinstance(it.func.value, ast.Name) and it.func.value.id in self.dictsetvars:
                    if it.func.attr == "items" and isinstance(tgt, ast.Tuple) and len(tgt.elts) == 2 and isinstance(tgt.elts[1], ast.Name):
                        self.setvars.add(tgt.elts[1].id)
                    if it.func.attr == "values" and isinstance(tgt, ast.Name):
                        self.setvars.add(tgt.id)
        # two passes so that assignments later in the function are known at earlier loops (conservative)
        for _ in range(2):
            for n in walk_local(fn):
                if isinstance(n, ast.Assign) and len(n.targets) == 1 and isinstance(n.targets[0], ast.Name) and self.is_set(n.value):
                    self.setvars.add(n.targets[0].id)
                if isinstance(n, ast.AnnAssign) and isinstance(n.target, ast.Name) and (is_set_annotation(n.annotation) or (n.value is not None and self.is_set(n.value))):
                    self.setvars.add(n.target.id)
                if isinstance(n, ast.AugAssign) and isinstance(n.target, ast.Name) and isinstance(n.op, (ast.BitOr, ast.BitAnd, ast.Sub)) and self.is_set(n.value):
                    self.setvars.add(n.target.id)

    def is_set(self, e):
        if isinstance(e, (ast.Set, ast.SetComp)):
            return True
        # a dict whose keys were inserted in a set's order, and its views
        if isinstance(e, ast.Name) and e.id in getattr(self, "setordered", ()):
            return True
        if isinstance(e, ast.Call) and isinstance(e.func, ast.Attribute) and e.func.attr in ("values", "items", "keys") and isinstance(e.func.value, ast.Name) and e.func.value.id in getattr(self, "setordered", ()):
            return True
        # an element of a dict of sets
        if isinstance(e, ast.Subscript) and isinstance(e.value, ast.Name) and e.value.id in self.dictsetvars:
            return True
        if isinstance(e, ast.Call) and isinstance(e.func, ast.Attribute) and isinstance(e.func.value, ast.Name) and e.func.value.id in self.dictsetvars and e.func.attr in ("get", "setdefault", "pop"):
            return True
        # list(s) / tuple(s) / enumerate(s) / iter(s) / zip(s, ...) / reversed(list(s)) hand the elements over in the set's own order
        if isinstance(e, ast.Call) and isinstance(e.func, ast.Name) and e.func.id in ORDER_KEEPING_WRAPPERS and any(self.is_set(a) for a in e.args):
            return True
        if isinstance(e, ast.Name):
            return e.id in self.setvars
        if isinstance(e, ast.Call):
            f = e.func
            if isinstance(f, ast.Name) and (f.id in SET_CALLS or f.id in SET_RETURNING_FUNCS):
                return True
            if isinstance(f, ast.Attribute) and f.attr in SET_METHODS and self.is_set(f.value):
                return True
            if isinstance(f, ast.Attribute) and (f.attr in SET_RETURNING_ATTRS or f.attr in SET_RETURNING_FUNCS):
                return True
            if isinstance(f, ast.Attribute) and f.attr == "get" and len(e.args) == 2 and self.is_set(e.args[1]):
                return True
        if isinstance(e, ast.BinOp) and isinstance(e.op, (ast.BitOr, ast.BitAnd, ast.Sub)) and (self.is_set(e.left) or self.is_set(e.right)):
            return True
        if isinstance(e, ast.IfExp):
            return self.is_set(e.body) or self.is_set(e.orelse)
        if isinstance(e, ast.BoolOp):
            return any(self.is_set(v) for v in e.values)
        return False

    def order_insensitive(self, stmts):
        """syntactic criterion: the body only accumulates into sets / dicts / counters or returns constants"""
        for s in stmts:
            if isinstance(s, (ast.Pass, ast.Continue)):
                continue
            if isinstance(s, ast.Expr) and isinstance(s.value, ast.Call) and isinstance(s.value.func, ast.Attribute) and s.value.func.attr in ("add", "update", "discard"):
                continue
            if isinstance(s, ast.Expr) and isinstance(s.value, ast.Call) and isinstance(s.value.func, ast.Name) and s.value.func.id in ("add_model",):
                return False
            if isinstance(s, ast.AugAssign) and isinstance(s.op, (ast.BitOr, ast.Add)) and isinstance(s.value, (ast.Constant, ast.Name, ast.Call, ast.Set, ast.SetComp)) and not isinstance(s.target, ast.Subscript):
                if isinstance(s.op, ast.Add) and not (isinstance(s.value, ast.Constant) and isinstance(s.value.value, int)):
                    return False
                continue
            if isinstance(s, ast.Return) and (s.value is None or isinstance(s.value, ast.Constant)):
                continue
            if isinstance(s, ast.Assign) and len(s.targets) == 1 and isinstance(s.targets[0], ast.Name):
                continue                                   # loop-local temporary
            if isinstance(s, ast.Assign) and len(s.targets) == 1 and isinstance(s.targets[0], ast.Subscript):
                continue                                   # dict[key] = value (keyed accumulation)
            if isinstance(s, ast.If):
                if self.order_insensitive(s.body) and self.order_insensitive(s.orelse):
                    continue
                return False
            if isinstance(s, ast.Try):
                if self.order_insensitive(s.body) and all(self.order_insensitive(h.body) for h in s.handlers) and self.order_insensitive(s.orelse):
                    continue
                return False
            if isinstance(s, ast.For):
                if self.order_insensitive(s.body):
                    continue
                return False
            return False
        return True

    def scan(self):
        for sub in nested_functions(self.fn):
            self.sites += FnScan(sub, self.fname, inherited=self.setvars).scan()
        for n in walk_local(self.fn):
            # sorted(<set>, key=...) anywhere: a non-total key leaves ties in the set's own order
            if (isinstance(n, ast.Call) and isinstance(n.func, ast.Name) and n.func.id == "sorted" and n.args and self.is_set(n.args[0])
                    and any(k.arg == "key" for k in n.keywords)):
                key = next(k.value for k in n.keywords if k.arg == "key")
                total = isinstance(key, ast.Lambda) and isinstance(key.body, ast.Tuple)      # e.g. key=lambda d: (-len(d), d)
                self.sites.append((self.fname, self.fn.name, n.lineno, ast.unparse(n.args[0])[:60], "Sorted" if total else "PartialSort"))
            iters = []
            if isinstance(n, ast.For):
                iters.append((n.iter, n.body, n.lineno, n.target))
            if isinstance(n, (ast.ListComp, ast.GeneratorExp, ast.DictComp)):
                for g in n.generators:
                    iters.append((g.iter, None, n.lineno, g.target))
            for it, body, line, target in iters:
                srt = isinstance(it, ast.Call) and isinstance(it.func, ast.Name) and it.func.id == "sorted"
                inner = it.args[0] if srt and it.args else it
                if not self.is_set(inner):
                    continue
                if srt and any(k.arg == "key" for k in it.keywords):
                    continue                  # reported by the sorted(..., key=...) rule above
                elif srt:
                    kind = "Sorted"
                elif body is not None and self.position_used(it, target, body):
                    kind = "Raw"               # enumerate(<set>): the POSITION of an element in the set's order flows into a value
                elif body is not None and self.order_insensitive(body):
                    kind = "Irrelevant"
                elif body is None and isinstance(n, ast.GeneratorExp):
                    kind = "Irrelevant" if self._gen_consumer_ok(n) else "Raw"
                elif body is None and isinstance(n, ast.DictComp):
                    kind = "Irrelevant"
                else:
                    kind = "Raw"
                self.sites.append((self.fname, self.fn.name, line, ast.unparse(inner)[:60], kind))
        return self.sites

    def position_used(self, it, target, body):
        """for i, x in enumerate(<set>): is i used other than inside a subscript / slice (where it only selects the remaining elements)?"""
        if not (isinstance(it, ast.Call) and isinstance(it.func, ast.Name) and it.func.id == "enumerate" and isinstance(target, ast.Tuple) and target.elts and isinstance(target.elts[0], ast.Name)):
            return False
        idx = target.elts[0].id

        def uses(node, in_slice=False):
            if isinstance(node, ast.Name) and node.id == idx:
                return not in_slice
            if isinstance(node, ast.Subscript):
                return uses(node.value, in_slice) or uses(node.slice, True)
            return any(uses(ch, in_slice) for ch in ast.iter_child_nodes(node))
        return any(uses(st) for st in body)

    def _gen_consumer_ok(self, gen):
        # any(...)/all(...)/set(...)/sorted(...)/sum(...) over a generator do not depend on order
        for p in walk_local(self.fn):
            if isinstance(p, ast.Call) and gen in p.args and isinstance(p.func, ast.Name) and p.func.id in ("any", "all", "set", "sorted", "sum", "max", "min", "frozenset", "len"):
                return True
        return False


def discover_set_returning(mod):
    """names of the functions / methods of the module that return a set: a `-> set[...]` annotation, or a `return` of a set display /
    set() call / set comprehension / a local name assigned one (found by the same local typing).  Their call sites are set-typed."""
    found = set()
    fns = [n for n in ast.walk(mod) if isinstance(n, ast.FunctionDef)]
    for _ in range(2):            # second pass: functions returning the result of another set-returning function
        for fn in fns:
            if fn.name in found:
                continue
            if is_set_annotation(fn.returns):
                found.add(fn.name)
                continue
            SET_RETURNING_FUNCS.update(found)
            sc = FnScan(fn, "")
            for n in walk_local(fn):
                if isinstance(n, ast.Return) and n.value is not None and sc.is_set(n.value):
                    found.add(fn.name)
                    break
    return found


SET_ORDERED_DICT_RETURNS = {}      # function name -> position in the returned tuple (None: the dict itself) of a dict whose KEYS were inserted in a set's order


def discover_set_ordered_dict_returning(mod):
    """functions that build a dict by iterating a set-typed value ({k: ... for k in <set>}, or d[k] = ... in a loop over a set) and return it: the dict's own
    iteration order is the set's.  Their call sites bind set-ordered dicts."""
    out = {}
    for fn in [n for n in ast.walk(mod) if isinstance(n, ast.FunctionDef)]:
        sc = FnScan(fn, "")
        ordered = set()
        for n in walk_local(fn):
            if isinstance(n, ast.Assign) and len(n.targets) == 1 and isinstance(n.targets[0], ast.Name) and isinstance(n.value, ast.DictComp) \
                    and any(sc.is_set(g.iter) for g in n.value.generators):
                ordered.add(n.targets[0].id)
        for n in walk_local(fn):
            if isinstance(n, ast.Return) and n.value is not None:
                if isinstance(n.value, ast.Name) and n.value.id in ordered:
                    out[fn.name] = None
                if isinstance(n.value, ast.Tuple):
                    for k, el in enumerate(n.value.elts):
                        if isinstance(el, ast.Name) and el.id in ordered:
                            out[fn.name] = k
    return out


def sites(repo):
    out = []
    for f in FILES:
        mod = ast.parse(open(os.path.join(repo, f)).read())
        SET_RETURNING_FUNCS.update(discover_set_returning(mod))
        SET_ORDERED_DICT_RETURNS.update(discover_set_ordered_dict_returning(mod))
        for n in ast.walk(mod):
            if isinstance(n, ast.FunctionDef):
                # nested functions are scanned as part of their parent (they share its set-typed names)
                pass
        for cls in [n for n in mod.body if isinstance(n, ast.ClassDef)]:
            for fn in [n for n in cls.body if isinstance(n, ast.FunctionDef)]:
                out += FnScan(fn, f).scan()
        for fn in [n for n in mod.body if isinstance(n, ast.FunctionDef)]:
            out += FnScan(fn, f).scan()
    # process-salted builtins: hash() of text and id() differ from one process / hash seed to the next, so a value derived from them must not reach generated SQL.
    # Any call outside a __hash__ / __eq__ method, in the generator, the rewriter and the core package, is listed as a Raw site (the obligation then fails).
    import glob
    for path in sorted(glob.glob(os.path.join(repo, "sidemantic/sql/*.py")) + glob.glob(os.path.join(repo, "sidemantic/core/*.py")) + [os.path.join(repo, "sidemantic/validation.py")]):
        rel = os.path.relpath(path, repo)
        if rel.endswith("preagg_recommender.py"):
            continue                                   # the recommender is not on the compile path
        mod = ast.parse(open(path).read())
        for fn in [n for n in ast.walk(mod) if isinstance(n, ast.FunctionDef) and n.name not in ("__hash__", "__eq__")]:
            for n in ast.walk(fn):
                if isinstance(n, ast.Call) and isinstance(n.func, ast.Name) and n.func.id in ("hash", "id"):
                    out.append((rel, fn.name, n.lineno, ast.unparse(n)[:60], "Raw"))
    # a nested function is walked with its parent AND (if it were top-level) alone; de-duplicate
    seen, res = set(), []
    for s in out:
        if (s[0], s[2], s[3]) not in seen:
            seen.add((s[0], s[2], s[3]))
            res.append(s)
    return sorted(res, key=lambda s: (s[0], s[2]))


def generate(repo):
    ss = sites(repo)
    def q(x):
        return '"' + x.replace('"', '""') + '"'
    items = ";\n   ".join("(%s, %s, %d, %s, %s)" % (q(f), q(fn), line, q(it), kind) for f, fn, line, it, kind in ss)
    return ("(* GENERATED on every run by translator/gen_setiter.py from sidemantic/sql/generator.py -- do not edit *)\n"
            "From Coq Require Import String List.\nRequire Import V.Model.Determ.\nImport ListNotations.\nOpen Scope string_scope.\n\n"
            "(* (file, function, line, iterated expression, classification) of every iteration over a set-typed value *)\n"
            "Definition set_iteration_sites : list (string * string * nat * string * iter_kind) :=\n  [" + items + "].\n")


if __name__ == "__main__":
    import sys
    for s in sites(sys.argv[1] if len(sys.argv) > 1 else "/repo"):
        print(s)
