"""Required_gen.v: the ordered model list SQLGenerator._find_required_models returns (its first element is the BASE model of the query, the rest the join
order) on scripted queries with model-qualified metrics, extracted from generator.py on every run by executing the method's AST with
translator/pyinterp.py (fail closed; sqlglot scripted as in gen_classify) and validated against CPython.  Graph-level metrics (resolved recursively
through the graph) are outside this table."""
import itertools
import sys

from translator.pyinterp import Interp, Obj, PyRaise, Unsupported, find_function
from translator import gen_classify as gc

DIM_LISTS = [[], ["a.d"], ["b.d__month"], ["b.d", "a.e"], ["c.d__day", "a.d", "c.e"], ["nodot"], ["a.d__x__y"]]
MET_LISTS = [[], ["a.x"], ["b.y", "a.x"], ["c.z", "c.w"], ["b.y"]]
# filters as scripted atoms of gen_classify: Ad -> a.d, Bd -> b.d, AB -> a.d and b.d, Acte -> a_cte.d, U unqualified, X -> x.d, BAD unparseable
FILTER_LISTS = [None, [], ["Bd"], ["AB"], ["Acte", "Bd"], ["U"], ["X", "Ad"], ["BAD", "Bd"], ["Bd&Ad"]]


def scenarios():
    return itertools.product(DIM_LISTS, MET_LISTS, FILTER_LISTS)


def table(repo, real=False):
    fn, funcs = find_function(repo + "/sidemantic/sql/generator.py", "_find_required_models", "SQLGenerator")
    rows = []
    for dims, mets, filters in scenarios():
        if real:
            import sidemantic.sql.generator as G

            class Column:
                def __init__(self, t, c):
                    self.table, self.name = t, c

            class Node:
                def __init__(self, o):
                    self.o = o

                def find_all(self, cls):
                    return [Column(x.attrs["table"], x.attrs["name"]) for x in self.o.methods["find_all"](gc.CLS_COLUMN)] if cls is Column else []

            class FakeSqlglot:
                @staticmethod
                def parse_one(text, dialect=None):
                    try:
                        return Node(gc.node_for(text))
                    except PyRaise as e:
                        raise ValueError(str(e))

            class FakeExp:
                pass
            FakeExp.Column = Column
            saved = (G.sqlglot, G.exp)
            try:
                G.sqlglot, G.exp = FakeSqlglot, FakeExp
                gen = G.SQLGenerator.__new__(G.SQLGenerator)
                gen.dialect = "duckdb"

                class Gr:
                    def get_metric(self, n):
                        raise KeyError(n)
                gen.graph = Gr()
                res = gen._find_required_models(list(mets), list(dims), None if filters is None else list(filters))
            finally:
                G.sqlglot, G.exp = saved
        else:
            sqlglot = Obj("sqlglot", {}, {"parse_one": lambda text, dialect=None: gc.node_for(text)})
            exp = Obj("exp", {"And": gc.CLS_AND, "Column": gc.CLS_COLUMN})
            logging = Obj("logging", {}, {"debug": lambda *a, **k: None})

            def get_metric(n):
                raise PyRaise("KeyError", n)
            selfo = Obj("self", {"dialect": "duckdb", "graph": Obj("graph", {}, {"get_metric": get_metric})})
            it = Interp({}, {"sqlglot": sqlglot, "exp": exp, "logging": logging})
            res = it.call_def(fn, [list(mets), list(dims), None if filters is None else list(filters)], self_obj=selfo)
        if not isinstance(res, list) or not all(isinstance(x, str) for x in res):
            raise Unsupported("_find_required_models returns %r" % (res,))
        rows.append((dims, mets, filters, res))
    return rows


def q(s):
    return '"%s"' % s


def lst(l):
    return "[%s]" % "; ".join(q(x) for x in l)


def generate(repo):
    rows = table(repo)
    items = []
    for dims, mets, filters, res in rows:
        # the table names a filter mentions, in order of appearance (unparseable text contributes nothing)
        ftabs = []
        for f in (filters or []):
            for part in f.split("&"):
                for t, c in (gc.ATOMS.get(part) or []):
                    if t:
                        ftabs.append(t)
        items.append("(%s, %s, %s, %s)" % (lst(dims), lst(mets), lst(ftabs), lst(res)))
    return ("(* GENERATED on every run by translator/gen_required.py from sidemantic/sql/generator.py (_find_required_models) -- do not edit *)\n"
            "From Coq Require Import String List Bool.\nImport ListNotations.\nOpen Scope string_scope.\n\n"
            "(* per scripted query: the dimension references, the (model-qualified) metric references, the table qualifiers the filters mention in order of appearance,\n"
            "   the model list returned (first = base model) *)\n"
            "Definition required_rows : list (list string * list string * list string * list string) :=\n  [%s].\n" % ";\n   ".join(items))


if __name__ == "__main__":
    sys.stdout.write(generate(sys.argv[1] if len(sys.argv) > 1 else "/repo"))
