"""Validate_gen.v: the errors validation.validate_query reports on scripted graphs and reference lists, extracted from validation.py on every run
by executing the function's AST with translator/pyinterp.py (fail closed) and validated against CPython.  Error texts are mapped to the
constructors of Model/Valid.verr; the join-path errors, whose order and orientation depend on set iteration, are given as a sorted set."""
import itertools
import re
import sys

from translator.pyinterp import Interp, Obj, PyRaise, Unsupported, find_function

# scripted graph: a (dims: t time, s plain; metrics x), b (dims: u time; metrics y), c (dims: v plain; metrics z) -- a and b are joined, c is not;
# graph-level metrics: g1 (sql "a.x"), g2 (sql "c.z"), g3 (no dotted sql)
MODELS = {"a": ({"t": "time", "s": "categorical"}, ["x"]), "b": ({"u": "time"}, ["y"]), "c": ({"v": "categorical"}, ["z"])}
GRAPH_METRICS = {"g1": "a.x", "g2": "c.z", "g3": None, "g4": None, "g5": "b.y + a.x"}
# what Metric.get_dependencies answers (scripted: it parses SQL with sqlglot): g4 is a ratio of a.x and c.z
GRAPH_DEPS = {"g1": ["a.x"], "g2": ["c.z"], "g3": ["plain"], "g4": ["a.x", "c.z"], "g5": ["b.y", "a.x"]}
METRIC_LISTS = [[], ["a.x"], ["a.nope"], ["q.x"], ["g1"], ["g2", "b.y"], ["g3"], ["nope"], ["a.x", "b.y"], ["a.x", "c.z"], ["b.y", "c.z", "a.x"], ["g4"], ["g5"], ["g4", "b.y"], ["g5", "g3"]]
DIM_LISTS = [[], ["a.s"], ["a.t__month"], ["a.t__fortnight"], ["a.s__day"], ["a.nope"], ["q.s"], ["s"], ["b.u__week", "a.s"], ["c.v"], ["c.v__year", "b.u"], ["a.t__day", "a.t__year"],
             ["nodot__day"], ["q.s__minute"]]


def scenarios():
    return itertools.product(METRIC_LISTS, DIM_LISTS)


def connected(x, y):
    return "c" not in (x, y) or x == y


def classify(e):
    m = re.fullmatch(r"Model '(\w+)' not found \(referenced in '.*'\)", e)
    if m:
        return "EModel \"%s\"" % m.group(1)
    m = re.fullmatch(r"Metric '(\w+)' not found in model '(\w+)' \(referenced in '.*'\)", e)
    if m:
        return "EMetric \"%s\" \"%s\"" % (m.group(2), m.group(1))
    m = re.fullmatch(r"Metric '(\w+)' not found", e)
    if m:
        return "EBareMetric \"%s\"" % m.group(1)
    m = re.fullmatch(r"Invalid time granularity '(\w+)' in '.*'\. Must be one of: hour, day, week, month, quarter, year", e)
    if m:
        return "EGran \"%s\"" % m.group(1)
    m = re.fullmatch(r"Dimension '(\w+)' not found in model '(\w+)' \(referenced in '.*'\)", e)
    if m:
        return "EDim \"%s\" \"%s\"" % (m.group(2), m.group(1))
    m = re.fullmatch(r"Time granularity '\w+' cannot be applied to non-time dimension '(\w+)' \(referenced in '(\w+)\.\w+'\)", e)
    if m:
        return "ENonTime \"%s\" \"%s\"" % (m.group(2), m.group(1))
    m = re.fullmatch(r"Dimension reference '(\w+)' must be in 'model\.dimension' format", e)
    if m:
        return "EFormat \"%s\"" % m.group(1)
    m = re.fullmatch(r"No join path found between models '(\w+)' and '(\w+)'\. Add relationships to enable joining these models\.", e)
    if m:
        a, b = sorted([m.group(1), m.group(2)])
        return ("nopath", a, b)
    raise Unsupported("validation error text not understood: %r" % e)


def table(repo, real=False):
    fn, _ = find_function(repo + "/sidemantic/validation.py", "validate_query")
    rows = []
    for mets, dims in scenarios():
        if real:
            from sidemantic.validation import validate_query

            class D:
                def __init__(self, t):
                    self.type = t

            class M:
                def __init__(self, dims_, mets_):
                    self.d, self.m = dims_, mets_

                def get_metric(self, n):
                    return object() if n in self.m else None

                def get_dimension(self, n):
                    return D(self.d[n]) if n in self.d else None

            class GM:
                def __init__(self, sql, deps):
                    self.sql, self.deps = sql, deps

                def get_dependencies(self, graph=None, model_context=None):
                    return set(self.deps)

            class G:
                models = {k: M(*v) for k, v in MODELS.items()}

                def get_metric(self, n):
                    if n not in GRAPH_METRICS:
                        raise KeyError(n)
                    return GM(GRAPH_METRICS[n], GRAPH_DEPS[n])

                def find_relationship_path(self, x, y):
                    if not connected(x, y):
                        raise ValueError("no path")
                    return []
            errs = validate_query(list(mets), list(dims), G())
        else:
            def model_obj(k):
                d, m = MODELS[k]
                return Obj("model:" + k, {}, {"get_metric": lambda n, _m=m: Obj("metric") if n in _m else None,
                                              "get_dimension": lambda n, _d=d: Obj("dim", {"type": _d[n]}) if n in _d else None})

            def get_metric(n):
                if n not in GRAPH_METRICS:
                    raise PyRaise("KeyError", n)
                return Obj("gmetric", {"sql": GRAPH_METRICS[n]}, {"get_dependencies": lambda graph=None, model_context=None, _n=n: set(GRAPH_DEPS[_n])})

            def frp(x, y):
                if not connected(x, y):
                    raise PyRaise("ValueError", "no path")
                return []
            g = Obj("graph", {"models": {k: model_obj(k) for k in MODELS}}, {"get_metric": get_metric, "find_relationship_path": frp})
            errs = Interp({}).call_def(fn, [list(mets), list(dims), g])
        if not isinstance(errs, list) or not all(isinstance(e, str) for e in errs):
            raise Unsupported("validate_query returns %r" % (errs,))
        cl = [classify(e) for e in errs]
        first_nopath = next((i for i, x in enumerate(cl) if isinstance(x, tuple)), len(cl))
        if any(not isinstance(x, tuple) for x in cl[first_nopath:]):
            raise Unsupported("a join-path error precedes a reference error")
        rows.append((mets, dims, cl[:first_nopath], sorted(set(cl[first_nopath:])), len(cl) - first_nopath))
    return rows


def q(s):
    return '"%s"' % s


def mref(m):
    return "MQual %s %s" % tuple(q(x) for x in m.split(".")) if "." in m else "MBare %s" % q(m)


def dref(d):
    base, g = (d.rsplit("__", 1) + [None])[:2] if "__" in d else (d, None)
    mo, dn = base.split(".") if "." in base else (None, base)
    return "{| dq_model := %s; dq_dim := %s; dq_gran := %s |}" % ("None" if mo is None else "(Some %s)" % q(mo), q(dn), "None" if g is None else "(Some %s)" % q(g))


def generate(repo):
    rows = table(repo)
    items = []
    for mets, dims, errs, nopaths, n_nopath in rows:
        if n_nopath != len(nopaths):
            raise Unsupported("the same unjoinable pair is reported twice")
        items.append("([%s], [%s], [%s], [%s])" % ("; ".join(mref(m) for m in mets), "; ".join(dref(d) for d in dims), "; ".join(errs),
                                                   "; ".join("(%s, %s)" % (q(a), q(b)) for _, a, b in nopaths)))
    return ("(* GENERATED on every run by translator/gen_validate.py from sidemantic/validation.py (validate_query) -- do not edit *)\n"
            "From Coq Require Import String List Bool.\nRequire Import V.Model.Graph V.Model.Valid.\nImport ListNotations.\nOpen Scope string_scope.\n\n"
            "(* per scripted scenario: the metric references, the dimension references, the reference errors in order, the unjoinable pairs (sorted, each pair\n"
            "   with its smaller name first: their order in the code depends on set iteration) *)\n"
            "Definition validate_rows : list (list mref * list dref * list verr * list (string * string)) :=\n  [%s].\n" % ";\n   ".join(items))


if __name__ == "__main__":
    sys.stdout.write(generate(sys.argv[1] if len(sys.argv) > 1 else "/repo"))
