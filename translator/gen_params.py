"""Params_gen.v: Parameter.format_value (sidemantic/core/parameter.py) translated into the dynamic Python-value universe of
Base/PyVal.v, regenerated on every run.  Fail-closed: any AST shape outside the subset raises Unsupported."""
import ast
import os


class Unsupported(Exception):
    pass


def q(s):
    return '"' + s.replace('"', '""') + '"'


class T:
    """Every Python expression becomes a Gallina term of type [pyval]; statement lists become terms of type [res] (Ret v | Raise)."""

    def e(self, x):
        if isinstance(x, ast.Constant):
            v = x.value
            if v is None:
                return "PNone"
            if isinstance(v, bool):
                return f'(PBool {"true" if v else "false"})'
            if isinstance(v, str):
                return f"(PStr {q(v)})"
            if isinstance(v, int):
                return f"(PInt ({v})%Z)"
            raise Unsupported(repr(v))
        if isinstance(x, ast.Name):
            return x.id
        if isinstance(x, ast.Attribute) and isinstance(x.value, ast.Name) and x.value.id == "self":
            return f"self_{x.attr}"
        if isinstance(x, ast.JoinedStr):          # f-string -> concatenation of py_str
            parts = []
            for p in x.values:
                if isinstance(p, ast.Constant):
                    parts.append(f"(PStr {q(p.value)})")
                elif isinstance(p, ast.FormattedValue) and p.conversion == -1 and p.format_spec is None:
                    parts.append(f"(py_str {self.e(p.value)})")
                else:
                    raise Unsupported("f-string part")
            acc = parts[0]
            for p in parts[1:]:
                acc = f"(py_concat {acc} {p})"
            return acc
        if isinstance(x, ast.Call) and not x.keywords:
            f = x.func
            if isinstance(f, ast.Name) and f.id == "str" and len(x.args) == 1:
                return f"(py_str {self.e(x.args[0])})"
            if isinstance(f, ast.Name) and f.id == "float" and len(x.args) == 1:
                a = x.args[0]
                if isinstance(a, ast.Constant) and a.value in ("inf", "nan"):      # constant folding of float("inf") / float("nan")
                    return "(PFloat FPosInf)" if a.value == "inf" else "(PFloat FNan)"
                return f"(py_float {self.e(a)})"
            if isinstance(f, ast.Name) and f.id == "isinstance" and len(x.args) == 2:
                ty = x.args[1]
                names = [t.id for t in ty.elts] if isinstance(ty, ast.Tuple) else [ty.id]
                return f'(py_isinstance {self.e(x.args[0])} [{"; ".join(q(n) for n in names)}])'
            if isinstance(f, ast.Attribute) and f.attr == "replace" and len(x.args) == 2:
                return f"(py_replace {self.e(f.value)} {self.e(x.args[0])} {self.e(x.args[1])})"
            if isinstance(f, ast.Attribute) and f.attr == "isalnum" and not x.args:
                return f"(py_isalnum {self.e(f.value)})"
            raise Unsupported("call " + ast.dump(f)[:80])
        if isinstance(x, ast.Compare):
            if len(x.ops) == 1 and isinstance(x.ops[0], ast.Is) and isinstance(x.comparators[0], ast.Constant) and x.comparators[0].value is None:
                return f"(py_is_none {self.e(x.left)})"
            if len(x.ops) == 1 and isinstance(x.ops[0], ast.Eq):
                return f"(py_eq {self.e(x.left)} {self.e(x.comparators[0])})"
            if all(isinstance(o, ast.Lt) for o in x.ops):       # chained a < b < c
                terms = [x.left] + x.comparators
                cs = [f"(py_lt {self.e(a)} {self.e(b)})" for a, b in zip(terms, terms[1:])]
                acc = cs[0]
                for c in cs[1:]:
                    acc = f"(py_and {acc} {c})"
                return acc
            raise Unsupported("compare")
        if isinstance(x, ast.BoolOp) and isinstance(x.op, ast.And):
            parts = [self.e(v) for v in x.values]
            acc = parts[0]
            for c in parts[1:]:
                acc = f"(py_and {acc} {c})"
            return acc
        if isinstance(x, ast.UnaryOp) and isinstance(x.op, ast.Not):
            return f"(py_not {self.e(x.operand)})"
        if isinstance(x, ast.UnaryOp) and isinstance(x.op, ast.USub):
            return f"(py_neg {self.e(x.operand)})"
        if isinstance(x, ast.IfExp):
            return f"(if py_truthy {self.e(x.test)} then {self.e(x.body)} else {self.e(x.orelse)})"
        raise Unsupported(ast.dump(x)[:100])

    def block(self, stmts, k):
        """k = Gallina term for 'what happens after this block falls through'"""
        if not stmts:
            return k
        s, rest = stmts[0], stmts[1:]
        if isinstance(s, ast.Expr) and isinstance(s.value, ast.Constant):
            return self.block(rest, k)
        if isinstance(s, ast.Return):
            return f"(ret_val {self.e(s.value)})"
        if isinstance(s, ast.Raise):
            return "Raise"
        if isinstance(s, ast.Assign) and len(s.targets) == 1 and isinstance(s.targets[0], ast.Name):
            # expressions that may raise (float()) are bound through the error monad
            return f"(bind_val {self.e(s.value)} (fun {s.targets[0].id} =>\n  {self.block(rest, k)}))"
        if isinstance(s, ast.If):
            after = self.block(rest, k)
            # `if c: <assign>` with fall-through is encoded by duplicating the continuation (small functions only)
            return f"(if_truthy {self.e(s.test)}\n   {self.block(s.body, after)}\n   {self.block(s.orelse, after)})"
        if isinstance(s, ast.Try) and not s.orelse and not s.finalbody and all(
                len(h.body) == 1 and isinstance(h.body[0], ast.Raise) for h in s.handlers):
            # try: body  except (...): raise   ==  body (every exception becomes Raise either way)
            return self.block(s.body + rest, k)
        raise Unsupported(ast.dump(s)[:100])


def generate(repo):
    path = os.path.join(repo, "sidemantic/core/parameter.py")
    mod = ast.parse(open(path).read())
    fns = [n for n in ast.walk(mod) if isinstance(n, ast.FunctionDef) and n.name == "format_value"]
    if len(fns) != 1:
        raise Unsupported("format_value: %d definitions" % len(fns))
    fn = fns[0]
    if [a.arg for a in fn.args.args] != ["self", "value"]:
        raise Unsupported("format_value signature")
    body = T().block(fn.body, "Raise")
    return ("(* GENERATED on every run by translator/gen_params.py from sidemantic/core/parameter.py -- do not edit *)\n"
            "From Coq Require Import ZArith String List Bool.\nRequire Import V.Base.PyVal.\nImport ListNotations.\nOpen Scope string_scope.\n\n"
            "Section FormatValue.\n(* oracles: external behaviour recorded in the trusted base *)\n"
            "Variable z_repr : Z -> string.\nVariable float_parse : string -> option pyfloat.\nVariable isalnum_char : Ascii.ascii -> bool.\n"
            "Local Notation py_str := (PyVal.py_str z_repr).\nLocal Notation py_float := (PyVal.py_float z_repr float_parse).\nLocal Notation py_isalnum := (PyVal.py_isalnum isalnum_char).\n"
            "Variable self_type : pyval.\nVariable self_default_value : pyval.\n"
            f"Definition format_value (value : pyval) : res :=\n  {body}.\nEnd FormatValue.\n")
