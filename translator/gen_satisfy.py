"""Satisfy_gen.v: the decision table of PreAggregationMatcher.can_satisfy_query over scripted rollups and queries, extracted from
preagg_matcher.py on every run by executing the method's AST with translator/pyinterp.py (fail closed).  The three sub-decisions it calls
(_is_measure_derivable, _is_granularity_compatible -- both translated separately into Derivable_gen / GranCompat_gen -- and
_extract_filter_columns, which parses filter text with sqlglot) are scripted oracles here: what is extracted is how can_satisfy_query
COMBINES them with the dimension-subset and filter-column tests."""
import itertools
import sys

from translator.pyinterp import Interp, Obj, Unsupported, find_function

P_DIMS = [[], ["a", "b"]]
P_TIME = [None, "ts"]
P_GRAN = [None, "day"]
Q_DIMS = [[], ["a"], ["c"], ["a", "ts"]]
Q_METS = [[], ["m_ok"], ["m_missing"], ["m_ok", "m_nonderiv"]]
Q_GRAN = [None, "compatible", "incompatible"]
Q_FILT = [None, [], ["a"], ["ts", "b"], ["a", "z"]]


def scenarios():
    return itertools.product(P_DIMS, P_TIME, P_GRAN, Q_DIMS, Q_METS, Q_GRAN, Q_FILT)


def run_one(fn, funcs, sc, real=False):
    pd, pt, pg, qd, qm, qg, qf = sc
    preagg_attrs = {"dimensions": list(pd), "time_dimension": pt, "granularity": pg, "measures": ["m_ok", "m_nonderiv"], "name": "r"}

    def get_metric(name):
        return None if name == "m_missing" else Obj("metric:" + name, {"name": name})
    if real:
        from sidemantic.core.preagg_matcher import PreAggregationMatcher

        class PA:
            pass
        pa = PA()
        pa.__dict__.update(preagg_attrs)

        class Met:
            def __init__(self, n):
                self.name = n

        class Mod:
            def get_metric(self, name):
                return None if name == "m_missing" else Met(name)
        m = PreAggregationMatcher.__new__(PreAggregationMatcher)
        m.model = Mod()
        m._is_measure_derivable = lambda metric, preagg: metric.name == "m_ok"
        m._is_granularity_compatible = lambda q, p: q == "compatible"
        m._extract_filter_columns = lambda filters: set(filters)
        return bool(m.can_satisfy_query(pa, list(qm), list(qd), qg, None if qf is None else list(qf)))
    preagg = Obj("preagg", preagg_attrs)
    selfo = Obj("self", {"model": Obj("model", {}, {"get_metric": get_metric})},
                {"_is_measure_derivable": lambda metric, pa: metric.attrs["name"] == "m_ok",
                 "_is_granularity_compatible": lambda q, p: q == "compatible",
                 "_extract_filter_columns": lambda filters: set(filters)})
    it = Interp({})          # no sibling method is inlined: the three helpers are the scripted oracles above
    res = it.call_def(fn, [preagg, list(qm), list(qd), qg, None if qf is None else list(qf)], self_obj=selfo)
    if not isinstance(res, bool):
        raise Unsupported("can_satisfy_query returns %r" % (res,))
    return res


def table(repo, real=False):
    fn, funcs = find_function(repo + "/sidemantic/core/preagg_matcher.py", "can_satisfy_query", "PreAggregationMatcher")
    return [(sc, run_one(fn, funcs, sc, real)) for sc in scenarios()]


def q(s):
    return '"%s"' % s


def opt(s):
    return "None" if s is None else "(Some %s)" % q(s)


def lst(l):
    return "[%s]" % "; ".join(q(x) for x in l)


def generate(repo):
    rows = table(repo)
    items = []
    for (pd, pt, pg, qd, qm, qg, qf), res in rows:
        mets = "[%s]" % "; ".join("(%s, %s)" % ("false" if m == "m_missing" else "true", "true" if m == "m_ok" else "false") for m in qm)
        items.append("({| p_dims := %s; p_time := %s; p_gran := %s |}, %s, %s, %s, %s, %s, %s)" % (
            lst(pd), opt(pt), opt(pg), lst(qd), mets, opt(qg), "true" if qg == "compatible" else "false", "None" if qf is None else "(Some %s)" % lst(qf), "true" if res else "false"))
    return ("(* GENERATED on every run by translator/gen_satisfy.py from sidemantic/core/preagg_matcher.py (can_satisfy_query) -- do not edit *)\n"
            "From Coq Require Import String List Bool.\nRequire Import V.Model.Satisfy.\nImport ListNotations.\nOpen Scope string_scope.\n\n"
            "(* per scripted scenario: the rollup, the query dimensions, per query metric (found in the model?, derivable?), the query granularity and the answer of\n"
            "   the granularity test, the columns of the query filters (None: no filters argument), the verdict *)\n"
            "Definition satisfy_rows : list (rollup * list string * list (bool * bool) * option string * bool * option (list string) * bool) :=\n  [%s].\n" % ";\n   ".join(items))


if __name__ == "__main__":
    sys.stdout.write(generate(sys.argv[1] if len(sys.argv) > 1 else "/repo"))
