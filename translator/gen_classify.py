"""Classify_gen.v: how SQLGenerator._classify_filters_for_pushdown distributes query filters over the model CTEs and the main query, on
scripted filters, extracted from generator.py on every run by executing the method's AST with translator/pyinterp.py (fail closed).
sqlglot is scripted: a filter text is an identifier of a scripted parse tree (conjunction of atoms; each atom lists the (table, column)
pairs it mentions), so what is extracted is the method's own logic: AND-flattening, `_cte` stripping, metric detection, the
one-model rule."""
import itertools
import sys

from translator.pyinterp import Interp, Obj, PyRaise, Unsupported, find_function

MODELS = ["a", "b"]
METRIC_COLS = {("a", "m"), ("b", "m")}
# atoms: name -> list of (table, column) it mentions
ATOMS = {
    "Ad": [("a", "d")], "Bd": [("b", "d")], "Am": [("a", "m")], "Acte": [("a_cte", "d")], "AB": [("a", "d"), ("b", "d")],
    "U": [("", "d")], "X": [("x", "d")], "AdU": [("a", "d"), ("", "e")], "BdX": [("b", "d"), ("x", "d")], "AmBd": [("a", "m"), ("b", "d")],
    "BAD": None,          # text sqlglot cannot parse
}
CLS_AND = Obj("class:And")
CLS_COLUMN = Obj("class:Column")


def node_for(text):
    """scripted parse tree of a filter text: atoms joined by '&'"""
    parts = text.split("&")
    if any(ATOMS.get(p, 0) is None for p in parts):
        raise PyRaise("ParseError", text)
    if any(p not in ATOMS for p in parts):
        raise Unsupported("scenario text %r" % text)

    def atom_node(p):
        cols = [Obj("col", {"table": t, "name": c, "__class__": CLS_COLUMN}) for t, c in ATOMS[p]]
        return Obj("atom:" + p, {"__class__": None}, {"sql": lambda dialect=None, _p=p: _p, "find_all": lambda cls, _c=cols: list(_c) if cls is CLS_COLUMN else [],
                                                      "flatten": lambda _p=p: [atom_node(_p)]})
    if len(parts) == 1:
        return atom_node(parts[0])
    kids = [atom_node(p) for p in parts]
    allcols = [c for k in kids for c in k.methods["find_all"](CLS_COLUMN)]
    return Obj("and:" + text, {"__class__": CLS_AND}, {"sql": lambda dialect=None, _t=text: _t, "flatten": lambda _k=kids: list(_k),
                                                       "find_all": lambda cls, _c=allcols: list(_c) if cls is CLS_COLUMN else []})


def scenarios():
    singles = list(ATOMS)
    for t in singles:
        yield [t]
    for a, b in itertools.product(["Ad", "Bd", "Am", "AB", "U", "Acte", "BAD", "AmBd"], repeat=2):
        yield ["%s&%s" % (a, b)] if "BAD" not in (a, b) else [a, b]
        yield [a, b]
    yield ["Ad&Bd&Am"]
    yield []


def env_objects():
    def get_model(name):
        if name not in MODELS:
            raise PyRaise("KeyError", name)
        return Obj("model:" + name, {}, {"get_metric": lambda col, _n=name: Obj("metric") if (_n, col) in METRIC_COLS else None})
    sqlglot = Obj("sqlglot", {}, {"parse_one": lambda text, dialect=None: node_for(text)})
    exp = Obj("exp", {"And": CLS_AND, "Column": CLS_COLUMN})
    selfo = Obj("self", {"dialect": "duckdb", "graph": Obj("graph", {}, {"get_model": get_model})})
    return sqlglot, exp, selfo


def table(repo):
    fn, funcs = find_function(repo + "/sidemantic/sql/generator.py", "_classify_filters_for_pushdown", "SQLGenerator")
    rows = []
    for fl in scenarios():
        sqlglot, exp, selfo = env_objects()
        it = Interp({}, {"sqlglot": sqlglot, "exp": exp})
        res = it.call_def(fn, [list(fl), set(MODELS)], self_obj=selfo)
        if not (isinstance(res, tuple) and len(res) == 2 and isinstance(res[0], dict) and isinstance(res[1], list) and set(res[0]) == set(MODELS)):
            raise Unsupported("_classify_filters_for_pushdown returns %r" % (res,))
        rows.append((fl, {m: list(res[0][m]) for m in MODELS}, list(res[1])))
    return rows


def real_table(repo):
    """the real method under CPython with the same scripted sqlglot (module globals of generator.py are swapped for the call)"""
    import sidemantic.sql.generator as G

    class Node:
        def __init__(self, obj):
            self.obj = obj

    class And(Node):
        pass

    class Column:
        def __init__(self, t, c):
            self.table, self.name = t, c

    class Atom(Node):
        pass

    def wrap(o):
        cls = And if o.attrs.get("__class__") is CLS_AND else Atom
        n = cls(o)
        n.sql = lambda dialect=None: o.methods["sql"]()
        n.flatten = lambda: [wrap(k) for k in o.methods["flatten"]()]
        n.find_all = lambda c: [Column(x.attrs["table"], x.attrs["name"]) for x in o.methods["find_all"](CLS_COLUMN)] if c is Column else []
        return n

    class FakeSqlglot:
        @staticmethod
        def parse_one(text, dialect=None):
            try:
                return wrap(node_for(text))
            except PyRaise as e:
                raise ValueError(str(e))

    class FakeExp:
        pass
    FakeExp.And, FakeExp.Column = And, Column

    class M:
        def __init__(self, n):
            self.n = n

        def get_metric(self, col):
            return object() if (self.n, col) in METRIC_COLS else None

    class Gr:
        def get_model(self, name):
            if name not in MODELS:
                raise KeyError(name)
            return M(name)
    rows = []
    saved = (G.sqlglot, G.exp)
    try:
        G.sqlglot, G.exp = FakeSqlglot, FakeExp
        for fl in scenarios():
            gen = G.SQLGenerator.__new__(G.SQLGenerator)
            gen.graph, gen.dialect = Gr(), "duckdb"
            pd, main = gen._classify_filters_for_pushdown(list(fl), set(MODELS))
            rows.append((fl, {m: list(pd[m]) for m in MODELS}, list(main)))
    finally:
        G.sqlglot, G.exp = saved
    return rows


def q(s):
    return '"%s"' % s


def lst(l):
    return "[%s]" % "; ".join(q(x) for x in l)


def generate(repo):
    rows = table(repo)
    atoms = ";\n   ".join("(%s, %s)" % (q(n), "None" if cols is None else "(Some [%s])" % "; ".join("(%s, %s)" % (q(t), q(c)) for t, c in cols)) for n, cols in ATOMS.items())
    items = ";\n   ".join("(%s, %s, %s, %s)" % ("[%s]" % "; ".join("[%s]" % "; ".join(q(p) for p in f.split("&")) for f in fl), lst(pd["a"]), lst(pd["b"]), lst(main)) for fl, pd, main in rows)
    return ("(* GENERATED on every run by translator/gen_classify.py from sidemantic/sql/generator.py (_classify_filters_for_pushdown) -- do not edit *)\n"
            "From Coq Require Import String List Bool.\nRequire Import V.Model.Classify.\nImport ListNotations.\nOpen Scope string_scope.\n\n"
            "(* scripted atoms: name -> the (table, column) pairs the atom mentions; None: the text cannot be parsed *)\n"
            "Definition atoms : list (string * option (list (string * string))) :=\n  [%s].\n\n"
            "(* per scenario: the filters (each a conjunction of atoms, by name), what is pushed into model a's CTE, into model b's CTE, what stays in the main query *)\n"
            "Definition classify_rows : list (list (list string) * list string * list string * list string) :=\n  [%s].\n" % (atoms, items))


if __name__ == "__main__":
    sys.stdout.write(generate(sys.argv[1] if len(sys.argv) > 1 else "/repo"))
