"""LagOffset_gen.v: SQLGenerator._calculate_lag_offset (sidemantic/sql/generator.py), regenerated on every run.

Fail-closed: the function body must have exactly the control skeleton below (two early returns on falsy arguments, a
flat default table, a nested table, a membership test, default 1); only the literal tables are free.  Anything else
raises Unsupported, which the check reports as a broken obligation.
"""
import ast
import os

from translator.py2v_typed import HEADER, Unsupported, find_function, q

SRC = "sidemantic/sql/generator.py"


def _int_dict(node, what):
    if not isinstance(node, ast.Dict):
        raise Unsupported("%s is not a dict literal" % what)
    out = []
    for k, v in zip(node.keys, node.values):
        if not (isinstance(k, ast.Constant) and isinstance(k.value, str) and isinstance(v, ast.Constant) and isinstance(v.value, int) and not isinstance(v.value, bool)):
            raise Unsupported("%s has a non-literal entry" % what)
        out.append((k.value, v.value))
    if len({k for k, _ in out}) != len(out):
        raise Unsupported("%s has duplicate keys" % what)
    return out


def _is_not_name(test, name):
    return isinstance(test, ast.UnaryOp) and isinstance(test.op, ast.Not) and isinstance(test.operand, ast.Name) and test.operand.id == name


def _ret_const(stmt, value):
    return isinstance(stmt, ast.Return) and isinstance(stmt.value, ast.Constant) and stmt.value.value == value


def _is_get(call, table, key, default):
    """table.get(key, default) where table is an expression source string"""
    return (isinstance(call, ast.Call) and isinstance(call.func, ast.Attribute) and call.func.attr == "get" and ast.unparse(call.func.value) == table
            and len(call.args) == 2 and not call.keywords and isinstance(call.args[0], ast.Name) and call.args[0].id == key
            and isinstance(call.args[1], ast.Constant) and call.args[1].value == default)


def tables(repo):
    mod = ast.parse(open(os.path.join(repo, SRC)).read())
    fn = find_function(mod, "_calculate_lag_offset")
    args = [a.arg for a in fn.args.args]
    if args != ["self", "comparison_type", "time_granularity"]:
        raise Unsupported("unexpected signature %r" % args)
    body = [s for s in fn.body if not (isinstance(s, ast.Expr) and isinstance(s.value, ast.Constant) and isinstance(s.value.value, str))]
    if len(body) != 5:
        raise Unsupported("unexpected number of statements: %d" % len(body))
    s0, s1, s2, s3, s4 = body
    if not (isinstance(s0, ast.If) and _is_not_name(s0.test, "comparison_type") and len(s0.body) == 1 and _ret_const(s0.body[0], 1) and not s0.orelse):
        raise Unsupported("first statement is not `if not comparison_type: return 1`")
    if not (isinstance(s1, ast.If) and _is_not_name(s1.test, "time_granularity") and len(s1.body) == 2 and not s1.orelse
            and isinstance(s1.body[0], ast.Assign) and len(s1.body[0].targets) == 1 and isinstance(s1.body[0].targets[0], ast.Name)
            and isinstance(s1.body[1], ast.Return) and _is_get(s1.body[1].value, s1.body[0].targets[0].id, "comparison_type", 1)):
        raise Unsupported("second statement is not the default-offsets lookup")
    defaults = _int_dict(s1.body[0].value, "default_offsets")
    if not (isinstance(s2, ast.Assign) and len(s2.targets) == 1 and isinstance(s2.targets[0], ast.Name) and isinstance(s2.value, ast.Dict)):
        raise Unsupported("third statement is not the offset_map literal")
    mname = s2.targets[0].id
    omap = []
    for k, v in zip(s2.value.keys, s2.value.values):
        if not (isinstance(k, ast.Constant) and isinstance(k.value, str)):
            raise Unsupported("offset_map key is not a string literal")
        omap.append((k.value, _int_dict(v, "offset_map[%s]" % k.value)))
    if len({k for k, _ in omap}) != len(omap):
        raise Unsupported("offset_map has duplicate keys")
    if not (isinstance(s3, ast.If) and isinstance(s3.test, ast.Compare) and len(s3.test.ops) == 1 and isinstance(s3.test.ops[0], ast.In)
            and isinstance(s3.test.left, ast.Name) and s3.test.left.id == "comparison_type"
            and isinstance(s3.test.comparators[0], ast.Name) and s3.test.comparators[0].id == mname
            and len(s3.body) == 1 and not s3.orelse and isinstance(s3.body[0], ast.Return)
            and _is_get(s3.body[0].value, "%s[comparison_type]" % mname, "time_granularity", 1)):
        raise Unsupported("fourth statement is not the offset_map lookup")
    if not _ret_const(s4, 1):
        raise Unsupported("last statement is not `return 1`")
    return defaults, omap


def generate(repo):
    defaults, omap = tables(repo)
    flat = "[" + "; ".join("(%s, (%d)%%Z)" % (q(k), v) for k, v in defaults) + "]"
    nested = "[" + ";\n   ".join("(%s, [%s])" % (q(k), "; ".join("(%s, (%d)%%Z)" % (q(g), v) for g, v in row)) for k, row in omap) + "]"
    return ("(* GENERATED on every run by translator/gen_lagoffset.py from %s (_calculate_lag_offset) -- do not edit *)\n" % SRC) + HEADER + (
        "Definition default_offsets : list (string * Z) := %s.\n\n" % flat +
        "Definition offset_map : list (string * list (string * Z)) :=\n  %s.\n\n" % nested +
        "(* Python truthiness of an optional string: None and \"\" are falsy *)\n"
        "Definition truthy (o : option string) : bool := match o with Some s => negb (String.eqb s \"\") | None => false end.\n"
        "Definition opt_str (o : option string) : string := match o with Some s => s | None => \"\" end.\n\n"
        "Definition lag_offset (comparison_type time_granularity : option string) : Z :=\n"
        "  if negb (truthy comparison_type) then 1%Z\n"
        "  else if negb (truthy time_granularity) then assoc_get_default default_offsets (opt_str comparison_type) 1%Z\n"
        "  else match assoc_get offset_map (opt_str comparison_type) with\n"
        "       | Some row => assoc_get_default row (opt_str time_granularity) 1%Z\n"
        "       | None => 1%Z\n"
        "       end.\n")
