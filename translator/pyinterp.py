"""A small DEFINITIONAL INTERPRETER for a whitelisted subset of Python, used by the translators that extract behaviour tables from
sidemantic's source (gen_refresh, gen_symagg, gen_fanout, ...).  The function under translation is executed from its AST -- never
imported -- against scripted stand-ins for its environment, once per scenario of a finite scenario space that covers every branch
condition the whitelist admits.  Anything outside the whitelist (a node kind, an unknown name, an attribute or method that was not
scripted, a branch on an opaque value) raises Unsupported: the translation fails closed and the property's obligation breaks.

Each translator validates itself on every run by executing the REAL function under CPython on the same scripted environment."""
import ast


class Unsupported(Exception):
    pass


class PyRaise(Exception):
    """an exception raised by the interpreted code; .kind is the Python class name"""

    def __init__(self, kind, msg=""):
        super().__init__("%s: %s" % (kind, msg))
        self.kind, self.msg = kind, msg


class _Return(Exception):
    def __init__(self, v):
        self.v = v


class _Continue(Exception):
    pass


class _Break(Exception):
    pass


class Opaque:
    def __init__(self, what):
        self.what = what

    def __repr__(self):
        return "<opaque %s>" % self.what


BUILTIN_TYPES = {"str": str, "int": int, "float": float, "bool": bool, "list": list, "dict": dict, "tuple": tuple, "set": set}


class Obj:
    """scripted object: attributes in .attrs, methods in .methods (python callables taking evaluated args)"""

    def __init__(self, name, attrs=None, methods=None):
        self.name, self.attrs, self.methods = name, dict(attrs or {}), dict(methods or {})

    def __repr__(self):
        return "<%s>" % self.name


class _NoopLogger(Obj):
    """stand-in for the logging module / a logger: every method call returns None"""

    def __init__(self):
        Obj.__init__(self, "logging")

    class _Methods(dict):
        def __contains__(self, k):
            return True

        def __getitem__(self, k):
            return lambda *a, **kw: None


NOOP_LOGGER = _NoopLogger()
NOOP_LOGGER.methods = _NoopLogger._Methods()


class Closure:
    def __init__(self, node, env):
        self.node, self.env = node, env


STR_METHODS = {"startswith", "endswith", "replace", "upper", "lower", "strip", "split", "rsplit", "join", "format", "lstrip", "rstrip", "partition", "rpartition", "isdigit", "isalnum", "isidentifier", "title", "capitalize", "find", "count"}
EXC_NAMES = {"Exception", "ValueError", "KeyError", "TypeError", "AttributeError", "RuntimeError"}


class Interp:
    def __init__(self, funcs=None, globals_=None, max_steps=200000, modules=None):
        self.funcs = funcs or {}          # methods of `self` that may be called (name -> ast.FunctionDef)
        self.globals = dict(globals_ or {})
        self.modules = dict(modules or {})
        self.steps, self.max_steps = 0, max_steps

    # ------------------------------------------------------------------ calls
    def call_def(self, f, args, kwargs=None, self_obj=None, outer=None):
        params = [a.arg for a in f.args.args]
        if f.args.vararg or f.args.kwarg or f.args.kwonlyargs or f.args.posonlyargs:
            raise Unsupported("%s: parameter kinds" % f.name)
        env = dict(outer or {})
        if params and params[0] == "self":
            env["self"] = self_obj
            params = params[1:]
        defaults = f.args.defaults
        kwargs = dict(kwargs or {})
        if len(args) > len(params):
            raise Unsupported("%s: too many arguments" % f.name)
        for i, p in enumerate(params):
            if i < len(args):
                env[p] = args[i]
            elif p in kwargs:
                env[p] = kwargs.pop(p)
            else:
                di = i - (len(params) - len(defaults))
                if di < 0:
                    raise Unsupported("%s: missing argument %s" % (f.name, p))
                env[p] = self.expr(defaults[di], {})
        if kwargs:
            raise Unsupported("%s: unexpected keyword arguments %s" % (f.name, sorted(kwargs)))
        try:
            self.block(f.body, env)
        except _Return as r:
            return r.v
        return None

    # ------------------------------------------------------------------ statements
    def block(self, stmts, env):
        for s in stmts:
            self.stmt(s, env)

    def tick(self, node):
        self.steps += 1
        if self.steps > self.max_steps:
            raise Unsupported("line %d: step budget exhausted (non-terminating?)" % getattr(node, "lineno", 0))

    def stmt(self, s, env):
        self.tick(s)
        if isinstance(s, ast.Expr):
            if isinstance(s.value, ast.Constant) and isinstance(s.value.value, str):
                return
            self.expr(s.value, env)
        elif isinstance(s, ast.Assign):
            v = self.expr(s.value, env)
            for t in s.targets:
                self.assign(t, v, env)
        elif isinstance(s, ast.AnnAssign) and s.value is not None:
            self.assign(s.target, self.expr(s.value, env), env)
        elif isinstance(s, ast.AugAssign):
            cur = self.expr(s.target, env)
            v = self.binop(s.op, cur, self.expr(s.value, env), s)
            self.assign(s.target, v, env)
        elif isinstance(s, ast.If):
            self.block(s.body if self.truth(self.expr(s.test, env), s) else s.orelse, env)
        elif isinstance(s, ast.For):
            if s.orelse:
                raise Unsupported("line %d: for-else" % s.lineno)
            it = self.expr(s.iter, env)
            for x in self.iterate(it, s):
                self.assign(s.target, x, env)
                try:
                    self.block(s.body, env)
                except _Continue:
                    continue
                except _Break:
                    break
        elif isinstance(s, ast.Try):
            if s.finalbody or s.orelse:
                raise Unsupported("line %d: try-finally / try-else" % s.lineno)
            try:
                self.block(s.body, env)
            except PyRaise as ex:
                for h in s.handlers:
                    if self.handler_matches(h, ex):
                        if h.name:
                            env[h.name] = Opaque("exception")
                        self.block(h.body, env)
                        break
                else:
                    raise
        elif isinstance(s, ast.FunctionDef):
            env[s.name] = Closure(s, env)
        elif isinstance(s, (ast.Import, ast.ImportFrom)):
            # an import binds scripted stand-ins only: `modules` maps "module" / "module.name" to the object to bind
            for a in s.names:
                key = a.name if isinstance(s, ast.Import) else "%s.%s" % (s.module, a.name)
                if key not in self.modules:
                    raise Unsupported("line %d: import of %s is not scripted" % (s.lineno, key))
                env[a.asname or a.name.split(".")[0]] = self.modules[key]
        elif isinstance(s, ast.Pass):
            pass
        elif isinstance(s, ast.Assert):
            if not self.truth(self.expr(s.test, env), s):
                raise PyRaise("AssertionError", "line %d" % s.lineno)
        elif isinstance(s, ast.Continue):
            raise _Continue()
        elif isinstance(s, ast.Break):
            raise _Break()
        elif isinstance(s, ast.Return):
            raise _Return(self.expr(s.value, env) if s.value is not None else None)
        elif isinstance(s, ast.Raise):
            kind = "Exception"
            if isinstance(s.exc, ast.Call) and isinstance(s.exc.func, ast.Name):
                kind = s.exc.func.id
            elif isinstance(s.exc, ast.Name):
                kind = s.exc.id
            raise PyRaise(kind, "raised at line %d" % s.lineno)
        else:
            raise Unsupported("line %d: statement %s" % (s.lineno, type(s).__name__))

    def handler_matches(self, h, ex):
        if h.type is None:
            return True
        names = [h.type] if not isinstance(h.type, ast.Tuple) else list(h.type.elts)
        for n in names:
            if not (isinstance(n, ast.Name) and n.id in EXC_NAMES):
                raise Unsupported("line %d: except clause" % h.lineno)
            if n.id == "Exception" or n.id == ex.kind:
                return True
        return False

    def assign(self, t, v, env):
        if isinstance(t, ast.Name):
            env[t.id] = v
        elif isinstance(t, (ast.Tuple, ast.List)):
            vs = list(self.iterate(v, t))
            if len(vs) != len(t.elts):
                raise PyRaise("ValueError", "unpack")
            for e, x in zip(t.elts, vs):
                self.assign(e, x, env)
        elif isinstance(t, ast.Subscript):
            c = self.expr(t.value, env)
            k = self.expr(t.slice, env)
            if isinstance(c, dict) or isinstance(c, list):
                c[k] = v
            else:
                raise Unsupported("line %d: subscript assignment on %r" % (t.lineno, type(c).__name__))
        else:
            raise Unsupported("line %d: assignment target %s" % (t.lineno, type(t).__name__))

    # ------------------------------------------------------------------ expressions
    def truth(self, v, node):
        if isinstance(v, Opaque):
            raise Unsupported("line %d: branch on an opaque value (%s)" % (getattr(node, "lineno", 0), v.what))
        if isinstance(v, Obj):
            return True
        return bool(v)

    def iterate(self, v, node):
        if isinstance(v, (list, tuple, dict, set, frozenset, str, range)):
            return list(v)
        raise Unsupported("line %d: iteration over %s" % (getattr(node, "lineno", 0), type(v).__name__))

    def binop(self, op, a, b, node):
        if isinstance(a, Opaque) or isinstance(b, Opaque):
            raise Unsupported("line %d: arithmetic on an opaque value" % node.lineno)
        try:
            if isinstance(op, ast.Add):
                return a + b
            if isinstance(op, ast.Sub):
                return a - b
            if isinstance(op, ast.Mult):
                return a * b
            if isinstance(op, ast.Mod) and not isinstance(a, str):
                return a % b
            if isinstance(op, ast.FloorDiv):
                return a // b
            if isinstance(op, ast.BitOr) and isinstance(a, (set, frozenset)):
                return a | b
        except TypeError as e:
            raise PyRaise("TypeError", str(e))
        raise Unsupported("line %d: operator %s" % (node.lineno, type(op).__name__))

    def compare1(self, op, a, b, node):
        if isinstance(op, ast.Is):
            return a is b
        if isinstance(op, ast.IsNot):
            return a is not b
        if isinstance(a, Opaque) or isinstance(b, Opaque):
            raise Unsupported("line %d: comparison of an opaque value" % node.lineno)
        if isinstance(op, ast.Eq):
            return a == b
        if isinstance(op, ast.NotEq):
            return a != b
        if isinstance(op, ast.In):
            return a in b
        if isinstance(op, ast.NotIn):
            return a not in b
        if isinstance(op, ast.Lt):
            return a < b
        if isinstance(op, ast.LtE):
            return a <= b
        if isinstance(op, ast.Gt):
            return a > b
        if isinstance(op, ast.GtE):
            return a >= b
        raise Unsupported("line %d: comparison operator" % node.lineno)

    def comprehension(self, e, env, emit):
        def rec(gens, env2):
            if not gens:
                emit(env2)
                return
            g = gens[0]
            if g.is_async:
                raise Unsupported("async comprehension")
            for x in self.iterate(self.expr(g.iter, env2), e):
                env3 = dict(env2)
                self.assign(g.target, x, env3)
                if all(self.truth(self.expr(c, env3), e) for c in g.ifs):
                    rec(gens[1:], env3)
        rec(e.generators, dict(env))

    def expr(self, e, env):
        self.tick(e)
        if isinstance(e, ast.Constant):
            return e.value
        if isinstance(e, ast.Name):
            if e.id in env:
                return env[e.id]
            if e.id in self.globals:
                return self.globals[e.id]
            if e.id in ("logging", "logger", "log", "_logger", "LOGGER"):
                return NOOP_LOGGER            # logging has no effect on what is extracted: calls on it are no-ops
            if e.id in ("True", "False", "None"):
                return {"True": True, "False": False, "None": None}[e.id]
            if e.id in BUILTIN_TYPES:
                return BUILTIN_TYPES[e.id]        # only meaningful as the second argument of isinstance (any other use is refused where it happens)
            raise Unsupported("line %d: read of unknown name %s" % (e.lineno, e.id))
        if isinstance(e, ast.JoinedStr):
            out = []
            for p in e.values:
                if isinstance(p, ast.Constant):
                    out.append(p.value)
                elif isinstance(p, ast.FormattedValue) and p.conversion == -1 and p.format_spec is None:
                    v = self.expr(p.value, env)
                    if isinstance(v, (Opaque, Obj)):
                        raise Unsupported("line %d: opaque value inside an f-string" % e.lineno)
                    out.append(str(v))
                else:
                    raise Unsupported("line %d: f-string piece" % e.lineno)
            return "".join(out)
        if isinstance(e, ast.Tuple):
            return tuple(self.expr(x, env) for x in e.elts)
        if isinstance(e, ast.List):
            return [self.expr(x, env) for x in e.elts]
        if isinstance(e, ast.Set):
            return {self.expr(x, env) for x in e.elts}
        if isinstance(e, ast.Dict):
            if any(k is None for k in e.keys):
                raise Unsupported("line %d: dict unpacking" % e.lineno)
            return {self.expr(k, env): self.expr(v, env) for k, v in zip(e.keys, e.values)}
        if isinstance(e, ast.UnaryOp):
            if isinstance(e.op, ast.Not):
                return not self.truth(self.expr(e.operand, env), e)
            if isinstance(e.op, ast.USub):
                return -self.expr(e.operand, env)
            raise Unsupported("line %d: unary operator" % e.lineno)
        if isinstance(e, ast.BinOp):
            return self.binop(e.op, self.expr(e.left, env), self.expr(e.right, env), e)
        if isinstance(e, ast.BoolOp):
            r = None
            for x in e.values:
                r = self.expr(x, env)
                t = self.truth(r, e)
                if isinstance(e.op, ast.And) and not t:
                    return r
                if isinstance(e.op, ast.Or) and t:
                    return r
            return r
        if isinstance(e, ast.Compare):
            left = self.expr(e.left, env)
            for op, c in zip(e.ops, e.comparators):
                right = self.expr(c, env)
                if not self.compare1(op, left, right, e):
                    return False
                left = right
            return True
        if isinstance(e, ast.IfExp):
            return self.expr(e.body if self.truth(self.expr(e.test, env), e) else e.orelse, env)
        if isinstance(e, ast.Subscript):
            v = self.expr(e.value, env)
            if isinstance(e.slice, ast.Slice):
                lo = self.expr(e.slice.lower, env) if e.slice.lower else None
                hi = self.expr(e.slice.upper, env) if e.slice.upper else None
                if e.slice.step is not None or not isinstance(v, (list, tuple, str)):
                    raise Unsupported("line %d: slice" % e.lineno)
                return v[lo:hi]
            k = self.expr(e.slice, env)
            if isinstance(v, (list, tuple, str)):
                try:
                    return v[k]
                except IndexError:
                    raise PyRaise("IndexError")
            if isinstance(v, dict):
                if k not in v:
                    raise PyRaise("KeyError", repr(k))
                return v[k]
            raise Unsupported("line %d: subscript of %s" % (e.lineno, type(v).__name__))
        if isinstance(e, ast.Attribute):
            v = self.expr(e.value, env)
            if isinstance(v, Obj):
                if e.attr in v.attrs:
                    return v.attrs[e.attr]
                raise Unsupported("line %d: attribute %s.%s is not scripted" % (e.lineno, v.name, e.attr))
            raise Unsupported("line %d: attribute %s of %s" % (e.lineno, e.attr, type(v).__name__))
        if isinstance(e, (ast.ListComp, ast.SetComp, ast.GeneratorExp)):
            out = []
            self.comprehension(e, env, lambda env2: out.append(self.expr(e.elt, env2)))
            return set(out) if isinstance(e, ast.SetComp) else out
        if isinstance(e, ast.DictComp):
            out = {}
            self.comprehension(e, env, lambda env2: out.__setitem__(self.expr(e.key, env2), self.expr(e.value, env2)))
            return out
        if isinstance(e, ast.Call):
            return self.callexpr(e, env)
        raise Unsupported("line %d: expression %s" % (e.lineno, type(e).__name__))

    BUILTINS = {"str": str, "len": len, "any": any, "all": all, "bool": bool, "int": int, "list": list, "tuple": tuple, "set": set, "sorted": sorted,
                "min": min, "max": max, "sum": sum, "enumerate": lambda x: list(enumerate(x)), "zip": lambda *a: list(zip(*a)), "range": range,
                "dict": dict, "frozenset": frozenset, "reversed": lambda x: list(reversed(x))}

    def _opaque(self, e):
        raise Unsupported("line %d: isinstance of an opaque value" % e.lineno)

    def callexpr(self, e, env):
        f = e.func
        if any(isinstance(a, ast.Starred) for a in e.args):
            raise Unsupported("line %d: *args" % e.lineno)
        args = [self.expr(a, env) for a in e.args]
        kwargs = {}
        for k in e.keywords:
            v = self.expr(k.value, env)
            if k.arg is None:
                # f(**d): d must be a dict with text keys (the keyword arguments it spells out)
                if not isinstance(v, dict) or not all(isinstance(x, str) for x in v):
                    raise Unsupported("line %d: ** of %s" % (e.lineno, type(v).__name__))
                for kk, vv in v.items():
                    if kk in kwargs:
                        raise PyRaise("TypeError", "multiple values for keyword argument %s" % kk)
                    kwargs[kk] = vv
            else:
                if k.arg in kwargs:
                    raise PyRaise("TypeError", "multiple values for keyword argument %s" % k.arg)
                kwargs[k.arg] = v
        if isinstance(f, ast.Name):
            if f.id in env and isinstance(env[f.id], Closure):
                c = env[f.id]
                return self.call_def(c.node, args, kwargs, outer=c.env)
            if f.id in env and callable(env[f.id]) and not isinstance(env[f.id], (type, Obj)):
                return env[f.id](*args, **kwargs)
            if f.id in self.globals and callable(self.globals[f.id]):
                return self.globals[f.id](*args, **kwargs)
            if f.id == "isinstance" and len(args) == 2 and not kwargs:
                cls = args[1]
                classes = cls if isinstance(cls, tuple) else (cls,)
                if all(k in BUILTIN_TYPES.values() for k in classes):
                    if isinstance(args[0], (Opaque, Obj)):
                        return False if isinstance(args[0], Obj) else self._opaque(e)
                    return isinstance(args[0], tuple(classes))
                if not all(isinstance(k, Obj) and k.name.startswith("class:") for k in classes):
                    raise Unsupported("line %d: isinstance against an unscripted class" % e.lineno)
                return isinstance(args[0], Obj) and args[0].attrs.get("__class__") in classes
            if f.id in self.BUILTINS:
                if any(isinstance(a, (Opaque, Obj)) for a in args) and f.id in ("str", "int", "bool"):
                    raise Unsupported("line %d: %s() of an opaque value" % (e.lineno, f.id))
                if kwargs and f.id not in ("sorted", "dict"):
                    raise Unsupported("line %d: keyword arguments to %s" % (e.lineno, f.id))
                if f.id == "sorted" and "key" in kwargs and isinstance(kwargs["key"], Closure):
                    raise Unsupported("line %d: sorted with a closure key" % e.lineno)
                try:
                    return self.BUILTINS[f.id](*args, **kwargs)
                except (TypeError, ValueError) as ex:
                    raise PyRaise(type(ex).__name__, str(ex))
            raise Unsupported("line %d: call of %s" % (e.lineno, f.id))
        if isinstance(f, ast.Attribute):
            recv = self.expr(f.value, env)
            if isinstance(recv, Obj):
                if f.attr in recv.methods:
                    return recv.methods[f.attr](*args, **kwargs)
                if recv is env.get("self") and f.attr in self.funcs:
                    return self.call_def(self.funcs[f.attr], args, kwargs, self_obj=recv)
                raise Unsupported("line %d: method %s.%s is not scripted" % (e.lineno, recv.name, f.attr))
            if isinstance(recv, str) and f.attr in STR_METHODS:
                if any(isinstance(a, (Opaque, Obj)) for a in args):
                    raise Unsupported("line %d: opaque argument to str.%s" % (e.lineno, f.attr))
                return getattr(recv, f.attr)(*args, **kwargs)
            if isinstance(recv, list) and f.attr in ("append", "extend", "index", "count", "copy", "pop", "insert"):
                try:
                    return getattr(recv, f.attr)(*args)
                except (ValueError, IndexError) as ex:
                    raise PyRaise(type(ex).__name__, str(ex))
            if isinstance(recv, dict) and f.attr in ("get", "items", "keys", "values", "setdefault", "update", "copy", "pop"):
                r = getattr(recv, f.attr)(*args)
                return list(r) if f.attr in ("items", "keys", "values") else r
            if isinstance(recv, set) and f.attr in ("add", "update", "discard", "copy", "union", "intersection", "issubset"):
                return getattr(recv, f.attr)(*args)
            raise Unsupported("line %d: method %s on %s" % (e.lineno, f.attr, type(recv).__name__))
        raise Unsupported("line %d: call" % e.lineno)


def call_closure(interp, c, args):
    """call an interpreted closure from scripted (Python-side) code, e.g. the replacement function handed to a scripted re.sub"""
    if not isinstance(c, Closure):
        raise Unsupported("expected an interpreted function")
    return interp.call_def(c.node, list(args), outer=c.env)


def find_function(path, name, cls=None):
    """the FunctionDef `name` (a method of class `cls` when given) of a source file, and the sibling methods of that class"""
    tree = ast.parse(open(path).read())
    if cls is None:
        for n in tree.body:
            if isinstance(n, ast.FunctionDef) and n.name == name:
                return n, {}
        raise Unsupported("function %s not found in %s" % (name, path))
    for n in tree.body:
        if isinstance(n, ast.ClassDef) and n.name == cls:
            funcs = {m.name: m for m in n.body if isinstance(m, ast.FunctionDef)}
            if name not in funcs:
                raise Unsupported("method %s.%s not found" % (cls, name))
            return funcs[name], funcs
    raise Unsupported("class %s not found in %s" % (cls, path))
