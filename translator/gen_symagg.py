"""SymAgg_gen.v: (1) the SQL SHAPE build_symmetric_aggregate_sql emits per aggregation literal (DuckDB branch, called with a model alias as
the generator does), (2) the decision table of SQLGenerator._has_fanout_joins over scripted join paths -- both extracted from the source
on every run by executing the function ASTs with translator/pyinterp.py (fail closed), both validated against CPython running the real
functions on the same inputs."""
import itertools
import re
import sys

from translator.pyinterp import Interp, Obj, PyRaise, Unsupported, find_function

AGG_LITERALS = ["sum", "avg", "count", "count_distinct", "min", "max", "median", "stddev", "variance", "weird"]
ALIAS, PK, MEAS = "A_cte", "pkcol", "meas_raw"


def parse_mult(text):
    m = re.fullmatch(r"\(1::HUGEINT << (\d+)\)", text)
    if m:
        return 1 << int(m.group(1))
    if re.fullmatch(r"\d+", text):
        return int(text)
    raise Unsupported("multiplier %r" % text)


def shape_of(text):
    """SQL text -> constructor of Model/SymShape.shape (fail closed)"""
    pk, ms = re.escape("%s.%s" % (ALIAS, PK)), re.escape("%s.%s" % (ALIAS, MEAS))
    h = r"HASH\(" + pk + r"\)::HUGEINT"
    mult = r"(\(1::HUGEINT << \d+\)|\d+)"
    sumre = r"\(SUM\(DISTINCT \(" + h + r" \* " + mult + r"\) \+ " + ms + r"\) - SUM\(DISTINCT \(" + h + r" \* " + mult + r"\)\)\)"
    m = re.fullmatch(sumre, text)
    if m:
        if m.group(1) != m.group(2):
            raise Unsupported("two different multipliers in %r" % text)
        return "ShSumDiff (%d)%%Z" % parse_mult(m.group(1))
    m = re.fullmatch(sumre + r" / NULLIF\(COUNT\(DISTINCT " + pk + r"\), 0\)", text)
    if m:
        if m.group(1) != m.group(2):
            raise Unsupported("two different multipliers in %r" % text)
        return "ShAvg (%d)%%Z" % parse_mult(m.group(1))
    if re.fullmatch(r"COUNT\(DISTINCT " + pk + r"\)", text):
        return "ShCountDistinctKey"
    if re.fullmatch(r"COUNT\(DISTINCT " + ms + r"\)", text):
        return "ShCountDistinctMeasure"
    m = re.fullmatch(r"(MIN|MAX)\(" + ms + r"\)", text)
    if m:
        return "ShPlain \"%s\"" % m.group(1).lower()
    raise Unsupported("symmetric aggregate text not understood: %r" % text)


def sym_shapes(repo):
    fn, _ = find_function(repo + "/sidemantic/core/symmetric_aggregate.py", "build_symmetric_aggregate_sql")
    out = []
    for a in AGG_LITERALS:
        it = Interp()
        try:
            text = it.call_def(fn, [MEAS, PK, a, ALIAS, "duckdb"])
            out.append((a, shape_of(text)))
        except PyRaise as ex:
            if ex.kind != "ValueError":
                raise Unsupported("agg %s raises %s" % (a, ex.kind))
            out.append((a, "ShReject"))
    return out


def real_sym_shapes(repo):
    from sidemantic.core.symmetric_aggregate import build_symmetric_aggregate_sql
    out = []
    for a in AGG_LITERALS:
        try:
            out.append((a, shape_of(build_symmetric_aggregate_sql(MEAS, PK, a, ALIAS, "duckdb"))))
        except ValueError:
            out.append((a, "ShReject"))
    return out


# ------------------------------------------------------------------ _has_fanout_joins
PATHS = [[], ["one_to_many"], ["many_to_one"], ["one_to_one"], ["many_to_one", "one_to_many"], ["one_to_many", "many_to_one"], ["one_to_one", "one_to_one"],
         ["many_to_one", "many_to_one"], "ValueError", "KeyError"]


def scenarios():
    yield []
    for p in PATHS:
        yield [p]
    for p, q in itertools.product(PATHS, PATHS):
        yield [p, q]


def graph_obj(paths_by_model, raise_cls):
    def find_relationship_path(a, b):
        p = paths_by_model[b]
        if isinstance(p, str):
            raise raise_cls(p)
        return [Obj("hop", {"relationship": t, "from_model": a, "to_model": b}) for t in p]
    return find_relationship_path


def fanout_table(repo):
    fn, funcs = find_function(repo + "/sidemantic/sql/generator.py", "_has_fanout_joins", "SQLGenerator")
    rows = []
    for sc in scenarios():
        others = ["o%d" % i for i in range(len(sc))]
        by = dict(zip(others, sc))

        def raiser(kind):
            return PyRaise(kind)
        frp = graph_obj(by, lambda k: PyRaise(k))
        selfo = Obj("self", {"graph": Obj("graph", {}, {"find_relationship_path": frp})})
        it = Interp(funcs)
        res = it.call_def(fn, ["base", others], self_obj=selfo)
        if not isinstance(res, dict) or set(res) != {"base"} | set(others) or not all(isinstance(v, bool) for v in res.values()):
            raise Unsupported("_has_fanout_joins returns %r" % (res,))
        rows.append((sc, res["base"], [res[o] for o in others]))
    return rows


def real_fanout_table(repo):
    from sidemantic.core.semantic_graph import SemanticGraph
    from sidemantic.sql.generator import SQLGenerator

    class Hop:
        def __init__(self, t, a, b):
            self.relationship, self.from_model, self.to_model = t, a, b
    rows = []
    for sc in scenarios():
        others = ["o%d" % i for i in range(len(sc))]
        by = dict(zip(others, sc))

        class G:
            def find_relationship_path(self, a, b, _by=by):
                p = _by[b]
                if isinstance(p, str):
                    raise {"ValueError": ValueError, "KeyError": KeyError}[p](p)
                return [Hop(t, a, b) for t in p]
        gen = SQLGenerator.__new__(SQLGenerator)
        gen.graph = G()
        res = gen._has_fanout_joins("base", others)
        rows.append((sc, res["base"], [res[o] for o in others]))
    return rows


def coq_path(p):
    return "None" if isinstance(p, str) else "(Some [%s])" % "; ".join('"%s"' % t for t in p)


def generate(repo):
    shapes = sym_shapes(repo)
    table = fanout_table(repo)
    b = lambda x: "true" if x else "false"
    lines = ["(* GENERATED on every run by translator/gen_symagg.py from sidemantic/core/symmetric_aggregate.py (build_symmetric_aggregate_sql, DuckDB branch)",
             "   and sidemantic/sql/generator.py (SQLGenerator._has_fanout_joins) -- do not edit *)",
             "From Coq Require Import ZArith String List Bool.", "Require Import V.Model.SymShape.", "Import ListNotations.", "Open Scope string_scope.", "",
             "(* aggregation literal -> the shape of the SQL the function returns (ShReject: it raises ValueError) *)",
             "Definition sym_shapes : list (string * shape) :=", "  [%s]." % ";\n   ".join('("%s", %s)' % (a, s) for a, s in shapes), "",
             "(* one row per scripted scenario: the join path from the base model to each other model (hop types; None = the search raises),",
             "   the verdict for the base model, the verdicts for the other models *)",
             "Definition fanout_rows : list (list (option (list string)) * bool * list bool) :=",
             "  [%s]." % ";\n   ".join("([%s], %s, [%s])" % ("; ".join(coq_path(p) for p in sc), b(vb), "; ".join(b(x) for x in vo)) for sc, vb, vo in table)]
    return "\n".join(lines) + "\n"


if __name__ == "__main__":
    sys.stdout.write(generate(sys.argv[1] if len(sys.argv) > 1 else "/repo"))
