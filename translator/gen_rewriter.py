"""RewriterTable_gen.v: what QueryRewriter._extract_metrics_and_dimensions (with _resolve_column inlined) makes of a SELECT list, on scripted
projection lists, extracted from sidemantic/sql/query_rewriter.py on every run by executing the methods' ASTs with translator/pyinterp.py
(fail closed).  sqlglot's expression classes and the graph are scripted: a projection is a star, a literal, a function call or a column
(with optional table qualifier and alias), so what is extracted is the methods' own logic -- how an unqualified name is attributed to the
single FROM table, what FROM metrics admits, how a __granularity suffix is recognised, metric / measure / dimension classification, aliases."""
import sys

from translator.pyinterp import Interp, Obj, PyRaise, Unsupported, find_function

CLS = {k: Obj("class:" + k) for k in ("Star", "Alias", "Literal", "Column", "Func")}
MODELS = {"m1": (["d", "t", "both"], ["rev", "n", "both"]), "m2": (["region"], ["cnt"])}       # name -> (dimensions, metrics); `both` is a dimension AND a measure
GRAPH_METRICS = ["gm", "m1.virt", "d"]                                                          # `d` also names a dimension of m1
INFERRED = [None, "m1", "m2", "metrics", "ghost"]
TABLES = [None, "m1", "m2", "ghost", "metrics"]
NAMES = ["d", "rev", "both", "t__month", "t__fortnight", "rev__day", "gm", "virt", "nope", "region", "d__x__week"]


def col(table, name, alias=None):
    return ("col", table, name, alias)


def projection_lists():
    singles = [("star",), ("lit",), ("func",)] + [col(t, n) for t in TABLES for n in NAMES]
    for p in singles:
        yield [p]
    yield []
    yield [col("m1", "rev", "r"), col("m1", "d", "dd")]
    yield [col(None, "rev", "r"), col(None, "d")]
    yield [col("m1", "rev"), ("lit",)]
    yield [("star",), col("m1", "rev", "again")]
    yield [col("m2", "cnt"), col("m1", "t__month", "month"), col(None, "gm", "g")]
    yield [col("m1", "rev", "x"), col("m1", "rev", "y")]
    yield [col("m1", "nope"), col("m1", "rev")]


def make_projection(p):
    if p[0] == "star":
        return Obj("star", {"__class__": CLS["Star"]}, {"sql": lambda dialect=None: "*"})
    if p[0] == "lit":
        return Obj("lit", {"__class__": CLS["Literal"]}, {"sql": lambda dialect=None: "1"})
    if p[0] == "func":
        inner = Obj("col", {"__class__": CLS["Column"], "table": "", "name": "amount"}, {"sql": lambda dialect=None: "amount"})
        return Obj("func", {"__class__": CLS["Func"], "key": "sum", "args": {"this": inner}}, {"sql": lambda dialect=None: "SUM(amount)"})
    _, table, name, alias = p
    c = Obj("col", {"__class__": CLS["Column"], "table": table or "", "name": name}, {"sql": lambda dialect=None, _t=table, _n=name: (_t + "." if _t else "") + _n})
    if alias:
        return Obj("alias", {"__class__": CLS["Alias"], "this": c, "alias": alias}, {"sql": lambda dialect=None: "aliased"})
    return c


def make_self(inferred):
    def get_model(name):
        if name not in MODELS:
            raise PyRaise("KeyError", name)
        dims, mets = MODELS[name]
        return Obj("model:" + name, {"dimensions": [Obj("dim", {"name": d}) for d in dims], "metrics": [Obj("metric", {"name": m}) for m in mets]})
    graph = Obj("graph", {"metrics": {n: Obj("gmetric", {"name": n}) for n in GRAPH_METRICS}}, {"get_model": get_model})
    return Obj("self", {"inferred_table": inferred, "dialect": "duckdb", "graph": graph})


def table(repo, real=False):
    if real:
        return real_table(repo)
    fn, funcs = find_function(repo + "/sidemantic/sql/query_rewriter.py", "_extract_metrics_and_dimensions", "QueryRewriter")
    rows = []
    exp = Obj("exp", dict(CLS))
    for inf in INFERRED:
        for pl in projection_lists():
            it = Interp(funcs, {"exp": exp})
            sel = Obj("select", {"expressions": [make_projection(p) for p in pl]})
            try:
                res = it.call_def(fn, [sel], self_obj=make_self(inf))
            except PyRaise as e:
                rows.append((inf, pl, ("err", e.kind)))
                continue
            if not (isinstance(res, tuple) and len(res) == 3 and isinstance(res[0], list) and isinstance(res[1], list) and isinstance(res[2], dict)):
                raise Unsupported("_extract_metrics_and_dimensions returns %r" % (res,))
            rows.append((inf, pl, ("ok", list(res[0]), list(res[1]), list(res[2].items()))))
    return rows


def real_table(repo):
    """the real methods under CPython against the same scripted classes (module global `exp` of query_rewriter.py is swapped for the calls)"""
    import sidemantic.sql.query_rewriter as Q

    class Base:
        def __init__(self, **kw):
            self.__dict__.update(kw)

        def sql(self, dialect=None):
            return getattr(self, "_sql", "?")
    classes = {k: type(k, (Base,), {}) for k in CLS}

    class FakeExp:
        pass
    for k, c in classes.items():
        setattr(FakeExp, k, c)

    def mk(p):
        if p[0] == "star":
            return classes["Star"]()
        if p[0] == "lit":
            return classes["Literal"]()
        if p[0] == "func":
            return classes["Func"](key="sum", args={"this": classes["Column"](table="", name="amount")}, _sql="SUM(amount)")
        _, table, name, alias = p
        c = classes["Column"](table=table or "", name=name)
        return classes["Alias"](this=c, alias=alias) if alias else c

    class G:
        metrics = {n: object() for n in GRAPH_METRICS}

        @staticmethod
        def get_model(name):
            dims, mets = MODELS[name]
            return Base(dimensions=[Base(name=d) for d in dims], metrics=[Base(name=m) for m in mets])
    rows = []
    saved = Q.exp
    Q.exp = FakeExp
    try:
        for inf in INFERRED:
            for pl in projection_lists():
                rw = Q.QueryRewriter.__new__(Q.QueryRewriter)
                rw.inferred_table, rw.dialect, rw.graph = inf, "duckdb", G
                try:
                    m, d, a = rw._extract_metrics_and_dimensions(Base(expressions=[mk(p) for p in pl]))
                    rows.append((inf, pl, ("ok", list(m), list(d), list(a.items()))))
                except (ValueError, KeyError) as e:
                    rows.append((inf, pl, ("err", type(e).__name__)))
    finally:
        Q.exp = saved
    return rows


# ---- WHERE splitting: _extract_filters / _extract_compound_filters on scripted And / Or trees
CLS_AND, CLS_OR = Obj("class:And"), Obj("class:Or")
ATOMS = ["a = 1", "b > 2", "c IS NULL", "d IN (1, 2)"]


def where_trees():
    A = [("atom", t) for t in ATOMS]
    yield None
    for a in A[:2]:
        yield a
    d1 = [(op, x, y) for op in ("and", "or") for x in A[:2] for y in A[1:3]]
    for t in d1:
        yield t
    for op in ("and", "or"):
        for x in d1[::2]:
            yield (op, x, A[3])
            yield (op, A[3], x)
    yield ("and", ("and", A[0], ("or", A[1], A[2])), ("and", A[3], A[0]))
    yield ("or", ("and", A[0], A[1]), ("and", A[2], A[3]))
    yield ("and", ("or", ("and", A[0], A[1]), A[2]), ("or", A[3], A[0]))


def wtext(t):
    return t[1] if t[0] == "atom" else "%s %s %s" % (wtext(t[1]), t[0].upper(), wtext(t[2]))


FILTER_INFERRED = [None, "m1", "metrics", "ghost"]


def qmap(t, table):
    """the scripted _qualify_unaliased_columns: the same tree with every atom marked by the table it was qualified with"""
    if t[0] == "atom":
        return ("atom", "%s:%s" % (table, t[1]))
    return (t[0], qmap(t[1], table), qmap(t[2], table))


def where_node(t):
    if t[0] == "atom":
        return Obj("atom", {"__class__": None}, {"sql": lambda dialect=None, _t=t: wtext(_t)})
    return Obj(t[0], {"__class__": CLS_AND if t[0] == "and" else CLS_OR, "left": where_node(t[1]), "right": where_node(t[2])}, {"sql": lambda dialect=None, _t=t: wtext(_t)})


def filter_table(repo, real=False):
    rows = []
    if real:
        import sidemantic.sql.query_rewriter as Q

        class B:
            def __init__(self, t):
                self.t = t
                if t[0] != "atom":
                    self.left, self.right = mk(t[1]), mk(t[2])

            def sql(self, dialect=None):
                return wtext(self.t)
        And, Or = type("And", (B,), {}), type("Or", (B,), {})

        def mk(t):
            return B(t) if t[0] == "atom" else (And if t[0] == "and" else Or)(t)

        class FakeExp:
            pass
        FakeExp.And, FakeExp.Or = And, Or

        class Sel:
            def __init__(self, t):
                w = type("W", (), {})()
                w.this = mk(t) if t is not None else None
                self.args = {"where": w} if t is not None else {}

        class G:
            models = {n: object() for n in MODELS}
        saved = Q.exp
        Q.exp = FakeExp
        try:
            for inf in FILTER_INFERRED:
                for t in where_trees():
                    rw = Q.QueryRewriter.__new__(Q.QueryRewriter)
                    rw.dialect, rw.inferred_table, rw.graph = "duckdb", inf, G
                    rw._qualify_unaliased_columns = lambda where, table: mk(qmap(where.t, table))
                    rows.append((inf, t, list(rw._extract_filters(Sel(t)))))
        finally:
            Q.exp = saved
        return rows
    fn, funcs = find_function(repo + "/sidemantic/sql/query_rewriter.py", "_extract_filters", "QueryRewriter")
    exp = Obj("exp", {"And": CLS_AND, "Or": CLS_OR})
    for inf in FILTER_INFERRED:
        for t in where_trees():
            it = Interp({k: v for k, v in funcs.items() if k != "_qualify_unaliased_columns"}, {"exp": exp})

            def getattr_(obj, name, default=None):
                return obj.attrs.get(name, default)
            it.globals["getattr"] = getattr_
            sel = Obj("select", {"args": ({"where": Obj("where", {"this": where_node(t)})} if t is not None else {})})
            node_tree = {}

            def qualify(where, table, _t=t):
                return where_node(qmap(_t, table))
            selfo = Obj("self", {"dialect": "duckdb", "inferred_table": inf, "graph": Obj("graph", {"models": {n: Obj("model:" + n) for n in MODELS}})}, {"_qualify_unaliased_columns": qualify})
            res = it.call_def(fn, [sel], self_obj=selfo)
            if not (isinstance(res, list) and all(isinstance(x, str) for x in res)):
                raise Unsupported("_extract_filters returns %r" % (res,))
            rows.append((inf, t, list(res)))
    return rows


def wterm(t):
    if t[0] == "atom":
        return "WAtom %s" % q(t[1])
    return "(%s (%s) (%s))" % ("WAnd" if t[0] == "and" else "WOr", wterm(t[1]), wterm(t[2]))


def q(s):
    return '"%s"' % s.replace('"', '""')


def opt(s):
    return "None" if s is None else "(Some %s)" % q(s)


def proj_term(p):
    if p[0] == "star":
        return "PStar"
    if p[0] == "lit":
        return "PLiteral"
    if p[0] == "func":
        return "PFunc"
    return "PCol %s %s %s" % (opt(p[1]), q(p[2]), opt(p[3]))


def generate(repo):
    rows = table(repo)
    items = []
    for inf, pl, res in rows:
        if res[0] == "err":
            r = "None"
        else:
            r = "(Some ([%s], [%s], [%s]))" % ("; ".join(q(x) for x in res[1]), "; ".join(q(x) for x in res[2]), "; ".join("(%s, %s)" % (q(k), q(v)) for k, v in res[3]))
        items.append("(%s, [%s], %s)" % (opt(inf), "; ".join(proj_term(p) for p in pl), r))
    g = "{| rg_models := [%s]; rg_metrics := [%s] |}" % ("; ".join("{| rm_name := %s; rm_dims := [%s]; rm_metrics := [%s] |}" % (q(n), "; ".join(map(q, d)), "; ".join(map(q, m))) for n, (d, m) in MODELS.items()),
                                                      "; ".join(map(q, GRAPH_METRICS)))
    return ("(* GENERATED on every run by translator/gen_rewriter.py from sidemantic/sql/query_rewriter.py (_extract_metrics_and_dimensions, _resolve_column) -- do not edit *)\n"
            "From Coq Require Import String List Bool.\nRequire Import V.Model.Rewriter.\nImport ListNotations.\nOpen Scope string_scope.\n\n"
            "Definition table_graph : rgraph := %s.\n\n"
            "(* per scripted scenario: the single FROM table (None = none), the SELECT list, what the method returns (None = it raises) *)\n"
            "Definition extract_rows : list (option string * list proj * option (list string * list string * list (string * string))) :=\n  [%s].\n\n"
            "(* the single FROM table (None = none), the WHERE clause (None = no WHERE) -> the filters _extract_filters / _extract_compound_filters return; an atom the method\n"
            "   passed through _qualify_unaliased_columns(where, t) prints as t:<atom> *)\n"
            "Definition filter_rows : list (option string * option wexpr * list string) :=\n  [%s].\n" % (g, ";\n   ".join(items),
                ";\n   ".join("(%s, %s, [%s])" % (opt(inf), "None" if t is None else "Some (%s)" % wterm(t), "; ".join(q(x) for x in r)) for inf, t, r in filter_table(repo))))


if __name__ == "__main__":
    repo = sys.argv[1] if len(sys.argv) > 1 else "/repo"
    a, b = table(repo), table(repo, real=True)
    print(len(a), a == b)
    fa, fb = filter_table(repo), filter_table(repo, real=True)
    print(len(fa), fa == fb)
    if a != b:
        for x, y in zip(a, b):
            if x != y:
                print(x, y)
                break
