"""Routed_gen.v: the statement SQLGenerator._generate_from_preaggregation builds to answer a query from a rollup table, on scripted queries, extracted from
generator.py on every run by executing the method's AST with translator/pyinterp.py (fail closed).  Scripted: the rollup's table name, _date_trunc (prints as
TRUNC(<gran>,<col>)), the filter rewriting (_rewrite_filter_for_preaggregation prints as RW(<filter>)), the matcher's search for the count measure of an average.
Inlined from the source: _join_conjuncts.  What is extracted: the select item per requested dimension (the rollup's time column as it is, or truncated to a coarser
granularity) and per metric (how each aggregation is re-aggregated), GROUP BY positions, WHERE, ORDER BY, LIMIT, OFFSET."""
import itertools
import re
import sys

from translator.pyinterp import Interp, Obj, PyRaise, Unsupported, find_function

AGG = {"rev": "sum", "cnt": "count", "av": "avg", "mn": "min", "mx": "max", "md": "median", "cd": "count_distinct"}      # ghost: not a metric of the model
PREAGGS = [("ts", "day"), ("ts", "month"), (None, None)]
DIM_LISTS = [[], [("ev.g1", None)], [("ev.ts", "day")], [("ev.ts", "month"), ("ev.g1", None)], [("ts", "day"), ("ev.ts", "year")], [("ev.other", "week"), ("g2", None)]]
METRIC_LISTS = [["ev.rev"], ["ev.cnt", "mn"], ["ev.av"], ["ev.mx", "ev.ghost", "ev.md"], ["ev.cd", "ev.rev"]]
FILTER_LISTS = [None, [], ["ev.g1 = 'a'"], ["ev.g1 = 'a' OR ev.g2 = 'b'", "ev.ts >= '2024-01-01'"]]
EXTRAS = [dict(), dict(order_by=["ev.g1", "ev.rev DESC"], limit=3, offset=1), dict(limit=0, offset=0)]
AVG_COUNT = [None, "cnt"]


def scenarios():
    for pa in PREAGGS:
        for dl in DIM_LISTS:
            for ml in METRIC_LISTS:
                for fl in (FILTER_LISTS if ml is METRIC_LISTS[0] else FILTER_LISTS[:1]):
                    for ex in (EXTRAS if (ml is METRIC_LISTS[0] and fl is None) else EXTRAS[:1]):
                        for ac in (AVG_COUNT if "ev.av" in ml else AVG_COUNT[:1]):
                            yield (pa, dl, ml, fl, ex, ac)


def run_one(fn, funcs, sc, real=False):
    (td, gran), dl, ml, fl, ex, ac = sc
    kwargs = dict(metrics=list(ml), parsed_dims=list(dl), filters=None if fl is None else list(fl), order_by=ex.get("order_by"), limit=ex.get("limit"), offset=ex.get("offset"))
    if real:
        import sidemantic.core.preagg_matcher as PM
        import sidemantic.sql.generator as G

        class B:
            def __init__(self, **kw):
                self.__dict__.update(kw)
        model = B(name="ev", get_metric=lambda n: B(agg=AGG[n], name=n) if n in AGG else None)
        preagg = B(time_dimension=td, granularity=gran, measures=["x"], get_table_name=lambda name, database=None, schema=None: "tbl")

        class FakeMatcher:
            def __init__(self, m):
                pass

            def _find_count_measure_for_avg(self, metric, measures):
                return ac

        class FakeSqlglot:
            @staticmethod
            def parse_one(text, dialect=None):
                raise ValueError("scripted")
        gen = G.SQLGenerator.__new__(G.SQLGenerator)
        gen.dialect, gen.preagg_database, gen.preagg_schema = "duckdb", None, None
        gen._date_trunc = lambda g, c: "TRUNC(%s,%s)" % (g, c)
        gen._rewrite_filter_for_preaggregation = lambda f, m, p: "RW(%s)" % f
        saved = (PM.PreAggregationMatcher, G.sqlglot)
        PM.PreAggregationMatcher, G.sqlglot = FakeMatcher, FakeSqlglot
        try:
            sql = gen._generate_from_preaggregation(model=model, preagg=preagg, **kwargs)
        finally:
            PM.PreAggregationMatcher, G.sqlglot = saved
        return shape(sql)
    model = Obj("model", {"name": "ev"}, {"get_metric": lambda n: Obj("metric", {"agg": AGG[n], "name": n}) if n in AGG else None})
    preagg = Obj("preagg", {"time_dimension": td, "granularity": gran, "measures": ["x"]}, {"get_table_name": lambda name, database=None, schema=None: "tbl"})
    matcher = lambda m: Obj("matcher", {}, {"_find_count_measure_for_avg": lambda metric, measures: ac})

    def parse_one(text, dialect=None):
        raise PyRaise("ValueError", "scripted")
    selfo = Obj("self", {"dialect": "duckdb", "preagg_database": None, "preagg_schema": None},
                {"_date_trunc": lambda g, c: "TRUNC(%s,%s)" % (g, c), "_rewrite_filter_for_preaggregation": lambda f, m, p: "RW(%s)" % f})
    it = Interp({k: v for k, v in funcs.items() if k == "_join_conjuncts"}, {"sqlglot": Obj("sqlglot", {}, {"parse_one": parse_one}), "exp": Obj("exp", {"Or": Obj("class:Or")})})
    it.modules = {"sidemantic.core.preagg_matcher.PreAggregationMatcher": matcher}
    sql = it.call_def(fn, [], dict(model=model, preagg=preagg, **kwargs), self_obj=selfo)
    if not isinstance(sql, str):
        raise Unsupported("_generate_from_preaggregation returns %r" % (sql,))
    return shape(sql)


def shape(sql):
    m = re.match(r"^SELECT\n  (.*?)\nFROM (\S+)(.*)$", sql, re.S)
    if not m:
        raise Unsupported("statement %r" % sql[:200])
    items, table, rest = m.groups()
    sel = items.split(",\n  ") if items else []
    where = group = order = limit = offset = None
    for ln in rest.split("\n"):
        if not ln:
            continue
        if ln.startswith("WHERE "):
            where = ln[6:]
        elif ln.startswith("GROUP BY "):
            group = ln[9:]
        elif ln.startswith("ORDER BY "):
            order = ln[9:]
        elif ln.startswith("LIMIT "):
            limit = ln[6:]
        elif ln.startswith("OFFSET "):
            offset = ln[7:]
        else:
            raise Unsupported("line %r" % ln)
    return (sel, table, where, group, order, limit, offset)


def table(repo, real=False):
    fn, funcs = find_function(repo + "/sidemantic/sql/generator.py", "_generate_from_preaggregation", "SQLGenerator")
    return [(sc, run_one(fn, funcs, sc, real)) for sc in scenarios()]


def q(s):
    return '"%s"' % str(s).replace('"', '""')


def opt(x):
    return "None" if x is None else "(Some %s)" % q(x)


def lst(l):
    return "[%s]" % "; ".join(q(x) for x in l)


def generate(repo):
    items = []
    for ((td, gran), dl, ml, fl, ex, ac), (sel, tbl, where, group, order, limit, offset) in table(repo):
        mets = "[%s]" % "; ".join("(%s, %s)" % (q(m), opt(AGG.get(m.split(".", 1)[-1]))) for m in ml)
        dims = "[%s]" % "; ".join("(%s, %s)" % (q(d), opt(g)) for d, g in dl)
        items.append("((%s, %s, %s, %s, %s, %s, %s, %s, %s), (%s, %s, %s, %s, %s, %s))" % (
            opt(td), opt(gran), dims, mets, "None" if fl is None else "(Some %s)" % lst(fl), lst(ex.get("order_by") or []),
            "None" if ex.get("limit") is None else "(Some %d)" % ex["limit"], "None" if ex.get("offset") is None else "(Some %d)" % ex["offset"], opt(ac),
            lst(sel), opt(where), opt(group), opt(order), opt(limit), opt(offset)))
    return ("(* GENERATED on every run by translator/gen_routed.py from sidemantic/sql/generator.py (_generate_from_preaggregation) -- do not edit *)\n"
            "From Coq Require Import String List Bool.\nImport ListNotations.\nOpen Scope string_scope.\n\n"
            "(* per scripted query: (rollup time dimension, rollup granularity, parsed dimensions, metrics with the aggregation the model gives them (None: not a metric of the model),\n"
            "   filters, order_by, limit, offset, the count measure the matcher finds for an average)  ->  (select items, WHERE, GROUP BY, ORDER BY, LIMIT, OFFSET) *)\n"
            "Definition routed_rows : list ((option string * option string * list (string * option string) * list (string * option string) * option (list string) * list string * option nat * option nat * option string) *\n"
            "                               (list string * option string * option string * option string * option string * option string)) :=\n  [%s].\n" % ";\n   ".join(items))


if __name__ == "__main__":
    repo = sys.argv[1] if len(sys.argv) > 1 else "/repo"
    a, b = table(repo), table(repo, real=True)
    print(len(a), a == b)
    for x, y in zip(a, b):
        if x != y:
            print(x, "\n", y)
            break
    for r in a[:3] + a[-2:]:
        print(r)
