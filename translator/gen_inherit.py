"""Inherit_gen.v: what sidemantic.core.inheritance.merge_model makes of a child model that extends a parent, on scripted parents / children, extracted from inheritance.py
on every run by executing the function's AST with translator/pyinterp.py (fail closed).  Scripted: the two pydantic objects (model_dump with include / exclude,
model_fields_set, name) and the five constructors (Dimension / Metric / Relationship / Segment / Model return what they were given, tagged).  What is extracted: for each of the
four item lists the (name, payload) pairs of the merged model in order, and every scalar field of the merged model."""
import itertools
import sys

from translator.pyinterp import Interp, Obj, Unsupported, find_function

LISTS = ["dimensions", "metrics", "relationships", "segments"]
ITEM_LISTS = [[], [("a", "pa")], [("a", "pa"), ("b", "pb")], [("b", "pb"), ("a", "pa"), ("c", "pc")], [("a", "p1"), ("a", "p2")]]
CHILD_ITEM_LISTS = [None, [], [("a", "ca")], [("z", "cz"), ("a", "ca")], [("b", "cb"), ("b", "cb2"), ("y", "cy")]]
PARENT_SCALARS = [dict(table="pt", sql=None, description="pd", primary_key="id", default_time_dimension=None, default_grain=None, pre_aggregations=[], extends=None),
                  dict(table=None, sql="psql", description=None, primary_key=["k1", "k2"], default_time_dimension="pts", default_grain="day", pre_aggregations=["prollup"], extends="grand")]
CHILD_SCALARS = [dict(), dict(table="ct"), dict(sql="csql", description=None), dict(primary_key="cid", default_time_dimension="cts", default_grain="month", pre_aggregations=["crollup"]),
                 dict(table=None, extends="p", description="cd")]


def scenarios():
    out = []
    for pi, ci in itertools.product(range(len(ITEM_LISTS)), range(len(CHILD_ITEM_LISTS))):
        out.append((pi, ci, 0, 0))
    for ps, cs in itertools.product(range(len(PARENT_SCALARS)), range(len(CHILD_SCALARS))):
        out.append((2, 3, ps, cs))
    return out


def parent_child(sc):
    pi, ci, ps, cs = sc
    pdata = dict(PARENT_SCALARS[ps], name="p")
    for k, f in enumerate(LISTS):
        pdata[f] = [dict(name=n, payload="%s:%s" % (f[0], v)) for n, v in ITEM_LISTS[(pi + k) % len(ITEM_LISTS)]]
    cdata = dict(CHILD_SCALARS[cs], name="c")
    cset = set(CHILD_SCALARS[cs]) | {"name", "extends"}
    for k, f in enumerate(LISTS):
        items = CHILD_ITEM_LISTS[(ci + k) % len(CHILD_ITEM_LISTS)]
        if items is not None:
            cdata[f] = [dict(name=n, payload="%s:%s" % (f[0], v)) for n, v in items]
            cset.add(f)
    cdata.setdefault("extends", "p")
    return pdata, cdata, cset


def dump(data, include=None, exclude=None):
    import copy
    out = {k: copy.deepcopy(v) for k, v in data.items() if (include is None or k in include) and not (exclude and k in exclude)}
    return out


def observe(merged):
    tag, data = merged
    if tag != "Model":
        raise Unsupported("merge_model returns %r" % (tag,))
    lists = []
    for f in LISTS:
        items = data.get(f) or []
        row = []
        for it in items:
            if isinstance(it, tuple):          # reconstructed through its class
                row.append((it[1]["name"], it[1]["payload"], it[0]))
            else:
                row.append((it["name"], it["payload"], "dict"))
        lists.append(row)
    scal = {k: v for k, v in data.items() if k not in LISTS}
    return lists, sorted((k, repr(v)) for k, v in scal.items())


def run_interp(fn, sc):
    pdata, cdata, cset = parent_child(sc)
    parent = Obj("parent", {"name": "p"}, {"model_dump": lambda include=None, exclude=None: dump(pdata, include, exclude)})
    child = Obj("child", {"name": "c", "model_fields_set": set(cset)}, {"model_dump": lambda include=None, exclude=None: dump(cdata, include, exclude)})
    ctor = lambda tag: (lambda **kw: (tag, kw))
    it = Interp({}, {"Dimension": ctor("Dimension"), "Metric": ctor("Metric"), "Relationship": ctor("Relationship"), "Segment": ctor("Segment"), "Model": ctor("Model")})
    return observe(it.call_def(fn, [child, parent]))


def run_real(sc):
    import sidemantic.core.inheritance as I
    pdata, cdata, cset = parent_child(sc)

    class B:
        def __init__(self, name, data, fset=None):
            self.name, self._d, self.model_fields_set = name, data, fset

        def model_dump(self, include=None, exclude=None):
            return dump(self._d, include, exclude)
    saved = (I.Dimension, I.Metric, I.Relationship, I.Segment, I.Model)
    ctor = lambda tag: (lambda **kw: (tag, kw))
    I.Dimension, I.Metric, I.Relationship, I.Segment, I.Model = ctor("Dimension"), ctor("Metric"), ctor("Relationship"), ctor("Segment"), ctor("Model")
    try:
        return observe(I.merge_model(B("c", cdata, set(cset)), B("p", pdata)))
    finally:
        I.Dimension, I.Metric, I.Relationship, I.Segment, I.Model = saved


def table(repo, real=False):
    fn, _ = find_function(repo + "/sidemantic/core/inheritance.py", "merge_model")
    return [(sc, run_real(sc) if real else run_interp(fn, sc)) for sc in scenarios()]


def q(s):
    return '"%s"' % str(s).replace('"', '""')


def lst(l, f=q):
    return "[%s]" % "; ".join(f(x) for x in l)


def generate(repo):
    rows = table(repo)
    items = []
    for sc, (lists, scal) in rows:
        pdata, cdata, cset = parent_child(sc)
        pl = lst([lst([(d["name"], d["payload"]) for d in pdata[f]], lambda p: "(%s, %s)" % (q(p[0]), q(p[1]))) for f in LISTS], lambda x: x)
        cl = lst([("None" if f not in cset else "(Some %s)" % lst([(d["name"], d["payload"]) for d in cdata[f]], lambda p: "(%s, %s)" % (q(p[0]), q(p[1])))) for f in LISTS], lambda x: x)
        ps = lst(sorted((k, repr(v)) for k, v in pdata.items() if k not in LISTS and k != "name"), lambda p: "(%s, %s)" % (q(p[0]), q(p[1])))
        cs = lst(sorted((k, repr(v)) for k, v in cdata.items() if k not in LISTS and k in cset and k not in ("name", "extends")), lambda p: "(%s, %s)" % (q(p[0]), q(p[1])))
        ml = lst([lst([(n, p) for n, p, _ in row], lambda p: "(%s, %s)" % (q(p[0]), q(p[1]))) for row in lists], lambda x: x)
        ms = lst([(k, v) for k, v in scal if k != "name"], lambda p: "(%s, %s)" % (q(p[0]), q(p[1])))
        name = dict(scal)["name"]
        items.append("((%s, %s, %s, %s), (%s, %s, %s))" % (pl, cl, ps, cs, q(eval(name)), ml, ms))
    return ("(* GENERATED on every run by translator/gen_inherit.py from sidemantic/core/inheritance.py (merge_model) -- do not edit *)\n"
            "From Coq Require Import String List.\nRequire Import V.Model.Inherit.\nImport ListNotations.\nOpen Scope string_scope.\n\n"
            "(* per scenario: (the parent's four item lists as (name, payload) pairs, the child's four lists -- None: the child does not set the field --, the parent's other fields\n"
            "   as (field, printed value), the fields the child sets itself)  ->  (name of the merged model, its four item lists, its other fields) *)\n"
            "Definition inherit_rows : list ((list (list (string * string)) * list (option (list (string * string))) * list (string * string) * list (string * string)) *\n"
            "                                (string * list (list (string * string)) * list (string * string))) :=\n  [%s].\n" % ";\n   ".join(items))


if __name__ == "__main__":
    repo = sys.argv[1] if len(sys.argv) > 1 else "/repo"
    a, b = table(repo), table(repo, real=True)
    print(len(a), a == b)
    for x, y in zip(a, b):
        if x != y:
            print(x, "\n", y)
            break
    for r in a[:3] + a[-2:]:
        print(r)
