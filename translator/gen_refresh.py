"""Refresh_gen.v: the STATEMENT PROGRAMS of PreAggregation._refresh_full / _refresh_incremental / _refresh_merge and the mode dispatch
of PreAggregation.refresh, extracted from sidemantic/core/pre_aggregation.py on every run.

How: the bodies of the three functions are executed by a small definitional interpreter over a WHITELISTED subset of the Python
AST (assignments to local names, if / try-except-pass, f-strings, str(), .startswith, .replace, `is None`, `not`, truthiness,
connection.execute(<string>)[.fetchone()], self._get_current_watermark(...), return) against a scripted connection, once per
scenario (target table exists or not, the table has a maximum watermark or is empty, lookback given or not).  The scenario space
covers every branch condition the whitelist admits, so the recorded statement list per scenario IS the function's behaviour on its
SQL side.  Any other node kind, any other name read, any statement text the classifier does not know -> Unsupported (fail closed).
Each executed SQL text is parsed into a constructor of Model/RefreshProg.stmt; pure reads (SELECT 1 / COUNT / MAX) are dropped."""
import ast
import re
import sys


class Unsupported(Exception):
    pass


class _Raise(Exception):
    """a Python exception raised inside the interpreted code"""


class _Return(Exception):
    def __init__(self, v):
        self.v = v


class Opaque:
    def __init__(self, what):
        self.what = what


TABLE, SRC, COL, WMV, LB = "T", "SRC<{WATERMARK}>", "wmcol", "2024-01-05", "7 days"


class Conn:
    """scripted connection: records statements; probes answer from the scenario"""

    def __init__(self, exists, wm):
        self.tables = {TABLE} if exists else set()
        self.wm = wm
        self.log = []

    def execute(self, sql):
        if not isinstance(sql, str):
            raise Unsupported("connection.execute on a non-string")
        s = " ".join(sql.split())
        self.log.append(s)
        m = re.fullmatch(r"SELECT 1 FROM (\S+) LIMIT 1", s)
        if m:
            if m.group(1) not in self.tables:
                raise _Raise("no table")
            return Result((1,))
        m = re.fullmatch(r"SELECT MAX\((\S+)\) as max_watermark FROM (\S+)", s)
        if m:
            if m.group(2) not in self.tables:
                raise _Raise("no table")
            return Result((self.wm,))
        m = re.fullmatch(r"SELECT COUNT\(\*\) FROM (\S+)", s)
        if m:
            return Result((0,))
        m = re.fullmatch(r"CREATE TABLE (\S+) AS .*", s)
        if m:
            self.tables.add(m.group(1))
            if self.wm is None:
                self.wm = WMV
            return Result(None)
        m = re.fullmatch(r"DROP TABLE (IF EXISTS )?(\S+)", s)
        if m:
            self.tables.discard(m.group(2))
            return Result(None)
        return Result(None)


class Result:
    def __init__(self, row):
        self.row = row

    def fetchone(self):
        return self.row


class Interp:
    def __init__(self, funcs, conn):
        self.funcs, self.conn = funcs, conn

    def call(self, fname, args):
        f = self.funcs[fname]
        params = [a.arg for a in f.args.args]
        if params[0] != "self":
            raise Unsupported("%s: not a method" % fname)
        env = dict(zip(params[1:], args))
        if len(env) != len(params) - 1:
            raise Unsupported("%s: arity" % fname)
        try:
            self.block(f.body, env)
        except _Return as r:
            return r.v
        return None

    def block(self, stmts, env):
        for s in stmts:
            self.stmt(s, env)

    def stmt(self, s, env):
        if isinstance(s, ast.Expr):
            if isinstance(s.value, ast.Constant) and isinstance(s.value.value, str):
                return  # docstring
            self.expr(s.value, env)
        elif isinstance(s, ast.Assign):
            if len(s.targets) != 1:
                raise Unsupported("line %d: multiple assignment targets" % s.lineno)
            t = s.targets[0]
            v = self.expr(s.value, env)
            if isinstance(t, ast.Name):
                env[t.id] = v
            elif isinstance(t, ast.Tuple) and all(isinstance(e, ast.Name) for e in t.elts) and isinstance(v, tuple) and len(v) == len(t.elts):
                for e, x in zip(t.elts, v):
                    env[e.id] = x
            else:
                raise Unsupported("line %d: assignment target" % s.lineno)
        elif isinstance(s, ast.If):
            self.block(s.body if self.truth(self.expr(s.test, env), s) else s.orelse, env)
        elif isinstance(s, ast.Try):
            if s.finalbody or s.orelse or len(s.handlers) != 1 or (s.handlers[0].type is not None and not (isinstance(s.handlers[0].type, ast.Name) and s.handlers[0].type.id == "Exception")):
                raise Unsupported("line %d: try shape" % s.lineno)
            try:
                self.block(s.body, env)
            except _Raise:
                self.block(s.handlers[0].body, env)
        elif isinstance(s, ast.Pass):
            pass
        elif isinstance(s, ast.Return):
            raise _Return(self.expr(s.value, env) if s.value is not None else None)
        elif isinstance(s, ast.Raise):
            raise _Raise("raise at line %d" % s.lineno)
        else:
            raise Unsupported("line %d: statement %s" % (s.lineno, type(s).__name__))

    def truth(self, v, node):
        if isinstance(v, Opaque):
            raise Unsupported("line %d: branch on an opaque value (%s)" % (node.lineno, v.what))
        return bool(v)

    def expr(self, e, env):
        if isinstance(e, ast.Constant):
            return e.value
        if isinstance(e, ast.Name):
            if e.id not in env:
                raise Unsupported("line %d: read of unknown name %s" % (e.lineno, e.id))
            return env[e.id]
        if isinstance(e, ast.JoinedStr):
            out = []
            for p in e.values:
                if isinstance(p, ast.Constant):
                    out.append(p.value)
                elif isinstance(p, ast.FormattedValue) and p.conversion == -1 and p.format_spec is None:
                    v = self.expr(p.value, env)
                    if isinstance(v, Opaque):
                        raise Unsupported("line %d: opaque value inside SQL text" % e.lineno)
                    out.append(str(v))
                else:
                    raise Unsupported("line %d: f-string piece" % e.lineno)
            return "".join(out)
        if isinstance(e, ast.Tuple):
            return tuple(self.expr(x, env) for x in e.elts)
        if isinstance(e, ast.UnaryOp) and isinstance(e.op, ast.Not):
            return not self.truth(self.expr(e.operand, env), e)
        if isinstance(e, ast.UnaryOp) and isinstance(e.op, ast.USub) and isinstance(e.operand, ast.Constant):
            return -e.operand.value
        if isinstance(e, ast.BoolOp):
            vals = [self.expr(x, env) for x in e.values]
            if isinstance(e.op, ast.And):
                r = True
                for v in vals:
                    r = v
                    if not self.truth(v, e):
                        break
                return r
            r = False
            for v in vals:
                r = v
                if self.truth(v, e):
                    break
            return r
        if isinstance(e, ast.Compare) and len(e.ops) == 1:
            a, b = self.expr(e.left, env), self.expr(e.comparators[0], env)
            if isinstance(a, Opaque) or isinstance(b, Opaque):
                raise Unsupported("line %d: comparison of an opaque value" % e.lineno)
            op = e.ops[0]
            if isinstance(op, ast.Is):
                return a is b
            if isinstance(op, ast.IsNot):
                return a is not b
            if isinstance(op, ast.Eq):
                return a == b
            if isinstance(op, ast.NotEq):
                return a != b
            raise Unsupported("line %d: comparison operator" % e.lineno)
        if isinstance(e, ast.IfExp):
            return self.expr(e.body if self.truth(self.expr(e.test, env), e) else e.orelse, env)
        if isinstance(e, ast.Subscript) and isinstance(e.slice, ast.Constant):
            v = self.expr(e.value, env)
            if isinstance(v, tuple):
                return v[e.slice.value]
            raise Unsupported("line %d: subscript" % e.lineno)
        if isinstance(e, ast.Call):
            return self.callexpr(e, env)
        raise Unsupported("line %d: expression %s" % (e.lineno, type(e).__name__))

    def callexpr(self, e, env):
        f = e.func
        if e.keywords:
            raise Unsupported("line %d: keyword arguments" % e.lineno)
        args = [self.expr(a, env) for a in e.args]
        if isinstance(f, ast.Name) and f.id == "str" and len(args) == 1:
            if isinstance(args[0], Opaque):
                raise Unsupported("str() of opaque")
            return str(args[0])
        if isinstance(f, ast.Attribute):
            # connection.execute(...)
            if isinstance(f.value, ast.Name) and f.value.id == "connection" and f.attr == "execute" and len(args) == 1:
                return self.conn.execute(args[0])
            if isinstance(f.value, ast.Name) and f.value.id == "self":
                if f.attr in self.funcs and f.attr.startswith("_"):
                    return self.call(f.attr, args)
                raise Unsupported("line %d: self.%s" % (e.lineno, f.attr))
            recv = self.expr(f.value, env)
            if isinstance(recv, Result) and f.attr == "fetchone" and not args:
                return recv.fetchone()
            if isinstance(recv, str) and f.attr == "startswith" and len(args) == 1:
                return recv.startswith(args[0])
            if isinstance(recv, str) and f.attr == "replace" and len(args) == 2:
                return recv.replace(args[0], args[1])
        raise Unsupported("line %d: call" % e.lineno)


# ------------------------------------------------------------------ SQL text -> stmt constructors
def wm_term(text, has_wm, has_lb):
    base = "'%s'" % (WMV if has_wm else "1970-01-01")
    if text == base:
        return "WCur"
    if text == "(CAST(%s AS TIMESTAMP) - INTERVAL '%s')" % (base, LB) and has_lb:
        return "WLookback"
    raise Unsupported("watermark expression %r (scenario has_wm=%s has_lb=%s)" % (text, has_wm, has_lb))


def tbl_term(name):
    if name == TABLE:
        return "TTarget"
    if name == TABLE + "_merge_temp":
        return "TTemp"
    raise Unsupported("table name %r" % name)


def src_term(text, has_wm, has_lb):
    if text == SRC:
        return "None"
    m = re.fullmatch(r"SRC<(.*)>", text)
    if not m:
        raise Unsupported("source statement %r" % text)
    return "(Some %s)" % wm_term(m.group(1), has_wm, has_lb)


CMP = {">=": "CGe", ">": "CGt", "<=": "CLe", "<": "CLt", "=": "CEq"}


def classify(s, has_wm, has_lb):
    if re.fullmatch(r"SELECT 1 FROM \S+ LIMIT 1|SELECT MAX\(\S+\) as max_watermark FROM \S+|SELECT COUNT\(\*\) FROM \S+", s):
        return None
    m = re.fullmatch(r"DROP TABLE IF EXISTS (\S+)", s)
    if m:
        return "SDropIfExists %s" % tbl_term(m.group(1))
    m = re.fullmatch(r"DROP TABLE (\S+)", s)
    if m:
        return "SDrop %s" % tbl_term(m.group(1))
    m = re.fullmatch(r"CREATE TABLE (\S+) AS (SRC<.*>)", s)
    if m:
        return "SCreateAs %s %s" % (tbl_term(m.group(1)), src_term(m.group(2), has_wm, has_lb))
    m = re.fullmatch(r"INSERT INTO (\S+) SELECT \* FROM (\S+)", s)
    if m:
        return "SInsertAll %s %s" % (tbl_term(m.group(1)), tbl_term(m.group(2)))
    m = re.fullmatch(r"INSERT INTO (\S+) (SRC<.*>)", s)
    if m:
        return "SInsertSrc %s %s" % (tbl_term(m.group(1)), src_term(m.group(2), has_wm, has_lb))
    m = re.fullmatch(r"DELETE FROM (\S+) WHERE (\S+) (>=|>|<=|<|=) (.*)", s)
    if m:
        if m.group(2) != COL:
            raise Unsupported("DELETE on column %r (not the watermark column)" % m.group(2))
        return "SDelete %s %s %s" % (tbl_term(m.group(1)), CMP[m.group(3)], wm_term(m.group(4), has_wm, has_lb))
    raise Unsupported("statement not understood: %r" % s)


def run_mode(funcs, fname, exists, has_wm, has_lb):
    conn = Conn(exists, WMV if (exists and has_wm) else None)
    it = Interp(funcs, conn)
    args = [conn, SRC, TABLE] if fname == "_refresh_full" else [conn, SRC, TABLE, COL, LB if has_lb else None, None, None]
    try:
        it.call(fname, args)
    except _Raise as ex:
        raise Unsupported("%s raises in scenario exists=%s has_wm=%s has_lb=%s: %s" % (fname, exists, has_wm, has_lb, ex))
    out = []
    for s in conn.log:
        c = classify(s, exists and has_wm, has_lb)
        if c:
            out.append(c)
    return out


def dispatch_table(refresh_fn):
    """mode literal -> private method called, read off the if/elif chain of PreAggregation.refresh; default-mode inference"""
    table = []
    for n in ast.walk(refresh_fn):
        if isinstance(n, ast.If) and isinstance(n.test, ast.Compare) and isinstance(n.test.left, ast.Name) and n.test.left.id == "mode" \
                and len(n.test.ops) == 1 and isinstance(n.test.ops[0], ast.Eq) and isinstance(n.test.comparators[0], ast.Constant):
            lit = n.test.comparators[0].value
            calls = [c.func.attr for b in n.body for c in ast.walk(b) if isinstance(c, ast.Call) and isinstance(c.func, ast.Attribute)
                     and isinstance(c.func.value, ast.Name) and c.func.value.id == "self"]
            if len(calls) != 1:
                raise Unsupported("refresh(): mode %r calls %r" % (lit, calls))
            # the arguments must be passed through in order (connection, source_sql, table_name[, watermark_column, lookback, from_watermark, to_watermark])
            call = [c for b in n.body for c in ast.walk(b) if isinstance(c, ast.Call) and isinstance(c.func, ast.Attribute) and c.func.attr == calls[0]][0]
            names = [a.id if isinstance(a, ast.Name) else "?" for a in call.args]
            want = {"_refresh_full": ["connection", "source_sql", "table_name"],
                    "_refresh_incremental": ["connection", "source_sql", "table_name", "watermark_column", "lookback", "from_watermark", "to_watermark"],
                    "_refresh_merge": ["connection", "source_sql", "table_name", "watermark_column", "lookback", "from_watermark", "to_watermark"]}
            if calls[0] in want and names != want[calls[0]]:
                raise Unsupported("refresh(): %s called with %r" % (calls[0], names))
            table.append((lit, calls[0]))
    return table


def generate(repo):
    path = repo + "/sidemantic/core/pre_aggregation.py"
    tree = ast.parse(open(path).read())
    cls = [n for n in tree.body if isinstance(n, ast.ClassDef) and n.name == "PreAggregation"]
    if not cls:
        raise Unsupported("class PreAggregation not found")
    funcs = {n.name: n for n in cls[0].body if isinstance(n, ast.FunctionDef)}
    for need in ("refresh", "_refresh_full", "_refresh_incremental", "_refresh_merge", "_get_current_watermark"):
        if need not in funcs:
            raise Unsupported("method %s not found" % need)
    lines = ["(* GENERATED on every run by translator/gen_refresh.py from sidemantic/core/pre_aggregation.py -- do not edit *)",
             "From Coq Require Import String List Bool.", "Require Import V.Model.RefreshProg.", "Import ListNotations.", "Open Scope string_scope.", ""]
    full = {tuple(run_mode(funcs, "_refresh_full", ex, wm, False)) for ex in (False, True) for wm in (False, True)}
    if len(full) != 1:
        raise Unsupported("_refresh_full depends on the scenario: %r" % full)
    lines.append("Definition refresh_full_prog : list stmt := [%s]." % "; ".join(full.pop()))
    lines.append("")
    for fname, cname in (("_refresh_incremental", "refresh_incr_prog"), ("_refresh_merge", "refresh_merge_prog")):
        lines.append("(* arguments: the target table exists; it has a maximum watermark (is non-empty); a lookback is given *)")
        lines.append("Definition %s (exists_ has_wm has_lb : bool) : list stmt :=" % cname)
        lines.append("  match exists_, has_wm, has_lb with")
        for ex in (False, True):
            for wm in (False, True):
                for lb in (False, True):
                    prog = run_mode(funcs, fname, ex, wm, lb)
                    lines.append("  | %s, %s, %s => [%s]" % (str(ex).lower(), str(wm).lower(), str(lb).lower(), "; ".join(prog)))
        lines.append("  end.")
        lines.append("")
    disp = dispatch_table(funcs["refresh"])
    lines.append("Definition mode_dispatch : list (string * string) := [%s]." % "; ".join('("%s", "%s")' % d for d in disp))
    return "\n".join(lines) + "\n"


if __name__ == "__main__":
    sys.stdout.write(generate(sys.argv[1] if len(sys.argv) > 1 else "/repo"))
