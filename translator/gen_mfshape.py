"""MultiFactShape_gen.v: the STRUCTURE of the statement SQLGenerator._generate_with_preaggregation builds (the multi-fact form), on scripted queries,
extracted from generator.py on every run by executing the method's AST with translator/pyinterp.py (fail closed).  Scripted: generate() (each
sub-query is recorded and replaced by a marker), _resolve_segments, _classify_filters_for_pushdown (filter texts carry their own classification),
sqlglot's expression constructors (a NULL-safe equality prints as `<l> <=> <r>`), the instrumentation comment.  Inlined from the source:
_parse_dimension_refs, _join_conjuncts.  What is extracted: which sub-queries are generated with which metrics / dimensions / filters, the output
columns (COALESCE over all sub-queries per dimension column, metric aliases incl. the collision prefix), the join of every later sub-query with the
FIRST one and the columns it is joined on, where the remaining filters, ORDER BY, LIMIT and OFFSET go."""
import re
import sys

from translator.pyinterp import Interp, Obj, PyRaise, Unsupported, find_function

MODELS = ["a", "b", "c", "x"]
METRIC_LISTS = [["a.m", "b.n"], ["b.n", "a.m", "a.k"], ["a.m", "b.m"], ["a.m", "b.n", "c.p"], ["a.m", "gm", "b.n"], ["a.m", "a.k"]]
DIM_LISTS = [[], ["a.d"], ["a.t__month", "a.t__year"], ["a.t__year", "b.e", "a.t__month"], ["x.d", "a.d"]]
FILTER_LISTS = [None, ["R:a:f1"], ["R:x:f2", "R:b:f3"], ["H:f4"], ["R:a:f1", "H:f4", "M:f5"]]
EXTRAS = [dict(), dict(order_by=["a.d", "b.n DESC"], limit=5, offset=2), dict(limit=0), dict(segments=["a.s1"]), dict(aliases={"a.m": "mm", "a.t__month": "mo", "a.d": "dd"})]


def scenarios():
    for ms in METRIC_LISTS:
        for ds in DIM_LISTS:
            for fl in FILTER_LISTS[:3] if ms is not METRIC_LISTS[0] else FILTER_LISTS:
                for ex in EXTRAS[:1] if (ms is not METRIC_LISTS[0] and ms is not METRIC_LISTS[2]) else EXTRAS:
                    yield (ms, ds, fl, ex)


def classify(filters, models):
    """the scripted _classify_filters_for_pushdown: R:<model>:<text> is a row filter of that model, H:/M: stay in the main query"""
    push = {m: [] for m in models}
    main = []
    for f in filters:
        kind = f.split(":")[0]
        if kind in ("R", "SEG") and f.split(":")[1] in push:
            push[f.split(":")[1]].append(f)
        else:
            main.append(f)
    return push, main


def run_one(fn, funcs, sc, real=False):
    ms, ds, fl, ex = sc
    subs = []

    def generate(metrics=None, dimensions=None, filters=None, segments=None, order_by=None, limit=None, offset=None, aliases=None, **kw):
        plain = not (kw or segments is not None or order_by is not None or limit is not None or offset is not None or aliases is not None)
        subs.append((list(metrics or []), list(dimensions or []), list(filters or []), plain))
        return "SUB%d\n-- sidemantic: inner" % len(subs)
    kwargs = dict(metrics=list(ms), dimensions=list(ds), filters=None if fl is None else list(fl), segments=ex.get("segments"), order_by=ex.get("order_by"), limit=ex.get("limit"),
                  offset=ex.get("offset"), aliases=ex.get("aliases"))
    if real:
        import sidemantic.sql.generator as G

        class FakeExp:
            class Column:
                def __init__(self, this=None, table=None):
                    self.this, self.table = this, table

            class NullSafeEQ:
                def __init__(self, this=None, expression=None):
                    self.l, self.r = this, expression

                def sql(self, dialect=None):
                    return "%s.%s <=> %s.%s" % (self.l.table, self.l.this, self.r.table, self.r.this)

            class Or:
                pass

            @staticmethod
            def to_identifier(x):
                return x

        class FakeSqlglot:
            @staticmethod
            def parse_one(text, dialect=None):
                raise ValueError("scripted: unparsable")

        class Gr:
            models = {m: object() for m in MODELS}
        gen = G.SQLGenerator.__new__(G.SQLGenerator)
        gen.dialect, gen.graph = "duckdb", Gr()
        gen.generate = generate
        gen._resolve_segments = lambda segs: ["SEG:%s:%s" % (s.split(".")[0], s) for s in segs]
        gen._classify_filters_for_pushdown = lambda filters, models: classify(filters, models)
        gen._generate_instrumentation_comment = lambda **kw: "-- instr"
        saved = (G.exp, G.sqlglot)
        G.exp, G.sqlglot = FakeExp, FakeSqlglot
        try:
            sql = gen._generate_with_preaggregation(**kwargs)
        finally:
            G.exp, G.sqlglot = saved
        return shape(sql, subs)

    def column(this=None, table=None):
        return Obj("column", {"this": this, "table": table})

    def nullsafe(this=None, expression=None):
        return Obj("nseq", {}, {"sql": lambda dialect=None, _l=this, _r=expression: "%s.%s <=> %s.%s" % (_l.attrs["table"], _l.attrs["this"], _r.attrs["table"], _r.attrs["this"])})

    def parse_one(text, dialect=None):
        raise PyRaise("ValueError", "scripted: unparsable")
    exp = Obj("exp", {"Or": Obj("class:Or")}, {"Column": column, "NullSafeEQ": nullsafe, "to_identifier": lambda x: x})
    sqlglot = Obj("sqlglot", {}, {"parse_one": parse_one})
    selfo = Obj("self", {"dialect": "duckdb", "graph": Obj("graph", {"models": {m: Obj("model:" + m) for m in MODELS}})},
                {"generate": generate, "_resolve_segments": lambda segs: ["SEG:%s:%s" % (s.split(".")[0], s) for s in segs],
                 "_classify_filters_for_pushdown": lambda filters, models: classify(filters, models),
                 "_generate_instrumentation_comment": lambda **kw: "-- instr"})
    it = Interp({k: v for k, v in funcs.items() if k in ("_parse_dimension_refs", "_join_conjuncts")}, {"exp": exp, "sqlglot": sqlglot})
    sql = it.call_def(fn, [], kwargs, self_obj=selfo)
    if not isinstance(sql, str):
        raise Unsupported("_generate_with_preaggregation returns %r" % (sql,))
    return shape(sql, subs)


def shape(sql, subs):
    """the statement as a structure; raises Unsupported on text it does not understand"""
    if not subs:
        raise Unsupported("no sub-query generated")
    if len(subs) == 1 and sql.startswith("SUB1"):
        return ("fallback", [x[:3] for x in subs])           # fewer than two metric models: the whole query is handed back to generate()
    if not all(x[3] for x in subs):
        raise Unsupported("a sub-query was generated with segments / order / limit / offset / aliases of the outer query")
    subs = [x[:3] for x in subs]
    m = re.match(r"^WITH (.*)\nSELECT\n  (.*?)\nFROM (\S+)\n(.*)$", sql, re.S)
    if not m:
        raise Unsupported("statement shape: %r" % sql[:200])
    ctes_text, select_text, first, rest = m.groups()
    ctes = re.findall(r"(\w+) AS \(\n(SUB\d+)\n\)", ctes_text)
    if len(ctes) != len(subs) or [c[1] for c in ctes] != ["SUB%d" % (i + 1) for i in range(len(subs))]:
        raise Unsupported("CTE list %r vs %d recorded sub-queries" % (ctes, len(subs)))
    if "-- sidemantic: inner" in sql:
        raise Unsupported("inner instrumentation comment kept")
    selects = []
    for e in select_text.split(",\n  "):
        mm = re.match(r"^COALESCE\((.*)\) AS (\S+)$", e)
        if mm:
            selects.append(("dim", mm.group(1).split(", "), mm.group(2)))
            continue
        mm = re.match(r"^(\w+)\.(\w+) AS (\S+)$", e)
        if not mm:
            raise Unsupported("select item %r" % e)
        selects.append(("metric", [mm.group(1) + "." + mm.group(2)], mm.group(3)))
    lines = rest.split("\n")
    joins, where, order, limit, offset = [], None, None, None, None
    for ln in lines:
        if ln.startswith("CROSS JOIN "):
            joins.append(("cross", ln[len("CROSS JOIN "):], []))
        elif ln.startswith("FULL OUTER JOIN "):
            mm = re.match(r"^FULL OUTER JOIN (\w+) ON (.*)$", ln)
            conds = mm.group(2).split(" AND ")
            keys = []
            for cd in conds:
                k = re.match(r"^(\w+)\.(\w+) <=> (\w+)\.(\w+)$", cd)
                if not k:
                    raise Unsupported("join condition %r" % cd)
                keys.append("%s.%s=%s.%s" % k.groups())
            joins.append(("full", mm.group(1), keys))
        elif ln.startswith("WHERE "):
            where = ln[len("WHERE "):]
        elif ln.startswith("ORDER BY "):
            order = ln[len("ORDER BY "):]
        elif ln.startswith("LIMIT "):
            limit = ln[len("LIMIT "):]
        elif ln.startswith("OFFSET "):
            offset = ln[len("OFFSET "):]
        elif ln == "-- instr" or ln == "":
            continue
        else:
            raise Unsupported("line %r" % ln)
    return ("mf", [c[0] for c in ctes], subs, selects, first, joins, where, order, limit, offset)


def table(repo, real=False):
    fn, funcs = find_function(repo + "/sidemantic/sql/generator.py", "_generate_with_preaggregation", "SQLGenerator")
    return [(sc, run_one(fn, funcs, sc, real)) for sc in scenarios()]


def q(s):
    return '"%s"' % str(s).replace('"', '""')


def lst(l):
    return "[%s]" % "; ".join(q(x) for x in l)


def opt(x):
    return "None" if x is None else "(Some %s)" % q(x)


def generate(repo):
    items = []
    for (ms, ds, fl, ex), sh in table(repo):
        inp = "(%s, %s, %s, %s, %s, %s, %s)" % (lst(ms), lst(ds), "None" if fl is None else "(Some %s)" % lst(fl), lst(ex.get("segments") or []), lst(ex.get("order_by") or []),
                                                "None" if ex.get("limit") is None else "(Some %d)" % ex["limit"], "None" if not ex.get("offset") else "(Some %d)" % ex["offset"])
        al = "[%s]" % "; ".join("(%s, %s)" % (q(k), q(v)) for k, v in (ex.get("aliases") or {}).items())
        if sh[0] == "fallback":
            out = "Fallback"
        else:
            _, ctes, subs, selects, first, joins, where, order, limit, offset = sh
            out = "Shape %s [%s] [%s] %s [%s] %s %s %s %s" % (
                lst(ctes), "; ".join("(%s, %s, %s)" % (lst(a), lst(b), lst(c)) for a, b, c in subs),
                "; ".join("(%s, %s, %s)" % ("true" if k == "dim" else "false", lst(parts), q(alias)) for k, parts, alias in selects), q(first),
                "; ".join("(%s, %s, %s)" % ("true" if k == "full" else "false", q(t), lst(keys)) for k, t, keys in joins), opt(where), opt(order), opt(limit), opt(offset))
        items.append("(%s, %s, %s)" % (inp, al, out))
    return ("(* GENERATED on every run by translator/gen_mfshape.py from sidemantic/sql/generator.py (_generate_with_preaggregation) -- do not edit *)\n"
            "From Coq Require Import String List Bool.\nRequire Import V.Model.MultiFactShape.\nImport ListNotations.\nOpen Scope string_scope.\n\n"
            "(* per scripted query: (metrics, dimensions, filters, segments, order_by, limit, offset), custom aliases -> the structure of the statement *)\n"
            "Definition mfshape_rows : list (mf_input * list (string * string) * mf_shape) :=\n  [%s].\n" % ";\n   ".join(items))


if __name__ == "__main__":
    repo = sys.argv[1] if len(sys.argv) > 1 else "/repo"
    a, b = table(repo), table(repo, real=True)
    print(len(a), a == b)
    for x, y in zip(a, b):
        if x != y:
            print(x, "\n", y)
            break
    print(a[3])
    print(a[-1])
