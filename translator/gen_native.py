"""NativeFields_gen.v: the field-by-field export and parse tables of the native YAML adapter (sidemantic/adapters/sidemantic.py:
export, _export_model, _export_metric, _parse_model, _parse_metric, _parse_parameter), and the pydantic fields with their defaults of
the classes involved (obtained by importing /repo), regenerated on every run.

Export rows:  (class, dict key, attribute, condition)   condition in Always | Truthy | NeConst c | Falsy
Parse rows:   (class, field, [dict keys tried in order], default of the lookup)
Fail-closed: an export condition or a parse expression of any other shape raises Unsupported."""
import ast
import os

SRC = "sidemantic/adapters/sidemantic.py"


class Unsupported(Exception):
    pass


OWNER_CLASS = {("_export_model", "model"): "Model", ("_export_model", "relationship"): "Relationship", ("_export_model", "dim"): "Dimension", ("_export_model", "measure"): "ModelMetric",
               ("_export_model", "segment"): "Segment", ("_export_model", "preagg"): "PreAggregation", ("_export_model", "refresh_key"): "RefreshKey",
               ("_export_metric", "measure"): "GraphMetric", ("_export_parameter", "parameter"): "Parameter", ("export", "graph"): "Graph"}
PARSE_CLASS = {("_parse_model", "Model"): "Model", ("_parse_model", "Relationship"): "Relationship", ("_parse_model", "Dimension"): "Dimension", ("_parse_model", "Metric"): "ModelMetric",
               ("_parse_model", "Segment"): "Segment", ("_parse_model", "PreAggregation"): "PreAggregation", ("_parse_model", "RefreshKey"): "RefreshKey",
               ("_parse_metric", "Metric"): "GraphMetric", ("_parse_parameter", "Parameter"): "Parameter"}


def lit(v):
    if v is None:
        return "VNone"
    if isinstance(v, bool):
        return "(VBool %s)" % ("true" if v else "false")
    if isinstance(v, int):
        return "(VInt (%d))" % v
    if isinstance(v, str):
        return '(VStr "%s")' % v.replace('"', '""')
    if isinstance(v, (list, tuple)) and not v:
        return "(VList [])"
    raise Unsupported("literal %r" % (v,))


def attr_of(node, owners):
    """owner.attr -> (owner, attr) when owner is a known owner variable"""
    if isinstance(node, ast.Attribute) and isinstance(node.value, ast.Name) and node.value.id in owners:
        return node.value.id, node.attr
    return None


class ExportWalker:
    def __init__(self, fn):
        self.fn = fn
        self.owners = {v for (f, v) in OWNER_CLASS if f == fn.name}
        self.rows = []            # (class, key, attr, cond)
        self.derived = []         # keys whose value is not an attribute (e.g. the dependency list of a derived metric)

    def cls(self, owner):
        return OWNER_CLASS[(self.fn.name, owner)]

    def cond_of(self, test):
        """-> (owner, attr, cond) for the supported guards"""
        a = attr_of(test, self.owners)
        if a:
            return a[0], a[1], "Truthy"
        if isinstance(test, ast.UnaryOp) and isinstance(test.op, ast.Not) and attr_of(test.operand, self.owners):
            o, at = attr_of(test.operand, self.owners)
            return o, at, "Falsy"
        if isinstance(test, ast.Compare) and len(test.ops) == 1 and isinstance(test.comparators[0], ast.Constant) and attr_of(test.left, self.owners):
            o, at = attr_of(test.left, self.owners)
            if isinstance(test.ops[0], ast.NotEq):
                return o, at, "(NeConst %s)" % lit(test.comparators[0].value)
            if isinstance(test.ops[0], ast.IsNot) and test.comparators[0].value is None:
                return o, at, "(NeConst VNone)"
        raise Unsupported("%s line %d: export guard %s" % (self.fn.name, test.lineno, ast.unparse(test)[:80]))

    def dict_literal(self, d, guard=None):
        """{"k": owner.attr, **({"k": owner.attr} if owner.attr else {}), ...}"""
        for k, v in zip(d.keys, d.values):
            if k is None:
                if not (isinstance(v, ast.IfExp) and isinstance(v.body, ast.Dict) and isinstance(v.orelse, ast.Dict) and not v.orelse.keys):
                    raise Unsupported("%s line %d: dict unpacking of unknown shape" % (self.fn.name, v.lineno))
                o, at, c = self.cond_of(v.test)
                for k2, v2 in zip(v.body.keys, v.body.values):
                    self.row(k2, v2, (o, at, c))
            else:
                self.row(k, v, guard)

    def row(self, k, v, guard):
        if not (isinstance(k, ast.Constant) and isinstance(k.value, str)):
            raise Unsupported("%s: non-literal dict key" % self.fn.name)
        a = attr_of(v, self.owners)
        if a is None and isinstance(v, ast.Dict) and guard and guard[2] != "Nested":
            # preagg_def["refresh_key"] = {...fields of the nested object...}  under `if preagg.refresh_key:`
            self.rows.append((self.cls(guard[0]), k.value, guard[1], guard[2]))
            self.dict_literal(v)
            return
        if a is None:
            if isinstance(v, (ast.List, ast.ListComp)) or (isinstance(v, ast.Call) and isinstance(v.func, ast.Name) and v.func.id == "list"):
                if isinstance(v, ast.ListComp):
                    return self.list_comp(k.value, v, guard)
                if isinstance(v, ast.List) and not v.elts and guard:
                    self.rows.append((self.cls(guard[0]), k.value, guard[1], guard[2]))      # result["dimensions"] = []  under `if model.dimensions:`
                    return
                self.derived.append(k.value)
                return
            raise Unsupported("%s line %d: value of key %r is not an attribute: %s" % (self.fn.name, v.lineno, k.value, ast.unparse(v)[:60]))
        o, at = a
        if guard is None:
            self.rows.append((self.cls(o), k.value, at, "Always"))
        else:
            if (guard[0], guard[1]) != (o, at):
                raise Unsupported("%s line %d: key %r guarded by %s.%s but set from %s.%s" % (self.fn.name, v.lineno, k.value, guard[0], guard[1], o, at))
            self.rows.append((self.cls(o), k.value, at, guard[2]))

    def list_comp(self, key, comp, guard):
        """result[key] = [ {...} for x in owner.attr ]"""
        g = comp.generators[0]
        src = attr_of(g.iter, self.owners)
        if not (len(comp.generators) == 1 and isinstance(g.target, ast.Name) and src and isinstance(comp.elt, ast.Dict)):
            raise Unsupported("%s line %d: list comprehension of unknown shape" % (self.fn.name, comp.lineno))
        if guard is None or (guard[0], guard[1]) != src:
            raise Unsupported("%s line %d: collection %r not guarded by its own attribute" % (self.fn.name, comp.lineno, key))
        self.rows.append((self.cls(src[0]), key, src[1], guard[2]))
        self.owners.add(g.target.id)
        self.dict_literal(comp.elt)

    def stmts(self, body, guard=None):
        for s in body:
            if isinstance(s, ast.Expr) and isinstance(s.value, ast.Constant):
                continue
            if isinstance(s, (ast.Import, ast.ImportFrom, ast.Return, ast.Pass)):
                continue
            if isinstance(s, ast.Assign) and len(s.targets) == 1:
                t = s.targets[0]
                if isinstance(t, ast.Name) and isinstance(s.value, ast.Dict):
                    self.dict_literal(s.value)
                    continue
                if isinstance(t, ast.Subscript) and isinstance(t.value, ast.Name) and isinstance(t.slice, ast.Constant):
                    self.row(t.slice, s.value, guard)
                    continue
                if isinstance(t, ast.Name) and isinstance(s.value, ast.Call):       # dependencies = measure.get_dependencies(graph) and the like
                    continue
                if isinstance(t, ast.Name) and attr_of(s.value, self.owners):        # refresh_key = preagg.refresh_key
                    self.aliases = getattr(self, "aliases", {})
                    continue
                raise Unsupported("%s line %d: assignment %s" % (self.fn.name, s.lineno, ast.unparse(s)[:80]))
            if isinstance(s, ast.If):
                if s.orelse:
                    raise Unsupported("%s line %d: else branch in export" % (self.fn.name, s.lineno))
                # nested guards such as `if measure.type == "derived":` under `if measure.sql:` only decorate derived keys
                if isinstance(s.test, ast.Compare) and isinstance(s.test.ops[0], ast.Eq) and guard is not None:
                    self.stmts(s.body, ("", "", "Nested"))
                    continue
                if isinstance(s.test, ast.Name):                                   # `if dependencies:` around a derived key
                    self.stmts(s.body, ("", "", "Nested"))
                    continue
                self.stmts(s.body, self.cond_of(s.test))
                continue
            if isinstance(s, ast.For) and isinstance(s.target, ast.Name) and attr_of(s.iter, self.owners):
                self.owners.add(s.target.id)
                self.stmts(s.body, None)
                continue
            if isinstance(s, ast.Expr) and isinstance(s.value, ast.Call) and isinstance(s.value.func, ast.Attribute) and s.value.func.attr in ("append", "mkdir"):
                continue
            if isinstance(s, ast.With):
                continue
            raise Unsupported("%s line %d: statement %s" % (self.fn.name, s.lineno, ast.unparse(s)[:80]))


def export_rows(mod):
    cls = next(n for n in mod.body if isinstance(n, ast.ClassDef) and n.name == "SidemanticAdapter")
    fns = {f.name: f for f in cls.body if isinstance(f, ast.FunctionDef)}
    rows, derived = [], []
    for name in ("_export_model", "_export_metric", "_export_parameter"):
        if name in fns:
            w = ExportWalker(fns[name])
            w.stmts(fns[name].body)
            rows += [r for r in w.rows if r[3] != "Nested"]
            derived += w.derived
    # top level: data = {"models": [...]} ; if graph.metrics: data["metrics"] = [...] ; if graph.parameters: data["parameters"] = [...]
    ex = fns["export"]
    for s in ast.walk(ex):
        if isinstance(s, ast.Assign) and isinstance(s.value, ast.Dict) and isinstance(s.targets[0], ast.Name) and s.targets[0].id == "data":
            for k in s.value.keys:
                rows.append(("Graph", k.value, k.value, "Always"))
        if isinstance(s, ast.If) and isinstance(s.test, ast.Attribute) and isinstance(s.test.value, ast.Name) and s.test.value.id == "graph":
            for b in ast.walk(s):
                if isinstance(b, ast.Assign) and isinstance(b.targets[0], ast.Subscript) and isinstance(b.targets[0].slice, ast.Constant) \
                        and isinstance(b.targets[0].value, ast.Name) and b.targets[0].value.id == "data":
                    rows.append(("Graph", b.targets[0].slice.value, s.test.attr, "Truthy"))
    return rows, derived


def get_keys(node, dictvars):
    """X.get("k") | X.get("k", default) | a or b  ->  ([keys], default literal)"""
    if isinstance(node, ast.Call) and isinstance(node.func, ast.Attribute) and node.func.attr == "get" and isinstance(node.func.value, ast.Name) and node.func.value.id in dictvars \
            and node.args and isinstance(node.args[0], ast.Constant):
        if len(node.args) == 1:
            return [node.args[0].value], "VNone"
        d = node.args[1]
        if isinstance(d, ast.Constant):
            return [node.args[0].value], lit(d.value)
        k2 = get_keys(d, dictvars)                      # X.get("metrics", X.get("measures") or [])
        if k2:
            return [node.args[0].value] + k2[0], k2[1]
        return None
    if isinstance(node, ast.BoolOp) and isinstance(node.op, ast.Or):
        keys, default = [], "VNone"
        for v in node.values:
            if isinstance(v, ast.List) and not v.elts:
                default = "(VList [])"
                continue
            k = get_keys(v, dictvars)
            if k is None:
                return None
            keys += k[0]
        return keys, default
    return None


def parse_rows(mod):
    cls = next(n for n in mod.body if isinstance(n, ast.ClassDef) and n.name == "SidemanticAdapter")
    fns = {f.name: f for f in cls.body if isinstance(f, ast.FunctionDef)}
    rows = []
    for fname in ("_parse_model", "_parse_metric", "_parse_parameter"):
        fn = fns[fname]
        dictvars = {a.arg for a in fn.args.args if a.arg != "self"}
        varkeys = {}
        for n in ast.walk(fn):
            if isinstance(n, ast.For) and isinstance(n.target, ast.Name):
                k = get_keys(n.iter, dictvars)
                if k:
                    dictvars.add(n.target.id)
                    for b in ast.walk(n):
                        if isinstance(b, ast.Call) and isinstance(b.func, ast.Attribute) and b.func.attr == "append" and isinstance(b.func.value, ast.Name):
                            varkeys.setdefault(b.func.value.id, k)
            if isinstance(n, ast.Assign) and len(n.targets) == 1 and isinstance(n.targets[0], ast.Name):
                k = get_keys(n.value, dictvars)
                if k:
                    varkeys[n.targets[0].id] = k
                if isinstance(n.value, ast.Subscript) and isinstance(n.value.value, ast.Name) and n.value.value.id in dictvars and isinstance(n.value.slice, ast.Constant):
                    dictvars.add(n.targets[0].id)                       # refresh_key_def = preagg_def["refresh_key"]
                    varkeys[n.targets[0].id] = ([n.value.slice.value], "VNone")
        varkeys.setdefault("refresh_key", (["refresh_key"], "VNone"))
        for n in ast.walk(fn):
            if isinstance(n, ast.Call) and isinstance(n.func, ast.Name) and (fname, n.func.id) in PARSE_CLASS:
                c = PARSE_CLASS[(fname, n.func.id)]
                if n.args:
                    raise Unsupported("%s: positional arguments to %s" % (fname, n.func.id))
                for kw in n.keywords:
                    k = get_keys(kw.value, dictvars)
                    if k is None and isinstance(kw.value, ast.Name) and kw.value.id in varkeys:
                        k = varkeys[kw.value.id]
                    if k is None:
                        raise Unsupported("%s line %d: %s(%s=%s)" % (fname, kw.value.lineno, n.func.id, kw.arg, ast.unparse(kw.value)[:60]))
                    rows.append((c, kw.arg, k[0], k[1]))
    # top level of parse(): data.get("models") / "metrics" / "parameters"
    pf = fns["parse"]
    for n in ast.walk(pf):
        if isinstance(n, ast.For):
            k = get_keys(n.iter, {"data"})
            if k and k[0][0] in ("models", "metrics", "parameters"):
                rows.append(("Graph", k[0][0], k[0], k[1]))
    return rows


def class_fields(repo):
    from sidemantic import Dimension, Metric, Model, Relationship
    from sidemantic.core.parameter import Parameter
    from sidemantic.core.pre_aggregation import PreAggregation, RefreshKey
    from sidemantic.core.segment import Segment
    out = []
    for name, cls in (("Model", Model), ("Relationship", Relationship), ("Dimension", Dimension), ("ModelMetric", Metric), ("GraphMetric", Metric), ("Segment", Segment),
                      ("PreAggregation", PreAggregation), ("RefreshKey", RefreshKey), ("Parameter", Parameter)):
        fields = []
        for f, info in cls.model_fields.items():
            d = info.default
            if repr(d) == "PydanticUndefined":
                d = [] if info.default_factory is not None else None
            try:
                fields.append((f, lit(d)))
            except Unsupported:
                fields.append((f, "VNone"))
        out.append((name, fields))
    out.append(("Graph", [("models", "(VList [])"), ("metrics", "(VList [])"), ("parameters", "(VList [])")]))
    return out


def tables(repo):
    mod = ast.parse(open(os.path.join(repo, SRC)).read())
    er, derived = export_rows(mod)
    return er, parse_rows(mod), class_fields(repo), derived


def generate(repo):
    er, pr, cf, derived = tables(repo)
    q = lambda s: '"' + s.replace('"', '""') + '"'
    classes = [c for c, _ in cf]
    ex = "\n   ".join("(%s, [%s]);" % (q(c), "; ".join("E %s %s %s" % (q(k), q(a), cond) for (cc, k, a, cond) in er if cc == c)) for c in classes)
    pa = "\n   ".join("(%s, [%s]);" % (q(c), "; ".join("P %s [%s] %s" % (q(f), "; ".join(q(x) for x in ks), d) for (cc, f, ks, d) in pr if cc == c)) for c in classes)
    fl = "\n   ".join("(%s, [%s]);" % (q(c), "; ".join("(%s, %s)" % (q(f), d) for f, d in fs)) for c, fs in cf)
    strip = lambda t: t.rstrip(";")
    return ("(* GENERATED on every run by translator/gen_native.py from %s and the pydantic classes -- do not edit *)\n" % SRC +
            "From Coq Require Import ZArith String List Bool.\nRequire Import V.Model.Native.\nImport ListNotations.\nOpen Scope string_scope.\n\n"
            "Definition export_tables : list (string * list erow) :=\n  [%s].\n\n" % strip(ex) +
            "Definition parse_tables : list (string * list prow) :=\n  [%s].\n\n" % strip(pa) +
            "Definition class_fields : list (string * list (string * pyv)) :=\n  [%s].\n" % strip(fl))
