#!/bin/bash
# Re-run every kept seeded change against the current checks: each must still be reported (exit 1 with a VIOLATION line).
# Uses a scratch worktree of /repo under /tmp (removed afterwards); /repo itself is never modified.
cd "$(dirname "$0")/.."
out=0
shard=${1:-0}; nshards=${2:-1}; k=0          # tools/seed_regress.sh [shard nshards]: every nshards-th seed, starting at shard
for d in seeded/*/; do
  k=$((k+1)); [ $(( (k - 1) % nshards )) -ne "$shard" ] && continue
  id=$(basename "$d"); prop=$(python3 -c "import json,sys;print(json.load(open(sys.argv[1])).get('check_property') or sys.argv[2][:3])" "$d/meta.json" "$id")
  wt=/tmp/seedreg_${shard}_$id
  git -C /repo worktree remove --force "$wt" >/dev/null 2>&1
  git -C /repo worktree add -f --detach "$wt" HEAD >/dev/null 2>&1
  if ! (cd "$wt" && git apply "/verif/$d/patch.diff" 2>/dev/null); then
    echo "$id: patch no longer applies to HEAD (skipped)"; git -C /repo worktree remove --force "$wt" >/dev/null 2>&1; continue
  fi
  res=$(VERIF_REPO="$wt" timeout 2400 ./check "$prop" --tier quick 2>&1 | grep -E "^VIOLATION|^$prop quick" | tail -2 | tr '\n' ' ')
  code=$(echo "$res" | grep -c VIOLATION)
  if [ "$code" -ge 1 ]; then echo "$id: caught  -- $res"; else echo "$id: MISSED  -- $res"; out=1; fi
  git -C /repo worktree remove --force "$wt" >/dev/null 2>&1
  rm -f replays/$prop-*.json
done
git -C /repo worktree prune
exit $out
