#!/bin/bash
# seed_rebase.sh ID -- move the scratch worktree of a seed onto /repo's current HEAD (the seed was written against an older HEAD) keeping its change
id=$1; wt=/tmp/seed/wt_$id; out=/tmp/seed/out_$id
head=$(git -C /repo rev-parse HEAD)
cd "$wt" || exit 1
[ "$(git rev-parse HEAD)" = "$head" ] && { echo "$id already on $head"; exit 0; }
git diff > "$out/patch_old_base.diff"
git checkout -q -- . && git checkout -q --detach "$head" || exit 1
if git apply --3way "$out/patch_old_base.diff" 2>/dev/null; then git reset -q; git diff > "$out/patch.diff"; echo "$id rebased onto $head"; else echo "$id: CONFLICT, resolve by hand in $wt"; fi
