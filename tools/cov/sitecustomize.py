# Development aid (tools/coverage_pass.sh): starts coverage.py in every python process of a check, sub-processes included.
import os
if os.environ.get("COVERAGE_PROCESS_START"):
    try:
        import coverage
        coverage.process_startup()
    except Exception:
        pass
