#!/bin/bash
# Development aid, not a registered command: runs the quick checks under coverage.py and writes which lines / branches of /repo/sidemantic
# NO check executed (/tmp/verif_cov/report.txt, per check /tmp/verif_cov/<id>.txt).  A line no check executes cannot be seen by the
# correspondence, so the report is the worklist for new input families.   usage: tools/coverage_pass.sh [Cnn ...]
cd "$(dirname "$0")/.."
V=$(pwd)
rm -rf /tmp/verif_cov; mkdir -p /tmp/verif_cov
export COVERAGE_PROCESS_START="$V/tools/cov/coveragerc"
export PYTHONPATH="$V/tools/cov:/repo:$V"
export PYTHONHASHSEED=0 PYTHONDONTWRITEBYTECODE=1
ids="$@"
[ -z "$ids" ] && ids=$(python3 -c "import json;print(' '.join(c['property_id'] for c in json.load(open('MANIFEST.json'))['checks']))")
COV="/venv/bin/python -m coverage"
for id in $ids; do
  mkdir -p /tmp/verif_cov/$id
  COVERAGE_FILE=/tmp/verif_cov/$id/.coverage /venv/bin/python -m harness.main "$id" --tier quick 2>&1 | tail -1
  (cd /tmp/verif_cov/$id && COVERAGE_FILE=/tmp/verif_cov/$id/.coverage $COV combine -q --rcfile="$COVERAGE_PROCESS_START" . >/dev/null 2>&1
   COVERAGE_FILE=/tmp/verif_cov/$id/.coverage $COV report --rcfile="$COVERAGE_PROCESS_START" -m --skip-empty > /tmp/verif_cov/$id.txt 2>&1)
done
COVERAGE_FILE=/tmp/verif_cov/.coverage $COV combine -q --keep --rcfile="$COVERAGE_PROCESS_START" /tmp/verif_cov/C*/.coverage
COVERAGE_FILE=/tmp/verif_cov/.coverage $COV report --rcfile="$COVERAGE_PROCESS_START" -m --skip-empty > /tmp/verif_cov/report.txt
COVERAGE_FILE=/tmp/verif_cov/.coverage $COV json --rcfile="$COVERAGE_PROCESS_START" -o /tmp/verif_cov/report.json -q
tail -3 /tmp/verif_cov/report.txt
