#!/bin/bash
# coqchk_refresh.sh -- re-run the independent checker on every Props file that does not load the calendar sweeps (about 35 s each) on a static copy of coq/
# (a copy, because the checks regenerate coq/Gen while they run) and rewrite notes/coqchk.txt, keeping the recorded sweep run (105 min, not repeated here).
cd "$(dirname "$0")/.."
tmp=$(mktemp -d /tmp/coqchk_copy.XXXXXX)
cp -r coq "$tmp/coq"
out=$(mktemp)
( cd "$tmp/coq" && for p in C01 C02 C03 C04 C05 C06 C10 C11 C12 C13 C15 C16 C18 C19 C20; do echo "== coqchk -silent -o -Q . V V.Props.$p"; /usr/bin/time -f "$p %es %MKB" coqchk -silent -o -Q . V V.Props.$p 2>&1; done ) > "$out"
{ echo "# commit $(git rev-parse --short HEAD) ($(date -u +%Y-%m-%dT%H:%MZ))"; cat "$out"; sed -n '/^== coqchk -silent -o -Q . V V.Props.C09 V.Props.C07/,$p' notes/coqchk.txt; } > notes/coqchk.txt.new
mv notes/coqchk.txt.new notes/coqchk.txt
rm -rf "$tmp" "$out"
grep -c "Axioms: <none>" notes/coqchk.txt
