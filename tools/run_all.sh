#!/bin/bash
# Run every registered quick check on the current tree (regenerates evidence/*.json); prints one summary line per check.
cd "$(dirname "$0")/.."
tier="${1:-quick}"
rc=0
for id in $(python3 -c "import json;print(' '.join(c['property_id'] for c in json.load(open('MANIFEST.json'))['checks']))"); do
  out=$(./check "$id" --tier "$tier" 2>&1); code=$?
  echo "$out" | grep -E "^(VIOLATION|NOTE)" | cut -c1-160
  echo "$out" | tail -1 | sed "s/^/[exit $code] /"
  [ $code -ne 0 ] && rc=1
done
exit $rc
