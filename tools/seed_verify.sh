#!/bin/bash
# seed_verify.sh <ID>: confirm a sub-agent's seeded change myself in its scratch worktree /tmp/seed/wt_<ID> (patch applied there):
# patch applies to a clean HEAD, demo fails with / passes without, full test suite green with it; then run my quick check against it.
id=$1; prop=${id:0:3}
wt=/tmp/seed/wt_$id; out=/tmp/seed/out_$id
log=$out/my_verify.log; : > $log
cd $wt || exit 2
git checkout -q -- . ; git clean -fdq
if ! git apply --check $out/patch.diff 2>>$log; then echo "$id: patch does not apply" | tee -a $log; exit 2; fi
PYTHONPATH=$wt timeout 600 /venv/bin/python $out/demo.py >>$log 2>&1; echo "demo WITHOUT patch: exit $?" >>$log
git apply $out/patch.diff
PYTHONPATH=$wt timeout 600 /venv/bin/python $out/demo.py >>$log 2>&1; echo "demo WITH patch: exit $?" >>$log
# timing-sensitive tests (tests/test_performance.py) fail under machine load: they are run apart, one run at a time (flock)
(cd $wt && PYTHONPATH=$wt timeout 1800 /venv/bin/python -m pytest -q -p no:cacheprovider --timeout=900 --ignore=tests/test_performance.py -n 4 2>&1 | tail -3) >>$log 2>&1
(cd $wt && PYTHONPATH=$wt flock /tmp/seed/perf.lock timeout 900 /venv/bin/python -m pytest -q -p no:cacheprovider --timeout=900 tests/test_performance.py 2>&1 | tail -2) >>$log 2>&1
echo "--- check" >>$log
# a private copy of /verif (with its build output) so that several seeds can be checked at once without sharing coq/Gen
vc=/tmp/seed/verif_$id; rm -rf $vc; rsync -a --exclude .git --exclude replays /verif/ $vc/
(cd $vc && VERIF_REPO=$wt timeout 3000 ./check $prop --tier quick > $out/check.log 2>&1; grep -E "^VIOLATION|^KNOWN|^NOTE|^$prop quick|Traceback" $out/check.log | head -20) >>$log 2>&1
mkdir -p $out/replays; cp $vc/replays/* $out/replays/ 2>/dev/null; rm -rf $vc
grep -E "demo W|passed|failed|^VIOLATION|^$prop quick" $log
