#!/usr/bin/env python3
"""keep_seed.py ID 'needs' 'caught-by' -- copy a verified seeded change into /verif/seeded/<ID>/"""
import json, os, shutil, sys
sid, needs, caught = sys.argv[1], sys.argv[2], sys.argv[3]
prop = sid[:3]
src = "/tmp/seed/out_%s" % sid
dst = "/verif/seeded/%s" % sid
os.makedirs(dst, exist_ok=True)
for f in ("patch.diff", "demo.py", "notes.md"):
    shutil.copy(os.path.join(src, f), os.path.join(dst, f))
ver = open(os.path.join(src, "my_verify.log")).read()  # my own confirmation run (tools/seed_verify.sh)
meta = {"property": prop, "breaks": open(os.path.join(src, "notes.md")).read()[:1500], "needs_to_manifest": needs,
        "what_i_ran": ["in a scratch worktree with the patch applied: full test suite (/venv/bin/python -m pytest -q -p no:cacheprovider --timeout=900) -> " +
                       next((l for l in ver.splitlines() if " passed" in l), "?"),
                       "; ".join(l for l in ver.splitlines() if l.startswith("demo W")),
                       "VERIF_REPO=<worktree with the patch> ./check %s --tier quick (same as applying the patch to /repo)" % prop],
        "caught_by": caught}
json.dump(meta, open(os.path.join(dst, "meta.json"), "w"), indent=1)
print("kept", dst)
