#!/usr/bin/env python3
"""seed_prepare.py SUFFIX [Cnn ...] -- create a scratch worktree of /repo per property under /tmp/seed/wt_<Cnn><SUFFIX>
and print the prompt to hand to a fresh sub-agent (only the property's text; nothing from /verif)."""
import json, os, subprocess, sys
suffix = sys.argv[1]
want = sys.argv[2:]
AVOID = {
 "C01": "OFFSET dropped without LIMIT; time-dimension truncation changes; splicing a computed dimension's SQL unparenthesised into a pushed-down filter; count_distinct over the key column emitted as COUNT(raw); top-level or in a measure filter losing its parentheses; compile memoised per sorted field signature; de-duplicating AND-conjuncts by case-folded / whitespace-collapsed text; merge_model copying unset attributes of a re-declared item from the parent (extends)",
 "C02": "composite key concatenated without separator; mixed fan-out/non-fan-out references; skipping symmetric aggregates when a one_to_many hop joins on part of the target's composite key; mislabelled junction hop cardinality in build_adjacency; IS NOT DISTINCT FROM on composite-key hops; fan-out classification memoised on the graph and reset only by add_model; collecting the FULL OUTER JOIN keys of the multi-fact form in a dict keyed by the dimension without its granularity; a requested dimension named like a join key emitting its SQL under the key's alias; a symmetric form for stddev / variance whose Bessel correction counts joined rows",
 "C03": "NULL-safe join replaced by = for time dimensions; pushing ORDER BY/LIMIT into the per-model sub-queries; memoised join paths not cleared by build_adjacency(); excluding min/max-only models from the multi-fact decision; relabelling a many_to_one edge whose foreign key is a declared key as one_to_one; keeping only the finest granularity of a time dimension as multi-fact join key; a hop limit in find_relationship_path combined with connectivity-only validation",
 "C04": "bare IS NULL filter no longer forcing INNER; whitespace inside literals; rewriting a key-only filter onto the foreign key (join elimination); splicing a joined model's dimension SQL unparenthesised; identical segments of two models applied once; extending the caller's filters list in place with resolved segments; splitting NOT (a OR b) into NOT a, NOT b without re-parenthesising; accepting a metric-value filter on a rollup 'at its own grain' and applying it before re-aggregation",
 "C05": "graph-level metric lookup order; select aliases leaking between CTEs / sub-selects; ORDER BY direction inherited from the previous key; dropping a second granularity of the same dimension from the select list; rewritten SQL memoised on the graph by statement text; LIMIT read as `count or fetch_count` (LIMIT 0); rewriting the main SELECT of a WITH statement whose FROM names a model while a CTE of that name exists",
 "C06": "memoising metric SQL without model context; dropping parentheses around substituted components with * or / at the top; skipping fill_nulls_with when the formula is a COALESCE; dropping NULLIF when a ratio's denominator is a ratio; measure-owner index keeping the last model that defines a name; passing the target dialect to sqlglot builder calls (integer division); restricting own-model-first resolution to metrics with an aggregation",
 "C07": "coarser granularity computed from declared base bucket; suppressing default time dimensions when another model's time dimension is requested; joining multi-fact sub-results on the finest granularity only; grouping several granularities by the finest only; appending the default time dimension to the caller's dimension list; accepting year-from-week in _is_granularity_compatible; compile() appending unselected ORDER BY dimensions to the requested dimensions",
 "C08": "granularity test admitting week->year; declared build ranges; routing filtered SUM measures stored as SUM(CASE ... ELSE 0); query-side sets shared between candidate rollups; routing count_distinct at the rollup's own grain; filter columns memoised per predicate shape that blanks digits inside identifiers; matching a rollup on the finest requested granularity only; storing COALESCE(agg, fill_nulls_with) per rollup bucket",
 "C09": "dropping a name from the week exception; GRANULARITY_HIERARCHY as a defaultdict polluted by the recommender; lru_cache'd nesting sets mutated in place; replacing the query granularity by the dimension's declared one; cached_property of servable granularities surviving model_copy; matching on the finest requested granularity and dropping the re-check of the others; moving the granularity gate into the per-metric loop (metric-less queries)",
 "C10": "skipping a second relationship between a linked pair; registration interleaved with lookups; Dijkstra with a swapped cost tuple; dropping the explicit primary_key of a junction relationship; silently skipping unreachable models in the join loop; resumable breadth-first search re-queued at the wrong end; a dimension named like a join key emitting its SQL under the key's alias; validation by union-find over relationship declarations",
 "C11": "omitting metric sql when equal to the name; not exporting a relationship primary_key equal to 'id'; exporting models in reference order; flattening multi-line SQL on export; parsed native documents cached by text hash with shared objects; deciding 'already written with its model' by metric name; un-escaping doubled quotes before deciding whether a SQL-definition value is one literal",
 "C12": "MetricFlow expr omitted when equal to measure name; Cube exporter marking a differently named dimension as primary key; Hex importer expanding of: to a like-named computed dimension; OSI exporter reordering one side of a composite key; Omni importer and exporter disagreeing on the foreign-key side of one_to_one; Holistics relationships kept in a dict by generated name <model>_<related>; Cube exporter treating a count over a column whose name ends with the key name as a row count",
 "C13": "Cube rule requiring measures:; moving the BSL '_.' rule ahead of other rules; skipping files when any component of the given path is hidden; sniffing only the first 32 KiB of a file; native file skipped when its folder already produced MetricFlow models; skipping YAML files with dbt configuration stems before sniffing; sending every YAML file next to an Omni model.yaml to the Omni adapter",
 "C15": "path memo filled with a reversed path; in-place extension of a composite primary-key list during compile; filter-only models appended in set-iteration order; sorting Model.pre_aggregations in place; lru_cache'd sqlglot trees mutated by segment qualification; aliases numbered by enumerating a set of clashing fields; Model.get_metric resolving extends by building a new (auto-registering) Metric",
 "C16": "multi-pass parameter substitution; non-builtin value types; folding newlines in filters after interpolation; allowing runs of hyphens in unquoted values; not escaping runs of adjacent quotes; a literal-blanking regex honouring backslash escapes deciding which models a filter names; de-duplicating pushed-down conditions by lower-cased text; turning a string compared with a numeric dimension into a number literal when it starts like a number",
 "C17": "ROWS frame chosen from declared rather than queried granularity; lag offsets derived by floor division (qoq at week grain); partition list extended in place by the grain-to-date branch; hoisting NULLIF into the LAG CTE; class-level LAG table mutated through a shallow copy; PARTITION BY dropping dimensions whose name starts with the time dimension's name; handing the window path the filters as they were before parameter interpolation",
 "C18": "merge DELETE boundary truncated to the bucket; first refresh on an empty rollup; memoising the watermark on the PreAggregation object; calendar lookbacks folded into day counts; watermark = lowest per-dimension-group maximum; refresh() falling back to refresh_key.update_window in every mode; merge DELETE only removing rows that match a staged row (NULL dimension values); _table_exists through information_schema with rpartition('.') (database-qualified names)",
 "C19": "dirty flag cleared before the rebuild; memoised predecessor tree published before being filled; path memo cleared at the end of every rebuild (test-then-read race); in-progress flag letting a second thread search a stale adjacency; dedupe index shared between overlapping adjacency rebuilds; sorting the shared neighbour list in place during the search; appending inherited join edges to the published adjacency in place",
 "C20": "granular time dimensions left out of the join check; supported_granularities consulted before the dimension type; dependencies substituted in name order instead of longest-first; lru_cache'd dependency resolution keyed by graph identity; add_model invalidating the adjacency only when the new model declares relationships; qualifying pushed-down filter columns of a sql-backed model with t.; merging same-named items of parent and child field by field (hybrid derived + agg metric)",
}
PREFER_G = ("Do NOT add caches, memo tables or other state that outlives a call, and do not mutate argument lists (a static scan now reports those). "
            "Prefer a change that sits OUTSIDE the main body of sidemantic/sql/generator.py where the property allows it -- in a helper under sidemantic/core "
            "(model.py, metric.py, dimension.py, relationship.py, segment.py, semantic_layer.py, semantic_graph.py, inheritance.py, relative_date.py, dialect.py, "
            "dependency_analyzer.py, pre_aggregation.py, preagg_matcher.py), in an adapter / loader, in the CLI, or at an API entry point (SemanticLayer.query / "
            "compile / sql / explain) -- so that the property breaks through the INTERACTION of a less-travelled feature with the main path: model or metric "
            "inheritance (extends), auto-registration, metric-level defaults, relative-date filters, ungrouped queries, custom aliases, parameters with defaults, "
            "dimension type variants (boolean / numeric / time with formats), sql-backed models, order_by on aliases or on fields not selected, segments together with "
            "filters, one entry point behaving differently from another, or an exception path that leaves the call half done. Two cooperating edits in two files, each "
            "harmless alone, are welcome.")
PREFER_H = ("Do NOT add caches, memo tables or other state that outlives a call, do not mutate argument lists, and do not touch model inheritance (extends): all of those are covered now. "
            "Prefer a change whose effect depends on the DATA or its TYPES rather than on the query text -- DECIMAL / DOUBLE / HUGEINT measures, DATE vs TIMESTAMP columns, NULL keys and NULL "
            "dimension values, empty tables and empty groups, duplicate key values, negative numbers, zero denominators, very large values, strings that differ in case or trailing blanks, "
            "boolean dimensions -- or on a LESS USED ARGUMENT or OPTION of the public API (ungrouped=True, offset without limit, order_by DESC on a metric, custom aliases, "
            "skip_default_time_dimensions, several rollups with use_preaggregations, preagg_schema, parameters, Model.default_time_dimension / default_grain, Dimension.supported_granularities, "
            "Metric.fill_nulls_with / non-additive settings, Relationship.primary_key), or on the import / export path of ONE specific external format. A change in which two sites "
            "cooperate (a helper and its caller in different files) is welcome.")
PREFER = PREFER_H if suffix == "h" else PREFER_G if suffix == "g" else ("Prefer a change whose effect needs a MULTI-STEP sequence of API calls, state carried between calls, or TWO cooperating code sites "
          "(each harmless alone) -- rather than one more single-expression slip.") if suffix == "e" else (
          "Do NOT add caches, memo tables or any new state that outlives a call, and do not mutate argument lists (those were tried). Prefer a change "
          "that only an UNUSUAL INPUT exposes: names (one model's name contained in another's, reserved words, names with digits or underscores that "
          "collide with generated aliases), string literals that look like identifiers, NULLs and empty tables, composite or non-integer keys, several "
          "granularities or several time dimensions at once, calendar edges, option combinations (order_by + limit + offset, ungrouped, segments + filters), "
          "or a dialect other than DuckDB where the property still applies -- ideally inside a text-rewriting, regex, string-formatting or classification step.")
props = {json.loads(l)["id"]: json.loads(l) for l in open("/verif/properties.jsonl")}
os.makedirs("/tmp/seed", exist_ok=True)
for pid in want:
    sid = pid + suffix
    wt = "/tmp/seed/wt_%s" % sid
    out = "/tmp/seed/out_%s" % sid
    subprocess.run(["git", "-C", "/repo", "worktree", "remove", "--force", wt], capture_output=True)
    subprocess.run(["git", "-C", "/repo", "worktree", "add", "-f", "--detach", wt, "HEAD"], check=True, capture_output=True)
    os.makedirs(out, exist_ok=True)
    p = props[pid]
    prompt = f"""You are helping to test a verification effort by playing the role of a developer who introduces a subtle regression.
You have your OWN scratch git worktree of the Python project sidequery/sidemantic at {wt} . Do all your work there.
Never read, list or touch /repo or /verif (they are off limits); use only your worktree and /tmp/seed/out_{sid}.
Python with every dependency installed: /venv/bin/python ; always run with  PYTHONPATH={wt}  so that YOUR copy is imported
(check with: PYTHONPATH={wt} /venv/bin/python -c "import sidemantic;print(sidemantic.__file__)").
Full test suite (about 4-5 minutes, baseline: 3155 passed):
  cd {wt} && PYTHONPATH={wt} /venv/bin/python -m pytest -q -p no:cacheprovider --timeout=900
No network is available.

THE PROPERTY (this is the only specification you get):
  Title: {p['title']}
  Statement: {p['statement']}
  Quantifier: {p.get('quantifier')}

YOUR TASK: produce ONE realistic change to the sidemantic SOURCE (files under sidemantic/, never tests) that BREAKS this property
while (1) the package still imports and compiles, (2) the ENTIRE existing test suite still passes, unedited, and (3) ordinary
everyday use would not expose the breakage at once: it must need something specific to manifest -- a particular interleaving, a
fault at a particular point, a multi-step sequence of operations, an unusual input or data shape, or two cooperating code sites
that each look fine alone. It should read like a plausible refactor / optimisation / "bug fix" a maintainer could merge
(10-60 changed lines is typical). Do NOT re-use these mechanisms, which were already tried: {AVOID.get(pid, 'none')}.
Pick a different code path / clause of the property. {PREFER}

DELIVER into /tmp/seed/out_{sid}/ :
  patch.diff  - `git diff` of your worktree against its HEAD (must apply with `git apply` on a clean checkout of HEAD)
  demo.py     - a self-contained program, run as `PYTHONPATH=<worktree> /venv/bin/python demo.py`, that exits non-zero WITH the
                change and exits 0 WITHOUT it. It must compute the expected result independently (plain Python or hand-written
                SQL on an in-memory DuckDB), not by comparing against strings copied from the generator.
  notes.md    - what you changed, which clause of the property breaks, why the tests miss it, exactly what is needed to manifest.
  verify.log  - the last lines of the FULL pytest run WITH the patch (showing the pass count), then the demo's output/exit code
                with the patch and without it (do NOT use git stash, it is shared between worktrees: save your diff to a file,
                `git checkout -- .`, run, then `git apply` the file again). tests/test_performance.py has wall-clock assertions that
                fail under machine load: if only those fail, re-run that file alone.
You must verify all of this yourself before finishing. Leave the worktree with the patch applied (uncommitted).
Final answer: at most 6 lines (file changed, mechanism, what it needs to manifest, test-suite result, demo results)."""
    open(os.path.join(out, "PROMPT.txt"), "w").write(prompt)
    print(sid, wt)
