#!/bin/bash
# seed_check.sh <ID>: run the property's quick check against the seeded worktree /tmp/seed/wt_<ID> on a private copy of /verif
id=$1; prop=${id:0:3}; wt=/tmp/seed/wt_$id; out=/tmp/seed/out_$id
vc=/tmp/seed/verif_$id; rm -rf $vc; rsync -a --exclude .git --exclude replays /verif/ $vc/
(cd $vc && VERIF_REPO=$wt timeout 3000 ./check $prop --tier quick > $out/check.log 2>&1)
grep -E "^VIOLATION|^$prop quick|Traceback" $out/check.log | head -8
mkdir -p $out/replays; cp $vc/replays/* $out/replays/ 2>/dev/null; rm -rf $vc
