(* C15 — compilation is a deterministic, side-effect-free function.  Property theorems only (proofs: Proofs/C15_proofs.v, Proofs/C19_proofs.v).
   `set_iteration_sites` is regenerated from generator.py on every run (Gen/SetIter_gen.v): every loop / comprehension over a
   set-typed value with its classification.  The only state compile() may touch is the adjacency cache (Model/Conc.v, C19). *)
From Coq Require Import String List Bool Permutation.
Require Import V.Model.Determ V.Gen.SetIter_gen V.Proofs.C15_proofs V.Model.Conc V.Gen.AdjProg_gen V.Proofs.C19_proofs
               V.Model.Effects V.Gen.Effects_gen V.Proofs.C15_effects_proofs.
Import ListNotations.

(* generated obligation: no order-sensitive loop walks a raw set (or a set sorted by a non-total key) *)
Theorem C15_sites : forallb (fun s => site_ok (snd s)) set_iteration_sites = true.
Proof. vm_compute. reflexivity. Qed.

(* whatever order a set hands its elements over in (any permutation: any PYTHONHASHSEED, any insertion history), iterating
   sorted(set) visits the same list and emits the same text *)
Theorem C15_order_free : forall (f : string -> string) l1 l2, Permutation l1 l2 -> emit f (sort l1) = emit f (sort l2).
Proof. exact emit_order_free. Qed.

(* history freedom: after ANY sequence of earlier planning calls on the layer (n calls, executed in any order or interleaving)
   every path search still reads exactly the adjacency a fresh layer would build; the cache is dirty or equal to it *)
Theorem C15_history_free : forall (A : Type) (good a0 empty : A) (n : nat) (sched : list nat) l,
  In l (snd (run A good empty adjacency_prog sched (init A a0 n))) -> Forall (fun x => x = good) (reads A l).
Proof. intros A good a0 empty n sched l. replace adjacency_prog with fixed_prog by reflexivity. apply fixed_safe. Qed.

(* no other state: Gen/Effects_gen.v lists, regenerated from the source on every run, every write reachable from the query entry points that could
   outlive a call (attributes / items of anything reached from self, module-level containers, functools caches, the caller's own argument lists).
   Each of them is a write of the state C15_history_free is about (the adjacency cache and its flag) or one of the two reviewed call-local writes:
   compile / explain / query / sql keep nothing else from one call to the next and change nothing the caller or the registry owns. *)
Theorem C15_effects_closed : effects_closed effects = true.
Proof. vm_compute. reflexivity. Qed.
Theorem C15_effects_accounted : forall e, In e effects -> In e (modelled_writes ++ call_local_writes).
Proof. exact (effects_closed_spec effects C15_effects_closed). Qed.
Example C15_effects_nonvacuous :
  effects_closed [("sidemantic/core/semantic_graph.py:SemanticGraph.fanout_models", "store", "self._fanout_cache[]")] = false /\
  effects_closed [("sidemantic/core/preagg_matcher.py:PreAggregationMatcher._extract_filter_columns", "global", "_FILTER_COLUMNS_CACHE _FILTER_COLUMNS_CACHE[]")] = false /\
  effects_closed [("sidemantic/sql/generator.py:_parse_condition", "decorator", "lru_cache")] = false /\
  effects_closed [("sidemantic/sql/generator.py:SQLGenerator.generate", "argument", "filters via _prepare_filters(filters)")] = false.
Proof. exact unaccounted_examples. Qed.

(* regression anchors *)
Example C15_raw_iteration_refuted : emit (fun s => s) ["orders"; "customers"]%string <> emit (fun s => s) ["customers"; "orders"]%string.
Proof. exact raw_iteration_refuted. Qed.
Example C15_nonvacuous : sort ["orders"; "customers"; "items"]%string = ["customers"; "items"; "orders"]%string
  /\ sort ["items"; "orders"; "customers"]%string = ["customers"; "items"; "orders"]%string.
Proof. exact sorted_example. Qed.
