(* C11 — native definitions round-trip.  Property theorems only (proofs: Proofs/C11_proofs.v).
   Model/Native.v: a field-by-field exporter / parser pair as TABLES (export key, attribute, guard; parse field, keys, default),
   generic in the tables; Gen/NativeFields_gen.v: the tables of adapters/sidemantic.py (export, _export_model, _export_metric,
   _export_parameter, _parse_model, _parse_metric, _parse_parameter) regenerated from the source on every run, plus the
   pydantic fields of the classes.  Objects of ANY content. *)
From Coq Require Import ZArith String List Bool.
Require Import V.Model.Native V.Gen.NativeFields_gen V.Proofs.C11_proofs.
Import ListNotations.
Open Scope string_scope.

(* a field that passes the table criterion survives export -> parse for EVERY object: the parsed value equals the original up
   to the identification of falsy values the guards rely on (None ~ "" ~ [] -- exact for fields such as fill_nulls_with whose
   falsy values are meaningful).  Hypothesis on the object: a field guarded by `if not x` is a flag whose truthy value is the
   parser's default. *)
Theorem C11_field_roundtrip : forall et pt f o e p,
  field_ok et pt f = true -> key_consistent et f = true -> find_e et f = Some e -> find_p pt f = Some p ->
  (e_cond e = Falsy -> truthy (oget o f) = true -> oget o f = p_default p) ->
  equiv f (oget (parse_obj pt (export_obj et o)) f) (oget o f) = true.
Proof. exact field_roundtrip. Qed.

(* the generated obligation: in the tables of the CODE, every field that affects query results (Model/Native.result_fields:
   model, relationship, dimension, metric, segment, pre-aggregation, parameter and graph-level metric fields) passes the
   criterion -- no such field is lost or altered by to_yaml -> from_yaml *)
Theorem C11_native_tables : lost_fields export_tables parse_tables = [].
Proof. vm_compute. reflexivity. Qed.

(* non-vacuity: a concrete metric object through the generated tables *)
Example C11_nonvacuous :
  let o := [("name", VStr "r"); ("type", VStr "ratio"); ("numerator", VStr "rev"); ("denominator", VStr "n"); ("fill_nulls_with", VInt 0); ("agg", VNone)] in
  match alookup export_tables "ModelMetric", alookup parse_tables "ModelMetric" with
  | Some et, Some pt => map (fun f => oget (parse_obj pt (export_obj et o)) f) ["name"; "type"; "numerator"; "denominator"; "fill_nulls_with"; "agg"; "sql"]
  | _, _ => [] end = [VStr "r"; VStr "ratio"; VStr "rev"; VStr "n"; VInt 0; VNone; VNone].
Proof. vm_compute. reflexivity. Qed.

Require V.Model.SqlValue V.Gen.SqlValue_gen V.Proofs.SqlValue_proofs.
(* THE SQL DEFINITION SYNTAX, values: Gen/SqlValue_gen.v holds what sql_definitions._parse_scalar_literal makes of 44 scripted property values (empty, lone and repeated
   quotes, quoted texts with doubled quotes, double-quoted texts, expressions that merely start and end with a string constant, unterminated quotes, true / false / null in
   several spellings, integers with signs and leading zeros, decimals, near-numbers, bare expressions, texts with outer blanks), extracted from the source on every run by
   executing the function's AST (translator/gen_sqlvalue.py, fail closed, validated against CPython).  Model/SqlValue.parse_scalar returns the same value on every row; and
   for EVERY text s, writing s as one single-quoted literal with its quotes doubled denotes exactly s -- so a SQL expression (CASE ... 'x' ..., IN ('a', 'b')) written in a
   MODEL / DIMENSION / METRIC / SEGMENT statement means what the same string means in Python or YAML. *)
Theorem C11_sqlvalue_table : forallb V.Model.SqlValue.sqlvalue_row_ok V.Gen.SqlValue_gen.sqlvalue_rows = true.
Proof. exact V.Proofs.SqlValue_proofs.sqlvalue_table_ok. Qed.
Theorem C11_quoted_literal_roundtrip : forall s, V.Model.SqlValue.parse_scalar (V.Model.SqlValue.quote s) = V.Model.SqlValue.SStr s.
Proof. exact V.Proofs.SqlValue_proofs.quoted_literal_roundtrip. Qed.
Example C11_quoted_literal_nonvacuous :
  V.Model.SqlValue.quote "status = 'done'" = "'status = ''done'''"%string /\
  V.Model.SqlValue.parse_scalar "'pre-' || status || '-post'" = V.Model.SqlValue.SStr "pre-' || status || '-post"%string.
Proof. vm_compute. split; reflexivity. Qed.
