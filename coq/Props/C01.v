(* C01 — single-model queries compute exactly the defined aggregates.  Property theorems only (proofs: Proofs/C01_proofs.v).
   Model/Single.v is the hand-written model of the SQL the generator emits for one model (CTE of dimension expressions and
   raw measure columns, outer aggregation with GROUP BY positions, ORDER BY / LIMIT / OFFSET, ungrouped branch); `spec` is the
   reference semantics the property prescribes.  Tables of ANY size, any number of dimensions / measures / filters. *)
From Coq Require Import ZArith String List Bool.
Require Import V.Model.Sem V.Model.Single V.Proofs.C01_proofs.
Import ListNotations.

(* the rows of the generated plan are exactly the prescribed rows: one per distinct dimension combination among the rows
   passing the query filters (or one per surviving row when ungrouped), dimensions first in request order, each metric
   its aggregation over exactly the rows of the group that pass the metric's own filters (NULL semantics; uninterpreted
   aggregates such as median / stddev receive exactly that bag), then the ORDER BY / OFFSET / LIMIT slice *)
Theorem C01_rows : forall pk q, composite_cd_free pk q -> forall rows, run_model pk q rows = spec pk q rows.
Proof. exact run_eq_spec. Qed.

(* the prescribed groups: distinct keys, exactly the dimension tuples of the rows that satisfy the query filters *)
Theorem C01_groups : forall pk q rows, sq_ungrouped q = false -> length (sq_dims q) <> 0 ->
  let keys := map fst (spec_groups pk q rows) in
  NoDup keys /\ forall k, In k keys <-> exists r, In r rows /\ all_hold (sq_filters q) r = true /\ map (eval r) (sq_dims q) = k.
Proof. exact spec_groups_keys. Qed.

(* a metric's own filter is CASE WHEN ... ELSE NULL in the raw column: aggregating it = aggregating over the rows that pass *)
Theorem C01_metric_filter : forall a (p : row -> bool) (e : row -> val) (g : list row),
  apply_agg a (map (fun r => if p r then e r else VNull) g) = apply_agg a (map e (filter p g)).
Proof. exact agg_case_filter. Qed.

(* known finding C01-K2 (excluded above by composite_cd_free): count_distinct without sql on a composite string key *)
Example C01_composite_pipe_refuted :
  run_model [0; 1] pipe_query pipe_rows = [([], [RVal (VInt 1)])] /\ spec [0; 1] pipe_query pipe_rows = [([], [RVal (VInt 2)])].
Proof. exact composite_pipe_refuted. Qed.

Example C01_nonvacuous : composite_cd_free [0] ex_query /\ length (run_model [0] ex_query ex_rows) = 3 /\
  nth 0 (run_model [0] ex_query ex_rows) ([], []) = ([VStr "a"; VNull], [RVal (VInt 10%Z); RVal (VInt 1%Z); RVal (VInt 1%Z); RBag "median" [VInt 10%Z]]).
Proof. exact ex_nonvacuous. Qed.

Require V.Model.SmallFns V.Gen.Small_gen V.Proofs.Small_proofs.

(* the aggregate the outer query applies, regenerated: Gen/Small_gen.v holds what SQLGenerator._build_measure_aggregation_sql returns for every aggregation literal
   (incl. one in mixed case) and model / measure names that need quoting, extracted from generator.py on every run (with _cte_ref, _cte_name, _quote_identifier,
   _is_simple_identifier inlined).  The model returns the same text on every row, and for ANY literal and names it is <AGG>(<cte>.<measure>_raw), COUNT(DISTINCT ...)
   for count_distinct: the aggregate Model/Single.v applies to the raw column of the measure, never COUNT( * ) and never the filtered expression again. *)
Theorem C01_aggregate_table : forallb V.Model.SmallFns.aggsql_row_ok V.Gen.Small_gen.aggsql_rows = true.
Proof. exact V.Proofs.Small_proofs.aggsql_table_ok. Qed.
Theorem C01_aggregate_shape : forall agg m n,
  V.Model.SmallFns.agg_sql agg m n =
    (if String.eqb (V.Model.SmallFns.upper agg) "COUNT_DISTINCT" then "COUNT(DISTINCT " ++ V.Model.SmallFns.cte_ref m (n ++ "_raw") ++ ")"
     else V.Model.SmallFns.upper agg ++ "(" ++ V.Model.SmallFns.cte_ref m (n ++ "_raw") ++ ")")%string.
Proof. exact V.Proofs.Small_proofs.agg_sql_shape. Qed.

Require V.Model.CteShape V.Gen.CteShape_gen V.Proofs.CteShape_proofs.
(* THE MODEL CTE, regenerated (Gen/CteShape_gen.v: what _build_model_cte projects on 476 scripted worlds x queries; described in Props/C20.v).  The hand-written
   Model/CteShape.cte_shape builds the same items, FROM and WHERE on every row.  What C01 uses of it: the raw column of count / count( * ) is the literal 1, of a
   count_distinct without SQL the key (CONCAT of the casts for a composite key), of anything else the measure's own expression -- guarded by the measure's filters --
   which is what Model/Single.v aggregates; and each requested dimension is projected exactly once (C20_requested_dimension_projected, C20_projected_once). *)
Theorem C01_cte_table : forallb (V.Model.CteShape.cte_row_ok V.Gen.CteShape_gen.cte_world) V.Gen.CteShape_gen.cte_rows = true.
Proof. exact V.Proofs.CteShape_proofs.cte_table_holds. Qed.
Theorem C01_raw_column_of_a_measure : forall m x,
  V.Model.CteShape.measure_base m x =
    (if V.Base.PyLib.opt_eqb (V.Model.CteShape.cm_agg x) "count" && (negb (V.Base.PyLib.opt_truthy (V.Model.CteShape.cm_sql x)) || V.Base.PyLib.opt_eqb (V.Model.CteShape.cm_sql x) "*") then "1"
     else if V.Base.PyLib.opt_eqb (V.Model.CteShape.cm_agg x) "count_distinct" && negb (V.Base.PyLib.opt_truthy (V.Model.CteShape.cm_sql x)) then
       match V.Model.CteShape.mo_pk m with
       | [k] => k
       | ks => "CONCAT(" ++ String.concat ", '|', " (map (fun c => "CAST(" ++ c ++ " AS VARCHAR)") ks) ++ ")"
       end
     else V.Model.CteShape.replace_placeholder m (V.Model.CteShape.cm_sql_expr x))%string.
Proof. reflexivity. Qed.

Require V.Model.Inherit V.Gen.Inherit_gen V.Proofs.Inherit_proofs.
(* DEFINITIONS OBTAINED THROUGH `extends`, regenerated: Gen/Inherit_gen.v holds what inheritance.merge_model makes of 35 scripted parents / children (item lists with shared,
   new, repeated and absent names in every position; fields the child sets, leaves unset or sets to None), extracted from inheritance.py on every run by executing the
   function's AST (translator/gen_inherit.py, fail closed, validated against CPython).  Model/Inherit.v returns the same lists and fields on every row; and for EVERY parent,
   child and name: the merged model's item of that name is the child's own declaration when it has one and the parent's otherwise -- a whole item, never a mixture of the
   two -- and every other field is the child's when the child sets it.  So "the declared aggregation of its expression" of a model obtained through `extends` is the
   declaration a reader finds by looking at the child first and at the parent second; one case in four of the C01 correspondence is registered that way. *)
Theorem C01_inherit_table : forallb V.Model.Inherit.inherit_row_ok V.Gen.Inherit_gen.inherit_rows = true.
Proof. exact V.Proofs.Inherit_proofs.inherit_table_ok. Qed.
Theorem C01_redeclared_item_is_the_childs : forall p c n,
  V.Model.Inherit.assoc (V.Model.Inherit.merge_items p (Some c)) n =
    match V.Model.Inherit.assoc (rev c) n with Some v => Some v | None => V.Model.Inherit.assoc (rev p) n end.
Proof. exact V.Proofs.Inherit_proofs.merged_item_lookup. Qed.
Theorem C01_inherited_item_is_the_parents : forall p n, V.Model.Inherit.assoc (V.Model.Inherit.merge_items p None) n = V.Model.Inherit.assoc (rev p) n.
Proof. exact V.Proofs.Inherit_proofs.inherited_when_not_redeclared. Qed.
Theorem C01_field_set_by_the_child_wins : forall p c f,
  V.Model.Inherit.assoc (V.Model.Inherit.merge_fields p c) f = match V.Model.Inherit.assoc (rev c) f with Some v => Some v | None => V.Model.Inherit.assoc p f end.
Proof. exact V.Proofs.Inherit_proofs.merged_field_lookup. Qed.
Example C01_inherit_nonvacuous :
  V.Model.Inherit.merge_items [("revenue", "SUM(amount) WHERE completed"); ("max_amount", "MAX(amount)")]%string (Some [("revenue", "SUM(amount)"); ("n", "COUNT(*)")]%string) =
    [("revenue", "SUM(amount)"); ("max_amount", "MAX(amount)"); ("n", "COUNT(*)")]%string.
Proof. vm_compute. reflexivity. Qed.
