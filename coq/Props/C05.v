(* C05 — the SQL interface and the structured query API agree.  Property theorems only (proofs: Proofs/C05_proofs.v).
   Model/Rewriter.v: extraction of a structured query from the parsed SELECT (sqlglot's text -> tree step is outside the
   model), and the renderings of a structured query as SELECT trees.  Any number of fields, filters, any names.
   Once the extracted structured query equals the original one, both paths call the same generator: equal rows and column
   names follow from C01-C04; they are also compared by execution (harness). *)
From Coq Require Import String List Bool.
Require Import V.Model.Rewriter V.Proofs.C05_proofs.
Import ListNotations.
Open Scope string_scope.

(* FROM <model> or FROM metrics, model-qualified names, with or without aliases, granularity suffixes, a WHERE conjunction,
   ORDER BY / LIMIT / OFFSET: rewritten to exactly the structured query *)
Theorem C05_qualified : forall g table fields filters order limit offset, well_formed g fields -> fields <> [] -> registered_table g table ->
  rewrite g (render_qualified table fields filters order limit offset) = Rewritten (structured g fields filters order limit offset).
Proof. exact rewrite_qualified. Qed.
(* single-model queries written with unqualified names: the same structured query *)
Theorem C05_unqualified : forall g model fields filters order limit offset, well_formed g fields -> fields <> [] ->
  (forall f, In f fields -> f_model f = model) -> model <> "metrics" -> find_rm (rg_models g) model <> None ->
  rewrite g (render_unqualified model fields filters order limit offset) = Rewritten (structured g fields filters order limit offset).
Proof. exact rewrite_unqualified. Qed.
(* one WHERE conjunction = the list of its atoms; an OR stays one filter *)
Theorem C05_where_split : forall fs, match and_tree fs with Some w => extract_filters w | None => [] end = fs.
Proof. exact where_roundtrip. Qed.
Theorem C05_or_kept : forall a b, extract_filters (WOr a b) = [wtext (WOr a b)].
Proof. exact or_kept. Qed.

(* SQL that references no semantic model is passed through *)
Theorem C05_passthrough_table : forall g s n, s_from s = FromTable n -> s_with s = false -> n <> "metrics" -> find_rm (rg_models g) n = None -> rewrite g s = Passthrough.
Proof. exact passthrough_foreign_table. Qed.
Theorem C05_passthrough_no_from : forall g s, s_from s = FromNone -> s_with s = false ->
  existsb (fun p => match p with PStar => true | _ => false end) (s_proj s) = false -> rewrite g s = Passthrough.
Proof. exact passthrough_no_from. Qed.

(* what cannot be expressed is rejected, never answered differently *)
Theorem C05_reject_join : forall g s, s_joins s = true -> rewrite_simple g s = Rejected.
Proof. exact reject_join. Qed.
Theorem C05_reject_projection : forall g s p, In p (s_proj s) -> extract_proj g (inferred s) p = None -> rewrite_simple g s = Rejected.
Proof. exact reject_bad_projection. Qed.
Theorem C05_function_call_rejected : forall g inf, extract_proj g inf PFunc = None.
Proof. exact function_call_rejected. Qed.
Theorem C05_literal_rejected : forall g inf, extract_proj g inf PLiteral = None.
Proof. exact literal_rejected. Qed.
Theorem C05_unknown_field_rejected : forall g inf t n a, classify_ref g t n = None -> extract_proj g inf (PCol (Some t) n a) = None.
Proof. exact unknown_field_rejected. Qed.

Example C05_nonvacuous : well_formed ex_g ex_fields /\ ex_fields <> [] /\
  rewrite ex_g (render_unqualified "orders" ex_fields ["status = 'a'"; "revenue > 1"] ["m"] (Some 5) None) =
  Rewritten {| q_metrics := ["orders.revenue"]; q_dims := ["orders.created__month"; "orders.status"]; q_filters := ["status = 'a'"; "revenue > 1"]; q_order := ["m"];
               q_limit := Some 5; q_offset := None; q_aliases := [("orders.created__month", "m")] |}.
Proof. exact ex_wf. Qed.

Require V.Gen.RewriterTable_gen V.Proofs.C05_table_proofs.
(* the SELECT-list extraction, regenerated: Gen/RewriterTable_gen.v holds what QueryRewriter._extract_metrics_and_dimensions (with _resolve_column inlined) returns on 330
   scripted scenarios -- five FROM situations (none, a model with a field that is both dimension and measure, another model, FROM metrics, an unknown table) x SELECT lists of
   stars, literals, function calls and columns (five table qualifiers x eleven names incl. granularity suffixes, unknown suffixes, graph-level metric names, aliases, the same
   reference aliased twice) -- extracted from query_rewriter.py on every run by executing the methods' ASTs against scripted sqlglot classes and a scripted graph (fail closed,
   validated against CPython).  The extraction model of Model/Rewriter.v (the one C05_qualified / C05_unqualified / C05_reject_* are about) returns the same metrics,
   dimensions and alias map, and rejects exactly the lists the method raises on. *)
Theorem C05_extract_table : forallb V.Proofs.C05_table_proofs.extract_row_ok V.Gen.RewriterTable_gen.extract_rows = true.
Proof. exact V.Proofs.C05_table_proofs.extract_table_ok. Qed.
(* ... and the WHERE clause: what _extract_filters / _extract_compound_filters return on 120 scripted scenarios (four FROM situations x 30 And / Or trees, regenerated in the
   same file) is what `filters_of` returns: the clause is attributed to the single FROM table exactly when that table is a registered model (an unqualified WHERE column means
   the model's own field, as in the SELECT list -- the repair of the former class C05-K1), then split by `extract_filters`, the function C05_where_split and C05_or_kept are
   about; the attribution step never changes how the clause is split. *)
Theorem C05_filters_table : forallb V.Proofs.C05_table_proofs.filter_row_ok V.Gen.RewriterTable_gen.filter_rows = true.
Proof. exact V.Proofs.C05_table_proofs.filter_table_ok. Qed.
Theorem C05_qualification_keeps_split : forall f w,
  length (V.Model.Rewriter.extract_filters (V.Proofs.C05_table_proofs.wmap f w)) = length (V.Model.Rewriter.extract_filters w).
Proof. exact V.Proofs.C05_table_proofs.extract_filters_wmap_length. Qed.
