(* C03 — a metric's value does not depend on its companions in the query.  Property theorems only (proofs: Proofs/C03_proofs.v).
   Model/MultiFact.v is the hand-written model of the multi-fact form: one ordinary sub-query per metric model, FULL OUTER JOIN of
   every later sub-query with the first on NULL-safe dimension equality, COALESCE of the dimension columns.
   The theorems are about that outer join, for sub-query results of ANY size. *)
From Coq Require Import ZArith String List Bool.
Require Import V.Model.Graph V.Model.Plan V.Gen.MultiFact_gen V.Proofs.C02_symagg_proofs V.Proofs.C03_decision_proofs
               V.Model.Sem V.Model.Single V.Model.Join V.Model.MultiFact V.Proofs.C03_proofs.
Import ListNotations.

(* metrics of TWO models: the groups of the joint result are exactly the union of the groups of the two sub-queries, each once *)
Theorem C03_union : forall nd w1 w2 s1 s2, wf_sub nd s1 -> wf_sub nd s2 -> (forall o, In o s1 -> length (snd o) = w1) ->
  NoDup (keys s1) -> NoDup (keys s2) ->
  keys (outer_rows nd [w1; w2] [s1; s2]) = keys s1 ++ keys (unmatched s1 s2) /\ NoDup (keys (outer_rows nd [w1; w2] [s1; s2])).
Proof. intros. split; [apply outer2_keys|apply outer2_nodup]; assumption. Qed.

(* ... and every value of either sub-query appears unchanged in the row of its group (NULL-padded where the other side has no such group) *)
Theorem C03_values_first : forall nd w1 w2 s1 s2 o1, wf_sub nd s1 -> wf_sub nd s2 -> (forall o, In o s1 -> length (snd o) = w1) -> In o1 s1 ->
  exists m2, In (fst o1, snd o1 ++ m2) (outer_rows nd [w1; w2] [s1; s2]) /\ (m2 = nulls w2 /\ ~ In (fst o1) (keys s2) \/ In (fst o1, m2) s2).
Proof. exact outer2_values_left. Qed.
Theorem C03_values_second : forall nd w1 w2 s1 s2 c, wf_sub nd s1 -> wf_sub nd s2 -> (forall o, In o s1 -> length (snd o) = w1) -> In c s2 ->
  exists m1, In (fst c, m1 ++ snd c) (outer_rows nd [w1; w2] [s1; s2]) /\ (m1 = nulls w1 /\ ~ In (fst c) (keys s1) \/ In (fst c, m1) s1).
Proof. exact outer2_values_right. Qed.

(* exact shape of the two-way join (no hypothesis on key uniqueness) *)
Theorem C03_full_outer : forall nd w1 w2 s1 s2, wf_sub nd s1 -> wf_sub nd s2 -> (forall o, In o s1 -> length (snd o) = w1) ->
  outer_rows nd [w1; w2] [s1; s2] =
    flat_map (fun o1 => match matches o1 s2 with
                        | [] => [(fst o1, snd o1 ++ nulls w2)]
                        | cs => map (fun c => (fst o1, snd o1 ++ snd c)) cs end) s1
    ++ map (fun c => (fst c, nulls w1 ++ snd c)) (unmatched s1 s2).
Proof. exact outer2_exact. Qed.

(* known finding C03-K3: with metrics of THREE models every later sub-query is joined to the FIRST one only: a group the first
   sub-query lacks is returned twice, and a real NULL group is glued to a row whose first side is merely missing *)
(* WHEN THE MULTI-FACT FORM IS TAKEN, regenerated: Gen/MultiFact_gen.v holds the verdict of SQLGenerator._needs_preaggregation_for_fanout on 2744
   scripted scenarios (eight metric lists over three models incl. graph-level names; for each pair of models one of seven join-path patterns or no
   path), extracted from generator.py on every run by executing the method's AST (translator/gen_multifact.py, fail closed, validated against
   CPython).  The decision function gives the same verdict on every scenario, and it is the planning model's `needs_multifact` for any graph and
   query -- the branch Model/MultiFact.v (and C03_union, C03_values_first, C03_values_second) describes is taken exactly then. *)
Theorem C03_multifact_table : forallb multifact_row_ok multifact_rows = true.
Proof. exact multifact_table_ok. Qed.
Theorem C03_multifact_is_plan_decision : forall g q,
  needs_multifact g q = multifact_model (map (fun m => Some (pmt_model m)) (pq_metrics q)) (path_types g).
Proof. exact plan_multifact_is_model. Qed.

Example C03_three_way_refuted :
  outer_rows 1 [1; 1; 1] [sA; sB; sC] =
    [ ([VStr "x"], [RVal (VInt 1); RVal (VInt 2); RVal VNull]);
      ([VStr "y"], [RVal VNull; RVal (VInt 3); RVal VNull]);
      ([VStr "y"], [RVal VNull; RVal VNull; RVal (VInt 4)]) ].
Proof. exact three_way_refuted. Qed.
Example C03_three_way_null_refuted :
  outer_rows 1 [1; 1; 1] [sA; sB; sC'] =
    [ ([VStr "x"], [RVal (VInt 1); RVal (VInt 2); RVal VNull]);
      ([VStr "y"], [RVal VNull; RVal (VInt 3); RVal (VInt 9)]) ].
Proof. exact three_way_null_refuted. Qed.
Example C03_nonvacuous :
  outer_rows 1 [1; 1] [sB; [ ([VNull], [RVal (VInt 9)]); ([VStr "y"], [RVal (VInt 4)]) ]] =
    [ ([VStr "x"], [RVal (VInt 2); RVal VNull]); ([VStr "y"], [RVal (VInt 3); RVal (VInt 4)]); ([VNull], [RVal VNull; RVal (VInt 9)]) ].
Proof. exact two_way_example. Qed.

Require V.Model.MultiFactShape V.Gen.MultiFactShape_gen V.Proofs.C03_shape_proofs.
(* THE STATEMENT OF THE MULTI-FACT FORM, regenerated: Gen/MultiFactShape_gen.v holds the structure of what SQLGenerator._generate_with_preaggregation builds on 260 scripted queries
   (metrics of two / three models, a name shared by two models, a graph-level name among them, metrics of one model only; no dimensions, one, one time dimension at two granularities
   in either order, dimensions of three models; row filters on metric models and on other models, metric-value filters, segments; ORDER BY / LIMIT incl. 0 / OFFSET; custom aliases),
   extracted from generator.py on every run by executing the method's AST (fail closed, validated against CPython).  Model/MultiFactShape.mf_build builds the same structure on
   every row; and for ANY query it builds: one sub-query per metric model, all asked for the same dimensions and the same row filters, every later sub-query joined with the FIRST
   one on ALL dimension columns of the query -- one NULL-safe condition per requested reference, the granularity being part of the column -- or cross-joined when there are none.
   That is the join Model/MultiFact.outer_rows (C03_union, C03_values_first, C03_values_second, C03_full_outer) describes. *)
Theorem C03_statement_table : forallb V.Proofs.C03_shape_proofs.mfshape_row_ok V.Gen.MultiFactShape_gen.mfshape_rows = true.
Proof. exact V.Proofs.C03_shape_proofs.mfshape_table_ok. Qed.
Theorem C03_joins_on_all_dimension_columns : forall metrics dims filters segments order_by limit offset aliases ctes subs sels first joins w o l f,
  V.Model.MultiFactShape.mf_build (metrics, dims, filters, segments, order_by, limit, offset) aliases = V.Model.MultiFactShape.Shape ctes subs sels first joins w o l f ->
  ctes = map (fun m => (m ++ "_preagg")%string) (V.Model.MultiFactShape.metric_models_of metrics) /\
  first = match ctes with c :: _ => c | [] => ""%string end /\
  joins = map (fun c => match dims with
                        | [] => (false, c, [])
                        | _ => (true, c, map (fun d => (first ++ "." ++ V.Model.MultiFactShape.dim_col d ++ "=" ++ c ++ "." ++ V.Model.MultiFactShape.dim_col d)%string) dims) end) (tl ctes).
Proof. exact V.Proofs.C03_shape_proofs.joins_on_all_dimension_columns. Qed.
Theorem C03_sub_queries_share : forall inp aliases ctes subs sels first joins w o l f,
  V.Model.MultiFactShape.mf_build inp aliases = V.Model.MultiFactShape.Shape ctes subs sels first joins w o l f ->
  forall s1 s2, In s1 subs -> In s2 subs -> snd (fst s1) = snd (fst s2) /\ snd s1 = snd s2.
Proof. exact V.Proofs.C03_shape_proofs.sub_queries_share_dimensions_and_filters. Qed.
