(* C04 — filters restrict rows the same way wherever they are evaluated.  Property theorems only (proofs: Proofs/C04_proofs.v).
   Over Model/Sem.v (three-valued predicates) and the wide-row join model of C02 (Model/Mult.v, Model/Join.v). *)
From Coq Require Import ZArith String List Bool Permutation.
Require Import V.Model.Sem V.Model.Single V.Model.Mult V.Model.Join V.Model.Classify V.Gen.Classify_gen V.Proofs.C04_proofs.
Import ListNotations.
Open Scope nat_scope.

(* one conjunction == several filters == any order == applied one after the other (WHERE keeps TRUE only) *)
Theorem C04_conj : forall fs a b r, all_hold (And a b :: fs) r = all_hold (a :: b :: fs) r.
Proof. exact conj_as_list. Qed.
Theorem C04_order : forall fs1 fs2 (rows : list row), Permutation fs1 fs2 -> filter (all_hold fs1) rows = filter (all_hold fs2) rows.
Proof. exact filter_order_free. Qed.
Theorem C04_sequential : forall fs1 fs2 (rows : list row), filter (all_hold fs2) (filter (all_hold fs1) rows) = filter (all_hold (fs1 ++ fs2)) rows.
Proof. exact filter_sequential. Qed.

(* pushdown: INNER join against the child rows that satisfy the filter == join against all child rows (LEFT or INNER), then keep
   the wide rows whose child slot holds a satisfying row (an all-NULL padding row never satisfies a pushed filter: it is dropped) *)
Theorem C04_pushdown : forall (st : step) (q : nat -> bool) (J : list wrow) n, (forall w, In w J -> length w = n) ->
  join_step {| s_parent := s_parent st; s_match := fun p => filter q (s_match st p); s_pof := s_pof st; s_left := false |} J =
  filter (fun w => match slot n w with Some c => q c | None => false end) (join_step st J).
Proof. exact pushdown_last_step. Qed.

(* semi-join reading: after the INNER step every wide row is connected to a row of the filtered model, and later steps keep that slot *)
Theorem C04_semijoin : forall (st : step) (J : list wrow) n, s_left st = false -> (forall w, In w J -> length w = n) ->
  forall w, In w (join_step st J) -> exists c, slot n w = Some c.
Proof. exact inner_step_some. Qed.
Theorem C04_semijoin_kept : forall (st : step) (J : list wrow) n s, s < n -> (forall w, In w J -> length w = n) ->
  forall w, In w (join_step st J) -> exists w0, In w0 J /\ slot s w = slot s w0.
Proof. exact later_steps_keep. Qed.

(* a filter declared on a metric is a CASE WHEN in that metric's raw column (C01_metric_filter): changing the filters of another
   metric leaves this metric's column unchanged, in every group *)
Theorem C04_metric_filter_local : forall h tables (ms1 ms2 : list jmetric) g j, nth_error ms1 j = nth_error ms2 j ->
  nth_error (map (fun m => metric_val h tables m g) ms1) j = nth_error (map (fun m => metric_val h tables m g) ms2) j.
Proof. exact metric_filter_local. Qed.

Example C04_nonvacuous : all_hold [And (Cmp CGt (Col 0) (Lit (VInt 1%Z))) (IsNull (Col 1))] [VInt 5%Z; VNull] = true
  /\ all_hold [IsNull (Col 1); Cmp CGt (Col 0) (Lit (VInt 1%Z))] [VInt 5%Z; VNull] = true
  /\ all_hold [Cmp CGt (Col 0) (Lit (VInt 1%Z))] [VNull; VNull] = false.
Proof. exact and_split_example. Qed.

(* WHERE A FILTER IS EVALUATED, regenerated: Gen/Classify_gen.v holds what SQLGenerator._classify_filters_for_pushdown does with 141 scripted
   filter lists (conjunctions of atoms that mention one model, two models, a metric, a `_cte`-suffixed table, unqualified or unknown-table
   columns, text that does not parse), extracted from generator.py on every run by executing the method's AST against a scripted sqlglot
   (translator/gen_classify.py, fail closed, validated against CPython).  The model `classify` distributes every conjunct the same way ... *)
Theorem C04_classify_table : forallb (classify_row_ok atoms) classify_rows = true.
Proof. vm_compute. reflexivity. Qed.
(* ... and it pushes a conjunct into model M's CTE only if every table-qualified column of a query model it mentions belongs to M and is
   not a metric -- so a pushed-down filter is a predicate over M's rows alone, which is what C04_pushdown / C04_semijoin assume *)
Theorem C04_classify_sound : forall models is_metric cols m, classify models is_metric (Some cols) = Push m ->
  (forall tc m', In tc cols -> ref_model models tc = Some m' -> m' = m /\ is_metric m' (snd tc) = false) /\ In m models.
Proof. exact classify_push_sound. Qed.

Require V.Model.SmallFns V.Gen.Small_gen V.Proofs.Small_proofs.

(* the text that joins the filters of a query, regenerated: Gen/Small_gen.v holds what SQLGenerator._join_conjuncts returns on scripted condition lists (each
   condition with the class sqlglot gives its top-level node), extracted from generator.py on every run by executing the method's AST.  The model -- a
   condition whose top-level operator is OR is parenthesised, then everything is joined with AND -- returns the same text on every row: this is the
   grouping C04_conj / C04_order assume when they treat the filter list as a conjunction. *)
Theorem C04_conjuncts_table : forallb V.Model.SmallFns.conj_row_ok V.Gen.Small_gen.conj_rows = true.
Proof. exact V.Proofs.Small_proofs.conj_table_ok. Qed.
Theorem C04_conjuncts_shape : forall a b l,
  V.Model.SmallFns.join_conjuncts (a :: b :: l) = (V.Model.SmallFns.paren a ++ " AND " ++ V.Model.SmallFns.join_conjuncts (b :: l))%string.
Proof. exact V.Proofs.Small_proofs.join_conjuncts_cons2. Qed.

Require V.Model.CteShape V.Gen.CteShape_gen V.Proofs.CteShape_proofs.
(* A FILTER DECLARED ON A METRIC ONLY TOUCHES THAT METRIC'S RAW COLUMN (regenerated table of _build_model_cte: see Props/C20.v).  For ANY model: the raw column of a
   filtered measure is CASE WHEN <conjunction of its filters> THEN <the raw column it would have without filters> ELSE NULL END, and giving metric n other filters leaves the raw
   column of every other metric n' unchanged.  (C04_metric_filter_local is the statement about VALUES over the relational model; this is the statement about the text the
   generator emits, tied to the source by the table.) *)
Theorem C04_cte_table : forallb (V.Model.CteShape.cte_row_ok V.Gen.CteShape_gen.cte_world) V.Gen.CteShape_gen.cte_rows = true.
Proof. exact V.Proofs.CteShape_proofs.cte_table_holds. Qed.
Theorem C04_metric_filter_only_its_column : forall qa conj m n fs n', n' <> n ->
  V.Model.CteShape.measure_items qa conj (V.Proofs.CteShape_proofs.with_mets m (V.Proofs.CteShape_proofs.set_filters (V.Model.CteShape.mo_mets m) n fs)) [n'] =
  V.Model.CteShape.measure_items qa conj m [n'].
Proof. exact V.Proofs.CteShape_proofs.metric_filter_local. Qed.
Theorem C04_filtered_measure_guarded : forall conj m x f fs, V.Model.CteShape.cm_filters x = f :: fs ->
  V.Model.CteShape.measure_expr conj m x =
    ("CASE WHEN " ++ conj (map (fun f => V.Model.CteShape.py_replace "{model}" "" (V.Model.CteShape.py_replace "{model}." "" f)) (f :: fs)) ++
     " THEN " ++ V.Model.CteShape.measure_base m x ++ " ELSE NULL END")%string.
Proof. exact V.Proofs.CteShape_proofs.filtered_measure_is_guarded_base. Qed.

Require V.Model.RefRewrite V.Gen.RefRewrite_gen V.Proofs.RefRewrite_proofs.
(* MAIN-QUERY FILTERS READ THE CTEs, regenerated: Gen/RefRewrite_gen.v holds what SQLGenerator._rewrite_model_refs_to_ctes returns on 10 scripted texts over the models orders /
   order_items / items (names contained in one another, `_cte`-qualified, unqualified and foreign references; unparsable texts take the textual fallback).  The reference-level
   model equals the table on its 7 parsed rows: a reference to a registered model (with or without `_cte`) reads that model's CTE, anything else is left alone. *)
Theorem C04_cte_reference_table :
  forallb (V.Model.RefRewrite.cte_ref_row_ok V.Gen.RefRewrite_gen.rr_models V.Gen.RefRewrite_gen.rr_texts) V.Gen.RefRewrite_gen.cte_ref_rows = true /\
  V.Model.RefRewrite.parsed_rows V.Gen.RefRewrite_gen.rr_texts fst V.Gen.RefRewrite_gen.cte_ref_rows = 7%nat.
Proof. exact V.Proofs.RefRewrite_proofs.cte_ref_table_ok. Qed.
