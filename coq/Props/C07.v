(* C07 — time granularities truncate consistently and roll up additively.  Property theorems only
   (proofs: Base/CalendarFacts.v, Proofs/Regroup_proofs.v, Proofs/C07_proofs.v).
   Timestamps are microseconds since 1970-01-01 in Z (unbounded, proleptic Gregorian); `trunc` is tied to DuckDB's DATE_TRUNC by the
   correspondence check.  Grouping by several granularities of one dimension is an instance of C01_rows (dimension expressions
   `Trunc g e` of Model/Sem.v). *)
From Coq Require Import ZArith String List Bool.
Require Import V.Base.Calendar V.Base.CalendarFacts V.Model.Refresh V.Model.TimeDim V.Gen.TimeDim_gen V.Proofs.C07_proofs.
Import ListNotations.

(* truncation to hour / day / ISO week (Monday) / month / quarter / year is the floor onto the bucket starts, for EVERY timestamp:
   the result is a bucket start, is <= t, and no bucket start lies in (trunc g t, t] *)
Theorem C07_floor : forall g, is_floor (boundary g) (trunc g).
Proof. exact trunc_floor. Qed.

(* additive roll-up for every table, every timestamp, every value of the other dimension *)
Theorem C07_additive_sum : forall q p (B d : Z) (b : list brow), nested q p ->
  zsum (map r_sum (filter (fun x => (trunc q (r_bucket x) =? B) && (r_dim x =? d))%Z (materialize (trunc p) b)))
  = zsum (map b_v (filter (fun y => (trunc q (b_ts y) =? B) && (b_dim y =? d))%Z b)).
Proof. exact additive_sum. Qed.
Theorem C07_additive_count : forall q p (B d : Z) (b : list brow), nested q p ->
  zsum (map r_cnt (filter (fun x => (trunc q (r_bucket x) =? B) && (r_dim x =? d))%Z (materialize (trunc p) b)))
  = Z.of_nat (length (filter (fun y => (trunc q (b_ts y) =? B) && (b_dim y =? d))%Z b)).
Proof. exact additive_count. Qed.

(* default time dimension: requested dimensions are kept in place; a dimension is ADDED only for a model with a requested metric,
   only its default time dimension at its default grain, and only when no time dimension of that model was requested *)
Theorem C07_default_keeps : forall ms metrics dims, exists added, apply_defaults ms metrics dims = (dims ++ added)%list.
Proof. exact default_keeps_requested. Qed.
Theorem C07_default_only_if : forall ms metrics dims r, In r (apply_defaults ms metrics dims) -> ~ In r dims ->
  exists m, find_tm ms (dr_model r) = Some m /\ In (Some (dr_model r)) metrics /\ tm_default m = Some (dr_dim r) /\ dr_gran r = tm_grain m
            /\ mem_s (dr_model r) (models_with_time ms dims) = false.
Proof. exact default_added_only_if. Qed.

(* TIE BY REGENERATION: Gen/TimeDim_gen.v holds what SQLGenerator._apply_default_time_dimensions returns on 1008 scripted scenarios (two
   models with / without a default time dimension and default grain, seven metric lists incl. graph-level and unknown-model references,
   nine dimension lists), extracted from generator.py on every run by executing the function's AST (translator/gen_timedim.py, fail
   closed, validated against CPython).  On every scenario the model `apply_defaults` the theorems above are about returns the same list. *)
Theorem C07_default_table : forallb (fun row => let '(ms, metrics, dims, res) := row in drefs_eqb (apply_defaults ms metrics dims) res) default_rows = true.
Proof. vm_compute. reflexivity. Qed.

(* a granularity on a field that exists but is not a time dimension is a validation error *)
Theorem C07_reject_nontime : forall ms d g m, dr_gran d = Some g -> find_tm ms (dr_model d) = Some m ->
  existsb (fun x => String.eqb (td_name x) (dr_dim d)) (tm_dims m) = true -> is_time_dim m (dr_dim d) = false -> 1 <= gran_errors ms d.
Proof. exact nontime_gran_rejected. Qed.

Example C07_week_not_nested : trunc Month (trunc Week 1706745600000000%Z) <> trunc Month 1706745600000000%Z.
Proof. exact week_not_nested. Qed.
Example C07_nonvacuous :
  apply_defaults ex_models [Some "orders"; None; Some "orders"]%string [ {| dr_model := "orders"; dr_dim := "status"; dr_gran := None |} ]%string
    = [ {| dr_model := "orders"; dr_dim := "status"; dr_gran := None |}; {| dr_model := "orders"; dr_dim := "created"; dr_gran := Some "month" |} ]%string
  /\ gran_errors ex_models {| dr_model := "orders"; dr_dim := "status"; dr_gran := Some "month" |}%string = 1.
Proof. split; reflexivity. Qed.

Require V.Model.SmallFns V.Gen.Small_gen V.Proofs.Small_proofs.

(* `reference__granularity`, regenerated: Gen/Small_gen.v holds what SQLGenerator._parse_dimension_refs returns on scripted references, extracted from generator.py
   on every run.  The model (split at the LAST "__") agrees on every row, and for ANY reference text p and any granularity word g (letters only) the reference
   p__g is read back as (p, g): the requested granularity is never confused with part of the dimension's name. *)
Theorem C07_dimref_table : forallb V.Model.SmallFns.dimref_row_ok V.Gen.Small_gen.dimref_rows = true.
Proof. exact V.Proofs.Small_proofs.dimref_table_ok. Qed.
Theorem C07_dimref_roundtrip : forall p g, V.Model.SmallFns.all_chars V.Proofs.Small_proofs.is_letter g = true ->
  V.Model.SmallFns.parse_dimref (p ++ "__" ++ g)%string = (p, Some g).
Proof. exact V.Proofs.Small_proofs.parse_dimref_roundtrip. Qed.
