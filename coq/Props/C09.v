(* C09 — rollup granularity compatibility is calendar-sound.  Property theorems only; proofs in Proofs/C09_proofs.v.
   `is_granularity_compatible` and `GRANULARITY_HIERARCHY` are regenerated from /repo on every run (Gen/GranCompat_gen.v);
   `trunc` is the calendar truncation of Base/CalendarFacts.v (tied to DuckDB's DATE_TRUNC by the correspondence check). *)
From Coq Require Import ZArith List String Bool.
Require Import V.Base.Calendar V.Base.CalendarFacts V.Gen.GranCompat_gen V.Proofs.C09_proofs.
Import ListNotations.
Open Scope string_scope.

(* A query at granularity q is served from a rollup at granularity p only if truncating ANY timestamp (all t : Z,
   microseconds) to p and then to q gives the same bucket as truncating to q directly. *)
Theorem C09_sound : forall q p : string, is_granularity_compatible q p = true ->
  forall t : Z, trunc_s q (trunc_s p t) = trunc_s q t.
Proof. exact sound_all. Qed.

(* week rollups never feed month, quarter or year queries *)
Theorem C09_week : forall q, In q ["month"; "quarter"; "year"] -> is_granularity_compatible q "week" = false.
Proof. exact week_never_feeds. Qed.

(* whenever some timestamp distinguishes the two truncations (in particular a finer query over a coarser rollup) the pair is refused *)
Theorem C09_finer : forall q p, In q known -> In p known ->
  (exists t, trunc_s q (trunc_s p t) <> trunc_s q t) -> is_granularity_compatible q p = false.
Proof. exact finer_refused. Qed.

(* on the 36 known pairs every refusal is justified by a witness timestamp (a needless refusal would show here) *)
Theorem C09_exact : forallb (fun q => forallb (refusal_justified q) known) known = true.
Proof. exact exact_known. Qed.

(* a name outside the six is compatible with nothing that is truncated differently *)
Theorem C09_unknown : forall q p, gran_of q = None \/ gran_of p = None ->
  (gran_of q = None /\ gran_of p = None) \/ is_granularity_compatible q p = false.
Proof. exact unknown_only_self. Qed.

Example C09_nonvacuous : is_granularity_compatible "month" "day" = true /\ trunc_s "day" 1707955200000001%Z <> 1707955200000001%Z.
Proof. exact sound_nonvacuous. Qed.
