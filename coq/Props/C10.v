(* C10 — join-path planning is correct, minimal and symmetric.  Property theorems only (proofs: Proofs/C10_proofs.v, Base/Bfs.v).
   Model: Model/Graph.v (hand-written, tied to semantic_graph.py by the correspondence check) over the key-default /
   normalisation / inversion functions regenerated from /repo on every run (Gen/RelKeys_gen.v).
   All statements are for graphs of ANY size; the only hypothesis is that model names are distinct (a dict). *)
From Coq Require Import String List Bool.
Require Import V.Base.PyLib V.Gen.RelKeys_gen V.Base.Bfs V.Model.Graph V.Proofs.C10_proofs.
Import ListNotations.
Open Scope string_scope.

(* every adjacency edge stems from a declared relationship of a registered model, with the declared / defaulted key
   columns on the correct sides and the declared (or inverted) cardinality; many_to_many with a registered junction
   yields exactly the two-hop pair through it *)
Theorem C10_edges_declared : forall g a e, In e (adj g a) ->
  exists m r, In m g /\ In r (g_rels m) /\ declared_shape g m r a e.
Proof. exact edges_declared. Qed.

(* (a -> b, fk, pk, t) is an edge  =>  (b -> a, pk, fk, invert t) is an edge *)
Theorem C10_adj_symmetric : forall g a e, In e (adj g a) ->
  In (mk a (e_to_keys e) (e_from_keys e) (invert_relationship (e_type e))) (adj g (e_to e)).
Proof. exact adj_symmetric'. Qed.

(* a returned path is a connected chain of adjacency edges from source to target, and no chain is shorter *)
Theorem C10_path_chain_shortest : forall g a b p, find_relationship_path g a b = Path p ->
  chain string edge (succ_of g) a p b /\ forall p', chain string edge (succ_of g) a p' b -> length p <= length p'.
Proof. exact path_correct. Qed.

(* "no join path" is only ever answered when no chain exists (the search never gives up early: fuel suffices) *)
Theorem C10_nopath_sound : forall g a b, NoDup (map g_name g) -> find_relationship_path g a b = NoJoinPath ->
  forall p', ~ chain string edge (succ_of g) a p' b.
Proof. exact nopath_sound. Qed.

Theorem C10_complete : forall g a b p', NoDup (map g_name g) -> has_model g a = true -> has_model g b = true ->
  chain string edge (succ_of g) a p' b -> exists p, find_relationship_path g a b = Path p.
Proof. exact path_complete. Qed.

(* a path exists in one direction exactly when it exists in the other, with the same number of hops *)
Theorem C10_symmetric_existence : forall g a b, NoDup (map g_name g) -> has_model g a = true -> has_model g b = true ->
  ((exists p, find_relationship_path g a b = Path p) <-> (exists p, find_relationship_path g b a = Path p)).
Proof. exact path_exists_symmetric. Qed.
Theorem C10_symmetric_length : forall g a b p q, find_relationship_path g a b = Path p -> find_relationship_path g b a = Path q -> length p = length q.
Proof. exact path_length_symmetric. Qed.

(* validate_query's join-path check reports every pair of registered query models without a chain, and accepting
   (no pair reported) implies a chain between each pair: a disconnected query is rejected, never cross-joined *)
Theorem C10_rejected : forall g ms a b, NoDup (map g_name g) ->
  In (a, b) (pairs_after (filter (has_model g) ms)) -> a <> b -> (forall p, ~ chain string edge (succ_of g) a p b) -> In (a, b) (unjoinable_pairs g ms).
Proof. exact unjoinable_reported. Qed.
Theorem C10_accepted_joinable : forall g ms a b, unjoinable_pairs g ms = [] ->
  In (a, b) (pairs_after (filter (has_model g) ms)) -> exists p, chain string edge (succ_of g) a p b.
Proof. exact joinable_when_accepted. Qed.

Example C10_nonvacuous : find_relationship_path ex_graph "customers" "tags" =
  Path [ ("customers", mk "orders" ["id"] ["customers_id"] "one_to_many", "orders");
         ("orders", mk "order_tags" ["id"] ["order_id"] "one_to_many", "order_tags");
         ("order_tags", mk "tags" ["tag_id"] ["k1"; "k2"] "many_to_one", "tags") ].
Proof. exact ex_path. Qed.
