(* C06 — ratio and derived metrics are compositional.  Property theorems only (proofs: Proofs/C06_proofs.v).
   Model/Formula.v: formulas as token strings (the granularity of the code's \bname\b regexes), the code's sequential
   whole-word expansion (`build`, `subst_seq`), formula trees with SQL NULL semantics (`feval`).  Any nesting depth, any
   number of components, any names. *)
From Coq Require Import ZArith String List Bool.
Require Import V.Model.Sem V.Model.Formula V.Proofs.C06_proofs.
Import ListNotations.
Open Scope string_scope.

(* the value of a formula whose component references were replaced by the components' formulas = the formula applied to the
   components' values -- however deeply nested *)
Theorem C06_compositional : forall rho env f, feval env (asubst rho f) = feval (env_of rho env) f.
Proof. exact asubst_compositional. Qed.

(* the code's loop (one dependency after the other, whole-word replacement by "(" sql ")") equals the simultaneous
   substitution whenever no replacement text mentions a name that is substituted later ... *)
Theorem C06_subst : forall deps, fresh deps = true -> NoDup (map fst deps) -> forall f, subst_seq deps f = subst_sim deps f.
Proof. exact subst_seq_eq_sim. Qed.
(* ... and on a rendered formula it yields exactly the rendering of the substituted tree, whose value is compositional *)
Theorem C06_text_expansion : forall rho f env,
  names_ok rho = true -> NoDup (map fst rho) -> fresh (map (fun '(d, e) => (d, paren (render e))) rho) = true ->
  subst_seq (map (fun '(d, e) => (d, paren (render e))) rho) (render f) = render (asubst rho f) /\
  feval env (asubst rho f) = feval (env_of rho env) f.
Proof. exact text_expansion_compositional. Qed.

(* names that are substrings of one another never interfere: only whole words are replaced *)
Theorem C06_names : forall d r s, s <> d -> subst1 d r [W s] = [W s].
Proof. exact substring_names_untouched. Qed.

(* ratio = numerator / NULLIF(denominator, 0): NULL on a zero denominator; fill_nulls_with replaces a NULL result *)
Theorem C06_ratio : forall env num den, feval env (ratio_f num den) = qdiv (feval env num) (nullif (feval env den) (VInt 0)).
Proof. exact ratio_value. Qed.
Theorem C06_ratio_zero : forall env num den z p, as_q (feval env den) = Some (z, p) -> z = 0%Z -> feval env (ratio_f num den) = VNull.
Proof. exact ratio_zero_denominator. Qed.
Theorem C06_ratio_null : forall env num den, feval env den = VNull -> feval env (ratio_f num den) = VNull.
Proof. exact ratio_null_denominator. Qed.
Theorem C06_fill_nulls : forall env k f, feval env (fill_f k f) = match feval env f with VNull => VInt k | v => v end.
Proof. exact fill_value. Qed.

(* splitting a formula into tokens loses nothing *)
Theorem C06_tokens_lossless : forall s, untok (tokenize s) = s.
Proof. exact untok_tokenize. Qed.

(* non-vacuity, and the listed class where freshness fails (K2: the same measure name on two models, both qualified) *)
Example C06_nonvacuous : names_ok ex_rho = true /\ fresh (map (fun '(d, e) => (d, paren (render e))) ex_rho) = true /\
  untok (subst_seq (map (fun '(d, e) => (d, paren (render e))) ex_rho) (render (FSub (FRef "gross_rev") (FRef "rev")))) = "(x + 2) - ((x) / NULLIF(y, 0))".
Proof. exact ex_hyps. Qed.
Example C06_same_name_two_models_refuted : option_map untok (build 3 k2_env [] "g") = Some "(SUM(a_cte.rev_raw)) + b.(SUM(a_cte.rev_raw))".
Proof. exact k2_refuted. Qed.
Example C06_expansion_example : option_map untok (build 4 ok_env [] "g") =
  Some "(SUM(a_cte.rev_raw)) + (SUM(b_cte.cost_raw)) / ((SUM(a_cte.rev_raw)) / NULLIF(SUM(b_cte.cost_raw), 0))".
Proof. exact ok_expansion. Qed.

Require V.Model.SmallFns V.Gen.Small_gen V.Proofs.Small_proofs.

(* fill_nulls_with, regenerated: Gen/Small_gen.v holds what SQLGenerator._wrap_with_fill_nulls returns for scripted expressions and fill values (None, numbers,
   booleans, strings incl. quotes), extracted from generator.py on every run.  The model -- COALESCE(<expr>, <printed number>) or COALESCE(<expr>, '<text with
   its quotes doubled>') -- returns the same text on every row, and for ANY text value the number of quotes inside the literal is even (the value cannot end it). *)
Theorem C06_fill_table : forallb V.Model.SmallFns.fill_row_ok V.Gen.Small_gen.fill_rows = true.
Proof. exact V.Proofs.Small_proofs.fill_table_ok. Qed.
Theorem C06_fill_quotes_doubled : forall s, V.Proofs.Small_proofs.count_quotes (V.Model.SmallFns.double_quotes s) = 2 * V.Proofs.Small_proofs.count_quotes s.
Proof. exact V.Proofs.Small_proofs.double_quotes_even. Qed.
