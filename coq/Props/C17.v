(* C17 — window metrics follow their period definitions.  Property theorems only (proofs: Proofs/C17_proofs.v).
   Model/Window.v is the hand-written model of the outer window query the generator builds over the inner aggregate query
   (one row per period and combination of the other requested dimensions): SQL window semantics (sorted partitions,
   positional ROWS frames, value-based RANGE frames, positional LAG).  Gen/LagOffset_gen.v is `_calculate_lag_offset`,
   regenerated from /repo on every run.  Series of ANY length, any number of groups. *)
From Coq Require Import ZArith String List Bool Permutation.
Require Import V.Base.Calendar V.Base.CalendarFacts V.Model.Sem V.Model.Window V.Gen.LagOffset_gen V.Proofs.C17_proofs.
Import ListNotations.
Open Scope Z_scope.

(* a cumulative metric at period t, in each combination of the other dimensions separately, is its aggregate over exactly
   the base values of the periods up to t of that combination (running), of those within the trailing window (RANGE), or of
   those in the same enclosing grain period (grain-to-date).  Hypothesis: one inner row per (combination, period) -- which
   is what the inner GROUP BY produces. *)
Theorem C17_cumulative : forall k a rows, interpreted a -> frame_kind_ok k rows ->
  forall x v, In (x, v) (cumulative k a rows) -> In x rows /\ v = spec_cumulative k a rows x.
Proof. exact cumulative_spec. Qed.

(* every inner row gets its window value *)
Theorem C17_cumulative_total : forall k a rows x, In x rows -> exists v, In (x, v) (cumulative k a rows).
Proof. exact cumulative_complete. Qed.

(* the frame itself (so the statement also covers aggregates the model does not interpret): a permutation of the rows in scope *)
Theorem C17_frame : forall g rows, unique_periods g rows -> forall x fr, In (x, fr) (rows_frames g rows) ->
  In x rows /\ Permutation fr (filter (fun r => key_eqb (pkey g r) (pkey g x) && (s_t r <=? s_t x)) rows).
Proof. exact rows_frames_spec. Qed.

(* every interpreted aggregate depends only on the bag it receives *)
Theorem C17_agg_bag : forall a l l', interpreted a -> Permutation l l' -> apply_agg a l = apply_agg a l'.
Proof. exact apply_agg_perm. Qed.

(* on a series that is gap-free (consecutive periods under the numbering idx) within every combination of the other
   dimensions, LAG k is the base value of the period k earlier in the same combination, NULL where the series starts later *)
Theorem C17_lag : forall idx k rows, gap_free idx rows -> forall x v, In (x, v) (lag k rows) -> In x rows /\ v = spec_prev idx k rows x.
Proof. exact lag_spec. Qed.

(* and a period-over-period metric is the declared calculation between the base value at t and at t minus the offset *)
Theorem C17_time_comparison : forall idx c k rows, gap_free idx rows -> forall x v, In (x, v) (time_comparison c k rows) ->
  In x rows /\ v = compare_calc c (s_val x) (spec_prev idx k rows x).
Proof. exact time_comparison_spec. Qed.

(* the offset table of the CODE (regenerated): the entries whose granularity divides the comparison period hold the exact
   number of periods, every offset is at least one row, and going back n fine periods is one coarse period back at the
   same position inside it *)
Theorem C17_offsets_exact : forall c g n, In (c, g, n) exact_entries -> lag_offset (Some c) (Some g) = n.
Proof. exact offsets_exact. Qed.
Theorem C17_offsets_positive : forall c g, 1 <= lag_offset c g.
Proof. exact offsets_positive. Qed.
Theorem C17_period_shift : forall n i, 0 < n -> (i - n) / n = i / n - 1 /\ (i - n) mod n = i mod n.
Proof. exact period_shift. Qed.

(* non-vacuity: a two-group series with a NULL and a zero total meets the hypotheses; and the statement is false for the
   generator's former window clause without PARTITION BY on the other dimensions *)
Example C17_nonvacuous : unique_periods None ex_rows /\ gap_free day_idx ex_rows.
Proof. exact (conj ex_unique ex_gap_free). Qed.
Example C17_unpartitioned_refuted : exists x v, In (x, v) (unpartitioned_running ASum ex_rows) /\ v <> spec_cumulative CRunning ASum ex_rows x.
Proof. exact unpartitioned_refuted. Qed.
