(* C12 — converting through another format never silently changes a number.  Property theorems only (proofs: Proofs/C12_proofs.v).
   Only the aggregation VOCABULARY is modelled per adapter (Gen/AdapterMaps_gen.v: the exporters' `table.get(agg, default)` tables
   regenerated from the 15 adapter sources on every run, and the export -> import table of each adapter MEASURED by the harness);
   everything else in the statement is decided by the exhaustive exporter x feature matrix of the harness (differential testing). *)
From Coq Require Import String List Bool.
Require Import V.Model.Vocab V.Gen.AdapterMaps_gen V.Proofs.C12_proofs.
Import ListNotations.
Open Scope string_scope.

(* what the criteria mean, for any tables *)
Theorem C12_faithful_sound : forall known tbls, all_faithful known tbls = true ->
  forall adapter tbl a r, In (adapter, tbl) tbls -> In (a, r) tbl -> listed known adapter a = false -> r = None \/ r = Some a.
Proof. exact all_faithful_sound. Qed.
Theorem C12_export_map_sound : forall known vocab adapter site tbl d, export_map_ok known vocab (adapter, site, tbl, d) = true -> computed_default d = false ->
  forall a, In a vocab -> listed known adapter a = false -> exists tok, assoc tbl a = Some tok.
Proof. exact export_map_sound. Qed.

(* the generated obligations (finite domains: the 11 aggregation literals x 15 adapters; evaluation is a proof) *)
(* every aggregation literal that survives an export -> import comes back as itself, outside the listed replacements *)
Theorem C12_measured_tables_faithful : all_faithful known_replaced measured_roundtrip = true.
Proof. vm_compute. reflexivity. Qed.
(* in every exporter's aggregation table, a literal of the vocabulary outside the table's keys (which would be written as the
   table's default, i.e. as a different aggregation) is a listed replacement *)
Theorem C12_export_defaults_listed : export_maps_ok known_replaced agg_vocab export_agg_maps = true.
Proof. vm_compute. reflexivity. Qed.
