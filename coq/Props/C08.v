(* C08 — pre-aggregation routing never changes an answer.  Property theorems only (proofs: Proofs/C08_proofs.v).
   Model/Preagg.v: the rollup as built by the layer's materialisation statement, the routed re-aggregation, for tables of ANY
   size, any truncation function and ANY predicate `sel` on the rollup key (bucket, dimension values): membership in a result
   group AND every filter that only mentions rollup columns are such predicates.  Gen/Derivable_gen.v and
   Gen/GranCompat_gen.v are `_is_measure_derivable` / `_is_granularity_compatible`, regenerated from /repo on every run. *)
From Coq Require Import ZArith String List Bool.
Require Import V.Base.PyLib V.Base.Calendar V.Base.CalendarFacts V.Model.Refresh V.Model.Preagg V.Proofs.C07_proofs V.Gen.Derivable_gen V.Gen.GranCompat_gen V.Model.Satisfy V.Gen.Satisfy_gen V.Model.MatShape V.Gen.Materialize_gen V.Proofs.C08_proofs.
Import ListNotations.
Open Scope Z_scope.

(* re-aggregating the rollup = aggregating the base rows of the group, for the four decomposable aggregations
   (COUNT as the SUM of stored counts; AVG = SUM / COUNT follows from the first two when the rollup stores the SUM) *)
Theorem C08_sum : forall tr f sel b, routed_sum sel (materialize_p tr f b) = zsum (base_vals tr sel b).
Proof. exact routed_sum_ok. Qed.
Theorem C08_count : forall tr f sel b, routed_count sel (materialize_p tr f b) = Z.of_nat (length (base_vals tr sel b)).
Proof. exact routed_count_ok. Qed.
Theorem C08_min : forall tr f sel b, routed_min sel (materialize_p tr f b) = lmin (base_vals tr sel b).
Proof. exact routed_min_ok. Qed.
Theorem C08_max : forall tr f sel b, routed_max sel (materialize_p tr f b) = lmax (base_vals tr sel b).
Proof. exact routed_max_ok. Qed.
(* and the routed query has a row for a group exactly when the base query has one *)
Theorem C08_groups : forall tr f sel b, has_group sel (materialize_p tr f b) = true <-> base_vals tr sel b <> [].
Proof. exact routed_group_ok. Qed.

(* the same with NULL measure values (a NULL-valued row makes its bucket exist but no aggregate sees it): SUM ignores NULL bucket
   sums and is NULL when no selected row has a value; COUNT(v) counts the non-NULL values *)
Theorem C08_sum_null : forall tr sel b, routed_sum_n sel (materialize_n tr b) = base_sum_n tr sel b.
Proof. exact routed_sum_null_ok. Qed.
Theorem C08_count_null : forall tr sel b, routed_count_n sel (materialize_n tr b) = Z.of_nat (length (base_vals tr sel (non_null_rows b))).
Proof. exact routed_count_null_ok. Qed.

(* a coarser query granularity q over a rollup at granularity p: grouping / filtering by DATE_TRUNC(q, bucket) selects exactly
   the base rows with that DATE_TRUNC(q, ts), whenever q-buckets are unions of p-buckets -- for every timestamp *)
Theorem C08_granularity : forall q p (g : Z -> Z -> bool) b, nested q p ->
  base_vals (trunc p) (fun k => g (trunc q (fst k)) (snd k)) b = map b_v (filter (fun y => g (trunc q (b_ts y)) (b_dim y)) b).
Proof. exact rollup_granularity. Qed.
(* ... and the code's granularity test (regenerated) only admits such pairs *)
Theorem C08_compatible_nested : forall q p gq gp, In q gran_names -> In p gran_names -> gran_of q = Some gq -> gran_of p = Some gp ->
  is_granularity_compatible q p = true -> nested gq gp.
Proof. exact compatible_nested. Qed.

(* the code's derivability test (regenerated) admits a metric only if it has no filters of its own, is listed in the rollup and
   its aggregation is one of sum / count / min / max, or avg with a count measure to divide by *)
Theorem C08_derivable_sound : forall name agg filters measures cm,
  is_measure_derivable name agg filters measures cm = true ->
  filters = [] /\ In name measures /\ exists a, agg = Some a /\ (agg_exact a = true \/ (a = "avg"%string /\ cm <> None)).
Proof. exact derivable_sound. Qed.

(* THE MATCHER'S COMBINATION LOGIC, regenerated: Gen/Satisfy_gen.v holds the verdict of the real can_satisfy_query on 1920 scripted scenarios
   (rollups with / without dimensions, time dimension, granularity; query dimensions inside / outside the rollup; metrics that are missing,
   derivable, not derivable; compatible / incompatible / absent granularity; filter columns inside / outside the rollup, no filters),
   extracted from preagg_matcher.py on every run by executing the method's AST (translator/gen_satisfy.py, fail closed, validated against
   CPython).  The model `can_satisfy` gives the same verdict on every scenario ... *)
Theorem C08_matcher_table : forallb satisfy_row_ok satisfy_rows = true.
Proof. vm_compute. reflexivity. Qed.
(* ... and a query the model admits only uses rollup columns: every requested dimension and every filter column is a dimension of the rollup
   or its time dimension, every metric exists and passed the derivability test, and the granularity test was passed when both sides have one *)
Theorem C08_matcher_sound : forall p qdims metrics qgran compatible fcols, can_satisfy p qdims metrics qgran compatible fcols = true ->
  (forall d, In d qdims -> rollup_column p d = true) /\ (forall m, In m metrics -> m = (true, true)) /\
  (forall cols c, fcols = Some cols -> In c cols -> rollup_column p c = true) /\
  (forall qg pg, qgran = Some qg -> p_gran p = Some pg -> qg <> ""%string -> pg <> ""%string -> compatible = true).
Proof. exact can_satisfy_sound. Qed.

(* THE ROLLUP TABLE, regenerated: Gen/Materialize_gen.v holds the shape of the statement generate_materialization_sql writes for 120 scripted rollups (with /
   without time dimension and granularity, unknown names, 0-2 dimensions, measures of every aggregation kind), extracted from pre_aggregation.py on every
   run by executing the method's AST (translator/gen_materialize.py, fail closed, validated against CPython; table- and sql-backed sources).  On every one:
   the columns are the DATE_TRUNC bucket (only when time dimension AND granularity are given), the known dimensions, one <measure>_raw per known measure
   holding the measure's own aggregate (SUM, COUNT( * ), COUNT(x), MIN, MAX -- and AVG / COUNT(DISTINCT) / anything else verbatim), grouped by exactly
   the bucket and dimension columns: the table Model/Preagg.materialize_p describes. *)
Theorem C08_materialization_shape : forallb (mat_row_ok script_dims script_measures) mat_rows = true.
Proof. vm_compute. reflexivity. Qed.

(* why nothing else may be routed (each was admitted by the matcher at the pinned commit) *)
Example C08_median_refuted :
  routed_other_as_sum all_keys (materialize_p day median [B 1 0 1; B 2 0 2; B 3 0 9; B 11 0 4]) = 6 /\ median [1; 2; 4; 9] = 4.
Proof. exact median_refuted. Qed.
Example C08_filtered_measure_refuted :
  routed_sum all_keys (materialize_p day median [B 1 0 5; B 2 1 7]) = 12 /\ zsum (map b_v (filter (fun y => b_dim y =? 0) [B 1 0 5; B 2 1 7])) = 5.
Proof. exact filtered_measure_refuted. Qed.
Example C08_avg_stored_as_avg_refuted :
  let r := materialize_p day avg [B 1 0 2; B 2 0 4; B 11 0 6] in
  routed_other_as_sum all_keys r / routed_count all_keys r = 3 /\ routed_sum all_keys r / routed_count all_keys r = 4.
Proof. exact avg_stored_as_avg_refuted. Qed.
Example C08_raw_time_filter_refuted :
  routed_sum (fun k => 5 <=? fst k) (materialize_p day median [B 7 0 1; B 12 0 2]) = 2 /\ zsum (map b_v (filter (fun y => 5 <=? b_ts y) [B 7 0 1; B 12 0 2])) = 3.
Proof. exact raw_time_filter_refuted. Qed.
Example C08_null_example :
  let b := [ {| n_row := B 1 0 5; n_null := false |}; {| n_row := B 2 0 0; n_null := true |}; {| n_row := B 12 0 0; n_null := true |}; {| n_row := B 25 1 7; n_null := false |} ] in
  length (materialize_n day b) = 3%nat /\ routed_sum_n (fun k => snd k =? 0) (materialize_n day b) = Some 5 /\
  routed_sum_n (fun k => (fst k =? 10)) (materialize_n day b) = None /\ routed_count_n (fun k => snd k =? 0) (materialize_n day b) = 1.
Proof. vm_compute. repeat split; reflexivity. Qed.
Example C08_nonvacuous :
  let b := [B 1 0 5; B 2 1 7; B 3 0 (-2); B 14 0 4; B 25 1 1] in
  routed_sum (fun k => snd k =? 0) (materialize_p day median b) = 7 /\ routed_min (fun k => snd k =? 0) (materialize_p day median b) = Some (-2) /\
  routed_count (fun k => fst k <? 20) (materialize_p day median b) = 4 /\ length (materialize_p day median b) = 4%nat.
Proof. exact routing_nonvacuous. Qed.

Require V.Model.TryRoute V.Gen.TryRoute_gen V.Proofs.C08_route_proofs.
(* the step between the query and the matcher, regenerated: Gen/TryRoute_gen.v holds what SQLGenerator._try_use_preaggregation does on 814 scripted scenarios (model with /
   without rollups; dimension lists with plain dimensions, a bare time dimension, the time dimension at one, two or three granularities in every order; qualified and
   unqualified metric references; filters with model and CTE prefixes; a matcher that finds a rollup or not, and a found rollup that serves any subset of the requested
   granularities), extracted from generator.py on every run by executing the method's AST against a scripted matcher (fail closed, validated against CPython).  The model
   gives the same verdict, asks the matcher the same question and re-checks the same granularities on every scenario; and for ANY query the model routes, every granularity
   requested by some dimension is the one the matcher was asked about or one the matched rollup serves, the model has rollups, the matcher found one and no time dimension
   was requested without a granularity. *)
Theorem C08_route_table : forallb V.Model.TryRoute.tryroute_row_ok V.Gen.TryRoute_gen.tryroute_rows = true.
Proof. exact V.Proofs.C08_route_proofs.tryroute_table_ok. Qed.
Theorem C08_all_granularities : forall model is_time hp dims mets filters find serves,
  fst (fst (V.Model.TryRoute.try_route model is_time hp dims mets filters find serves)) = true ->
  forall d g, In (d, Some g) dims -> V.Model.TryRoute.opt_is (V.Model.TryRoute.last_gran dims None) g = true \/ In g serves.
Proof. exact V.Proofs.C08_route_proofs.try_route_all_granularities. Qed.
Theorem C08_route_asks : forall model is_time hp dims mets filters find serves,
  fst (fst (V.Model.TryRoute.try_route model is_time hp dims mets filters find serves)) = true ->
  hp = true /\ find = true /\
  forallb (fun d => match snd d with None => negb (is_time (V.Model.TryRoute.strip_model (fst d))) | Some _ => true end) dims = true.
Proof. exact V.Proofs.C08_route_proofs.try_route_asks. Qed.

Require V.Proofs.C09_proofs V.Proofs.C08_chain_proofs.
(* THE CHAIN.  Every link is a model tied to the code by a regenerated table or a translation: _try_use_preaggregation (TryRoute_gen) asks can_satisfy_query (Satisfy_gen), which asks
   _is_granularity_compatible (GranCompat_gen, translated), whose verdicts are calendar facts (C09_sound).  Composed: when a query is routed to a rollup at granularity pg -- the
   matcher having returned it for the granularity it was asked about, the rollup serving exactly the granularities can_satisfy_query accepts -- then for EVERY granularity g that
   some dimension of the query requests, and every timestamp t, the g-bucket of t is the g-bucket of t's rollup bucket: nothing the routed query computes from the rollup's time
   column can differ from what the base table gives. *)
Theorem C08_routed_granularities_exact : forall model is_time hp dims mets filters p qdims metrics fcols pg,
  p_gran p = Some pg -> pg <> ""%string ->
  (forall g, V.Model.TryRoute.last_gran dims None = Some g -> can_satisfy p qdims metrics (Some g) (is_granularity_compatible g pg) fcols = true) ->
  fst (fst (V.Model.TryRoute.try_route model is_time hp dims mets filters true
              (V.Proofs.C08_chain_proofs.serves_of is_granularity_compatible p qdims metrics fcols (V.Model.TryRoute.grans_of dims [])))) = true ->
  forall d g, In (d, Some g) dims -> g <> ""%string -> forall t : Z, V.Proofs.C09_proofs.trunc_s g (V.Proofs.C09_proofs.trunc_s pg t) = V.Proofs.C09_proofs.trunc_s g t.
Proof. exact V.Proofs.C08_chain_proofs.routed_granularities_exact. Qed.
Example C08_chain_nonvacuous :
  let p := {| p_dims := []; p_time := Some "ts"%string; p_gran := Some "day"%string |} in
  let dims := [("ev.ts"%string, Some "day"%string); ("ev.ts"%string, Some "month"%string)] in
  fst (fst (V.Model.TryRoute.try_route "ev" (String.eqb "ts") true dims ["ev.rev"%string] None true
              (V.Proofs.C08_chain_proofs.serves_of is_granularity_compatible p ["ts"%string; "ts"%string] [(true, true)] None (V.Model.TryRoute.grans_of dims [])))) = true /\
  (let p' := {| p_dims := []; p_time := Some "ts"%string; p_gran := Some "month"%string |} in
   fst (fst (V.Model.TryRoute.try_route "ev" (String.eqb "ts") true dims ["ev.rev"%string] None true
              (V.Proofs.C08_chain_proofs.serves_of is_granularity_compatible p' ["ts"%string; "ts"%string] [(true, true)] None (V.Model.TryRoute.grans_of dims [])))) = false).
Proof. exact V.Proofs.C08_chain_proofs.chain_nonvacuous. Qed.

Require V.Model.Routed V.Gen.Routed_gen V.Proofs.C08_routed_proofs.
(* THE ROUTED STATEMENT, regenerated: Gen/Routed_gen.v holds what SQLGenerator._generate_from_preaggregation builds on 198 scripted queries (rollups with and without a time dimension;
   no dimension, plain dimensions, the rollup's time dimension at its own and at coarser granularities, two granularities at once, another dimension asked for at a granularity;
   sum / count / avg (with and without a count measure) / min / max / other aggregations / names the model does not have; filters; ORDER BY, LIMIT incl. 0, OFFSET incl. 0), extracted from
   generator.py on every run by executing the method's AST (fail closed, validated against CPython).  Model/Routed.routed_build builds the same statement on every row; for ANY query
   it groups by every requested dimension and selects one item per requested dimension, in request order; a routed count is COALESCE(SUM(<count>_raw), 0). *)
Theorem C08_routed_statement_table : forallb V.Model.Routed.routed_row_ok V.Gen.Routed_gen.routed_rows = true.
Proof. exact V.Proofs.C08_routed_proofs.routed_table_ok. Qed.
Theorem C08_routed_dimension_items : forall td gran dims mets filters order_by limit offset ac,
  let '(sel, _, grp, _, _, _) := V.Model.Routed.routed_build (td, gran, dims, mets, filters, order_by, limit, offset, ac) in
  firstn (length dims) sel = map (V.Model.Routed.dim_item td gran) dims /\
  grp = match dims with [] => None | _ => Some (String.concat ", " (map V.Model.MultiFactShape.nat_s (seq 1 (length dims)))) end.
Proof. exact V.Proofs.C08_routed_proofs.routed_dimension_items. Qed.
Theorem C08_routed_count_never_null : forall ac ref,
  V.Model.Routed.metric_item ac (ref, Some "count"%string) = [("COALESCE(SUM(" ++ (V.Model.TryRoute.strip_model ref ++ "_raw") ++ "), 0) as " ++ V.Model.TryRoute.strip_model ref)%string].
Proof. exact V.Proofs.C08_routed_proofs.routed_count_coalesced. Qed.

Require V.Model.RefRewrite V.Gen.RefRewrite_gen V.Proofs.RefRewrite_proofs.
(* THE FILTER REWRITE OF A ROUTED QUERY, regenerated: Gen/RefRewrite_gen.v holds what SQLGenerator._rewrite_filter_for_preaggregation returns on 10 scripted filter texts x 4
   rollups (own, `_cte`-qualified, unqualified and foreign references; a rollup with a time column, without a granularity, without a time dimension, over another dimension;
   texts that do not parse take the method's textual fallback), extracted from generator.py on every run (translator/gen_refrewrite.py, fail closed, validated against
   CPython).  Model/RefRewrite.to_rollup is the parsed branch at the level of references and equals the table on its 28 parsed rows; for EVERY reference: a reference qualified
   by the model loses its qualifier, a reference of another table is left exactly as it is, an own reference to the rollup's time dimension reads <dimension>_<granularity>. *)
Theorem C08_filter_rewrite_table :
  forallb (V.Model.RefRewrite.preagg_ref_row_ok V.Gen.RefRewrite_gen.rr_texts) V.Gen.RefRewrite_gen.preagg_ref_rows = true /\
  V.Model.RefRewrite.parsed_rows V.Gen.RefRewrite_gen.rr_texts (fun r => fst (fst (fst r))) V.Gen.RefRewrite_gen.preagg_ref_rows = 28%nat.
Proof. exact V.Proofs.RefRewrite_proofs.preagg_ref_table_ok. Qed.
Theorem C08_own_reference_unqualified : forall model td g r, V.Model.RefRewrite.own model r = true -> fst (V.Model.RefRewrite.to_rollup model td g r) = ""%string.
Proof. exact V.Proofs.RefRewrite_proofs.own_reference_unqualified. Qed.
Theorem C08_other_table_untouched : forall model td g r, V.Model.RefRewrite.own model r = false -> fst r <> ""%string -> V.Model.RefRewrite.to_rollup model td g r = r.
Proof. exact V.Proofs.RefRewrite_proofs.other_table_untouched. Qed.
Theorem C08_time_dimension_reads_time_column : forall model t g c, t <> ""%string -> g <> ""%string -> V.Model.RefRewrite.own model (c, t) = true \/ c = ""%string ->
  V.Model.RefRewrite.to_rollup model (Some t) (Some g) (c, t) = (""%string, (t ++ "_" ++ g)%string).
Proof. exact V.Proofs.RefRewrite_proofs.time_dimension_reads_time_column. Qed.
