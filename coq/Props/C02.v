(* C02 — joins never multiply a metric (fan-out safety).  Property theorems only (proofs: Proofs/Mult_proofs.v, Proofs/C02_proofs.v).
   Model/Join.v is the hand-written model of the generated multi-model query over wide rows of row indices, Model/Plan.v the
   model of the planning decisions (base model, BFS join steps, LEFT/INNER, which metric gets the symmetric form);
   `spec_metric_join` is the reference value: the aggregation over the DISTINCT rows of the metric's own model connected to the
   group.  Join trees of any size and shape, tables of any size. *)
From Coq Require Import ZArith String List Bool.
Require Import V.Base.PyLib V.Gen.RelKeys_gen V.Model.Graph V.Model.Sem V.Model.Single V.Model.Mult V.Model.Join V.Proofs.C01_proofs
               V.Proofs.Mult_proofs V.Proofs.C02_proofs V.Proofs.C10_proofs V.Model.Plan V.Model.SymShape V.Gen.SymAgg_gen
               V.Proofs.C02_symagg_proofs V.Proofs.C02_decision_proofs V.Proofs.C02_query_proofs V.Model.Required V.Gen.Required_gen.
Import ListNotations.
Open Scope nat_scope.

(* when the declared cardinalities hold in the data, a slot flagged `safe` along ANY list of join steps carries every row of
   its model in at most one wide row *)
Theorem C02_safe_slots : forall tables sts, card_truthful tables 0 sts ->
  let '(J, safe) := wide_rows tables sts in forall s, nth s safe false = true -> forall r, mult J s r <= 1.
Proof. exact safe_slot_mult. Qed.

(* the value computed for a metric in a group equals the reference value when
   - the plain aggregate is used on a safe slot, or
   - the aggregate is COUNT DISTINCT / MIN / MAX (insensitive to fan-out, no assumption at all), or
   - the symmetric form is used and the primary key is unique and non-NULL, the hash is injective on it, and the measure
     values are non-NULL integers below 2^39 in magnitude *)
Theorem C02_metric_value : forall h q m k g, card_truthful (jq_tables q) 0 (jq_steps q) -> In (k, g) (the_groups q) ->
  let a := ms_agg (jm_measure m) in
  (jm_sym m = false /\ metric_safe q m = true)
  \/ (a = ACountDistinct \/ a = AMin \/ a = AMax)
  \/ (jm_sym m = true /\ (a = ASum \/ a = AAvg \/ a = ACount) /\ sym_ok h (nth (jm_slot m) (jq_tables q) []) (jm_pk m) (jm_measure m)) ->
  metric_val h (jq_tables q) m g = Some (spec_metric_join (jq_tables q) m g).
Proof. exact metric_correct. Qed.

(* THE WHOLE QUERY: when every metric meets one of these conditions, the generated joined query is not rejected and returns exactly the reference
   rows -- every group, every metric, no value multiplied -- for join trees and tables of any size *)
Theorem C02_query_rows : forall h q, card_truthful (jq_tables q) 0 (jq_steps q) -> (forall m, In m (jq_metrics q) -> metric_ok h q m) ->
  run_join h q = Some (spec_join q).
Proof. exact query_correct. Qed.

(* the same edges whichever side declares the relationship *)
Theorem C02_side_invariant : forall g a b f, lookup g (g_name a) = Some a -> lookup g (g_name b) = Some b ->
  let ra := {| r_name := g_name b; r_type := "many_to_one"%string; r_fk := KStr f; r_pk := KNone; r_through := None; r_tfk := None; r_rfk := None |} in
  let rb := {| r_name := g_name a; r_type := "one_to_many"%string; r_fk := KStr f; r_pk := KNone; r_through := None; r_tfk := None; r_rfk := None |} in
  forall e, In e (rel_edges g a ra) <-> In e (rel_edges g b rb).
Proof. exact side_invariant. Qed.

(* TIE BY REGENERATION (Gen/SymAgg_gen.v, translator/gen_symagg.py: the function ASTs are executed by a fail-closed definitional
   interpreter and the result validated against CPython on every run).
   (a) per aggregation literal, the SQL text build_symmetric_aggregate_sql returns parses to a shape whose meaning over the (key, value)
       pairs of a group is exactly the `sym_agg` the theorems above are about (same multiplier 2^40, same DISTINCT terms, AVG divides by
       COUNT(DISTINCT key), COUNT = COUNT(DISTINCT key), COUNT DISTINCT / MIN / MAX plain, everything else rejected) *)
Theorem C02_symagg_shapes : forall h pairs,
  Forall (fun la => interp_shape h (shape_for sym_shapes (fst la)) pairs = sym_agg h (snd la) pairs) core_aggs.
Proof. exact shapes_mean_sym_agg. Qed.
(* (b) on every scripted scenario (0-2 other models; per model a join path out of ten hop-type patterns, or a failing search)
       _has_fanout_joins marks the base model exactly when some path holds a one_to_many hop, and never another model ... *)
Theorem C02_fanout_table : forallb fanout_row_ok fanout_rows = true.
Proof. vm_compute. reflexivity. Qed.
(*     ... which is the `fanout` flag of the planning model, for any graph and any number of other models *)
Theorem C02_fanout_is_plan_flag : forall g base others,
  existsb (fun o => path_has g base o "one_to_many") others = model_fanout (map (path_types g base) others).
Proof. exact plan_fanout_is_model_fanout. Qed.

(* (c) the BASE model and the join order: on 315 scripted queries (dimension references with and without granularity suffixes, model-qualified metrics,
       filters mentioning qualified / `_cte`-suffixed / unqualified / unknown tables, unparseable filter text) _find_required_models returns the models of the
       dimensions, then of the metrics, then of the filters, each once in order of first appearance -- the list the planning model starts from *)
Theorem C02_required_models_table : forallb required_row_ok required_rows = true.
Proof. vm_compute. reflexivity. Qed.
Theorem C02_required_is_plan_order : forall q,
  required_models q = dedupe (map pd_model (pq_dims q) ++ map pmt_model (pq_metrics q) ++ map pf_model (pq_filters q)) [].
Proof. reflexivity. Qed.

(* THE DECISION: whatever the declarations (relationship types among the four literals) and the query, in the plan the model of the
   generator produces every metric of the BASE model (slot 0) either gets the symmetric form or sits on a safe slot -- so with
   C02_metric_value the only metrics that can be multiplied are those of joined models (known finding C02-K1) *)
Theorem C02_decision : forall ms q jq joined, rel_types_ok (graph_of ms) = true -> plan ms q = PlanOk jq joined ->
  forall m, In m (jq_metrics jq) -> jm_slot m = 0 -> jm_sym m = true \/ metric_safe jq m = true.
Proof. exact base_metric_sym_or_safe. Qed.

(* known findings (the hypotheses above fail): K1 a metric of a non-base model reached through a many_to_one hop is summed once
   per base row; K2 a NULL measure value under the symmetric SUM *)
Example C02_K1_refuted : run_join hid k1_query = Some [([VStr "a"], [RVal (VInt 250)])] /\ spec_join k1_query = [([VStr "a"], [RVal (VInt 150)])]
  /\ metric_safe k1_query (hd {| jm_slot := 0; jm_measure := cd_measure; jm_pk := []; jm_sym := false |} (jq_metrics k1_query)) = false.
Proof. exact k1_refuted. Qed.
Example C02_K2_refuted : run_join hid k2_query <> Some (spec_join k2_query) /\ spec_join k2_query = [([], [RVal (VInt 100)])].
Proof. exact k2_refuted. Qed.
Example C02_nonvacuous : run_join hid ok_query = Some (spec_join ok_query) /\
  spec_join ok_query = [([VStr "a"], [RVal (VInt 150); RVal (VInt 2)]); ([VStr "b"], [RVal (VInt 100); RVal (VInt 1)]); ([VNull], [RVal (VInt 7); RVal (VInt 0)])].
Proof. exact ok_example. Qed.

Require V.Model.CteShape V.Gen.CteShape_gen V.Proofs.CteShape_proofs.
(* THE KEY COLUMNS A MODEL CTE PROJECTS (regenerated table of _build_model_cte: see Props/C20.v, C20_cte_table).  For ANY model definition, graph and query: the
   primary key, the foreign key of every many_to_one relationship to another model of the query, the foreign key another model of the query declares ON this model (its one_to_many / one_to_one relationship), both junction keys of a many_to_many that goes through this model, and every key column the join paths of the query use on the model are projected (so that every hop of the plan can be joined on its declared columns),
   and a requested dimension that is NOT one of the projected key columns is projected with its own SQL.  A dimension NAMED like a projected key column is not: the key is
   projected under that name first and the dimension's SQL is never evaluated (class C02-K4; the witness below is a row of the regenerated table). *)
Theorem C02_cte_table : forallb (V.Model.CteShape.cte_row_ok V.Gen.CteShape_gen.cte_world) V.Gen.CteShape_gen.cte_rows = true.
Proof. exact V.Proofs.CteShape_proofs.cte_table_holds. Qed.
Theorem C02_primary_key_projected : forall qa trunc parse m graph dims filters order_by all_models mfc jk k,
  In k (V.Model.CteShape.mo_pk m) -> In k (V.Model.CteShape.st_added (V.Model.CteShape.cte_keys_dims qa trunc parse m graph dims filters order_by all_models mfc jk)).
Proof. exact V.Proofs.CteShape_proofs.primary_key_projected. Qed.
Theorem C02_foreign_key_projected : forall qa trunc parse m graph dims filters order_by all_models mfc jk r fk,
  In r (V.Model.CteShape.mo_rels m) -> V.Model.CteShape.cr_type r = "many_to_one"%string -> In fk (V.Model.CteShape.cr_fks r) ->
  (1 < length all_models)%nat -> In (V.Model.CteShape.cr_name r) all_models ->
  In fk (V.Model.CteShape.st_added (V.Model.CteShape.cte_keys_dims qa trunc parse m graph dims filters order_by all_models mfc jk)).
Proof. exact V.Proofs.CteShape_proofs.foreign_key_projected. Qed.
Theorem C02_incoming_foreign_key_projected : forall qa trunc parse m graph dims filters order_by all_models mfc jk om r fk,
  In om graph -> In (fst om) all_models -> In r (snd om) -> V.Model.CteShape.cr_name r = V.Model.CteShape.mo_name m ->
  (V.Model.CteShape.cr_type r = "one_to_many"%string \/ V.Model.CteShape.cr_type r = "one_to_one"%string) -> In fk (V.Model.CteShape.cr_fks r) -> (1 < length all_models)%nat ->
  In fk (V.Model.CteShape.st_added (V.Model.CteShape.cte_keys_dims qa trunc parse m graph dims filters order_by all_models mfc jk)).
Proof. exact V.Proofs.CteShape_proofs.incoming_foreign_key_projected. Qed.
Theorem C02_junction_key_projected : forall qa trunc parse m graph dims filters order_by all_models mfc jk om r k,
  In om graph -> In (fst om) all_models -> In r (snd om) -> V.Model.CteShape.cr_type r = "many_to_many"%string ->
  V.Model.CteShape.cr_through r = Some (V.Model.CteShape.mo_name m) -> k <> ""%string ->
  (V.Model.CteShape.cr_jself r = Some k \/ V.Model.CteShape.cr_jrel r = Some k) -> (1 < length all_models)%nat ->
  In k (V.Model.CteShape.st_added (V.Model.CteShape.cte_keys_dims qa trunc parse m graph dims filters order_by all_models mfc jk)).
Proof. exact V.Proofs.CteShape_proofs.junction_key_projected. Qed.
Theorem C02_join_keys_projected : forall qa trunc parse m graph dims filters order_by all_models mfc l k,
  In k l -> In k (V.Model.CteShape.st_added (V.Model.CteShape.cte_keys_dims qa trunc parse m graph dims filters order_by all_models mfc (Some l))).
Proof. exact V.Proofs.CteShape_proofs.join_key_projected. Qed.
Theorem C02_non_key_dimension_own_sql : forall qa trunc parse m graph dims filters order_by all_models mfc jk dref g d,
  In (dref, g) dims -> V.Model.Preagg.starts_with (V.Model.CteShape.mo_name m ++ ".") dref = true ->
  V.Model.CteShape.get_dim (V.Model.CteShape.mo_dims m) (V.Model.CteShape.second_piece dref) = Some d ->
  ~ In (V.Model.CteShape.second_piece dref)
       (V.Model.CteShape.st_added (V.Model.CteShape.key_phases qa m graph (match all_models with [] => [V.Model.CteShape.mo_name m] | _ => all_models end) jk
                                     ([], [], V.Model.CteShape.needed_dims parse (V.Model.CteShape.mo_name m) dims filters order_by mfc))) ->
  In (V.Model.CteShape.dim_expr trunc m d, qa (V.Model.CteShape.second_piece dref))
     (V.Model.CteShape.st_items (V.Model.CteShape.cte_keys_dims qa trunc parse m graph dims filters order_by all_models mfc jk)).
Proof. exact V.Proofs.CteShape_proofs.non_key_dimension_own_sql. Qed.
Example C02_key_named_dimension_refuted :
  let sc := (0, 0, 1, 1, 0, [("o.c_id"%string, None); ("o.id"%string, None)], [], None, None, None)%nat in
  let res := ("QI(o_cte)", [("id", "QA(id)"); ("c_id", "QA(c_id)"); ("o_fk", "QA(o_fk)")], "raw.o", None)%string in
  V.Model.CteShape.cte_of_scenario V.Gen.CteShape_gen.cte_world sc = Some res /\ V.Model.CteShape.row_in V.Gen.CteShape_gen.cte_rows sc res = true /\
  option_map V.Model.CteShape.cd_sql (V.Model.CteShape.get_dim V.Gen.CteShape_gen.w_dims "c_id") = Some "c_id * 1"%string /\
  option_map V.Model.CteShape.cd_sql (V.Model.CteShape.get_dim V.Gen.CteShape_gen.w_dims "id") = Some "id + 0"%string.
Proof. vm_compute. repeat split; reflexivity. Qed.
