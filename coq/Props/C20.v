(* C20 — validation is sound.  Property theorems only (proofs: Proofs/C20_proofs.v).
   Model/Valid.v: validate_query on parsed references over the graph model of C10 (graphs of ANY size, any number of
   references); the generator's recovery of a model name from its CTE alias.  "Accepted definitions are usable" is decided
   by executing every single-field query of generated definitions (harness); the theorems below are the rejection half and
   the identifier lemma that usability relies on. *)
From Coq Require Import String List Bool.
Require Import V.Base.PyLib V.Model.Graph V.Model.Valid V.Model.ValidTable V.Gen.Validate_gen V.Proofs.C10_proofs V.Proofs.C20_proofs.
Import ListNotations.
Open Scope string_scope.

(* ill-formed references are rejected, each with its own error *)
Theorem C20_reject_unknown_model : forall ms g gm metrics dims m f, In (MQual m f) metrics -> find_vm ms m = None -> In (EModel m) (validate_query ms g gm metrics dims).
Proof. exact reject_unknown_metric_model. Qed.
Theorem C20_reject_unknown_metric : forall ms g gm metrics dims m f vm, In (MQual m f) metrics -> find_vm ms m = Some vm -> mem f (vm_metrics vm) = false ->
  In (EMetric m f) (validate_query ms g gm metrics dims).
Proof. exact reject_unknown_metric. Qed.
Theorem C20_reject_unknown_graph_metric : forall ms g gm metrics dims n, In (MBare n) metrics -> find_gm gm n = None -> In (EBareMetric n) (validate_query ms g gm metrics dims).
Proof. exact reject_unknown_graph_metric. Qed.
Theorem C20_reject_unknown_dim_model : forall ms g gm metrics dims d m, In d dims -> dq_model d = Some m -> find_vm ms m = None -> In (EModel m) (validate_query ms g gm metrics dims).
Proof. exact reject_unknown_dim_model. Qed.
Theorem C20_reject_unknown_dim : forall ms g gm metrics dims d m vm, In d dims -> dq_model d = Some m -> find_vm ms m = Some vm -> find_dim vm (dq_dim d) = None ->
  In (EDim m (dq_dim d)) (validate_query ms g gm metrics dims).
Proof. exact reject_unknown_dim. Qed.
Theorem C20_reject_bad_granularity : forall ms g gm metrics dims d gr, In d dims -> dq_gran d = Some gr -> mem gr gran_names = false -> In (EGran gr) (validate_query ms g gm metrics dims).
Proof. exact reject_bad_granularity. Qed.
Theorem C20_reject_granularity_on_non_time : forall ms g gm metrics dims d m vm gr, In d dims -> dq_model d = Some m -> find_vm ms m = Some vm ->
  find_dim vm (dq_dim d) = Some false -> dq_gran d = Some gr -> In (ENonTime m (dq_dim d)) (validate_query ms g gm metrics dims).
Proof. exact reject_granularity_on_non_time. Qed.

(* models with no join path are rejected whatever form the references into them take: every metric reference and EVERY
   dimension reference (with or without a granularity suffix) puts its model into the join check ... *)
Theorem C20_dims_count_for_joins : forall gm metrics dims d m, In d dims -> dq_model d = Some m -> In m (query_models gm metrics dims).
Proof. exact dims_count_for_joins. Qed.
Theorem C20_metrics_count_for_joins : forall gm metrics dims m f, In (MQual m f) metrics -> In m (query_models gm metrics dims).
Proof. exact metrics_count_for_joins. Qed.
(* ... and two registered models of the query that no chain of relationships connects are reported *)
Theorem C20_reject_disconnected : forall ms g gm metrics dims a b, NoDup (map g_name g) ->
  In a (query_models gm metrics dims) -> In b (query_models gm metrics dims) -> has_model g a = true -> has_model g b = true -> a <> b ->
  (forall p, ~ gchain g a p b) -> (forall p, ~ gchain g b p a) ->
  In (ENoPath a b) (validate_query ms g gm metrics dims) \/ In (ENoPath b a) (validate_query ms g gm metrics dims).
Proof. exact reject_disconnected. Qed.

(* conversely an accepted query resolves every reference and only touches joinable models *)
Theorem C20_accepted_joinable : forall ms g gm metrics dims a b, validate_query ms g gm metrics dims = [] ->
  In (a, b) (pairs_after (filter (has_model g) (nodup string_dec (query_models gm metrics dims)))) -> exists p, gchain g a p b.
Proof. exact accepted_joinable. Qed.
Theorem C20_accepted_refs_resolve : forall ms g gm metrics dims, validate_query ms g gm metrics dims = [] ->
  (forall r, In r metrics -> metric_errors ms gm r = []) /\ (forall d, In d dims -> dim_errors ms d = []).
Proof. exact accepted_refs_resolve. Qed.

(* the generator recovers the model name from its CTE alias by removing "_cte": correct for every name that does not itself
   contain "_cte" (and wrong for those that do: listed class K1) *)
Theorem C20_cte_inverse : forall m, contains CTE m = false -> recover (cte_name m) = m.
Proof. exact recover_cte_name. Qed.
Example C20_cte_refuted : recover (cte_name "x_cte_y") = "x_y".
Proof. exact recover_refuted. Qed.

Example C20_nonvacuous :
  validate_query ex_ms ex_g [] [MQual "orders" "revenue"] [ {| dq_model := Some "visits"; dq_dim := "visited_at"; dq_gran := Some "month" |} ] = [ENoPath "orders" "visits"] /\
  validate_query ex_ms ex_g [] [MQual "orders" "revenue"] [ {| dq_model := Some "orders"; dq_dim := "status"; dq_gran := Some "month" |};
                                                            {| dq_model := Some "orders"; dq_dim := "created"; dq_gran := Some "decade" |} ] = [ENonTime "orders" "status"; EGran "decade"] /\
  validate_query ex_ms ex_g [] [MQual "orders" "revenue"] [ {| dq_model := Some "orders"; dq_dim := "created"; dq_gran := Some "week" |} ] = [].
Proof. exact ex_disconnected_granular. Qed.

(* TIE BY REGENERATION: Gen/Validate_gen.v holds the errors validation.validate_query reports on 154 scripted scenarios (eleven metric lists x fourteen
   dimension lists over a graph with two joined models, an unconnected one and three graph-level metrics: valid, unknown-model, unknown-field,
   bad-granularity, granularity-on-non-time, undotted and unconnected references), extracted from validation.py on every run by executing the
   function's AST (translator/gen_validate.py, fail closed, validated against CPython).  The model `validate_query` of the theorems above reports the
   same reference errors in the same order and the same set of unjoinable pairs on every scenario. *)
Theorem C20_validate_table : forallb validate_row_ok validate_rows = true.
Proof. vm_compute. reflexivity. Qed.

Require V.Model.SmallFns V.Gen.Small_gen V.Proofs.Small_proofs.

(* granularity references as the validator and the generator read them (regenerated table, see Props/C07.v): p__g is (p, g) for ANY p when g is a word -- and so a
   dimension whose own name contains "__" can never be referenced without a granularity (the listed class C20-K6). *)
Theorem C20_dimref_table : forallb V.Model.SmallFns.dimref_row_ok V.Gen.Small_gen.dimref_rows = true.
Proof. exact V.Proofs.Small_proofs.dimref_table_ok. Qed.
Theorem C20_dimref_roundtrip : forall p g, V.Model.SmallFns.all_chars V.Proofs.Small_proofs.is_letter g = true ->
  V.Model.SmallFns.parse_dimref (p ++ "__" ++ g)%string = (p, Some g).
Proof. exact V.Proofs.Small_proofs.parse_dimref_roundtrip. Qed.
Example C20_dunder_name_refuted : V.Model.SmallFns.parse_dimref "o1.d__x" = ("o1.d"%string, Some "x"%string).
Proof. vm_compute. reflexivity. Qed.

Require V.Model.CteShape V.Gen.CteShape_gen V.Proofs.CteShape_proofs.
(* WHAT A MODEL CTE PROJECTS, regenerated: Gen/CteShape_gen.v holds the ordered (expression, alias) items, the FROM clause and the pushed-down WHERE that
   SQLGenerator._build_model_cte (with _find_needed_dimensions) builds on 476 scripted worlds x queries (single / composite key, table- / sql-backed, three relationship
   variants, incoming one_to_many / one_to_one / junction keys, join-key lists, ten dimension lists incl. granularities, a granularity on a non-time dimension, dimensions
   named like keys and like a measure's raw column, fourteen metric lists incl. filtered / count / count_distinct / ratio / derived / cyclic / inline-aggregate / graph-level
   / unknown metrics, pushed filters, ORDER BY, metric filter columns), extracted from generator.py on every run by executing the method's AST (translator/gen_cte.py, fail
   closed, validated against CPython).  Model/CteShape.cte_shape builds the same thing on every row; and for ANY model definition, graph, query and helper functions:
   every requested dimension of the model is projected under its name, every requested granularity of a time dimension under <name>__<granularity>, and nothing is
   projected twice among keys and dimensions.  The raw column of a measure is NOT checked against those names: a dimension called <measure>_raw collides (class C20-K3). *)
Theorem C20_cte_table : forallb (V.Model.CteShape.cte_row_ok V.Gen.CteShape_gen.cte_world) V.Gen.CteShape_gen.cte_rows = true.
Proof. exact V.Proofs.CteShape_proofs.cte_table_holds. Qed.
Theorem C20_requested_dimension_projected : forall qa trunc parse m graph dims filters order_by all_models mfc jk dn g d,
  V.Proofs.CteShape_proofs.no_dot (V.Model.CteShape.mo_name m) = true -> V.Proofs.CteShape_proofs.no_dot dn = true ->
  In ((V.Model.CteShape.mo_name m ++ "." ++ dn)%string, g) dims -> V.Model.CteShape.get_dim (V.Model.CteShape.mo_dims m) dn = Some d ->
  In dn (V.Model.CteShape.st_added (V.Model.CteShape.cte_keys_dims qa trunc parse m graph dims filters order_by all_models mfc jk)).
Proof.
  intros qa trunc parse m graph dims filters order_by all_models mfc jk dn g d H1 H2 Hin Hg.
  rewrite <- (V.Proofs.CteShape_proofs.second_piece_qualified _ _ H1 H2) at 1.
  eapply V.Proofs.CteShape_proofs.requested_dimension_projected; [exact Hin | apply V.Proofs.CteShape_proofs.starts_with_qualified |].
  rewrite (V.Proofs.CteShape_proofs.second_piece_qualified _ _ H1 H2). exact Hg.
Qed.
Theorem C20_requested_granularity_projected : forall qa trunc parse m graph dims filters order_by all_models mfc jk dn g d,
  V.Proofs.CteShape_proofs.no_dot (V.Model.CteShape.mo_name m) = true -> V.Proofs.CteShape_proofs.no_dot dn = true ->
  In ((V.Model.CteShape.mo_name m ++ "." ++ dn)%string, Some g) dims -> V.Model.CteShape.get_dim (V.Model.CteShape.mo_dims m) dn = Some d ->
  V.Model.CteShape.cd_type d = "time"%string -> g <> ""%string ->
  In (dn ++ "__" ++ g)%string (V.Model.CteShape.st_added (V.Model.CteShape.cte_keys_dims qa trunc parse m graph dims filters order_by all_models mfc jk)).
Proof.
  intros qa trunc parse m graph dims filters order_by all_models mfc jk dn g d H1 H2 Hin Hg Ht Hne.
  rewrite <- (V.Proofs.CteShape_proofs.second_piece_qualified _ _ H1 H2) at 1.
  eapply V.Proofs.CteShape_proofs.requested_granularity_projected; [exact Hin | apply V.Proofs.CteShape_proofs.starts_with_qualified | | exact Ht | exact Hne].
  rewrite (V.Proofs.CteShape_proofs.second_piece_qualified _ _ H1 H2). exact Hg.
Qed.
Theorem C20_projected_once : forall qa trunc parse m graph dims filters order_by all_models mfc jk,
  let s := V.Model.CteShape.cte_keys_dims qa trunc parse m graph dims filters order_by all_models mfc jk in
  NoDup (V.Model.CteShape.st_added s) /\ map snd (V.Model.CteShape.st_items s) = map qa (List.rev (V.Model.CteShape.st_added s)).
Proof. exact V.Proofs.CteShape_proofs.cte_keys_dims_wf. Qed.
(* the witness of C20-K3 inside the regenerated table: the dimension rev_raw and the raw column of the measure rev are both projected as rev_raw *)
Example C20_raw_alias_collision_refuted :
  let sc := (0, 0, 1, 1, 0, [("o.rev_raw"%string, None)], ["o.rev"%string], None, None, None)%nat in
  let res := ("QI(o_cte)", [("id", "QA(id)"); ("c_id", "QA(c_id)"); ("o_fk", "QA(o_fk)"); ("rr", "QA(rev_raw)"); ("amount", "QA(rev_raw)")], "raw.o", None)%string in
  V.Model.CteShape.cte_of_scenario V.Gen.CteShape_gen.cte_world sc = Some res /\ V.Model.CteShape.row_in V.Gen.CteShape_gen.cte_rows sc res = true.
Proof. vm_compute. split; reflexivity. Qed.
