(* C20 — validation is sound.  Property theorems only (proofs: Proofs/C20_proofs.v).
   Model/Valid.v: validate_query on parsed references over the graph model of C10 (graphs of ANY size, any number of
   references); the generator's recovery of a model name from its CTE alias.  "Accepted definitions are usable" is decided
   by executing every single-field query of generated definitions (harness); the theorems below are the rejection half and
   the identifier lemma that usability relies on. *)
From Coq Require Import String List Bool.
Require Import V.Base.PyLib V.Model.Graph V.Model.Valid V.Model.ValidTable V.Gen.Validate_gen V.Proofs.C10_proofs V.Proofs.C20_proofs.
Import ListNotations.
Open Scope string_scope.

(* ill-formed references are rejected, each with its own error *)
Theorem C20_reject_unknown_model : forall ms g gm metrics dims m f, In (MQual m f) metrics -> find_vm ms m = None -> In (EModel m) (validate_query ms g gm metrics dims).
Proof. exact reject_unknown_metric_model. Qed.
Theorem C20_reject_unknown_metric : forall ms g gm metrics dims m f vm, In (MQual m f) metrics -> find_vm ms m = Some vm -> mem f (vm_metrics vm) = false ->
  In (EMetric m f) (validate_query ms g gm metrics dims).
Proof. exact reject_unknown_metric. Qed.
Theorem C20_reject_unknown_graph_metric : forall ms g gm metrics dims n, In (MBare n) metrics -> find_gm gm n = None -> In (EBareMetric n) (validate_query ms g gm metrics dims).
Proof. exact reject_unknown_graph_metric. Qed.
Theorem C20_reject_unknown_dim_model : forall ms g gm metrics dims d m, In d dims -> dq_model d = Some m -> find_vm ms m = None -> In (EModel m) (validate_query ms g gm metrics dims).
Proof. exact reject_unknown_dim_model. Qed.
Theorem C20_reject_unknown_dim : forall ms g gm metrics dims d m vm, In d dims -> dq_model d = Some m -> find_vm ms m = Some vm -> find_dim vm (dq_dim d) = None ->
  In (EDim m (dq_dim d)) (validate_query ms g gm metrics dims).
Proof. exact reject_unknown_dim. Qed.
Theorem C20_reject_bad_granularity : forall ms g gm metrics dims d gr, In d dims -> dq_gran d = Some gr -> mem gr gran_names = false -> In (EGran gr) (validate_query ms g gm metrics dims).
Proof. exact reject_bad_granularity. Qed.
Theorem C20_reject_granularity_on_non_time : forall ms g gm metrics dims d m vm gr, In d dims -> dq_model d = Some m -> find_vm ms m = Some vm ->
  find_dim vm (dq_dim d) = Some false -> dq_gran d = Some gr -> In (ENonTime m (dq_dim d)) (validate_query ms g gm metrics dims).
Proof. exact reject_granularity_on_non_time. Qed.

(* models with no join path are rejected whatever form the references into them take: every metric reference and EVERY
   dimension reference (with or without a granularity suffix) puts its model into the join check ... *)
Theorem C20_dims_count_for_joins : forall gm metrics dims d m, In d dims -> dq_model d = Some m -> In m (query_models gm metrics dims).
Proof. exact dims_count_for_joins. Qed.
Theorem C20_metrics_count_for_joins : forall gm metrics dims m f, In (MQual m f) metrics -> In m (query_models gm metrics dims).
Proof. exact metrics_count_for_joins. Qed.
(* ... and two registered models of the query that no chain of relationships connects are reported *)
Theorem C20_reject_disconnected : forall ms g gm metrics dims a b, NoDup (map g_name g) ->
  In a (query_models gm metrics dims) -> In b (query_models gm metrics dims) -> has_model g a = true -> has_model g b = true -> a <> b ->
  (forall p, ~ gchain g a p b) -> (forall p, ~ gchain g b p a) ->
  In (ENoPath a b) (validate_query ms g gm metrics dims) \/ In (ENoPath b a) (validate_query ms g gm metrics dims).
Proof. exact reject_disconnected. Qed.

(* conversely an accepted query resolves every reference and only touches joinable models *)
Theorem C20_accepted_joinable : forall ms g gm metrics dims a b, validate_query ms g gm metrics dims = [] ->
  In (a, b) (pairs_after (filter (has_model g) (nodup string_dec (query_models gm metrics dims)))) -> exists p, gchain g a p b.
Proof. exact accepted_joinable. Qed.
Theorem C20_accepted_refs_resolve : forall ms g gm metrics dims, validate_query ms g gm metrics dims = [] ->
  (forall r, In r metrics -> metric_errors ms gm r = []) /\ (forall d, In d dims -> dim_errors ms d = []).
Proof. exact accepted_refs_resolve. Qed.

(* the generator recovers the model name from its CTE alias by removing "_cte": correct for every name that does not itself
   contain "_cte" (and wrong for those that do: listed class K1) *)
Theorem C20_cte_inverse : forall m, contains CTE m = false -> recover (cte_name m) = m.
Proof. exact recover_cte_name. Qed.
Example C20_cte_refuted : recover (cte_name "x_cte_y") = "x_y".
Proof. exact recover_refuted. Qed.

Example C20_nonvacuous :
  validate_query ex_ms ex_g [] [MQual "orders" "revenue"] [ {| dq_model := Some "visits"; dq_dim := "visited_at"; dq_gran := Some "month" |} ] = [ENoPath "orders" "visits"] /\
  validate_query ex_ms ex_g [] [MQual "orders" "revenue"] [ {| dq_model := Some "orders"; dq_dim := "status"; dq_gran := Some "month" |};
                                                            {| dq_model := Some "orders"; dq_dim := "created"; dq_gran := Some "decade" |} ] = [ENonTime "orders" "status"; EGran "decade"] /\
  validate_query ex_ms ex_g [] [MQual "orders" "revenue"] [ {| dq_model := Some "orders"; dq_dim := "created"; dq_gran := Some "week" |} ] = [].
Proof. exact ex_disconnected_granular. Qed.

(* TIE BY REGENERATION: Gen/Validate_gen.v holds the errors validation.validate_query reports on 154 scripted scenarios (eleven metric lists x fourteen
   dimension lists over a graph with two joined models, an unconnected one and three graph-level metrics: valid, unknown-model, unknown-field,
   bad-granularity, granularity-on-non-time, undotted and unconnected references), extracted from validation.py on every run by executing the
   function's AST (translator/gen_validate.py, fail closed, validated against CPython).  The model `validate_query` of the theorems above reports the
   same reference errors in the same order and the same set of unjoinable pairs on every scenario. *)
Theorem C20_validate_table : forallb validate_row_ok validate_rows = true.
Proof. vm_compute. reflexivity. Qed.

Require V.Model.SmallFns V.Gen.Small_gen V.Proofs.Small_proofs.

(* granularity references as the validator and the generator read them (regenerated table, see Props/C07.v): p__g is (p, g) for ANY p when g is a word -- and so a
   dimension whose own name contains "__" can never be referenced without a granularity (the listed class C20-K6). *)
Theorem C20_dimref_table : forallb V.Model.SmallFns.dimref_row_ok V.Gen.Small_gen.dimref_rows = true.
Proof. exact V.Proofs.Small_proofs.dimref_table_ok. Qed.
Theorem C20_dimref_roundtrip : forall p g, V.Model.SmallFns.all_chars V.Proofs.Small_proofs.is_letter g = true ->
  V.Model.SmallFns.parse_dimref (p ++ "__" ++ g)%string = (p, Some g).
Proof. exact V.Proofs.Small_proofs.parse_dimref_roundtrip. Qed.
Example C20_dunder_name_refuted : V.Model.SmallFns.parse_dimref "o1.d__x" = ("o1.d"%string, Some "x"%string).
Proof. vm_compute. reflexivity. Qed.
