(* C18 — pre-aggregation refresh converges to the full rollup.  Property theorems only (proofs: Proofs/C18_proofs.v).
   Model: Model/Refresh.v (hand-written, tied to pre_aggregation.py / cli.py by the correspondence check on histories).
   `tr` (DATE_TRUNC at the rollup's granularity) is arbitrary: every theorem holds for every truncation function.
   Histories are lists of operations of ANY length. *)
From Coq Require Import ZArith List Bool.
Require Import V.Model.Refresh V.Model.RefreshProg V.Gen.Refresh_gen V.Proofs.C18_proofs V.Proofs.C18_prog_proofs.
Import ListNotations.
Open Scope Z_scope.

Section Statements.
Variable tr : Z -> Z.

(* after any sequence of base-table changes and refresh runs, a full refresh leaves the materialisation of the current base *)
Theorem C18_full : forall h s, rollup (run tr (h ++ [Full]) s) = Some (materialize tr (base (run tr h s))) /\ base (run tr (h ++ [Full]) s) = base (run tr h s).
Proof. exact (full_after_any_history tr). Qed.
Theorem C18_cli_full : forall h s, rollup (run tr (h ++ [CliFull]) s) = Some (materialize tr (base (run tr h s))).
Proof. exact (cli_full_after_any_history tr). Qed.
(* ... and the materialisation is, pointwise, one row per non-empty (bucket, dimension) key carrying the sum and the count *)
Theorem C18_materialize : forall b, approx tr (materialize tr b) b.
Proof. exact (full_correct tr). Qed.

(* merge = full rollup whenever the rollup was right at the previous refresh and every change since then (appends, late rows,
   updates) falls inside the window; merge is idempotent *)
Theorem C18_merge_eq_full : forall w r b_old b, approx tr r b_old ->
  (forall k, fst k < w -> bsum tr b k = bsum tr b_old k /\ bcnt tr b k = bcnt tr b_old k) -> approx tr (merge tr w r b) b.
Proof. exact (merge_correct tr). Qed.
Theorem C18_merge_idem : forall w w' r b, approx tr r b -> approx tr (merge tr w' (merge tr w r b) b) b.
Proof. exact (merge_idempotent tr). Qed.

(* incremental: a re-run without new data leaves the table literally unchanged; data arriving in time order gives the full rollup *)
Theorem C18_incr_noop : forall b r, approx tr r b -> step tr {| base := b; rollup := Some r |} Incr = {| base := b; rollup := Some r |}.
Proof. exact (incr_rerun_noop tr). Qed.
Theorem C18_incr_in_order : forall W r b_old new, approx tr r b_old -> (forall x, In x b_old -> tr (b_ts x) <= W) ->
  (forall x, In x new -> W < tr (b_ts x)) -> approx tr (incremental tr W r (b_old ++ new)) (b_old ++ new).
Proof. exact (incremental_in_order tr). Qed.

(* whole histories: if every refresh in the history meets its requirement on the changes made since the previous refresh
   (`pre`: nothing for full; inside the lookback window for merge; in time order for incremental; the command line's incremental and merge
   modes are the API's, merge without a lookback), the history ends with the full rollup of the current base *)
Theorem C18_history : forall h o s, is_refresh o = true -> all_pre tr (h ++ [o]) (s, base s) -> GInv tr (s, base s) ->
  match rollup (run tr (h ++ [o]) s) with Some r => approx tr r (base (run tr (h ++ [o]) s)) | None => False end.
Proof. exact (history_converges tr). Qed.
End Statements.

(* TIE BY REGENERATION.  Gen/Refresh_gen.v holds the statement programs (DROP / CREATE AS / INSERT / DELETE WHERE <watermark column>
   >= <watermark> ...) that _refresh_full / _refresh_incremental / _refresh_merge execute, extracted from pre_aggregation.py on every
   run, per scenario (table exists, has a maximum watermark, lookback given).  Interpreted statement by statement
   (Model/RefreshProg.exec; a missing table or a CREATE over an existing one is an SQL error) they never fail and leave exactly
   the rollup of Model/Refresh.step and no temporary table -- for every state and every operation, hence for every history.
   So the theorems above are theorems about the extracted programs, not only about the hand-written `step`. *)
Theorem C18_prog_refines : forall tr s o, is_refresh o = true ->
  run_prog tr s o = Some {| target := rollup (step tr s o); temp := None |}.
Proof. exact prog_refines_step. Qed.
Theorem C18_progs_history : forall tr h s, run_progs tr h s = Some (run tr h s).
Proof. exact progs_refine_run. Qed.
(* refresh(mode=...) dispatches each mode literal to its own strategy, arguments passed through in order *)
Theorem C18_dispatch : mode_dispatch = expected_dispatch.
Proof. reflexivity. Qed.

(* the command line's incremental and merge modes are the API's modes (bucket-level watermark predicate in the source statement, no lookback): everything above
   applies to them; a second run without new data leaves one row per bucket.  (Before the repair of cli.py -- no predicate in the source statement -- these two
   examples had rows_at r (5, 0) = 2: the former open class C18-K1.) *)
Theorem C18_cli_incremental_is_api : forall tr s, step tr s CliIncr = step tr s Incr.
Proof. exact cli_incr_is_incr. Qed.
Theorem C18_cli_merge_is_api : forall tr s, step tr s CliMerge = step tr s (Merge 0).
Proof. exact cli_merge_is_merge0. Qed.
Example C18_cli_incremental_rerun :
  let s2 := run (fun z => z) [CliIncr; CliIncr] {| base := ex_base; rollup := None |} in
  match rollup s2 with Some r => rows_at r (5, 0) = 1 /\ rows_at r (9, 0) = 1 | None => False end.
Proof. exact cli_incremental_rerun. Qed.
Example C18_cli_merge_rerun :
  let s2 := run (fun z => z) [CliMerge; CliMerge] {| base := ex_base; rollup := None |} in
  match rollup s2 with Some r => rows_at r (5, 0) = 1 /\ rows_at r (9, 0) = 1 | None => False end.
Proof. exact cli_merge_rerun. Qed.
Example C18_nonvacuous :
  let s := {| base := [ {| b_ts := 5; b_dim := 0; b_v := 10 |} ]; rollup := None |} in
  let h := [Full; SetBase [ {| b_ts := 5; b_dim := 0; b_v := 10 |}; {| b_ts := 9; b_dim := 1; b_v := 1 |} ]; Incr;
            SetBase [ {| b_ts := 5; b_dim := 0; b_v := 10 |}; {| b_ts := 9; b_dim := 1; b_v := 7 |}; {| b_ts := 6; b_dim := 0; b_v := 2 |} ]; Merge 4] in
  all_pre (fun z => z) h (s, base s) /\ rollup (run (fun z => z) h s) =
    Some [ {| r_bucket := 5; r_dim := 0; r_sum := 10; r_cnt := 1 |}; {| r_bucket := 9; r_dim := 1; r_sum := 7; r_cnt := 1 |}; {| r_bucket := 6; r_dim := 0; r_sum := 2; r_cnt := 1 |} ].
Proof. exact history_example. Qed.
