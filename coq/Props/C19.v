(* C19 — concurrent queries on a shared layer behave as if run alone (planning state).  Property theorems only.
   `adjacency_prog` is the shared-state access skeleton extracted from semantic_graph.py on every run (Gen/AdjProg_gen.v);
   the interleaving semantics is Model/Conc.v.  Unbounded number of threads, arbitrary schedules (any pre-emption pattern). *)
From Coq Require Import List Arith Bool.
Require Import V.Model.Conc V.Gen.AdjProg_gen V.Proofs.C19_proofs.
Import ListNotations.

(* generated obligation: the code's skeleton is the build-locally / publish-once / snapshot-once program *)
Theorem C19_prog : adjacency_prog = fixed_prog.
Proof. reflexivity. Qed.

(* every adjacency value a path search ever reads, in any thread, under any schedule, is the serial adjacency *)
Theorem C19_safe : forall (A : Type) (good a0 empty : A) (n : nat) (sched : list nat) l,
  In l (snd (run A good empty adjacency_prog sched (init A a0 n))) -> Forall (fun x => x = good) (reads A l).
Proof. rewrite C19_prog. exact fixed_safe. Qed.

(* the cache is either still flagged dirty or holds exactly the serial adjacency (also the invariant behind C15's history-freedom) *)
Theorem C19_cache_inv : forall (A : Type) (good a0 empty : A) (n : nat) (sched : list nat),
  let s := run A good empty adjacency_prog sched (init A a0 n) in dirty A (fst s) = false -> val A (fst s) = good.
Proof. rewrite C19_prog. exact fixed_cache_inv. Qed.

(* non-vacuity: a scheduled thread finishes and has performed its read *)
Example C19_nonvacuous : forall (A : Type) (good a0 empty : A),
  let s := run A good empty fixed_prog [0;0;0;0;0;0] (init A a0 1) in
  exists l, snd s = [l] /\ finished A fixed_prog l = true /\ reads A l = [good].
Proof. exact single_thread_reads. Qed.

(* regression anchor: the clear-and-refill skeleton admits a two-thread schedule whose finished call read the cleared dict *)
Example C19_buggy_refuted : all_reads_good buggy_prog 2 bad_sched = false /\ all_finished buggy_prog 2 bad_sched = true.
Proof. exact buggy_refuted. Qed.
