(* C16 — parameter values cannot alter query structure.  Property theorems only (proofs: Proofs/C16_proofs.v).
   `format_value` is regenerated from sidemantic/core/parameter.py on every run (Gen/Params_gen.v).
   Oracles (Section variables, trusted base): z_repr = Python's str(int); float_parse = Python's float(str);
   isalnum_char = str.isalnum per character.  Hypotheses on them are explicit premises of C16_number. *)
From Coq Require Import ZArith String Ascii List Bool.
Require Import V.Base.PyVal V.Model.SqlLex V.Gen.Params_gen V.Proofs.C16_proofs.
Open Scope string_scope.

Section Statements.
Variable z_repr : Z -> string.
Variable float_parse : string -> option pyfloat.
Variable isalnum_char : ascii -> bool.
Notation fv := (format_value z_repr float_parse isalnum_char).

(* string: for EVERY value (any string of any length and content: quotes, doubled quotes, comment markers, semicolons,
   newlines, Jinja markers, keywords ...) the result is exactly one SQL string literal whose decoded content is the value,
   and it stays exactly that literal in any context whose next character is not a quote *)
Theorem C16_string : forall dflt v rest, is_value v -> v <> PNone ->
  (match rest with String c _ => Ascii.eqb c quote = false | EmptyString => True end) ->
  exists t, fv (PStr "string") dflt v = Ret (PStr t) /\ one_literal (text_of z_repr v) t rest.
Proof.
  intros dflt v rest Hv Hn Hr. eexists. split; [apply format_string_eq; assumption|]. apply quoted_is_one_literal. exact Hr.
Qed.

(* date: same guarantee (the value round-trips unchanged as data, whatever it contains) *)
Theorem C16_date : forall dflt v rest, is_value v -> v <> PNone ->
  (match rest with String c _ => Ascii.eqb c quote = false | EmptyString => True end) ->
  exists t, fv (PStr "date") dflt v = Ret (PStr t) /\ one_literal (text_of z_repr v) t rest.
Proof.
  intros dflt v rest Hv Hn Hr. eexists. split; [apply format_date_eq; assumption|]. apply quoted_is_one_literal. exact Hr.
Qed.

(* number: accepted values are printed as one numeric literal (booleans print as True / False); NaN and the
   infinities are rejected, whether passed as floats or as strings *)
Theorem C16_number :
  (forall z, numeric_literal (z_repr z) = true) ->
  (forall s r, float_parse s = Some (FFinite r) -> numeric_literal r = true) ->
  forall dflt v t, wf_val v -> v <> PNone ->
  fv (PStr "number") dflt v = Ret (PStr t) -> numeric_literal t = true \/ (exists b, v = PBool b).
Proof. exact (format_number z_repr float_parse isalnum_char). Qed.

(* unquoted: an accepted value consists of identifier characters and dots only (and is the value's own text) *)
Theorem C16_unquoted : forall dflt v t, is_value v -> v <> PNone ->
  fv (PStr "unquoted") dflt v = Ret (PStr t) -> t = text_of z_repr v /\ all_chars (ident_char isalnum_char) t = true.
Proof. exact (format_unquoted z_repr float_parse isalnum_char). Qed.

(* yesno: always one of the two boolean literals *)
Theorem C16_yesno : forall dflt v, is_value v -> v <> PNone ->
  fv (PStr "yesno") dflt v = Ret (PStr "TRUE") \/ fv (PStr "yesno") dflt v = Ret (PStr "FALSE").
Proof. exact (format_yesno z_repr float_parse isalnum_char). Qed.
End Statements.

(* non-vacuity / regression anchors *)
Example C16_attack_string_is_one_literal :
  one_literal "x' OR '1'='1' --" "'x'' OR ''1''=''1'' --'" " AND y = 1".
Proof. reflexivity. Qed.
Example C16_unescaped_would_fail : lex_string_literal ("'" ++ "2024-02-01' OR '1'='1" ++ "'") <> Some ("2024-02-01' OR '1'='1", "").
Proof. exact unescaped_date_is_not_one_literal. Qed.
