(* C16 — parameter values cannot alter query structure.  Property theorems only (proofs: Proofs/C16_proofs.v).
   `format_value` is regenerated from sidemantic/core/parameter.py on every run (Gen/Params_gen.v).
   Oracles (Section variables, trusted base): z_repr = Python's str(int); float_parse = Python's float(str);
   isalnum_char = str.isalnum per character.  Hypotheses on them are explicit premises of C16_number. *)
From Coq Require Import ZArith String Ascii List Bool.
Require Import V.Base.PyVal V.Model.SqlLex V.Gen.Params_gen V.Model.Interp V.Gen.Interp_gen V.Proofs.C16_proofs.
Open Scope string_scope.

Section Statements.
Variable z_repr : Z -> string.
Variable float_parse : string -> option pyfloat.
Variable isalnum_char : ascii -> bool.
Notation fv := (format_value z_repr float_parse isalnum_char).

(* string: for EVERY value (any string of any length and content: quotes, doubled quotes, comment markers, semicolons,
   newlines, Jinja markers, keywords ...) the result is exactly one SQL string literal whose decoded content is the value,
   and it stays exactly that literal in any context whose next character is not a quote *)
Theorem C16_string : forall dflt v rest, is_value v -> v <> PNone ->
  (match rest with String c _ => Ascii.eqb c quote = false | EmptyString => True end) ->
  exists t, fv (PStr "string") dflt v = Ret (PStr t) /\ one_literal (text_of z_repr v) t rest.
Proof.
  intros dflt v rest Hv Hn Hr. eexists. split; [apply format_string_eq; assumption|]. apply quoted_is_one_literal. exact Hr.
Qed.

(* date: same guarantee (the value round-trips unchanged as data, whatever it contains) *)
Theorem C16_date : forall dflt v rest, is_value v -> v <> PNone ->
  (match rest with String c _ => Ascii.eqb c quote = false | EmptyString => True end) ->
  exists t, fv (PStr "date") dflt v = Ret (PStr t) /\ one_literal (text_of z_repr v) t rest.
Proof.
  intros dflt v rest Hv Hn Hr. eexists. split; [apply format_date_eq; assumption|]. apply quoted_is_one_literal. exact Hr.
Qed.

(* number: accepted values are printed as one numeric literal (booleans print as True / False); NaN and the
   infinities are rejected, whether passed as floats or as strings *)
Theorem C16_number :
  (forall z, numeric_literal (z_repr z) = true) ->
  (forall s r, float_parse s = Some (FFinite r) -> numeric_literal r = true) ->
  forall dflt v t, wf_val v -> v <> PNone ->
  fv (PStr "number") dflt v = Ret (PStr t) -> numeric_literal t = true \/ (exists b, v = PBool b).
Proof. exact (format_number z_repr float_parse isalnum_char). Qed.

(* unquoted: an accepted value consists of identifier characters and dots only (and is the value's own text) *)
Theorem C16_unquoted : forall dflt v t, is_value v -> v <> PNone ->
  fv (PStr "unquoted") dflt v = Ret (PStr t) -> t = text_of z_repr v /\ all_chars (ident_char isalnum_char) t = true.
Proof. exact (format_unquoted z_repr float_parse isalnum_char). Qed.

(* yesno: always one of the two boolean literals *)
Theorem C16_yesno : forall dflt v, is_value v -> v <> PNone ->
  fv (PStr "yesno") dflt v = Ret (PStr "TRUE") \/ fv (PStr "yesno") dflt v = Ret (PStr "FALSE").
Proof. exact (format_yesno z_repr float_parse isalnum_char). Qed.

(* a filter `<text a>{{ p }}<text b>` with a string parameter: the interpolated filter is the text a, ONE string literal whose content is
   the value, the text b -- for every value and every surrounding text (b not starting with a quote) *)
Theorem C16_filter_one_literal : forall dflt v a b raw n fmt t, is_value v -> v <> PNone ->
  (match b with String c _ => Ascii.eqb c quote = false | EmptyString => True end) ->
  fv (PStr "string") dflt v = Ret (PStr t) -> assoc_s fmt n = Some t ->
  interpolate_model fmt (cons (Lit a) (cons (Hole raw n) (cons (Lit b) nil))) = a ++ t ++ b /\ one_literal (text_of z_repr v) t b.
Proof.
  intros dflt v a b raw n fmt t Hv Hn Hb Hf Ha. split.
  - unfold interpolate_model. cbn [map fill String.concat]. rewrite Ha. reflexivity.
  - destruct (C16_string dflt v b Hv Hn Hb) as (t' & Ht' & Hl). rewrite Hf in Ht'. injection Ht' as <-. exact Hl.
Qed.
End Statements.

(* TIE BY REGENERATION: Gen/Interp_gen.v holds what ParameterSet.interpolate returns on 40 scripted scenarios (templates with 0-2 holes,
   repeated / unknown / adjacent holes, `{{` inside literal text; values that themselves contain `{{ q }}` placeholders), extracted from
   parameter.py on every run by executing interpolate / format / get from their ASTs (translator/gen_interp.py, fail closed, validated
   against CPython).  On every scenario the one-pass model returns the same text: inserted values are not scanned again, every declared
   hole is filled exactly once with the formatted value, other text is untouched. *)
Theorem C16_interpolate_table : forallb interp_row_ok interp_rows = true.
Proof. vm_compute. reflexivity. Qed.

(* non-vacuity / regression anchors *)
Example C16_attack_string_is_one_literal :
  one_literal "x' OR '1'='1' --" "'x'' OR ''1''=''1'' --'" " AND y = 1".
Proof. reflexivity. Qed.
Example C16_unescaped_would_fail : lex_string_literal ("'" ++ "2024-02-01' OR '1'='1" ++ "'") <> Some ("2024-02-01' OR '1'='1", "").
Proof. exact unescaped_date_is_not_one_literal. Qed.
