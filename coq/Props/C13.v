(* C13 — directory loading detects each file's format consistently.  Property theorems only (proofs: Proofs/C13_proofs.v).
   Gen/Detect_gen.v: the suffix + content-substring detection cascade of loaders.load_from_directory as a decision tree, REGENERATED
   from the source on every run, and the marker signatures of what each exporter writes, MEASURED by the harness on every run
   (so C13_signatures is a theorem relative to measured signatures).  Model/Loader.v: the merge of the per-file graphs. *)
From Coq Require Import String List Bool Permutation.
Require Import V.Model.Loader V.Gen.Detect_gen V.Proofs.C13_proofs.
Import ListNotations.
Open Scope string_scope.

(* the adapter chosen for a file depends only on that file's suffix and on which of the cascade's markers its content holds:
   never on the other files of the directory (the SML-repository short-circuit and python files are handled before the cascade) *)
Theorem C13_neighbours : forall t suffix has has', (forall m, In m (tree_markers t) -> has m = has' m) -> detect t suffix has = detect t suffix has'.
Proof. exact detect_ext. Qed.

(* a kind of file whose content always holds the markers `must` and possibly any of `may` is handled by `expected`, whichever
   sub-list of the optional markers occurs (finite enumeration of the sub-lists: a proof) *)
Theorem C13_signature_sound : forall t label suffix must may expected, signature_ok t (label, suffix, must, may, expected) = true ->
  forall sub, In sub (sublists may) -> forall has, (forall m, In m (tree_markers t) -> has m = mem m must || mem m sub) -> detect t suffix has = Some expected.
Proof. exact signature_sound. Qed.
(* the same for a list of marker sets actually observed *)
Theorem C13_observed_sound : forall t label suffix sets expected, observed_ok t (label, suffix, sets, expected) = true ->
  forall present, In present sets -> forall has, (forall m, In m (tree_markers t) -> has m = mem m present) -> detect t suffix has = Some expected.
Proof. exact observed_sound. Qed.
(* generated obligation: every kind of file an exporter writes from which its own adapter extracts valid models -- the marker sets
   observed on this run over the exporter x feature outputs, outside the listed classes -- is handled by the adapter of its own
   format by the cascade of the CODE *)
Theorem C13_signatures : forallb (observed_ok detection_tree) signatures = true.
Proof. vm_compute. reflexivity. Qed.

(* files defining distinct model names: every model of every file is loaded with its own definition, and the result does not depend
   on the order in which the files are enumerated *)
Theorem C13_merge : forall files k v, NoDup (map fst (concat files)) -> In (k, v) (concat files) -> lookup (merge files) k = Some v.
Proof. exact merge_lookup. Qed.
Theorem C13_order : forall files files', Permutation files files' -> NoDup (map fst (concat files)) -> forall k, lookup (merge files) k = lookup (merge files') k.
Proof. exact merge_order_free. Qed.
