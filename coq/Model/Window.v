(* Hand-written model of the outer query SQLGenerator._generate_with_window_functions builds on top of the inner aggregate
   query (generator.py 2421-3107): cumulative metrics as window aggregates (running total, RANGE .. PRECEDING, grain-to-date
   partitions; partitioned by the requested non-time dimensions), LAG for period-over-period metrics and offset ratios, and
   the final calculations.  SQL window semantics: a partition is sorted by the ORDER BY key, a ROWS frame is positional, a
   RANGE frame is value-based, LAG is positional.  The reference semantics (what C17 prescribes) is at the end.
   No proofs in this file. *)
From Coq Require Import ZArith String List Bool.
Require Import V.Base.Calendar V.Model.Sem.
Import ListNotations.
Open Scope Z_scope.

(* one row of the inner query: the period start (microseconds since 1970-01-01, already truncated to the queried
   granularity), the values of the other requested dimensions, the base metric's value in that group *)
Record srow := { s_t : Z; s_key : list val; s_val : val }.

(* PARTITION BY: the non-time dimensions, preceded by DATE_TRUNC(grain, t) for grain-to-date metrics *)
Definition pkey (g : option gran) (r : srow) : list val :=
  match g with None => s_key r | Some g => VInt (trunc g (s_t r)) :: s_key r end.

(* ORDER BY t within a partition (stable insertion sort: equal keys keep their input order) *)
Fixpoint insert_t (x : srow) (l : list srow) : list srow :=
  match l with [] => [x] | y :: r => if s_t x <=? s_t y then x :: l else y :: insert_t x r end.
Definition sort_t (l : list srow) : list srow := fold_right insert_t [] l.

Definition partitions (g : option gran) (rows : list srow) : list (list srow) :=
  map (fun k => sort_t (filter (fun r => key_eqb (pkey g r) k) rows)) (first_occ (map (pkey g) rows)).

(* ROWS BETWEEN UNBOUNDED PRECEDING AND CURRENT ROW: each row with the rows up to and including its own position *)
Fixpoint prefixes (acc l : list srow) : list (srow * list srow) :=
  match l with [] => [] | x :: r => (x, acc ++ [x]) :: prefixes (acc ++ [x]) r end.
Definition rows_frames (g : option gran) (rows : list srow) : list (srow * list srow) :=
  flat_map (prefixes []) (partitions g rows).

(* RANGE BETWEEN INTERVAL n PRECEDING AND CURRENT ROW (n in microseconds): value-based, peers included *)
Definition range_frames (n : Z) (rows : list srow) : list (srow * list srow) :=
  flat_map (fun p => map (fun x => (x, filter (fun r => (s_t x - n <=? s_t r) && (s_t r <=? s_t x)) p)) p) (partitions None rows).

Inductive cum_kind := CRunning | CRange (n : Z) | CGrain (g : gran).
Definition frames (k : cum_kind) (rows : list srow) : list (srow * list srow) :=
  match k with CRunning => rows_frames None rows | CRange n => range_frames n rows | CGrain g => rows_frames (Some g) rows end.
(* AGG(base.x) OVER (...) *)
Definition cumulative (k : cum_kind) (a : agg) (rows : list srow) : list (srow * result) :=
  map (fun '(x, fr) => (x, apply_agg a (map s_val fr))) (frames k rows).

(* LAG(base.x, k) OVER (PARTITION BY non-time dims ORDER BY t): the value k positions earlier in the sorted partition *)
Fixpoint lags (k : nat) (before l : list srow) : list (srow * val) :=      (* before: the preceding rows, nearest first *)
  match l with [] => [] | x :: r => (x, match nth_error (x :: before) k with Some y => s_val y | None => VNull end) :: lags k (x :: before) r end.
Definition lag (k : nat) (rows : list srow) : list (srow * val) := flat_map (lags k []) (partitions None rows).

(* final calculations of a time_comparison metric (generator.py 3051-3060); `/` is DuckDB's exact division, kept as a fraction *)
Inductive calc := Difference | PercentChange | Ratio.
Definition mk_rat (n d : Z) : val :=
  if d =? 0 then VNull else if 0 <? d then VRat n (Z.to_pos d) else VRat (- n) (Z.to_pos (- d)).
Definition compare_calc (c : calc) (cur prev : val) : val :=
  match cur, prev with
  | VInt x, VInt p =>
      match c with
      | Difference => VInt (x - p)
      | PercentChange => mk_rat ((x - p) * 100) p          (* (x - p) / NULLIF(p, 0) * 100 *)
      | Ratio => mk_rat x p                                (* x / NULLIF(p, 0) *)
      end
  | _, _ => VNull
  end.
Definition time_comparison (c : calc) (k : nat) (rows : list srow) : list (srow * val) :=
  map (fun '(x, p) => (x, compare_calc c (s_val x) p)) (lag k rows).

(* ---------- reference semantics ---------- *)
(* cumulative: the base values of the periods up to t in the same combination of the other dimensions
   (within the trailing window / the enclosing grain period when declared) *)
Definition in_scope (k : cum_kind) (x r : srow) : bool :=
  key_eqb (s_key r) (s_key x) && (s_t r <=? s_t x) &&
  match k with CRunning => true | CRange n => s_t x - n <=? s_t r | CGrain g => trunc g (s_t r) =? trunc g (s_t x) end.
Definition spec_cumulative (k : cum_kind) (a : agg) (rows : list srow) (x : srow) : result :=
  apply_agg a (map s_val (filter (in_scope k x) rows)).
(* period-over-period: the base value k periods earlier in the same combination; `idx` numbers the periods of the
   queried granularity consecutively *)
Definition spec_prev (idx : Z -> Z) (k : nat) (rows : list srow) (x : srow) : val :=
  match find (fun r => key_eqb (s_key r) (s_key x) && (idx (s_t r) =? idx (s_t x) - Z.of_nat k)) rows with
  | Some r => s_val r | None => VNull end.

(* consecutive numbering of the periods of the three series granularities the check generates *)
Definition day_idx (t : Z) : Z := t / UD.
Definition week_idx (t : Z) : Z := (t / UD + 3) / 7.                           (* 1969-12-29, day -3, is a Monday *)
Definition month_idx (t : Z) : Z := let '(y, m, _) := civil (t / UD) in y * 12 + (m - 1).

(* the inner query (an instance of the single-model plan of C01): one row per (truncated period, other dimensions) with the
   base metric aggregated over the group's raw rows *)
Definition inner_rows (g : gran) (a : agg) (raw : list (Z * list val * val)) : list srow :=
  map (fun '(k, grp) => {| s_t := match hd VNull k with VInt t => t | _ => 0 end; s_key := tl k;
                           s_val := match apply_agg a (map (fun r => snd r) grp) with RVal v => v | RBag _ _ => VNull end |})
      (groups (fun r => VInt (trunc g (fst (fst r))) :: snd (fst r)) raw).

(* offset ratio: numerator / NULLIF(LAG(denominator), 0) -- the code lags by ONE row whatever offset_window says *)
Definition offset_ratio (num den : list srow) : list (srow * val) :=
  map (fun '(x, p) => (x, match find (fun r => key_eqb (s_key r) (s_key x) && (s_t r =? s_t x)) num with
                          | Some r => compare_calc Ratio (s_val r) p | None => VNull end)) (lag 1 den).
