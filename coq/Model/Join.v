(* Hand-written model of a multi-model query as the generator emits it (generator.py _build_main_select 1567-1890,
   symmetric_aggregate.py): one CTE per model (pushed-down filters applied), LEFT/INNER joins along the planned steps,
   GROUP BY the dimension columns, plain or symmetric aggregates -- over wide rows of row indices (Model/Mult.v) --
   and the reference semantics C02 prescribes (each metric over the DISTINCT rows of its own model connected to the group).
   Steps / flags come resolved (slot and column indices); Model/Plan.v computes them from the declarations.  No proofs here. *)
From Coq Require Import ZArith String List Bool.
Require Import V.Model.Sem V.Model.Single V.Model.Mult.
Import ListNotations.
Open Scope nat_scope.

(* ---------- join steps over concrete tables ---------- *)
Record jstep := { js_parent : nat;            (* slot of the model the hop starts from *)
                  js_from : list nat;          (* key columns in the parent model's rows *)
                  js_to : list nat;            (* key columns in the child model's rows *)
                  js_kind : kind;              (* declared cardinality of the hop, seen from the parent *)
                  js_left : bool }.            (* LEFT JOIN, or INNER JOIN when the child model carries a filter *)

Definition keyvals (cols : list nat) (r : row) : list val := map (fun c => nth c r VNull) cols.
(* SQL equality on every key column: NULL never matches *)
Fixpoint keys_match (a b : list val) : bool :=
  match a, b with
  | x :: a', y :: b' => negb (is_null x) && val_eqb x y && keys_match a' b'
  | [], [] => true
  | _, _ => false
  end.
Fixpoint find_indices {A} (p : A -> bool) (l : list A) (i : nat) : list nat :=
  match l with [] => [] | x :: r => (if p x then [i] else []) ++ find_indices p r (S i) end.

(* tables in slot order: slot 0 = base model; the child of step k sits in slot k+1 *)
Definition mk_step (tables : list (list row)) (k : nat) (st : jstep) : step :=
  let prows := nth (js_parent st) tables [] in
  let crows := nth (S k) tables [] in
  {| s_parent := js_parent st;
     s_match := fun p => match nth_error prows p with
                         | Some pr => find_indices (fun cr => keys_match (keyvals (js_from st) pr) (keyvals (js_to st) cr)) crows 0
                         | None => [] end;
     s_pof := fun c => match nth_error crows c with
                       | Some cr => hd_error (find_indices (fun pr => keys_match (keyvals (js_from st) pr) (keyvals (js_to st) cr)) prows 0)
                       | None => None end;
     s_left := js_left st |}.
Fixpoint mk_steps (tables : list (list row)) (k : nat) (sts : list jstep) : list (kind * step) :=
  match sts with [] => [] | st :: r => (js_kind st, mk_step tables k st) :: mk_steps tables (S k) r end.

Definition base_wide (tables : list (list row)) : list wrow := map (fun i => [Some i]) (seq 0 (length (nth 0 tables []))).
Definition wide_rows (tables : list (list row)) (sts : list jstep) : list wrow * list bool :=
  run (base_wide tables) [true] (mk_steps tables 0 sts).

(* ---------- the query over the wide rows ---------- *)
Record jdim := { jd_slot : nat; jd_expr : expr }.
Record jmetric := { jm_slot : nat; jm_measure : measure; jm_pk : list nat; jm_sym : bool }.
Record jquery := { jq_tables : list (list row);      (* per slot: the model's rows AFTER its pushed-down filters *)
                   jq_steps : list jstep; jq_dims : list jdim; jq_metrics : list jmetric }.

Definition row_of (tables : list (list row)) (s : nat) (w : wrow) : option row :=
  match slot s w with Some i => nth_error (nth s tables []) i | None => None end.
(* dimensions are CTE columns: an unmatched LEFT JOIN side yields NULL *)
Definition dim_val (tables : list (list row)) (d : jdim) (w : wrow) : val :=
  match row_of tables (jd_slot d) w with Some r => eval r (jd_expr d) | None => VNull end.
Definition raw_val (tables : list (list row)) (m : jmetric) (w : wrow) : val :=
  match row_of tables (jm_slot m) w with Some r => raw_col (jm_pk m) (jm_measure m) r | None => VNull end.
Definition pk_val (tables : list (list row)) (m : jmetric) (w : wrow) : val :=
  match row_of tables (jm_slot m) w with Some r => pk_value (jm_pk m) r | None => VNull end.

(* symmetric aggregates (symmetric_aggregate.py), with the hash as a parameter:
   SUM(DISTINCT h(pk)*M + v) - SUM(DISTINCT h(pk)*M);  AVG = that / NULLIF(COUNT(DISTINCT pk), 0);  COUNT = COUNT(DISTINCT pk);
   COUNT DISTINCT / MIN / MAX = plain;  anything else is rejected *)
Definition HM : Z := 1099511627776.   (* 1 << 40 *)
Definition nodup_z (l : list Z) : list Z := nodup Z.eq_dec l.
Definition sym_sum_z (h : val -> Z) (pairs : list (val * val)) : option Z :=
  let t1 := flat_map (fun '(p, v) => match p, v with VNull, _ => [] | _, VInt z => [(h p * HM + z)%Z] | _, _ => [] end) pairs in
  let t2 := flat_map (fun '(p, v) => match p with VNull => [] | _ => [(h p * HM)%Z] end) pairs in
  match t1 with [] => None | _ => Some (zsum (nodup_z t1) - zsum (nodup_z t2))%Z end.
Definition sym_agg (h : val -> Z) (a : agg) (pairs : list (val * val)) : option result :=
  match a with
  | ASum => Some (RVal (match sym_sum_z h pairs with Some z => VInt z | None => VNull end))
  | AAvg => Some (RVal (match sym_sum_z h pairs with
                         | Some z => match length (nodup_vals (non_null (map fst pairs))) with O => VNull | n => VRat z (Pos.of_nat n) end
                         | None => VNull end))
  | ACount => Some (RVal (VInt (Z.of_nat (length (nodup_vals (non_null (map fst pairs)))))))
  | ACountDistinct | AMin | AMax => Some (apply_agg a (map snd pairs))
  | AOther _ => None                                                    (* ValueError: rejected *)
  end.

Definition metric_val (h : val -> Z) (tables : list (list row)) (m : jmetric) (g : list wrow) : option result :=
  if jm_sym m then sym_agg h (ms_agg (jm_measure m)) (map (fun w => (pk_val tables m w, raw_val tables m w)) g)
  else Some (apply_agg (ms_agg (jm_measure m)) (map (raw_val tables m) g)).

Fixpoint all_some {A} (l : list (option A)) : option (list A) :=
  match l with [] => Some [] | Some x :: r => match all_some r with Some xs => Some (x :: xs) | None => None end | None :: _ => None end.

(* the rows of the generated query; None = the query is rejected at compile time (median under fan-out) *)
Definition rejected (q : jquery) : bool :=
  existsb (fun m => jm_sym m && match ms_agg (jm_measure m) with AOther _ => true | _ => false end) (jq_metrics q).
Definition run_join (h : val -> Z) (q : jquery) : option (list out_row) :=
  if rejected q then None else        (* the ValueError is raised while the SQL is built, whatever the data *)
  let J := fst (wide_rows (jq_tables q) (jq_steps q)) in
  let gs := if Nat.eqb (length (jq_dims q)) 0 then [([], J)]
            else groups (fun w => map (fun d => dim_val (jq_tables q) d w) (jq_dims q)) J in
  all_some (map (fun '(k, g) => match all_some (map (fun m => metric_val h (jq_tables q) m g) (jq_metrics q)) with
                               | Some rs => Some (k, rs) | None => None end) gs).

(* ---------- reference semantics (C02): each metric over the distinct rows of its own model connected to the group ---------- *)
Definition somes (l : list (option nat)) : list nat := flat_map (fun o => match o with Some i => [i] | None => [] end) l.
Definition connected_rows (s : nat) (g : list wrow) : list nat := nodup Nat.eq_dec (somes (map (slot s) g)).
Definition spec_metric_join (tables : list (list row)) (m : jmetric) (g : list wrow) : result :=
  apply_agg (ms_agg (jm_measure m))
            (map (fun i => match nth_error (nth (jm_slot m) tables []) i with Some r => raw_col (jm_pk m) (jm_measure m) r | None => VNull end)
                 (connected_rows (jm_slot m) g)).
Definition spec_join (q : jquery) : list out_row :=
  let J := fst (wide_rows (jq_tables q) (jq_steps q)) in
  let gs := if Nat.eqb (length (jq_dims q)) 0 then [([], J)]
            else groups (fun w => map (fun d => dim_val (jq_tables q) d w) (jq_dims q)) J in
  map (fun '(k, g) => (k, map (fun m => spec_metric_join (jq_tables q) m g) (jq_metrics q))) gs.

(* the safe flag of a metric's slot, as computed along the steps *)
Definition metric_safe (q : jquery) (m : jmetric) : bool := nth (jm_slot m) (snd (wide_rows (jq_tables q) (jq_steps q))) false.
