(* Statement programs of pre-aggregation refresh: the language of the SQL statements PreAggregation._refresh_* execute
   (Gen/Refresh_gen.v holds the programs extracted from pre_aggregation.py on every run) and their meaning on the tables of
   Model/Refresh.v.  `exec` is an interpreter: a missing table, a CREATE over an existing table etc. is an SQL error (None).
   No proofs in this file. *)
From Coq Require Import ZArith List Bool.
Require Import V.Model.Refresh.
Import ListNotations.
Open Scope Z_scope.

Inductive tbl := TTarget | TTemp.                 (* the rollup table / <table>_merge_temp *)
Inductive wmx := WCur | WLookback.                (* '<MAX(watermark column) or 1970-01-01>'  /  (CAST(that AS TIMESTAMP) - INTERVAL '<lookback>') *)
Inductive cmp := CGe | CGt | CLe | CLt | CEq.
Inductive stmt :=
| SDropIfExists (t : tbl)
| SDrop (t : tbl)
| SCreateAs (t : tbl) (w : option wmx)            (* CREATE TABLE t AS <source statement, {WATERMARK} := w>; None: source statement as given *)
| SInsertSrc (t : tbl) (w : option wmx)           (* INSERT INTO t <source statement, {WATERMARK} := w> *)
| SInsertAll (t f : tbl)                          (* INSERT INTO t SELECT * FROM f *)
| SDelete (t : tbl) (c : cmp) (w : wmx).          (* DELETE FROM t WHERE <watermark column> c w *)

Record env := { target : option (list rrow); temp : option (list rrow) }.

Section Exec.
Variable src : option Z -> list rrow.             (* rows of the source statement for a value of {WATERMARK} *)
Variable W L : Z.                                 (* current watermark; lookback *)

Definition wmval (w : wmx) : Z := match w with WCur => W | WLookback => W - L end.
Definition get (e : env) (t : tbl) := match t with TTarget => target e | TTemp => temp e end.
Definition set (e : env) (t : tbl) (v : option (list rrow)) : env :=
  match t with TTarget => {| target := v; temp := temp e |} | TTemp => {| target := target e; temp := v |} end.
Definition cmpb (c : cmp) (a b : Z) : bool :=
  match c with CGe => b <=? a | CGt => b <? a | CLe => a <=? b | CLt => a <? b | CEq => a =? b end.

Definition exec1 (oe : option env) (s : stmt) : option env :=
  match oe with
  | None => None
  | Some e =>
    match s with
    | SDropIfExists t => Some (set e t None)
    | SDrop t => match get e t with Some _ => Some (set e t None) | None => None end
    | SCreateAs t w => match get e t with Some _ => None | None => Some (set e t (Some (src (option_map wmval w)))) end
    | SInsertSrc t w => match get e t with Some r => Some (set e t (Some (r ++ src (option_map wmval w)))) | None => None end
    | SInsertAll t f => match get e t, get e f with Some r, Some r' => Some (set e t (Some (r ++ r'))) | _, _ => None end
    | SDelete t c w => match get e t with Some r => Some (set e t (Some (filter (fun x => negb (cmpb c (r_bucket x) (wmval w))) r))) | None => None end
    end
  end.
Definition exec (p : list stmt) (e : env) : option env := fold_left exec1 p (Some e).
End Exec.

(* the source statements: the API modes get the layer's materialisation statement with a bucket-level predicate
   (> {WATERMARK} incremental, >= {WATERMARK} merge: DESIGN C18); full refresh and the CLI pass the materialisation statement itself *)
Section Sources.
Variable tr : Z -> Z.
Definition src_plain (b : list brow) (_ : option Z) : list rrow := materialize tr b.
Definition src_gt (b : list brow) (w : option Z) : list rrow :=
  match w with Some w => materialize tr (filter (fun x => w <? tr (b_ts x)) b) | None => materialize tr b end.
Definition src_ge (b : list brow) (w : option Z) : list rrow :=
  match w with Some w => materialize tr (filter (fun x => w <=? tr (b_ts x)) b) | None => materialize tr b end.

Definition exists_ (s : state) : bool := match rollup s with Some _ => true | None => false end.
Definition has_wm (s : state) : bool := match rollup s with Some (_ :: _) => true | _ => false end.
End Sources.
