(* SQL literal lexers used to state C16: DuckDB / PostgreSQL string-literal rule (two quotes are the only escape),
   numeric literals, identifier characters.  Hand-written; tied to sqlglot's tokenizer by the correspondence check. *)
From Coq Require Import ZArith String Ascii List Bool.
Import ListNotations.
Open Scope string_scope.

(* ---------- SQL string-literal lexer (DuckDB / PostgreSQL rule: '' is the only escape) ---------- *)
Definition quote : ascii := "'"%char.
(* after the opening quote: returns (decoded content, rest after the closing quote) *)
Fixpoint lex_body (s : string) : option (string * string) :=
  match s with
  | EmptyString => None
  | String c r =>
      if Ascii.eqb c quote then
        match r with
        | String c2 r2 => if Ascii.eqb c2 quote
                          then match lex_body r2 with Some (x, rest) => Some (String quote x, rest) | None => None end
                          else Some (EmptyString, r)
        | EmptyString => Some (EmptyString, EmptyString)
        end
      else match lex_body r with Some (x, rest) => Some (String c x, rest) | None => None end
  end.
Definition lex_string_literal (s : string) : option (string * string) :=
  match s with String c r => if Ascii.eqb c quote then lex_body r else None | EmptyString => None end.

(* numeric literal:  -? digits ( . digits* )? ( e [+-]? digits )?   (what Python's str() prints for an int or a finite float) *)
Definition is_digit (c : ascii) : bool := let n := nat_of_ascii c in Nat.leb 48 n && Nat.leb n 57.
Fixpoint span_digits (s : string) : nat * string :=
  match s with String c r => if is_digit c then let '(n, rest) := span_digits r in (S n, rest) else (O, s) | EmptyString => (O, s) end.
Definition numeric_literal (s : string) : bool :=
  let s1 := match s with String "-"%char r => r | _ => s end in
  let '(n1, r1) := span_digits s1 in
  if Nat.eqb n1 0 then false else
  let r2 := match r1 with String "."%char r => snd (span_digits r) | _ => r1 end in
  match r2 with
  | EmptyString => true
  | String "e"%char r3 =>
      let r4 := match r3 with String "+"%char r => r | String "-"%char r => r | _ => r3 end in
      let '(n5, r5) := span_digits r4 in negb (Nat.eqb n5 0) && match r5 with EmptyString => true | _ => false end
  | _ => false
  end.
