(* Hand-written model of validation.validate_query (validation.py 240-331) on parsed references, over the graph model of C10
   (Model/Graph.v: adjacency and path search), and of the generator's model-name recovery from CTE aliases
   (str.replace("_cte", ""), generator.py 406, 549, 632, 707, 755, 768, 905, 1066, 1232, 1996).  No proofs in this file. *)
From Coq Require Import String Ascii List Bool.
Require Import V.Base.PyLib V.Model.Graph.
Import ListNotations.
Open Scope string_scope.

(* what validation looks at in a registered model: its dimensions (name, is it a time dimension) and its metric names *)
Record vmodel := { vm_name : string; vm_dims : list (string * bool); vm_metrics : list string }.
(* a metric reference "model.measure" or a graph-level metric name; a dimension reference [model.]dim[__granularity] *)
Inductive mref := MQual (m f : string) | MBare (n : string).
Record dref := { dq_model : option string; dq_dim : string; dq_gran : option string }.
Inductive verr :=
| EModel (m : string) | EMetric (m f : string) | EBareMetric (n : string) | EDim (m d : string)
| EGran (g : string) | ENonTime (m d : string) | EFormat (d : string) | ENoPath (a b : string).

Fixpoint find_vm (ms : list vmodel) (n : string) : option vmodel :=
  match ms with [] => None | m :: r => if String.eqb (vm_name m) n then Some m else find_vm r n end.
Definition mem (x : string) (l : list string) : bool := existsb (String.eqb x) l.
Definition find_dim (m : vmodel) (d : string) : option bool :=
  option_map snd (find (fun p => String.eqb (fst p) d) (vm_dims m)).
Definition gran_names : list string := ["hour"; "day"; "week"; "month"; "quarter"; "year"].

(* graph-level metrics: name and the models it draws on (the model named before the dot of a dotted sql; the models of every dependency: numerator and denominator of a
   ratio, every model a formula mentions) *)
Definition gmetrics := list (string * list string).
Fixpoint find_gm (gm : gmetrics) (n : string) : option (list string) :=
  match gm with [] => None | (k, v) :: r => if String.eqb k n then Some v else find_gm r n end.

Definition metric_errors (ms : list vmodel) (gm : gmetrics) (r : mref) : list verr :=
  match r with
  | MQual m f => match find_vm ms m with
                 | None => [EModel m]
                 | Some vm => if mem f (vm_metrics vm) then [] else [EMetric m f]
                 end
  | MBare n => match find_gm gm n with Some _ => [] | None => [EBareMetric n] end
  end.
Definition dim_errors (ms : list vmodel) (d : dref) : list verr :=
  (match dq_gran d with Some g => if mem g gran_names then [] else [EGran g] | None => [] end) ++
  match dq_model d with
  | None => [EFormat (dq_dim d)]
  | Some m => match find_vm ms m with
              | None => [EModel m]
              | Some vm => match find_dim vm (dq_dim d) with
                           | None => [EDim m (dq_dim d)]
                           | Some is_time => match dq_gran d with
                                             | Some _ => if is_time then [] else [ENonTime m (dq_dim d)]
                                             | None => [] end
                           end
              end
  end.
(* the models a query touches: the model part of every qualified metric, every model a graph-level metric draws on,
   the model part of EVERY dimension reference -- with or without a granularity suffix *)
Definition query_models (gm : gmetrics) (metrics : list mref) (dims : list dref) : list string :=
  flat_map (fun r => match r with
                     | MQual m _ => [m]
                     | MBare n => match find_gm gm n with Some l => l | None => [] end end) metrics ++
  flat_map (fun d => match dq_model d with Some m => [m] | None => [] end) dims.
Definition validate_query (ms : list vmodel) (g : graph) (gm : gmetrics) (metrics : list mref) (dims : list dref) : list verr :=
  flat_map (metric_errors ms gm) metrics ++ flat_map (dim_errors ms) dims ++
  map (fun p => ENoPath (fst p) (snd p)) (unjoinable_pairs g (nodup string_dec (query_models gm metrics dims))).

(* ---------- CTE aliases ---------- *)
Fixpoint starts_with (p s : string) : bool :=
  match p, s with
  | EmptyString, _ => true
  | String a p', String b s' => Ascii.eqb a b && starts_with p' s'
  | String _ _, EmptyString => false
  end.
Fixpoint drop (n : nat) (s : string) : string := match n, s with O, _ => s | S k, String _ r => drop k r | S _, EmptyString => EmptyString end.
(* str.replace(p, "") for a non-empty p: left to right, every non-overlapping occurrence removed; fuel = length + 1 *)
Fixpoint remove_all (fuel : nat) (p s : string) : string :=
  match fuel with
  | O => s
  | S k => match s with
           | EmptyString => EmptyString
           | String c r => if starts_with p s then remove_all k p (drop (String.length p) s) else String c (remove_all k p r)
           end
  end.
Definition py_remove (p s : string) : string := remove_all (S (String.length s)) p s.
Definition CTE : string := "_cte".
Definition cte_name (m : string) : string := m ++ CTE.
Definition recover (n : string) : string := py_remove CTE n.
Fixpoint contains (p s : string) : bool :=
  match s with
  | EmptyString => starts_with p EmptyString
  | String _ r => starts_with p s || contains p r
  end.
