(* Shapes of the SQL text symmetric_aggregate.build_symmetric_aggregate_sql returns (Gen/SymAgg_gen.v holds, per aggregation literal, the
   shape extracted from the source on every run) and their meaning over (key, value) pairs of a group's wide rows; and the decision
   of _has_fanout_joins as a function of the join paths' hop types.  No proofs in this file. *)
From Coq Require Import ZArith String List Bool.
Require Import V.Model.Sem V.Model.Single V.Model.Mult V.Model.Join.
Import ListNotations.
Open Scope string_scope.

Inductive shape :=
| ShSumDiff (mult : Z)            (* (SUM(DISTINCT (HASH(pk)::HUGEINT * mult) + v) - SUM(DISTINCT (HASH(pk)::HUGEINT * mult))) *)
| ShAvg (mult : Z)                (* that / NULLIF(COUNT(DISTINCT pk), 0) *)
| ShCountDistinctKey              (* COUNT(DISTINCT pk) *)
| ShCountDistinctMeasure          (* COUNT(DISTINCT v) *)
| ShPlain (f : string)            (* MIN(v) / MAX(v) *)
| ShReject.                       (* ValueError *)

(* Join.sym_sum_z with the multiplier as a parameter *)
Definition sym_sum_m (M : Z) (h : val -> Z) (pairs : list (val * val)) : option Z :=
  let t1 := flat_map (fun '(p, v) => match p, v with VNull, _ => [] | _, VInt z => [(h p * M + z)%Z] | _, _ => [] end) pairs in
  let t2 := flat_map (fun '(p, v) => match p with VNull => [] | _ => [(h p * M)%Z] end) pairs in
  match t1 with [] => None | _ => Some (zsum (nodup_z t1) - zsum (nodup_z t2))%Z end.

Definition interp_shape (h : val -> Z) (sh : shape) (pairs : list (val * val)) : option result :=
  match sh with
  | ShSumDiff M => Some (RVal (match sym_sum_m M h pairs with Some z => VInt z | None => VNull end))
  | ShAvg M => Some (RVal (match sym_sum_m M h pairs with
                           | Some z => match length (nodup_vals (non_null (map fst pairs))) with O => VNull | n => VRat z (Pos.of_nat n) end
                           | None => VNull end))
  | ShCountDistinctKey => Some (RVal (VInt (Z.of_nat (length (nodup_vals (non_null (map fst pairs)))))))
  | ShCountDistinctMeasure => Some (apply_agg ACountDistinct (map snd pairs))
  | ShPlain f => if String.eqb f "min" then Some (apply_agg AMin (map snd pairs))
                 else if String.eqb f "max" then Some (apply_agg AMax (map snd pairs)) else None
  | ShReject => None
  end.

Fixpoint shape_for (tbl : list (string * shape)) (lit : string) : shape :=
  match tbl with [] => ShReject | (l, s) :: r => if String.eqb l lit then s else shape_for r lit end.

(* the aggregation literals of metric.agg and the model's aggregation type they stand for *)
Definition core_aggs : list (string * agg) :=
  [("sum", ASum); ("avg", AAvg); ("count", ACount); ("count_distinct", ACountDistinct); ("min", AMin); ("max", AMax);
   ("median", AOther "median"); ("stddev", AOther "stddev"); ("variance", AOther "variance")].

(* _has_fanout_joins as a function of the hop types of the join paths from the base model to the other models (None: no path) *)
Definition model_fanout (paths : list (option (list string))) : bool :=
  existsb (fun p => match p with Some l => existsb (fun t => String.eqb t "one_to_many") l | None => false end) paths.
Definition fanout_row_ok (row : list (option (list string)) * bool * list bool) : bool :=
  let '(paths, vbase, vothers) := row in
  Bool.eqb vbase (model_fanout paths) && forallb negb vothers && Nat.eqb (length vothers) (length paths).
