(* Hand-written model of what SQLGenerator._build_model_cte (with _find_needed_dimensions) PROJECTS for one model of a query: the ordered (expression, alias) items,
   the FROM clause and the pushed-down WHERE.  Gen/CteShape_gen.v holds what the real method builds on 476 scripted worlds x queries (regenerated on every run by
   executing its AST).  The helpers the method calls are parameters of the model, exactly as they are scripted in the translator: the alias quoting `qa`, the identifier
   quoting `qi`, the truncation `trunc`, the conjunction `conj`, sqlglot's parser `parse` (text -> the (table, column) references it mentions, None: no parse) and its
   printer `print` (references after the table qualifiers were edited).  No proofs here. *)
From Coq Require Import String Ascii List Bool Arith.
Require Import V.Base.PyLib V.Model.Valid V.Model.Required V.Model.TryRoute V.Model.Preagg.
Import ListNotations.
Open Scope string_scope.

Record cdim := mkDim { cd_name : string; cd_type : string; cd_gran : option string; cd_sql : string }.
(* cm_deps: Metric.get_dependencies, sorted; cm_inline: sql_has_aggregate(cm_sql) *)
Record cmet := mkMet { cm_name : string; cm_type : option string; cm_agg : option string; cm_sql : option string; cm_sql_expr : string;
                       cm_filters : list string; cm_deps : list string; cm_inline : bool }.
Record crel := mkRel { cr_name : string; cr_type : string; cr_fks : list string; cr_through : option string; cr_jself : option string; cr_jrel : option string }.
Record cmodel := mkModel { mo_name : string; mo_pk : list string; mo_sql : option string; mo_table : string; mo_rels : list crel; mo_dims : list cdim; mo_mets : list cmet }.

Definition mem (x : string) (l : list string) : bool := existsb (String.eqb x) l.
Fixpoint remove_s (x : string) (l : list string) : list string :=
  match l with [] => [] | y :: r => if String.eqb x y then remove_s x r else y :: remove_s x r end.
Fixpoint get_dim (ds : list cdim) (n : string) : option cdim :=
  match ds with [] => None | d :: r => if String.eqb (cd_name d) n then Some d else get_dim r n end.
Fixpoint get_met (ms : list cmet) (n : string) : option cmet :=
  match ms with [] => None | m :: r => if String.eqb (cm_name m) n then Some m else get_met r n end.

(* dim_ref.split(".")[1] for a reference that contains a dot *)
Definition second_piece (s : string) : string :=
  match after_dot s with Some r => (match before_dot r with Some x => x | None => r end) | None => EmptyString end.
(* str.strip() on blanks *)
Definition is_blank (c : ascii) : bool := let n := nat_of_ascii c in Nat.eqb n 32 || (Nat.leb 9 n && Nat.leb n 13).
Fixpoint lstrip (s : string) : string := match s with String c r => if is_blank c then lstrip r else s | EmptyString => EmptyString end.
Fixpoint rev_str (s acc : string) : string := match s with EmptyString => acc | String c r => rev_str r (String c acc) end.
Definition strip (s : string) : string := rev_str (lstrip (rev_str (lstrip s) "")) "".
Definition py_replace (old new s : string) : string := replace_all (S (String.length s)) old new s.
Definition split1 (s : string) : option (string * string) :=
  match before_dot s, after_dot s with Some a, Some b => Some (a, b) | _, _ => None end.
Definition str_truthy (s : string) : bool := negb (String.eqb s "").

(* sorted(set(...)) *)
Fixpoint ins (x : string) (l : list string) : list string :=
  match l with [] => [x] | y :: r => if String.eqb x y then l else if String.ltb x y then x :: l else y :: ins x r end.
Definition sort_set (l : list string) : list string := fold_right ins [] l.

Section Cte.
  Variable qa qi : string -> string.
  Variable trunc : string -> string -> string.
  Variable conj : list string -> string.
  Variable parse : string -> option (list (string * string)).
  Variable print : list (string * string) -> string.

  (* a column reference belongs to the model: it has a table qualifier that is the model's name once "_cte" is removed *)
  Definition own_ref (mn : string) (r : string * string) : bool := str_truthy (fst r) && String.eqb (recover (fst r)) mn.

  (* ---------------- _find_needed_dimensions (a set; kept as a list) *)
  Definition needed_dims (mn : string) (dims : list (string * option string)) (filters order_by mfc : option (list string)) : list string :=
    let a := flat_map (fun d => if starts_with (mn ++ ".") (fst d) then [second_piece (fst d)] else []) dims in
    let b := flat_map (fun f => match parse f with Some refs => map snd (filter (own_ref mn) refs) | None => [] end) (match filters with Some l => l | None => [] end) in
    let c := flat_map (fun o => let f := strip (py_replace " ASC" "" (py_replace " DESC" "" o)) in
                                match split1 f with Some (m, d) => if String.eqb m mn then [d] else [] | None => [] end) (match order_by with Some l => l | None => [] end) in
    (a ++ b ++ c ++ match mfc with Some l => l | None => [] end)%list.

  (* ---------------- the projection state: items so far, names already projected (columns_added), dimensions still needed *)
  Definition st := (list (string * string) * list string * list string)%type.
  Definition st_items (s : st) := fst (fst s).
  Definition st_added (s : st) := snd (fst s).
  Definition st_needed (s : st) := snd s.
  (* project a key column under its own name (when not there yet); `discard`: the name stops being a needed dimension *)
  Definition add_key (discard : bool) (s : st) (k : string) : st :=
    let '(items, added, needed) := s in
    if mem k added then s else ((items ++ [(k, qa k)])%list, k :: added, if discard then remove_s k needed else needed).
  Definition add_item (s : st) (key expr : string) : st :=
    let '(items, added, needed) := s in ((items ++ [(expr, qa key)])%list, key :: added, needed).

  Definition replace_placeholder (m : cmodel) (e : string) : string :=
    if opt_truthy (mo_sql m) then py_replace "{model}" "t" e else py_replace "{model}." "" e.

  (* the model's own many_to_one foreign keys: projected when the related model is in the query, or when the key is asked for as a dimension *)
  Definition fk_phase (m : cmodel) (all_models : list string) (s : st) : st :=
    fold_left (fun s r => if String.eqb (cr_type r) "many_to_one" then
                            fold_left (fun s fk => if ((Nat.ltb 1 (length all_models) && mem (cr_name r) all_models) || mem fk (st_needed s)) && negb (mem fk (st_added s))
                                                   then add_key true s fk else s) (cr_fks r) s
                          else s) (mo_rels m) s.
  (* foreign keys other models of the query expect on this model (their one_to_one / one_to_many relationships name it) *)
  Definition incoming_phase (mn : string) (graph : list (string * list crel)) (all_models : list string) (s : st) : st :=
    fold_left (fun s om => if mem (fst om) all_models then
                             fold_left (fun s r => if String.eqb (cr_name r) mn && (String.eqb (cr_type r) "one_to_one" || String.eqb (cr_type r) "one_to_many")
                                                   then fold_left (add_key false) (cr_fks r) s else s) (snd om) s
                           else s) graph s.
  (* junction keys of the many_to_many relationships of the query's models that go THROUGH this model *)
  Definition junction_phase (mn : string) (graph : list (string * list crel)) (all_models : list string) (s : st) : st :=
    fold_left (fun s om => if mem (fst om) all_models then
                             fold_left (fun s r => if String.eqb (cr_type r) "many_to_many" && opt_eqb (cr_through r) mn
                                                   then fold_left (fun s k => if opt_truthy k then add_key false s (match k with Some x => x | None => "" end) else s)
                                                                  [cr_jself r; cr_jrel r] s
                                                   else s) (snd om) s
                           else s) graph s.
  Definition key_phases (m : cmodel) (graph : list (string * list crel)) (all_models : list string) (jk : option (list string)) (s0 : st) : st :=
    let s1 := fold_left (add_key false) (mo_pk m) s0 in
    let s2 := fk_phase m all_models s1 in
    let s3 := if Nat.ltb 1 (length all_models) then junction_phase (mo_name m) graph all_models (incoming_phase (mo_name m) graph all_models s2) else s2 in
    fold_left (add_key true) (match jk with Some l => l | None => [] end) s3.

  (* the needed dimensions, in the model's declaration order *)
  Definition dim_expr (m : cmodel) (d : cdim) : string :=
    replace_placeholder m (if String.eqb (cd_type d) "time" && opt_truthy (cd_gran d) then trunc (match cd_gran d with Some g => g | None => "" end) (cd_sql d) else cd_sql d).
  Definition dim_phase (m : cmodel) (s : st) : st :=
    fold_left (fun s d => if mem (cd_name d) (st_needed s) && negb (mem (cd_name d) (st_added s)) then add_item s (cd_name d) (dim_expr m d) else s) (mo_dims m) s.
  (* the requested granularities of time dimensions: <name>__<gran> *)
  Definition gran_phase (m : cmodel) (dims : list (string * option string)) (s : st) : st :=
    fold_left (fun s dg => if starts_with (mo_name m ++ ".") (fst dg) then
                             let dn := second_piece (fst dg) in
                             match get_dim (mo_dims m) dn, snd dg with
                             | Some d, Some g => if str_truthy g && String.eqb (cd_type d) "time" && negb (mem (dn ++ "__" ++ g) (st_added s))
                                                 then add_item s (dn ++ "__" ++ g) (trunc g (replace_placeholder m (cd_sql d))) else s
                             | _, _ => s
                             end
                           else s) dims s.

  (* ---------------- which measures the metrics need (collect_measures_from_metric); fuel bounds the dependency depth, None = fuel exhausted *)
  Definition cst := (list string * list string * list string)%type.          (* measures needed, columns of inline aggregates, visited *)
  Definition inline_cols (mn : string) (sql : string) : list string :=
    match parse sql with Some refs => map snd (filter (fun r => negb (str_truthy (fst r)) || String.eqb (recover (fst r)) mn) refs) | None => [] end.
  Definition is_formula (x : cmet) : bool :=
    opt_in (cm_type x) ["derived"; "ratio"] || (negb (opt_truthy (cm_type x)) && negb (opt_truthy (cm_agg x)) && opt_truthy (cm_sql x)).
  Fixpoint collect (fuel : nat) (m : cmodel) (gms : list (string * list string)) (ref : string) (s : option cst) : option cst :=
    match fuel, s with
    | _, None => None
    | O, _ => None
    | S k, Some (meas, extra, visited) =>
        if mem ref visited then s else
        let s1 := Some (meas, extra, ref :: visited) in
        let handle := fun (x : cmet) (key : string) =>
          if negb (opt_truthy (cm_type x)) && negb (opt_truthy (cm_agg x)) && opt_truthy (cm_sql x) && cm_inline x
          then Some (meas, (extra ++ inline_cols (mo_name m) (match cm_sql x with Some q => q | None => "" end))%list, ref :: visited)
          else if is_formula x then fold_left (fun s d => collect k m gms d s) (cm_deps x) s1
          else if opt_truthy (cm_agg x) then Some (key :: meas, extra, ref :: visited) else s1 in
        match split1 ref with
        | Some (rm, mname) => if String.eqb rm (mo_name m) then match get_met (mo_mets m) mname with Some x => handle x mname | None => s1 end else s1
        | None => match get_met (mo_mets m) ref with
                  | Some x => handle x ref
                  | None => match assoc_get gms ref with Some deps => fold_left (fun s d => collect k m gms d s) deps s1 | None => s1 end
                  end
        end
    end.
  Definition collect_all (fuel : nat) (m : cmodel) (gms : list (string * list string)) (metrics : list string) : option (list string * list string) :=
    fold_left (fun acc ref => match acc with
                              | Some (meas, extra) => match collect fuel m gms ref (Some (meas, extra, [])) with Some (me, ex, _) => Some (me, ex) | None => None end
                              | None => None end) metrics (Some ([], [])).

  (* raw columns the metric-level filters and inline aggregates read, in name order *)
  Definition extra_phase (m : cmodel) (cols : list string) (s : st) : st :=
    fold_left (fun s c => if mem c (st_added s) then s else
                          match get_dim (mo_dims m) c with
                          | Some d => add_item s c (replace_placeholder m (cd_sql d))
                          | None => match get_met (mo_mets m) c with
                                    | Some _ => s
                                    | None => add_item s c (if opt_truthy (mo_sql m) then "t." ++ c else c)
                                    end
                          end) (sort_set cols) s.

  (* the raw column of one measure *)
  Definition measure_base (m : cmodel) (x : cmet) : string :=
    if opt_eqb (cm_agg x) "count" && (negb (opt_truthy (cm_sql x)) || opt_eqb (cm_sql x) "*") then "1"
    else if opt_eqb (cm_agg x) "count_distinct" && negb (opt_truthy (cm_sql x)) then
      match mo_pk m with
      | [k] => k
      | ks => "CONCAT(" ++ String.concat ", '|', " (map (fun c => "CAST(" ++ c ++ " AS VARCHAR)") ks) ++ ")"
      end
    else replace_placeholder m (cm_sql_expr x).
  Definition measure_expr (m : cmodel) (x : cmet) : string :=
    match cm_filters x with
    | [] => measure_base m x
    | fs => "CASE WHEN " ++ conj (map (fun f => py_replace "{model}" "" (py_replace "{model}." "" f)) fs) ++ " THEN " ++ measure_base m x ++ " ELSE NULL END"
    end.
  Definition measure_items (m : cmodel) (names : list string) : list (string * string) :=
    flat_map (fun n => match get_met (mo_mets m) n with Some x => [(measure_expr m x, qa (n ++ "_raw"))] | None => [] end) names.

  Definition from_clause (m : cmodel) : string := match mo_sql m with Some q => if str_truthy q then "(" ++ q ++ ") AS t" else mo_table m | None => mo_table m end.
  Definition where_clause (mn : string) (filters : option (list string)) : option string :=
    match filters with
    | Some (f :: r) => Some (conj (map (fun f => match parse f with Some refs => print (map (fun x => if own_ref mn x then ("", snd x) else x) refs) | None => f end) (f :: r)))
    | _ => None
    end.

  (* keys and dimensions (no fuel involved) *)
  Definition cte_keys_dims (m : cmodel) (graph : list (string * list crel)) (dims : list (string * option string)) (filters order_by : option (list string))
             (all_models : list string) (mfc jk : option (list string)) : st :=
    let all_models := match all_models with [] => [mo_name m] | l => l end in
    gran_phase m dims (dim_phase m (key_phases m graph all_models jk ([], [], needed_dims (mo_name m) dims filters order_by mfc))).

  (* the whole projection *)
  Definition cte_shape (fuel : nat) (m : cmodel) (graph : list (string * list crel)) (gms : list (string * list string))
             (dims : list (string * option string)) (metrics : list string) (filters order_by : option (list string))
             (all_models : list string) (mfc jk : option (list string)) : option (string * list (string * string) * string * option string) :=
    match collect_all fuel m gms metrics with
    | None => None
    | Some (meas, extra) =>
        let cols := ((match mfc with Some l => l | None => [] end) ++ extra)%list in
        let s := extra_phase m cols (cte_keys_dims m graph dims filters order_by all_models mfc jk) in
        let meas2 := (meas ++ filter (fun c => match get_met (mo_mets m) c with Some x => opt_truthy (cm_agg x) | None => false end) cols)%list in
        Some (qi (mo_name m ++ "_cte"), (st_items s ++ measure_items m (sort_set meas2))%list, from_clause m, where_clause (mo_name m) filters)
    end.
End Cte.

(* ---------------- the scripted helpers of translator/gen_cte.py, and the row check against the regenerated table *)
Definition s_qa (n : string) : string := "QA(" ++ n ++ ")".
Definition s_qi (n : string) : string := "QI(" ++ n ++ ")".
Definition s_trunc (g e : string) : string := "TRUNC(" ++ g ++ "," ++ e ++ ")".
Definition s_conj (l : list string) : string := "CONJ[" ++ String.concat ";" l ++ "]".
Definition s_print (refs : list (string * string)) : string :=
  "P[" ++ String.concat "," (map (fun r => if str_truthy (fst r) then fst r ++ "." ++ snd r else snd r) refs) ++ "]".
Definition s_parse (texts : list (string * option (list (string * string)))) (t : string) : option (list (string * string)) :=
  match assoc_get texts t with Some r => r | None => None end.

Fixpoint pairs_eqb (a b : list (string * string)) : bool :=
  match a, b with
  | [], [] => true
  | (x1, x2) :: a', (y1, y2) :: b' => String.eqb x1 y1 && String.eqb x2 y2 && pairs_eqb a' b'
  | _, _ => false
  end.
Definition opt_str_eqb (a b : option string) : bool := match a, b with Some x, Some y => String.eqb x y | None, None => true | _, _ => false end.
Definition shape_eqb (a b : string * list (string * string) * string * option string) : bool :=
  let '(n1, i1, f1, w1) := a in let '(n2, i2, f2, w2) := b in String.eqb n1 n2 && pairs_eqb i1 i2 && String.eqb f1 f2 && opt_str_eqb w1 w2.

Record cworld := mkWorld { cw_dims : list cdim; cw_mets : list cmet; cw_gms : list (string * list string); cw_texts : list (string * option (list (string * string)));
                           cw_rels_o : list (list crel); cw_before : list (string * list crel); cw_after : list (string * list crel);
                           cw_pks : list (list string); cw_sqls : list (option string); cw_alls : list (list string); cw_jks : list (option (list string)) }.
Definition cte_scenario := (nat * nat * nat * nat * nat * list (string * option string) * list string * option (list string) * option (list string) * option (list string))%type.
Definition world_model (w : cworld) (pk sq rv : nat) : cmodel :=
  mkModel "o" (nth pk (cw_pks w) []) (nth sq (cw_sqls w) None) "raw.o" (nth rv (cw_rels_o w) []) (cw_dims w) (cw_mets w).
Definition world_graph (w : cworld) (rv : nat) : list (string * list crel) := (cw_before w ++ [("o", nth rv (cw_rels_o w) [])] ++ cw_after w)%list.
Definition cte_of_scenario (w : cworld) (sc : cte_scenario) :=
  let '(pk, sq, rv, am, jk, dims, metrics, filters, order_by, mfc) := sc in
  cte_shape s_qa s_qi s_trunc s_conj (s_parse (cw_texts w)) s_print 40 (world_model w pk sq rv) (world_graph w rv) (cw_gms w)
            dims metrics filters order_by (nth am (cw_alls w) []) mfc (nth jk (cw_jks w) None).
Definition cte_row_ok (w : cworld) (row : cte_scenario * (string * list (string * string) * string * option string)) : bool :=
  match cte_of_scenario w (fst row) with Some r => shape_eqb r (snd row) | None => false end.

(* membership of a (scenario, result) pair in the regenerated table, decidable *)
Fixpoint strs_eq (a b : list string) : bool := match a, b with [], [] => true | x :: a', y :: b' => String.eqb x y && strs_eq a' b' | _, _ => false end.
Definition ostrs_eq (a b : option (list string)) : bool := match a, b with Some x, Some y => strs_eq x y | None, None => true | _, _ => false end.
Fixpoint dims_eq (a b : list (string * option string)) : bool :=
  match a, b with [], [] => true | (x, g) :: a', (y, h) :: b' => String.eqb x y && opt_str_eqb g h && dims_eq a' b' | _, _ => false end.
Definition sc_eqb (a b : cte_scenario) : bool :=
  let '(p1, s1, r1, a1, j1, d1, m1, f1, o1, c1) := a in let '(p2, s2, r2, a2, j2, d2, m2, f2, o2, c2) := b in
  Nat.eqb p1 p2 && Nat.eqb s1 s2 && Nat.eqb r1 r2 && Nat.eqb a1 a2 && Nat.eqb j1 j2 && dims_eq d1 d2 && strs_eq m1 m2 && ostrs_eq f1 f2 && ostrs_eq o1 o2 && ostrs_eq c1 c2.
Definition row_in (rows : list (cte_scenario * (string * list (string * string) * string * option string))) (sc : cte_scenario)
           (res : string * list (string * string) * string * option string) : bool :=
  existsb (fun row => sc_eqb (fst row) sc && shape_eqb (snd row) res) rows.
