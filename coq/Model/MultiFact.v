(* Hand-written model of the multi-fact form (generator.py _generate_with_preaggregation 1349-1565): one sub-query per metric
   model at the dimension grain (each is an ordinary query: Model/Plan.v + Model/Join.v), then FULL OUTER JOIN of every later
   sub-query with the FIRST one on NULL-safe equality of all dimension columns (CROSS JOIN when there are no dimensions),
   COALESCE of the dimension columns, metrics taken from their own sub-query.  Filters: every row filter of the query -- on a metric model or on
   a model that is only filtered on -- goes to EVERY sub-query (each joins the filtered model), so it restricts every metric.  No proofs here. *)
From Coq Require Import ZArith String List Bool.
Require Import V.Base.PyLib V.Model.Graph V.Model.Sem V.Model.Single V.Model.Mult V.Model.Join V.Model.Plan.
Import ListNotations.
Open Scope string_scope.
Open Scope list_scope.

(* a joined row: one optional sub-query row per sub-query, in sub-query order *)
Definition mrow := list (option out_row).
Definition first_key (nd : nat) (r : mrow) : list val :=
  match r with Some o :: _ => fst o | _ => repeat VNull nd end.      (* a missing first side reads as all-NULL columns *)
(* IS NOT DISTINCT FROM on every dimension column *)
Definition nullsafe_eq (a b : list val) : bool := key_eqb a b.

Definition join_next (nd k : nat) (rows : list mrow) (sub : list out_row) : list mrow :=
  let matched := flat_map (fun r => match filter (fun c => nullsafe_eq (first_key nd r) (fst c)) sub with
                                    | [] => [r ++ [None]]
                                    | cs => map (fun c => r ++ [Some c]) cs end) rows in
  let unmatched := filter (fun c => negb (existsb (fun r => nullsafe_eq (first_key nd r) (fst c)) rows)) sub in
  matched ++ map (fun c => repeat None k ++ [Some c]) unmatched.

Fixpoint join_all (nd k : nat) (rows : list mrow) (subs : list (list out_row)) : list mrow :=
  match subs with [] => rows | s :: r => join_all nd (S k) (join_next nd k rows s) r end.

Definition coalesce_keys (nd : nat) (r : mrow) : list val :=
  map (fun i => fold_right (fun o acc => match o with
                                         | Some (k, _) => match nth i k VNull with VNull => acc | v => v end
                                         | None => acc end) VNull r) (seq 0 nd).
(* widths.(j) = number of metric columns of sub-query j *)
Definition metrics_of (widths : list nat) (r : mrow) : list result :=
  flat_map (fun '(o, w) => match o with Some (_, ms) => ms | None => repeat (RVal VNull) w end) (combine r widths).

Definition outer_rows (nd : nat) (widths : list nat) (subs : list (list out_row)) : list out_row :=
  match subs with
  | [] => []
  | s1 :: rest => map (fun r => (coalesce_keys nd r, metrics_of widths r)) (join_all nd 1 (map (fun o => [Some o]) s1) rest)
  end.

Inductive mf_result := MfRows (rows : list out_row) | MfRejected | MfUnbound | MfNotMultiFact.

Definition metric_models (q : pquery) : list string := dedupe (map pmt_model (pq_metrics q)) [].

Definition run_multifact (h : val -> Z) (ms : list pmodel) (q : pquery) : mf_result :=
  if negb (needs_multifact (graph_of ms) q) then MfNotMultiFact
  else
  let mm := metric_models q in
  let subs := map (fun m =>
                let subq := {| pq_dims := pq_dims q;
                               pq_metrics := filter (fun x => String.eqb (pmt_model x) m) (pq_metrics q);
                               pq_filters := pq_filters q |} in
                match plan ms subq with
                | PlanOk jq _ => run_join h jq
                | _ => None end) mm in
  match all_some subs with
  | None => MfRejected
  | Some rs =>
      let widths := map (fun m => length (filter (fun x => String.eqb (pmt_model x) m) (pq_metrics q))) mm in
      MfRows (outer_rows (length (pq_dims q)) widths rs)
  end.
(* the output lists the metric columns grouped by model (first-occurrence order of the models), not in request order *)
Definition mf_metric_order (q : pquery) : list pmetric :=
  flat_map (fun m => filter (fun x => String.eqb (pmt_model x) m) (pq_metrics q)) (metric_models q).
