(* Hand-written model of sidemantic.core.sql_definitions._parse_scalar_literal: what a property value of the SQL definition syntax denotes.  Gen/SqlValue_gen.v holds what
   the real function returns on scripted texts (regenerated on every run).  No proofs here. *)
From Coq Require Import String Ascii List Bool Arith ZArith.
Import ListNotations.
Open Scope string_scope.

Inductive sval := SNone | SBool (b : bool) | SInt (z : Z) | SFloat (text : string) | SStr (s : string).

Definition sq : ascii := "'"%char.
Definition dq : ascii := ascii_of_nat 34.
Fixpoint last_char (s : string) : option ascii := match s with EmptyString => None | String c EmptyString => Some c | String _ r => last_char r end.
Fixpoint drop_last (s : string) : string := match s with EmptyString => EmptyString | String c EmptyString => EmptyString | String c r => String c (drop_last r) end.
Definition tail (s : string) : string := match s with EmptyString => EmptyString | String _ r => r end.
(* str.replace("''", "'"): leftmost pairs of quotes, not overlapping *)
Fixpoint undouble (s : string) : string :=
  match s with
  | EmptyString => EmptyString
  | String c r => match r with
                  | String d r' => if Ascii.eqb c sq && Ascii.eqb d sq then String sq (undouble r') else String c (undouble r)
                  | EmptyString => String c EmptyString
                  end
  end.
Definition lower_char (c : ascii) : ascii := let n := nat_of_ascii c in if Nat.leb 65 n && Nat.leb n 90 then ascii_of_nat (n + 32) else c.
Fixpoint lower (s : string) : string := match s with EmptyString => EmptyString | String c r => String (lower_char c) (lower r) end.
Definition is_digit (c : ascii) : bool := let n := nat_of_ascii c in Nat.leb 48 n && Nat.leb n 57.
Fixpoint all_digits (s : string) : bool := match s with EmptyString => true | String c r => is_digit c && all_digits r end.
Fixpoint digits_val (s : string) (acc : Z) : Z := match s with EmptyString => acc | String c r => digits_val r (10 * acc + Z.of_nat (nat_of_ascii c - 48)) end.
Definition strip_sign (s : string) : bool * string :=
  match s with String c r => if Ascii.eqb c "-"%char then (true, r) else if Ascii.eqb c "+"%char then (false, r) else (false, s) | EmptyString => (false, s) end.
Definition nonempty (s : string) : bool := negb (String.eqb s "").
(* ^[+-]?\d+$ *)
Definition int_of (v : string) : option Z :=
  let '(neg, d) := strip_sign v in if nonempty d && all_digits d then Some (if neg then - digits_val d 0 else digits_val d 0)%Z else None.
(* ^[+-]?\d+\.\d+$ *)
Fixpoint split_dot (s acc : string) : option (string * string) :=
  match s with EmptyString => None | String c r => if Ascii.eqb c "."%char then Some (acc, r) else split_dot r (acc ++ String c EmptyString) end.
Definition is_float (v : string) : bool :=
  let '(_, d) := strip_sign v in match split_dot d "" with Some (a, b) => nonempty a && all_digits a && nonempty b && all_digits b | None => false end.

Definition parse_scalar (v : string) : sval :=
  match v with
  | EmptyString => SStr ""
  | String c _ =>
      if (Ascii.eqb c sq || Ascii.eqb c dq) && (match last_char v with Some l => Ascii.eqb l c | None => false end)
      then (let inner := drop_last (tail v) in SStr (if Ascii.eqb c sq then undouble inner else inner))
      else let lo := lower v in
           if String.eqb lo "true" then SBool true else if String.eqb lo "false" then SBool false
           else if String.eqb lo "null" || String.eqb lo "none" then SNone
           else match int_of v with
                | Some z => SInt z
                | None => if is_float v then SFloat v else SStr v
                end
  end.

(* a text written as ONE single-quoted literal, quotes doubled *)
Fixpoint double (s : string) : string :=
  match s with EmptyString => EmptyString | String c r => if Ascii.eqb c sq then String sq (String sq (double r)) else String c (double r) end.
Definition quote (s : string) : string := String sq (double s ++ String sq EmptyString).

Definition sval_eqb (a b : sval) : bool :=
  match a, b with
  | SNone, SNone => true
  | SBool x, SBool y => Bool.eqb x y
  | SInt x, SInt y => Z.eqb x y
  | SFloat x, SFloat y => String.eqb x y
  | SStr x, SStr y => String.eqb x y
  | _, _ => false
  end.
Definition sqlvalue_row_ok (r : string * sval) : bool := sval_eqb (parse_scalar (fst r)) (snd r).
