(* Model of SQLGenerator._classify_filters_for_pushdown (generator.py): every filter is split into its AND-conjuncts; a conjunct goes into the
   CTE of model M when, among the table-qualified columns it mentions (the `_cte` suffix stripped), exactly the one model M of the query
   occurs and none of those columns is a metric; everything else (a metric, several models, no model, unparseable text) stays in the
   main query.  A conjunct is given by the (table, column) pairs it mentions (None: text that does not parse) -- sqlglot produces them.
   Gen/Classify_gen.v holds what the real method does on scripted conjuncts, extracted on every run.  No proofs in this file. *)
From Coq Require Import String List Bool.
Require Import V.Model.Valid.
Import ListNotations.
Open Scope string_scope.

Definition mem_s (x : string) (l : list string) : bool := existsb (String.eqb x) l.
Fixpoint dedup (l : list string) : list string :=
  match l with [] => [] | x :: r => if mem_s x r then dedup r else x :: dedup r end.
Inductive place := Push (model : string) | Main.

Section C.
Variable models : list string.                       (* the models of the query *)
Variable is_metric : string -> string -> bool.       (* model, column *)

Definition ref_model (tc : string * string) : option string :=
  let t := fst tc in if String.eqb t "" then None else let m := recover t in if mem_s m models then Some m else None.
Definition ref_models (cols : list (string * string)) : list string :=
  dedup (flat_map (fun tc => match ref_model tc with Some m => [m] | None => [] end) cols).
Definition mentions_metric (cols : list (string * string)) : bool :=
  existsb (fun tc => match ref_model tc with Some m => is_metric m (snd tc) | None => false end) cols.
Definition classify (c : option (list (string * string))) : place :=
  match c with
  | None => Main
  | Some cols => if mentions_metric cols then Main else match ref_models cols with [m] => Push m | _ => Main end
  end.
End C.

(* the scripted world of Gen/Classify_gen.v: models a and b, the column m of either is a metric *)
Definition script_models : list string := ["a"; "b"].
Definition script_metric (m c : string) : bool := String.eqb c "m".
Fixpoint assoc_atom (tbl : list (string * option (list (string * string)))) (n : string) : option (list (string * string)) :=
  match tbl with [] => None | (k, v) :: r => if String.eqb k n then v else assoc_atom r n end.
Definition place_eqb (p q : place) : bool := match p, q with Push a, Push b => String.eqb a b | Main, Main => true | _, _ => false end.
Fixpoint list_eqb (a b : list string) : bool :=
  match a, b with [] , [] => true | x :: a', y :: b' => String.eqb x y && list_eqb a' b' | _, _ => false end.
Definition classify_row_ok (tbl : list (string * option (list (string * string)))) (row : list (list string) * list string * list string * list string) : bool :=
  let '(filters, pa, pb, main) := row in
  let flat := concat filters in
  let pl := fun n => classify script_models script_metric (assoc_atom tbl n) in
  list_eqb (filter (fun n => place_eqb (pl n) (Push "a")) flat) pa &&
  list_eqb (filter (fun n => place_eqb (pl n) (Push "b")) flat) pb &&
  list_eqb (filter (fun n => place_eqb (pl n) Main) flat) main.
