(* Model of SQLGenerator._find_required_models on raw references (model-qualified metrics): the models of the dimensions (granularity suffix after the LAST
   "__" removed, then the text before the first dot), then of the metrics, then the table qualifiers of the filters (the "_cte" suffix removed), each
   model once, in order of first appearance -- the first one is the base model (FROM), the others are joined in this order.  This is
   Model/Plan.required_models on resolved references.  Gen/Required_gen.v holds what the real method returns on scripted queries.  No proofs here. *)
From Coq Require Import String List Bool.
Require Import V.Model.Valid V.Model.Plan.
Import ListNotations.
Open Scope string_scope.

Fixpoint before_dot_from (acc s : string) : option string :=
  match s with
  | EmptyString => None
  | String c r => if Ascii.eqb c (Ascii.ascii_of_nat 46) then Some acc else before_dot_from (acc ++ String c EmptyString) r
  end.
Definition before_dot (s : string) : option string := before_dot_from "" s.
(* the text before the LAST occurrence of "__" (str.rsplit("__", 1)[0]) *)
Fixpoint last_dunder_prefix (acc s : string) (best : option string) : option string :=
  match s with
  | EmptyString => best
  | String c r => last_dunder_prefix (acc ++ String c EmptyString) r (if starts_with "__" s then Some acc else best)
  end.
Definition strip_granularity (d : string) : string := match last_dunder_prefix "" d None with Some p => p | None => d end.
Definition somes_s (l : list (option string)) : list string := flat_map (fun o => match o with Some x => [x] | None => [] end) l.
Definition required_of_refs (dims mets filter_tables : list string) : list string :=
  dedupe (somes_s (map (fun d => before_dot (strip_granularity d)) dims) ++ somes_s (map before_dot mets) ++ map recover filter_tables) [].
Fixpoint strs_eqb (a b : list string) : bool := match a, b with [], [] => true | x :: a', y :: b' => String.eqb x y && strs_eqb a' b' | _, _ => false end.
Definition required_row_ok (row : list string * list string * list string * list string) : bool :=
  let '(dims, mets, ftabs, res) := row in strs_eqb (required_of_refs dims mets ftabs) res.
