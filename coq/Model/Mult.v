(* Wide rows and join steps over ROW INDICES: the multiplicity bookkeeping behind C02.  A wide row has one optional row index
   per joined model, in join order; a join step extends every wide row with the matching rows of the child model
   (LEFT: an unmatched row is kept with None; INNER: it is dropped).  Executable; no proofs here. *)
From Coq Require Import List Arith Bool PeanoNat.
Import ListNotations.

Definition wrow := list (option nat).
Definition slot (s : nat) (w : wrow) : option nat := nth s w None.
Definition has (s r : nat) (w : wrow) : bool := match slot s w with Some x => Nat.eqb x r | None => false end.
Definition count {A} (f : A -> bool) (l : list A) : nat := length (filter f l).
(* how many wide rows carry row r of the model in slot s *)
Definition mult (J : list wrow) (s r : nat) : nat := count (has s r) J.

(* s_match p = indices of the child rows joined to parent row p ; s_pof c = the parent row a child row is joined to (to-many steps) *)
Record step := { s_parent : nat; s_match : nat -> list nat; s_pof : nat -> option nat; s_left : bool }.

Definition extend (st : step) (w : wrow) : list wrow :=
  match slot (s_parent st) w with
  | None => if s_left st then [w ++ [None]] else []
  | Some p => match s_match st p with
              | [] => if s_left st then [w ++ [None]] else []
              | cs => map (fun c => w ++ [Some c]) cs
              end
  end.
Definition join_step (st : step) (J : list wrow) : list wrow := flat_map (extend st) J.

(* hop type seen from the parent: child key unique / parent key unique / both *)
Inductive kind := ToOne | ToMany | OneOne.
(* safe s = "no row of slot s can occur in two wide rows" *)
Definition safe_step (k : kind) (parent : nat) (safe : list bool) : list bool :=
  match k with
  | ToOne => safe ++ [false]
  | ToMany => map (fun _ => false) safe ++ [nth parent safe false]
  | OneOne => safe ++ [nth parent safe false]
  end.
Fixpoint run (J : list wrow) (safe : list bool) (steps : list (kind * step)) : list wrow * list bool :=
  match steps with
  | [] => (J, safe)
  | (k, st) :: r => run (join_step st J) (safe_step k (s_parent st) safe) r
  end.
