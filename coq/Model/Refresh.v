(* Executable model of pre-aggregation refresh (pre_aggregation.py 192-553, cli.py 905-1050) on a one-dimension, one-measure rollup.
   Tables are bags (lists); a rollup is read POINTWISE (rows_at / sum_at / cnt_at per key) because incremental refresh can
   create a second row for an existing bucket.  Truncation `tr` is abstract: nothing about the calendar is needed.
   Source statement of the API modes = the layer's materialisation statement with a predicate on the BUCKET
   (`> {WATERMARK}` incremental, `>= {WATERMARK}` merge): the reading most favourable to the code (DESIGN C18).
   No proofs in this file. *)
From Coq Require Import ZArith List Bool.
Import ListNotations.
Open Scope Z_scope.

Section Refresh.
Variable tr : Z -> Z.                      (* DATE_TRUNC(g, .) *)

Record brow := { b_ts : Z; b_dim : Z; b_v : Z }.
Record rrow := { r_bucket : Z; r_dim : Z; r_sum : Z; r_cnt : Z }.
Notation key := (Z * Z)%type.
Definition key_eqb (a b : key) : bool := (fst a =? fst b) && (snd a =? snd b).
Definition bkey (x : brow) : key := (tr (b_ts x), b_dim x).
Definition rkey (x : rrow) : key := (r_bucket x, r_dim x).

Definition zsum (l : list Z) : Z := fold_right Z.add 0 l.
Definition at_b (b : list brow) (k : key) : list brow := filter (fun x => key_eqb (bkey x) k) b.
Definition at_r (r : list rrow) (k : key) : list rrow := filter (fun x => key_eqb (rkey x) k) r.
Definition bsum b k := zsum (map b_v (at_b b k)).
Definition bcnt b k := Z.of_nat (length (at_b b k)).
Definition rows_at r k := Z.of_nat (length (at_r r k)).
Definition sum_at r k := zsum (map r_sum (at_r r k)).
Definition cnt_at r k := zsum (map r_cnt (at_r r k)).

(* GROUP BY: one row per distinct key, in first-occurrence order *)
Fixpoint first_occ (ks : list key) : list key :=
  match ks with [] => [] | k :: r => k :: filter (fun k' => negb (key_eqb k' k)) (first_occ r) end.
Definition materialize (b : list brow) : list rrow :=
  map (fun k => {| r_bucket := fst k; r_dim := snd k; r_sum := bsum b k; r_cnt := bcnt b k |}) (first_occ (map bkey b)).

(* stateless watermark: MAX(watermark column) of the rollup; missing or empty table -> '1970-01-01' (= 0) *)
Definition watermark (r : option (list rrow)) : Z :=
  match r with
  | Some (x :: l) => fold_left Z.max (map r_bucket l) (r_bucket x)
  | _ => 0
  end.

Definition merge (w : Z) (r : list rrow) (b : list brow) : list rrow :=
  filter (fun x => r_bucket x <? w) r ++ materialize (filter (fun x => w <=? tr (b_ts x)) b).
Definition incremental (W : Z) (r : list rrow) (b : list brow) : list rrow :=
  r ++ materialize (filter (fun x => W <? tr (b_ts x)) b).

Record state := { base : list brow; rollup : option (list rrow) }.
Inductive op :=
| SetBase (b : list brow)        (* any change of the base table: appends (in order or late), updates *)
| Full | Incr | Merge (lookback : Z)
| CliFull | CliIncr | CliMerge.

Definition step (s : state) (o : op) : state :=
  let b := base s in
  match o with
  | SetBase b' => {| base := b'; rollup := rollup s |}
  | Full | CliFull => {| base := b; rollup := Some (materialize b) |}
  | Incr =>
      let W := watermark (rollup s) in
      {| base := b; rollup := Some (match rollup s with
                                    | None => materialize (filter (fun x => W <? tr (b_ts x)) b)      (* CREATE TABLE AS *)
                                    | Some r => incremental W r b end) |}                               (* INSERT INTO *)
  | Merge L =>
      let w := watermark (rollup s) - L in
      {| base := b; rollup := Some (match rollup s with
                                    | None => materialize (filter (fun x => w <=? tr (b_ts x)) b)
                                    | Some r => merge w r b end) |}
  (* CLI: the source statement is the materialisation statement with the bucket-level watermark predicate (> for incremental, >= for merge), no lookback *)
  | CliIncr =>
      let W := watermark (rollup s) in
      {| base := b; rollup := Some (match rollup s with
                                    | None => materialize (filter (fun x => W <? tr (b_ts x)) b)
                                    | Some r => incremental W r b end) |}
  | CliMerge =>
      let w := watermark (rollup s) - 0 in
      {| base := b; rollup := Some (match rollup s with
                                    | None => materialize (filter (fun x => w <=? tr (b_ts x)) b)
                                    | Some r => merge w r b end) |}
  end.
Definition run (h : list op) (s : state) : state := fold_left step h s.

(* r is (pointwise) the materialisation of b *)
Definition approx (r : list rrow) (b : list brow) : Prop :=
  forall k, rows_at r k = (if 0 <? bcnt b k then 1 else 0) /\ sum_at r k = bsum b k /\ cnt_at r k = bcnt b k.
End Refresh.
