(* Hand-written model of directory loading (loaders.py load_from_directory): format detection as a DECISION TREE over atoms (the tree
   itself is regenerated from the source: Gen/Detect_gen.v), and the merge of the per-file graphs.  No proofs in this file. *)
From Coq Require Import String List Bool.
Import ListNotations.
Open Scope string_scope.

Inductive cond := CHas (marker : string) | CSuffix (s : string) | CSuffixIn (l : list string) | CAnd (a b : cond) | COr (a b : cond) | CNot (a : cond).
Inductive dtree := Leaf (adapter : option string) | Ite (c : cond) (t e : dtree).

Definition mem (x : string) (l : list string) : bool := existsb (String.eqb x) l.
Fixpoint eval (suffix : string) (has : string -> bool) (c : cond) : bool :=
  match c with
  | CHas m => has m
  | CSuffix s => String.eqb suffix s
  | CSuffixIn l => mem suffix l
  | CAnd a b => eval suffix has a && eval suffix has b
  | COr a b => eval suffix has a || eval suffix has b
  | CNot a => negb (eval suffix has a)
  end.
Fixpoint detect (t : dtree) (suffix : string) (has : string -> bool) : option string :=
  match t with
  | Leaf r => r
  | Ite c a b => if eval suffix has c then detect a suffix has else detect b suffix has
  end.
Fixpoint cond_markers (c : cond) : list string :=
  match c with CHas m => [m] | CSuffix _ | CSuffixIn _ => [] | CAnd a b | COr a b => cond_markers a ++ cond_markers b | CNot a => cond_markers a end.
Fixpoint tree_markers (t : dtree) : list string :=
  match t with Leaf _ => [] | Ite c a b => cond_markers c ++ tree_markers a ++ tree_markers b end.

(* all sub-lists of a list *)
Fixpoint sublists {A} (l : list A) : list (list A) :=
  match l with [] => [[]] | x :: r => let s := sublists r in s ++ map (cons x) s end.
Definition opt_eqb (a b : option string) : bool := match a, b with Some x, Some y => String.eqb x y | None, None => true | _, _ => false end.
(* a file kind with markers `must` always present and `may` sometimes present is handled by `expected` whatever subset of `may` occurs *)
Definition signature_ok (t : dtree) (sig : string * string * list string * list string * string) : bool :=
  let '(label, suffix, must, may, expected) := sig in
  forallb (fun sub => opt_eqb (detect t suffix (fun m => mem m must || mem m sub)) (Some expected)) (sublists may).
(* the marker sets actually OBSERVED in the files of one kind: each is handled by `expected` *)
Definition observed_ok (t : dtree) (o : string * string * list (list string) * string) : bool :=
  let '(label, suffix, sets, expected) := o in
  forallb (fun present => opt_eqb (detect t suffix (fun m => mem m present)) (Some expected)) sets.

(* ---------- merging the per-file graphs: all_models.update(graph.models), file after file ---------- *)
Definition models := list (string * string).          (* model name -> an identifier of its definition, in dict order *)
Fixpoint update1 (m : models) (k v : string) : models :=
  match m with [] => [(k, v)] | (k', v') :: r => if String.eqb k k' then (k, v) :: r else (k', v') :: update1 r k v end.
Definition update (m : models) (g : models) : models := fold_left (fun acc kv => update1 acc (fst kv) (snd kv)) g m.
Definition merge (files : list models) : models := fold_left update files [].
Fixpoint lookup (m : models) (k : string) : option string :=
  match m with [] => None | (k', v) :: r => if String.eqb k k' then Some v else lookup r k end.
