(* Hand-written model of sidemantic.core.inheritance.merge_model: the four item lists of a child that extends a parent are merged BY NAME with Python's dict semantics
   ({name: item} of the parent, updated with {name: item} of the child, values in insertion order), every other field the child sets replaces the parent's.
   Gen/Inherit_gen.v holds what the real function returns on scripted parents / children (regenerated on every run).  No proofs here. *)
From Coq Require Import String List Bool.
Import ListNotations.
Open Scope string_scope.

Definition items := list (string * string).          (* (name, payload): the payload stands for the whole definition of the item *)
Fixpoint assoc (d : items) (k : string) : option string :=
  match d with [] => None | (k', v) :: r => if String.eqb k' k then Some v else assoc r k end.
(* d[k] = v : an existing key keeps its position, a new key goes to the end *)
Fixpoint dict_set (d : items) (k v : string) : items :=
  match d with [] => [(k, v)] | (k', v') :: r => if String.eqb k' k then (k', v) :: r else (k', v') :: dict_set r k v end.
Definition dict_update (d : items) (l : items) : items := fold_left (fun d kv => dict_set d (fst kv) (snd kv)) l d.
Definition dict_of (l : items) : items := dict_update [] l.                    (* {item["name"]: item for item in l} *)
Definition merge_items (p : items) (c : option items) : items := dict_update (dict_of p) (dict_of (match c with Some l => l | None => [] end)).
Definition merge_fields (p c : items) : items := dict_update p c.            (* the other fields: the parent's dump, each field the child sets replaced *)

Fixpoint items_eqb (a b : items) : bool :=
  match a, b with [], [] => true | (x1, x2) :: a', (y1, y2) :: b' => String.eqb x1 y1 && String.eqb x2 y2 && items_eqb a' b' | _, _ => false end.
Fixpoint lists_eqb (a b : list items) : bool := match a, b with [], [] => true | x :: a', y :: b' => items_eqb x y && lists_eqb a' b' | _, _ => false end.
Fixpoint map2 {A B C} (f : A -> B -> C) (a : list A) (b : list B) : list C := match a, b with x :: a', y :: b' => f x y :: map2 f a' b' | _, _ => [] end.
Definition inherit_row_ok (r : (list items * list (option items) * items * items) * (string * list items * items)) : bool :=
  let '((pl, cl, ps, cs), (name, ml, ms)) := r in
  String.eqb name "c" && lists_eqb (map2 merge_items pl cl) ml && items_eqb (merge_fields ps cs) ms.
