(* Hand-written model of what SQLGenerator.generate emits for a query over ONE model (generator.py _build_model_cte 910-1235,
   _build_main_select 1567-1890, _build_measure_aggregation_sql 1987-2017), as a relational plan over Sem, and the reference
   semantics `spec` the property C01 prescribes.  Dimensions / measures / filters are given as already-resolved expressions
   over the model's columns (the harness renders the same ASTs to SQL text for the real code).  No proofs in this file. *)
From Coq Require Import ZArith String List Bool DecimalString.
Require Import V.Model.Sem.
Import ListNotations.
Open Scope nat_scope.

Record measure := { ms_agg : agg; ms_expr : option expr; ms_filters : list expr }.
Record squery := { sq_dims : list expr; sq_metrics : list measure; sq_filters : list expr;
                   sq_order : list (nat * bool);      (* output column index, descending? *)
                   sq_limit : option nat; sq_offset : option nat; sq_ungrouped : bool }.

(* CAST(v AS VARCHAR) *)
Definition render (v : val) : string :=
  match v with
  | VInt z => NilZero.string_of_int (Z.to_int z) | VStr s => s | VBool true => "true" | VBool false => "false"
  | VNull => "" | VRat _ _ => "?" end.
(* primary key as a single value: the column itself, or CONCAT(CAST(c1 AS VARCHAR), '|', CAST(c2 AS VARCHAR), ...) *)
Definition pk_value (pk : list nat) (r : row) : val :=
  match pk with
  | [c] => nth c r VNull
  | _ => VStr (String.concat "|" (map (fun c => render (nth c r VNull)) pk))
  end.

(* the un-aggregated <measure>_raw column of the CTE *)
Definition raw_base (pk : list nat) (m : measure) (r : row) : val :=
  match ms_expr m with
  | Some e => eval r e
  | None => match ms_agg m with ACount => VInt 1%Z | _ => pk_value pk r end   (* COUNT -> 1 ; COUNT DISTINCT without sql -> primary key *)
  end.
Definition raw_col (pk : list nat) (m : measure) (r : row) : val :=
  match ms_filters m with
  | [] => raw_base pk m r
  | fs => if all_hold fs r then raw_base pk m r else VNull      (* CASE WHEN f1 AND f2 ... THEN <base> ELSE NULL END *)
  end.
(* CTE: pushed-down query filters in WHERE; dimension expressions then raw measure columns *)
Definition cte (pk : list nat) (q : squery) (rows : list row) : list row :=
  map (fun r => map (eval r) (sq_dims q) ++ map (fun m => raw_col pk m r) (sq_metrics q))
      (filter (all_hold (sq_filters q)) rows).

Definition res_val (x : result) : val := match x with RVal v => v | RBag _ _ => VNull end.   (* sort key of an aggregate column *)
Definition out_row := (list val * list result)%type.
Definition flat (o : out_row) : row := fst o ++ map res_val (snd o).

(* outer SELECT: GROUP BY the dimension positions (a query without dimensions is ONE global group, even over zero rows);
   the ungrouped branch returns the raw columns row by row *)
Definition outer (nd : nat) (aggs : list agg) (ungrouped : bool) (c : list row) : list out_row :=
  if ungrouped then map (fun r => (firstn nd r, map RVal (skipn nd r))) c
  else
  map (fun '(k, g) => (k, map (fun '(j, a) => apply_agg a (map (fun r => nth (nd + j) r VNull) g))
                              (combine (seq 0 (length aggs)) aggs)))
      (if Nat.eqb nd 0 then [([], c)] else groups (firstn nd) c).

Fixpoint insert_out (ks : list (nat * bool)) (x : out_row) (l : list out_row) : list out_row :=
  match l with [] => [x] | y :: r => match keys_cmp ks (flat x) (flat y) with Gt => y :: insert_out ks x r | _ => x :: l end end.
Definition sort_out (ks : list (nat * bool)) (l : list out_row) : list out_row :=
  match ks with [] => l | _ => fold_right (insert_out ks) [] l end.

(* generator.py 1885-1888: `if limit is not None` / `if offset:` -- LIMIT n is emitted for every n including 0, OFFSET 0 is omitted (same rows) *)
Definition run_model (pk : list nat) (q : squery) (rows : list row) : list out_row :=
  slice (sq_offset q) (sq_limit q)
        (sort_out (sq_order q) (outer (length (sq_dims q)) (map ms_agg (sq_metrics q)) (sq_ungrouped q) (cte pk q rows))).

(* ---------- reference semantics: what C01 says the rows must be ---------- *)
(* an injective rendering of the key tuple (length-prefixed), so that COUNT DISTINCT over it counts distinct key tuples *)
Definition pk_tuple (pk : list nat) (r : row) : val :=
  match pk with
  | [c] => nth c r VNull
  | _ => VStr (String.concat "" (map (fun c => let s := render (nth c r VNull) in
                                               NilZero.string_of_uint (Nat.to_uint (String.length s)) ++ ":" ++ s)%string pk))
  end.
Definition spec_base (pk : list nat) (m : measure) (r : row) : val :=
  match ms_expr m with
  | Some e => eval r e
  | None => match ms_agg m with ACount => VInt 1%Z | _ => pk_tuple pk r end
  end.
Definition spec_metric (pk : list nat) (m : measure) (g : list row) : result :=
  let g' := filter (all_hold (ms_filters m)) g in
  apply_agg (ms_agg m) (map (spec_base pk m) g').
Definition spec_groups (pk : list nat) (q : squery) (rows : list row) : list out_row :=
  let rows' := filter (all_hold (sq_filters q)) rows in
  if sq_ungrouped q
  then map (fun r => (map (eval r) (sq_dims q),
                      map (fun m => RVal (if all_hold (ms_filters m) r then spec_base pk m r else VNull)) (sq_metrics q))) rows'
  else map (fun '(k, g) => (k, map (fun m => spec_metric pk m g) (sq_metrics q)))
           (if Nat.eqb (length (sq_dims q)) 0 then [([], rows')] else groups (fun r => map (eval r) (sq_dims q)) rows').
Definition spec (pk : list nat) (q : squery) (rows : list row) : list out_row :=
  slice (sq_offset q) (sq_limit q) (sort_out (sq_order q) (spec_groups pk q rows)).

(* the model renders a composite key with CONCAT(..., '|', ...), which is not injective on strings containing '|':
   the main theorem excludes count_distinct-without-sql on a composite key (known finding C01-K2, refuted by witness) *)
Definition composite_cd_free (pk : list nat) (q : squery) : Prop :=
  length pk = 1 \/ forall m, In m (sq_metrics q) -> ms_expr m <> None \/ ms_agg m = ACount.
