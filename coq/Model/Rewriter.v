(* Hand-written model of the SQL front end's extraction of a structured query from a parsed SELECT
   (query_rewriter.py: rewrite 39-122 dispatch, _rewrite_simple_query 1899-1942, _extract_metrics_and_dimensions 1944-2053,
   _resolve_column 2193-2258, _extract_filters 2055-2100).  The SELECT is given as the tree sqlglot produces (text -> tree is
   outside the model); filter atoms are opaque texts (sqlglot's printing of the atom).  Next to it: the renderings of a
   structured query as SELECT trees.  No proofs in this file. *)
From Coq Require Import String List Bool.
Import ListNotations.
Open Scope string_scope.

(* what the rewriter looks up in the graph *)
Record rmodel := { rm_name : string; rm_dims : list string; rm_metrics : list string }.
Record rgraph := { rg_models : list rmodel; rg_metrics : list string }.       (* models in registration order; graph-level metric names *)
Fixpoint find_rm (ms : list rmodel) (n : string) : option rmodel :=
  match ms with [] => None | m :: r => if String.eqb (rm_name m) n then Some m else find_rm r n end.
Definition mem (x : string) (l : list string) : bool := existsb (String.eqb x) l.

(* the parsed SELECT *)
Inductive proj :=
| PStar
| PCol (table : option string) (name : string) (alias : option string)       (* name may carry a __granularity suffix *)
| PLiteral
| PFunc.                                                                      (* an aggregate / function call *)
Inductive wexpr := WAtom (text : string) | WAnd (a b : wexpr) | WOr (a b : wexpr).
Inductive from_clause := FromNone | FromTable (n : string) | FromSubquery.
Record sel := { s_proj : list proj; s_from : from_clause; s_joins : bool; s_where : option wexpr;
                s_order : list string; s_limit : option nat; s_offset : option nat; s_with : bool }.

Record squery := { q_metrics : list string; q_dims : list string; q_filters : list string;
                   q_order : list string; q_limit : option nat; q_offset : option nat; q_aliases : list (string * string) }.
Inductive outcome := Rewritten (q : squery) | Passthrough | Rejected | Nested.     (* Nested: CTE / sub-select handled piecewise *)

(* split "field__gran" at the LAST "__" when the suffix is one of the rewriter's granularity names *)
Definition rewriter_grans : list string := ["year"; "quarter"; "month"; "week"; "day"; "hour"; "minute"; "second"].
Fixpoint starts_with (p s : string) : bool :=
  match p, s with
  | EmptyString, _ => true
  | String a p', String b s' => Ascii.eqb a b && starts_with p' s'
  | String _ _, EmptyString => false
  end.
(* the text after the last "__" of s, and the text before it *)
Fixpoint rsplit_aux (s before : string) (best : option (string * string)) : option (string * string) :=
  match s with
  | EmptyString => best
  | String c r =>
      let best' := if starts_with "__" s then Some (before, match r with String _ r2 => r2 | EmptyString => EmptyString end) else best in
      rsplit_aux r (before ++ String c EmptyString) best'
  end.
Definition base_field (field : string) : string :=
  match rsplit_aux field "" None with
  | Some (b, g) => if mem g rewriter_grans then b else field
  | None => field
  end.

Inductive field_kind := KMetric | KDim.
(* a resolved reference "model.field" (or a bare graph-level metric name): metric, dimension or unknown *)
Definition classify_ref (g : rgraph) (model field : string) : option field_kind :=
  let base := base_field field in
  if mem (model ++ "." ++ base) (rg_metrics g) then Some KMetric
  else match find_rm (rg_models g) model with
       | None => None                                 (* graph.get_model raises KeyError *)
       | Some m => if mem base (rm_metrics m) then Some KMetric else if mem base (rm_dims m) then Some KDim else None
       end.

Definition inferred (s : sel) : option string := match s_from s with FromTable n => Some n | _ => None end.

(* one projection: None = rejected *)
Definition extract_proj (g : rgraph) (inf : option string) (p : proj) : option (list string * list string * list (string * string)) :=
  match p with
  | PStar =>
      match inf with
      | None => None
      | Some t => if String.eqb t "metrics" then None
                  else match find_rm (rg_models g) t with
                       | Some m => Some (map (fun x => t ++ "." ++ x) (rm_metrics m), map (fun x => t ++ "." ++ x) (rm_dims m), [])
                       | None => None end
      end
  | PLiteral | PFunc => None
  | PCol table name alias =>
      let ref :=
        match table with
        | Some t => Some (Some t, name)
        | None => match inf with
                  | None => None
                  | Some t => if String.eqb t "metrics" then (if mem name (rg_metrics g) then Some (None, name) else None) else Some (Some t, name)
                  end
        end in
      match ref with
      | None => None
      | Some (None, n) => Some ([n], [], match alias with Some a => [(n, a)] | None => [] end)
      | Some (Some t, n) =>
          let r := t ++ "." ++ n in
          let al := match alias with Some a => [(r, a)] | None => [] end in
          match classify_ref g t n with
          | Some KMetric => Some ([r], [], al)
          | Some KDim => Some ([], [r], al)
          | None => None
          end
      end
  end.
Fixpoint extract_projs (g : rgraph) (inf : option string) (ps : list proj) : option (list string * list string * list (string * string)) :=
  match ps with
  | [] => Some ([], [], [])
  | p :: r => match extract_proj g inf p, extract_projs g inf r with
              | Some (m1, d1, a1), Some (m2, d2, a2) => Some ((m1 ++ m2)%list, (d1 ++ d2)%list, (a1 ++ a2)%list)
              | _, _ => None end
  end.
(* WHERE: AND is split recursively, an OR stays one filter *)
Fixpoint wtext (w : wexpr) : string :=
  match w with WAtom t => t | WAnd a b => wtext a ++ " AND " ++ wtext b | WOr a b => wtext a ++ " OR " ++ wtext b end.
Fixpoint extract_filters (w : wexpr) : list string :=
  match w with
  | WAnd a b => (extract_filters a ++ extract_filters b)%list
  | WOr _ _ => [wtext w]
  | WAtom t => [t]
  end.

Definition references_model (g : rgraph) (s : sel) : bool :=
  match s_from s with FromTable n => String.eqb n "metrics" || (match find_rm (rg_models g) n with Some _ => true | None => false end) | _ => false end.

Definition rewrite_simple (g : rgraph) (s : sel) : outcome :=
  if s_joins s then Rejected
  else match extract_projs g (inferred s) (s_proj s) with
       | None => Rejected
       | Some (ms, ds, al) =>
           match ms, ds with
           | [], [] => Rejected
           | _, _ => Rewritten {| q_metrics := ms; q_dims := ds; q_filters := match s_where s with Some w => extract_filters w | None => [] end;
                                  q_order := s_order s; q_limit := s_limit s; q_offset := s_offset s; q_aliases := al |}
           end
       end.
(* dispatch of rewrite() for a parsed SELECT (yardstick and multi-statement handling are outside the model) *)
Definition rewrite (g : rgraph) (s : sel) : outcome :=
  match s_from s, s_with s with
  | FromNone, false => if existsb (fun p => match p with PStar => true | _ => false end) (s_proj s) then Rejected else Passthrough
  | _, _ =>
      if s_with s || (match s_from s with FromSubquery => true | _ => false end) then Nested
      else if negb (references_model g s) then Passthrough
      else rewrite_simple g s
  end.

(* ---------- renderings of a structured query ---------- *)
(* a field of the structured query: model, field (possibly with __granularity), optional alias *)
Record fieldref := { f_model : string; f_field : string; f_alias : option string }.
Definition fref (f : fieldref) : string := f_model f ++ "." ++ f_field f.
Fixpoint and_tree (fs : list string) : option wexpr :=
  match fs with
  | [] => None
  | f :: r => Some (match and_tree r with Some w => WAnd (WAtom f) w | None => WAtom f end)
  end.
(* every field written model.field; FROM <table> is the first model, or the virtual table "metrics" *)
Definition render_qualified (table : string) (fields : list fieldref) (filters order : list string) (limit offset : option nat) : sel :=
  {| s_proj := map (fun f => PCol (Some (f_model f)) (f_field f) (f_alias f)) fields; s_from := FromTable table; s_joins := false;
     s_where := and_tree filters; s_order := order; s_limit := limit; s_offset := offset; s_with := false |}.
(* single-model query written without qualification *)
Definition render_unqualified (model : string) (fields : list fieldref) (filters order : list string) (limit offset : option nat) : sel :=
  {| s_proj := map (fun f => PCol None (f_field f) (f_alias f)) fields; s_from := FromTable model; s_joins := false;
     s_where := and_tree filters; s_order := order; s_limit := limit; s_offset := offset; s_with := false |}.
