(* Shape of the rollup table as PreAggregation.generate_materialization_sql defines it (pre_aggregation.py 111-190): one column DATE_TRUNC(g, time) named
   <time>_<g> when the rollup has a time dimension AND a granularity, one column per known dimension, one column <measure>_raw per known measure holding
   the measure's own aggregate over the bucket -- SUM / COUNT( * ) / COUNT(x) / MIN / MAX, but also AVG, COUNT(DISTINCT) and anything else verbatim --
   grouped by exactly the time and dimension columns.  Gen/Materialize_gen.v holds the shapes of the real statement on scripted rollups.
   This is what Model/Preagg.materialize_p (sum, count, min, max per (bucket, dimension) key) and Model/Refresh.materialize assume.  No proofs here. *)
From Coq Require Import String List Bool Arith.
Import ListNotations.
Open Scope string_scope.

Inductive col := CTime (dim gran : string) | CDim (dim : string) | CAgg (head measure : string).
Definition mem_s (x : string) (l : list string) : bool := existsb (String.eqb x) l.
Fixpoint find_measure (ms : list (string * string * bool)) (n : string) : option (string * bool) :=
  match ms with [] => None | (k, a, s) :: r => if String.eqb k n then Some (a, s) else find_measure r n end.

Fixpoint upper (s : string) : string :=
  match s with
  | EmptyString => EmptyString
  | String c r => let n := Ascii.nat_of_ascii c in String (if (Nat.leb 97 n) && (Nat.leb n 122) then Ascii.ascii_of_nat (n - 32)%nat else c) (upper r)
  end.
(* what the column of a measure stores *)
Definition stored_head (agg : string) (has_sql : bool) : string :=
  if String.eqb agg "count" && negb has_sql then "COUNT*"
  else if String.eqb agg "count_distinct" then "COUNT DISTINCT"
  else upper agg.

Definition columns (dims : list string) (measures : list (string * string * bool))
                   (td gran : option string) (rdims rmeas : list string) : list col :=
  (match td, gran with
   | Some t, Some g => if negb (String.eqb t "") && negb (String.eqb g "") && mem_s t dims then [CTime t g] else []
   | _, _ => [] end) ++
  flat_map (fun d => if mem_s d dims then [CDim d] else []) rdims ++
  flat_map (fun m => match find_measure measures m with Some (a, s) => [CAgg (stored_head a s) m] | None => [] end) rmeas.
Definition is_key (c : col) : bool := match c with CAgg _ _ => false | _ => true end.
Definition col_eqb (a b : col) : bool :=
  match a, b with
  | CTime x y, CTime u v | CAgg x y, CAgg u v => String.eqb x u && String.eqb y v
  | CDim x, CDim u => String.eqb x u
  | _, _ => false end.
Fixpoint cols_eqb (a b : list col) : bool := match a, b with [], [] => true | x :: a', y :: b' => col_eqb x y && cols_eqb a' b' | _, _ => false end.
Fixpoint nats_eqb (a b : list nat) : bool := match a, b with [], [] => true | x :: a', y :: b' => Nat.eqb x y && nats_eqb a' b' | _, _ => false end.
Definition mat_row_ok (dims : list string) (measures : list (string * string * bool))
                      (row : option string * option string * list string * list string * list col * list nat) : bool :=
  let '(td, gran, rdims, rmeas, cols, gb) := row in
  let want := columns dims measures td gran rdims rmeas in
  cols_eqb cols want && nats_eqb gb (seq 1 (length (filter is_key want))).
