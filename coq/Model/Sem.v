(* Executable reference semantics of the SQL fragment the layer generates: values with SQL NULL, three-valued expressions,
   NULL-ignoring aggregates (uninterpreted ones return the bag they are fed), grouping, ordering (NULL smallest), slicing.
   Hand-written; tied to DuckDB by the correspondence checks of C01-C08.  No proofs in this file. *)
From Coq Require Import ZArith String Ascii List Bool.
Require Import V.Base.Calendar.
Import ListNotations.
Open Scope Z_scope.

(* ---------- values ---------- *)
Inductive val := VNull | VInt (z : Z) | VRat (n : Z) (d : positive) | VStr (s : string) | VBool (b : bool).
Definition val_eq_dec : forall a b : val, {a = b} + {a <> b}.
Proof. decide equality; try apply Z.eq_dec; try apply Pos.eq_dec; try apply string_dec; apply bool_dec. Defined.
Definition val_eqb (a b : val) : bool := if val_eq_dec a b then true else false.

Notation row := (list val).
Definition key_eq_dec : forall a b : list val, {a = b} + {a <> b} := list_eq_dec val_eq_dec.
Definition key_eqb (a b : list val) : bool := if key_eq_dec a b then true else false.

Definition is_null (v : val) : bool := match v with VNull => true | _ => false end.
Definition is_true (v : val) : bool := match v with VBool true => true | _ => false end.

(* ---------- expressions (SQL three-valued logic) ---------- *)
Inductive cmp := CEq | CNe | CLt | CLe | CGt | CGe.
Inductive expr :=
| Col (n : nat) | Lit (v : val)
| Add (a b : expr) | Sub (a b : expr) | Mul (a b : expr)
| Cmp (c : cmp) (a b : expr)
| And (a b : expr) | Or (a b : expr) | Not (a : expr) | IsNull (a : expr)
| InList (a : expr) (vs : list val)          (* a IN (v1, ..., vn), literals only *)
| Between (a lo hi : expr)
| Like (a : expr) (pat : string)             (* a LIKE 'pattern' with % and _ wildcards, no escape character *)
| Trunc (g : gran) (a : expr)                (* DATE_TRUNC(g, a) on a timestamp held as microseconds since 1970-01-01 *)
| CaseWhen (c t : expr).                     (* CASE WHEN c THEN t ELSE NULL END *)

Definition arith (f : Z -> Z -> Z) (a b : val) : val :=
  match a, b with VInt x, VInt y => VInt (f x y) | _, _ => VNull end.
Definition cmp_of (c : cmp) (o : comparison) : bool :=
  match c, o with
  | CEq, Eq | CNe, Lt | CNe, Gt | CLt, Lt | CLe, Lt | CLe, Eq | CGt, Gt | CGe, Gt | CGe, Eq => true
  | _, _ => false end.
Definition compare_val (c : cmp) (a b : val) : val :=
  match a, b with
  | VInt x, VInt y => VBool (cmp_of c (Z.compare x y))
  | VStr x, VStr y => VBool (cmp_of c (String.compare x y))
  | VBool x, VBool y => VBool (cmp_of c (Nat.compare (if x then 1 else 0) (if y then 1 else 0)))
  | _, _ => VNull
  end.
Definition and3 (a b : val) : val :=
  match a, b with
  | VBool false, _ | _, VBool false => VBool false
  | VBool true, VBool true => VBool true
  | _, _ => VNull end.
Definition or3 (a b : val) : val :=
  match a, b with
  | VBool true, _ | _, VBool true => VBool true
  | VBool false, VBool false => VBool false
  | _, _ => VNull end.
Definition not3 (a : val) : val := match a with VBool b => VBool (negb b) | _ => VNull end.

Fixpoint like_match (p s : string) : bool :=
  match p with
  | EmptyString => match s with EmptyString => true | _ => false end
  | String c p' =>
      if Ascii.eqb c "%"%char then
        (fix any (s0 : string) : bool := like_match p' s0 || match s0 with EmptyString => false | String _ s1 => any s1 end) s
      else match s with
           | EmptyString => false
           | String d s' => (Ascii.eqb c "_"%char || Ascii.eqb c d) && like_match p' s'
           end
  end.

Fixpoint eval (r : row) (e : expr) : val :=
  match e with
  | Col n => nth n r VNull
  | Lit v => v
  | Add a b => arith Z.add (eval r a) (eval r b)
  | Sub a b => arith Z.sub (eval r a) (eval r b)
  | Mul a b => arith Z.mul (eval r a) (eval r b)
  | Cmp c a b => compare_val c (eval r a) (eval r b)
  | And a b => and3 (eval r a) (eval r b)
  | Or a b => or3 (eval r a) (eval r b)
  | Not a => not3 (eval r a)
  | IsNull a => VBool (is_null (eval r a))
  | InList a vs => fold_right (fun v acc => or3 (compare_val CEq (eval r a) v) acc) (VBool false) vs
  | Between a lo hi => and3 (compare_val CGe (eval r a) (eval r lo)) (compare_val CLe (eval r a) (eval r hi))
  | Like a pat => match eval r a with VStr s => VBool (like_match pat s) | _ => VNull end
  | Trunc g a => match eval r a with VInt t => VInt (trunc g t) | _ => VNull end
  | CaseWhen c t => if is_true (eval r c) then eval r t else VNull
  end.

Definition holds (r : row) (e : expr) : bool := is_true (eval r e).      (* WHERE keeps a row only when the predicate is TRUE *)
Definition all_hold (fs : list expr) (r : row) : bool := forallb (holds r) fs.

(* ---------- aggregates over a column of values (NULLs ignored) ---------- *)
Inductive agg := ASum | ACount | ACountDistinct | AAvg | AMin | AMax | AOther (name : string).

Definition non_null (vs : list val) : list val := filter (fun v => negb (is_null v)) vs.
Definition ints (vs : list val) : list Z := flat_map (fun v => match v with VInt z => [z] | _ => [] end) vs.
Definition zsum (zs : list Z) : Z := fold_right Z.add 0 zs.
Definition nodup_vals (vs : list val) : list val := nodup val_eq_dec vs.
(* uninterpreted aggregates (median, stddev, variance, ...) return the bag they are applied to *)
Inductive result := RVal (v : val) | RBag (name : string) (vs : list val).

Definition apply_agg (a : agg) (col : list val) : result :=
  let vs := non_null col in
  match a with
  | ASum => RVal (match vs with [] => VNull | _ => VInt (zsum (ints vs)) end)
  | ACount => RVal (VInt (Z.of_nat (length vs)))
  | ACountDistinct => RVal (VInt (Z.of_nat (length (nodup_vals vs))))
  | AAvg => RVal (match vs with [] => VNull | _ => VRat (zsum (ints vs)) (Pos.of_nat (length vs)) end)
  | AMin => RVal (match ints vs with [] => VNull | z :: zs => VInt (fold_right Z.min z zs) end)
  | AMax => RVal (match ints vs with [] => VNull | z :: zs => VInt (fold_right Z.max z zs) end)
  | AOther n => RBag n vs
  end.

(* ---------- grouping: distinct keys in first-occurrence order; NULLs group together ---------- *)
Fixpoint first_occ (ks : list (list val)) : list (list val) :=
  match ks with
  | [] => []
  | k :: r => k :: filter (fun k' => negb (key_eqb k' k)) (first_occ r)
  end.
Definition groups {A} (kf : A -> list val) (l : list A) : list (list val * list A) :=
  map (fun k => (k, filter (fun x => key_eqb (kf x) k) l)) (first_occ (map kf l)).

(* ---------- ordering and slicing ----------
   The generator prints ORDER BY through sqlglot, which pins its "NULLs are small" convention explicitly
   (`x NULLS FIRST` for ASC, DuckDB's default NULLS LAST for DESC): NULL is the smallest value. *)
Definition val_cmp (a b : val) : comparison :=
  match a, b with
  | VNull, VNull => Eq | VNull, _ => Lt | _, VNull => Gt
  | VInt x, VInt y => Z.compare x y
  | VStr x, VStr y => String.compare x y
  | VBool x, VBool y => Nat.compare (if x then 1 else 0) (if y then 1 else 0)
  | _, _ => Eq
  end.
(* sort key: (column index, descending?) *)
Definition key_cmp (k : nat * bool) (r1 r2 : row) : comparison :=
  let a := nth (fst k) r1 VNull in let b := nth (fst k) r2 VNull in
  if snd k then CompOpp (val_cmp a b) else val_cmp a b.
Fixpoint keys_cmp (ks : list (nat * bool)) (r1 r2 : row) : comparison :=
  match ks with [] => Eq | k :: r => match key_cmp k r1 r2 with Eq => keys_cmp r r1 r2 | c => c end end.
Fixpoint insert_row (ks : list (nat * bool)) (x : row) (l : list row) : list row :=
  match l with [] => [x] | y :: r => match keys_cmp ks x y with Gt => y :: insert_row ks x r | _ => x :: l end end.
Definition sort_rows (ks : list (nat * bool)) (l : list row) : list row := fold_right (insert_row ks) [] l.   (* stable *)
Definition slice {A} (offset : option nat) (limit : option nat) (l : list A) : list A :=
  let l1 := match offset with Some o => skipn o l | None => l end in
  match limit with Some n => firstn n l1 | None => l1 end.
