(* Generic model of a field-by-field exporter / parser pair (the native YAML adapter, adapters/sidemantic.py) over the TABLES
   that Gen/NativeFields_gen.v extracts from the source on every run: an object is a finite map field -> value, the exported
   document a finite map key -> value.  Also: which fields of which class affect query results, and the decidable criterion
   `field_ok` for "this field survives export -> parse".  No proofs in this file. *)
From Coq Require Import ZArith String List Bool.
Import ListNotations.
Open Scope string_scope.

Inductive pyv := VNone | VBool (b : bool) | VInt (z : Z) | VStr (s : string) | VList (l : list pyv).
Definition truthy (v : pyv) : bool :=
  match v with VNone => false | VBool b => b | VInt z => negb (Z.eqb z 0) | VStr s => negb (String.eqb s "") | VList l => match l with [] => false | _ => true end end.
Fixpoint pyv_eq_dec (a b : pyv) : {a = b} + {a <> b}.
Proof. decide equality; try apply Bool.bool_dec; try apply Z.eq_dec; try apply string_dec. apply (list_eq_dec pyv_eq_dec). Defined.
Definition pyv_eqb (a b : pyv) : bool := if pyv_eq_dec a b then true else false.

(* export: result[key] = obj.attr  under a guard on obj.attr *)
Inductive cond := Always | Truthy | NeConst (c : pyv) | Falsy.
Record erow := { e_key : string; e_attr : string; e_cond : cond }.
Definition E k a c := {| e_key := k; e_attr := a; e_cond := c |}.
(* parse: Cls(field = d.get(k1) or d.get(k2) ... ) / d.get(k, default) *)
Record prow := { p_field : string; p_keys : list string; p_default : pyv }.
Definition P f ks d := {| p_field := f; p_keys := ks; p_default := d |}.

Definition amap := list (string * pyv).
Fixpoint aget (m : amap) (k : string) : option pyv := match m with [] => None | (k', v) :: r => if String.eqb k k' then Some v else aget r k end.
Definition oget (o : amap) (f : string) : pyv := match aget o f with Some v => v | None => VNone end.
Definition holds (c : cond) (v : pyv) : bool :=
  match c with Always => true | Truthy => truthy v | NeConst k => negb (pyv_eqb v k) | Falsy => negb (truthy v) end.
Definition export_obj (et : list erow) (o : amap) : amap :=
  flat_map (fun r => if holds (e_cond r) (oget o (e_attr r)) then [(e_key r, oget o (e_attr r))] else []) et.
(* d.get(k1) or d.get(k2) or ... : the first truthy value, else the last looked-up value; a missing key gives the default *)
Fixpoint lookup_keys (d : amap) (keys : list string) (default : pyv) : pyv :=
  match keys with
  | [] => default
  | [k] => match aget d k with Some v => v | None => default end
  | k :: r => match aget d k with Some v => if truthy v then v else lookup_keys d r default | None => lookup_keys d r default end
  end.
Definition parse_obj (pt : list prow) (d : amap) : amap := map (fun r => (p_field r, lookup_keys d (p_keys r) (p_default r))) pt.

(* ---------- which fields matter ---------- *)
(* fields of each class that change compiled SQL or routing; every other field (description, label, format, metadata, ...)
   is presentation only *)
Definition result_fields : list (string * list string) :=
  [("Graph", ["models"; "metrics"; "parameters"]);
   ("Model", ["name"; "table"; "sql"; "primary_key"; "relationships"; "dimensions"; "metrics"; "segments"; "pre_aggregations"; "default_time_dimension"; "default_grain"]);
   ("Relationship", ["name"; "type"; "foreign_key"; "primary_key"; "through"; "through_foreign_key"; "related_foreign_key"]);
   ("Dimension", ["name"; "type"; "sql"; "granularity"]);
   ("ModelMetric", ["name"; "agg"; "sql"; "type"; "filters"; "fill_nulls_with"; "numerator"; "denominator"; "offset_window"; "window"; "grain_to_date"; "window_expression"; "window_frame";
                    "window_order"; "base_metric"; "comparison_type"; "time_offset"; "calculation"; "entity"; "base_event"; "conversion_event"; "conversion_window"]);
   ("GraphMetric", ["name"; "agg"; "sql"; "type"; "filters"; "fill_nulls_with"; "numerator"; "denominator"; "offset_window"; "window"; "grain_to_date"; "window_expression"; "window_frame";
                    "window_order"; "base_metric"; "comparison_type"; "time_offset"; "calculation"; "entity"; "base_event"; "conversion_event"; "conversion_window"]);
   ("Segment", ["name"; "sql"]);
   ("PreAggregation", ["name"; "type"; "measures"; "dimensions"; "time_dimension"; "granularity"]);
   ("Parameter", ["name"; "type"; "default_value"; "allowed_values"; "default_to_today"])].
(* fields whose FALSY values are meaningful (0 as a fill value): they must be exported whenever they are not None *)
Definition strict_fields : list string := ["fill_nulls_with"].

Definition mem (x : string) (l : list string) : bool := existsb (String.eqb x) l.
Definition find_e (et : list erow) (attr : string) : option erow := find (fun r => String.eqb (e_attr r) attr) et.
Definition find_p (pt : list prow) (f : string) : option prow := find (fun r => String.eqb (p_field r) f) pt.

(* the field survives export -> parse: it is exported under a key the parser reads for that field, and whenever the guard
   drops it the parser's default stands for the dropped value *)
Definition field_ok (et : list erow) (pt : list prow) (f : string) : bool :=
  match find_e et f, find_p pt f with
  | Some e, Some p =>
      match p_keys p with
      | k :: more => String.eqb k (e_key e) &&
                  match e_cond e with
                  | Always => match more with [] => true | _ => false end
                  | Truthy => negb (truthy (p_default p)) && negb (mem f strict_fields) &&
                              forallb (fun k2 => negb (existsb (fun r => String.eqb (e_key r) k2) et)) more     (* alias keys the parser also reads are never written *)
                  | NeConst c => pyv_eqb (p_default p) c && match more with [] => true | _ => false end
                  | Falsy => truthy (p_default p) && match more with [] => true | _ => false end
                  end
      | [] => false
      end
  | _, _ => false
  end.
(* every row of the export table that writes the same key as the field's row is a copy of it (e.g. `metadata` written twice) *)
Definition key_consistent (et : list erow) (f : string) : bool :=
  match find_e et f with
  | Some e => forallb (fun r => negb (String.eqb (e_key r) (e_key e)) || (String.eqb (e_attr r) (e_attr e) && 
                                 match e_cond r, e_cond e with Always, Always | Truthy, Truthy | Falsy, Falsy => true | NeConst a, NeConst b => pyv_eqb a b | _, _ => false end)) et
  | None => false
  end.
(* equality up to the identification of falsy values (None ~ "" ~ [] ~ False) that the guards rely on; strict fields compare exactly *)
Definition equiv (f : string) (a b : pyv) : bool :=
  pyv_eqb a b || (negb (mem f strict_fields) && negb (truthy a) && negb (truthy b)).

Fixpoint alookup {A} (l : list (string * A)) (k : string) : option A := match l with [] => None | (k', v) :: r => if String.eqb k k' then Some v else alookup r k end.
Definition lost_fields (ets : list (string * list erow)) (pts : list (string * list prow)) : list (string * string) :=
  flat_map (fun '(c, fs) =>
     match alookup ets c, alookup pts c with
     | Some et, Some pt => flat_map (fun f => if field_ok et pt f && key_consistent et f then [] else [(c, f)]) fs
     | _, _ => map (fun f => (c, f)) fs
     end) result_fields.
