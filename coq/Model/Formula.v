(* Hand-written model of how the generator composes ratio / derived metrics (generator.py _build_metric_sql 2042-2215):
   formulas are TEXT; a dependency is expanded by replacing its name, as a whole word, by "(" <component SQL> ")" -- one
   dependency after the other, longest name first.  Text is modelled at the granularity at which the code's \bname\b regexes
   match: a token is a maximal run of word characters or one other character.  Next to it: formula trees, their rendering
   and their evaluation over component values (SQL NULL semantics, x / 0 is IEEE inf / nan in DuckDB: an absorbing marker, outside the fragment) -- the reference semantics of C06.
   No proofs in this file. *)
From Coq Require Import ZArith String Ascii List Bool DecimalString.
Require Import V.Model.Sem.
Import ListNotations.
Open Scope string_scope.

(* ---------- token strings ---------- *)
Inductive tok := W (s : string) | O (c : ascii).
Definition word_char (c : ascii) : bool :=
  let n := nat_of_ascii c in
  ((48 <=? n) && (n <=? 57) || (65 <=? n) && (n <=? 90) || (97 <=? n) && (n <=? 122) || (n =? 95))%nat.
(* maximal runs of word characters; `cur` is the run being read, reversed *)
Fixpoint rev_string (s acc : string) : string := match s with EmptyString => acc | String c r => rev_string r (String c acc) end.
Definition flush (cur : string) (k : list tok) : list tok := match cur with EmptyString => k | _ => W (rev_string cur "") :: k end.
Fixpoint tokenize_aux (s cur : string) : list tok :=
  match s with
  | EmptyString => flush cur []
  | String c r => if word_char c then tokenize_aux r (String c cur) else flush cur (O c :: tokenize_aux r "")
  end.
Definition tokenize (s : string) : list tok := tokenize_aux s "".
Definition tok_text (t : tok) : string := match t with W s => s | O c => String c "" end.
Definition untok (l : list tok) : string := String.concat "" (map tok_text l).

(* re.sub(r"\bname\b", repl, text): every occurrence of the word is replaced *)
Definition subst1 (d : string) (r : list tok) (f : list tok) : list tok :=
  flat_map (fun t => match t with W s => if String.eqb s d then r else [t] | _ => [t] end) f.
(* re.sub(r"\bmodel\.name\b", repl, text): the three-token sequence  model . name *)
Fixpoint subst_qualified (m n : string) (r : list tok) (f : list tok) : list tok :=
  match f with
  | W a :: ((O c :: W b :: rest) as tl) =>
      if String.eqb a m && Ascii.eqb c "." && String.eqb b n then r ++ subst_qualified m n r rest else W a :: subst_qualified m n r tl
  | t :: rest => t :: subst_qualified m n r rest
  | [] => []
  end.

(* sequential substitution of unqualified names (the loop of the code) and the simultaneous one (what one means) *)
Fixpoint subst_seq (deps : list (string * list tok)) (f : list tok) : list tok :=
  match deps with [] => f | (d, r) :: rest => subst_seq rest (subst1 d r f) end.
Fixpoint lookup {A} (deps : list (string * A)) (s : string) : option A :=
  match deps with [] => None | (d, r) :: rest => if String.eqb s d then Some r else lookup rest s end.
Definition subst_sim (deps : list (string * list tok)) (f : list tok) : list tok :=
  flat_map (fun t => match t with W s => match lookup deps s with Some r => r | None => [t] end | _ => [t] end) f.
Definition mentions (r : list tok) (d : string) : bool := existsb (fun t => match t with W s => String.eqb s d | _ => false end) r.
(* freshness: no replacement text mentions a dependency name that is substituted later *)
Fixpoint fresh (deps : list (string * list tok)) : bool :=
  match deps with
  | [] => true
  | (d, r) :: rest => forallb (fun '(d', _) => negb (mentions r d')) rest && fresh rest
  end.

(* ---------- _build_metric_sql on text ---------- *)
(* a dependency as the code names it: "model.measure" (qualified) or a graph-level metric name *)
Inductive dep := DQual (m n : string) | DName (n : string).
Definition dep_key (d : dep) : string := match d with DQual m n => m ++ "." ++ n | DName n => n end.
Inductive mdef :=
| MLeaf (sql : list tok)                                   (* a measure with an aggregation: its (filtered) aggregation SQL over the CTE column *)
| MDerived (formula : list tok) (deps : list dep)          (* deps in the order the code walks them: longest name first *)
| MRatio (num den : string)                                (* resolved component keys *)
| MInline (sql : list tok).                                (* expression metric with inline aggregates: used as is *)
Definition paren (l : list tok) : list tok := O "(" :: l ++ [O ")"].
Definition ratio_text (a b : list tok) : list tok :=
  paren a ++ tokenize " / NULLIF(" ++ b ++ tokenize ", 0)".
(* one dependency: the qualified form first, then ALSO the bare measure name (generator.py 2190-2202) *)
Definition subst_dep (d : dep) (r : list tok) (f : list tok) : list tok :=
  match d with
  | DQual m n => subst1 n r (subst_qualified m n r f)
  | DName n => subst1 n r f
  end.
(* _wrap_with_fill_nulls: COALESCE(<sql>, k) *)
Definition fill_nulls (k : string) (l : list tok) : list tok := tokenize "COALESCE(" ++ l ++ tokenize (", " ++ k ++ ")").
(* a COMPONENT contributes the value it has on its own, i.e. with its fill_nulls_with applied (fills: key -> literal text) *)
Definition with_fill (fills : list (string * string)) (key : string) (l : list tok) : list tok :=
  match lookup fills key with Some k => fill_nulls k l | None => l end.
Fixpoint build (fuel : nat) (env : list (string * mdef)) (fills : list (string * string)) (key : string) : option (list tok) :=
  match fuel with
  | 0%nat => None
  | S fu =>
      let comp := fun k => option_map (with_fill fills k) (build fu env fills k) in
      match lookup env key with
      | Some (MLeaf sql) | Some (MInline sql) => Some sql
      | Some (MRatio n d) => match comp n, comp d with Some a, Some b => Some (ratio_text a b) | _, _ => None end
      | Some (MDerived formula deps) =>
          fold_left (fun acc d => match acc, comp (dep_key d) with
                                  | Some f, Some r => Some (subst_dep d (paren r) f) | _, _ => None end) deps (Some formula)
      | None => None
      end
  end.

(* ---------- formula trees ---------- *)
Inductive fexpr :=
| FNum (z : Z) | FRef (name : string) | FParen (a : fexpr)
| FAdd (a b : fexpr) | FSub (a b : fexpr) | FMul (a b : fexpr) | FDiv (a b : fexpr)
| FNullIf (a b : fexpr) | FCoalesce (a b : fexpr)
| FCase (c : cmp) (x y t e : fexpr).                       (* CASE WHEN x <c> y THEN t ELSE e END *)

(* exact arithmetic on SQL numerics: integers and un-normalised fractions; anything else is NULL *)
Definition as_q (v : val) : option (Z * positive) := match v with VInt z => Some (z, 1%positive) | VRat n d => Some (n, d) | _ => None end.
Definition qval (n : Z) (d : positive) : val := if Pos.eqb d 1 then VInt n else VRat n d.
(* DuckDB evaluates x / 0 in IEEE arithmetic (inf / nan).  Such values are outside the modelled fragment: they are represented
   by one absorbing marker, and nothing is claimed about rows whose reference value is the marker. *)
Definition special : val := VStr "inf-or-nan".
Definition is_special (v : val) : bool := match v with VStr _ => true | _ => false end.
Definition qbin (f : Z * positive -> Z * positive -> val) (a b : val) : val :=
  match a, b with
  | VNull, _ | _, VNull => VNull
  | _, _ => if is_special a || is_special b then special
            else match as_q a, as_q b with Some x, Some y => f x y | _, _ => VNull end
  end.
Open Scope Z_scope.
Definition qadd := qbin (fun '(a, b) '(c, d) => qval (a * Zpos d + c * Zpos b) (b * d)).
Definition qsub := qbin (fun '(a, b) '(c, d) => qval (a * Zpos d - c * Zpos b) (b * d)).
Definition qmul := qbin (fun '(a, b) '(c, d) => qval (a * c) (b * d)).
Definition qdiv := qbin (fun '(a, b) '(c, d) =>
  if c =? 0 then special else if 0 <? c then qval (a * Zpos d) (b * Z.to_pos c) else qval (- (a * Zpos d)) (b * Z.to_pos (- c))).
Definition qcmp (a b : val) : option comparison :=
  match as_q a, as_q b with Some (x, p), Some (y, q) => Some (Z.compare (x * Zpos q) (y * Zpos p)) | _, _ => None end.
Definition nullif (a b : val) : val := if is_special a || is_special b then special else match qcmp a b with Some Eq => VNull | _ => a end.
Definition coalesce (a b : val) : val := match a with VNull => b | _ => a end.
Close Scope Z_scope.

Fixpoint feval (env : string -> val) (f : fexpr) : val :=
  match f with
  | FNum z => VInt z
  | FRef n => env n
  | FParen a => feval env a
  | FAdd a b => qadd (feval env a) (feval env b)
  | FSub a b => qsub (feval env a) (feval env b)
  | FMul a b => qmul (feval env a) (feval env b)
  | FDiv a b => qdiv (feval env a) (feval env b)
  | FNullIf a b => nullif (feval env a) (feval env b)
  | FCoalesce a b => coalesce (feval env a) (feval env b)
  | FCase c x y t e => if is_special (feval env x) || is_special (feval env y) then special
                       else match qcmp (feval env x) (feval env y) with
                            | Some o => if cmp_of c o then feval env t else feval env e
                            | None => feval env e end
  end.
(* replacing component references by (parenthesised) component formulas *)
Fixpoint asubst (rho : list (string * fexpr)) (f : fexpr) : fexpr :=
  match f with
  | FNum z => FNum z
  | FRef n => match lookup rho n with Some e => FParen e | None => FRef n end
  | FParen a => FParen (asubst rho a)
  | FAdd a b => FAdd (asubst rho a) (asubst rho b) | FSub a b => FSub (asubst rho a) (asubst rho b)
  | FMul a b => FMul (asubst rho a) (asubst rho b) | FDiv a b => FDiv (asubst rho a) (asubst rho b)
  | FNullIf a b => FNullIf (asubst rho a) (asubst rho b) | FCoalesce a b => FCoalesce (asubst rho a) (asubst rho b)
  | FCase c x y t e => FCase c (asubst rho x) (asubst rho y) (asubst rho t) (asubst rho e)
  end.
Definition ratio_f (num den : fexpr) : fexpr := FDiv (FParen num) (FNullIf den (FNum 0)).
Definition fill_f (k : Z) (f : fexpr) : fexpr := FCoalesce f (FNum k).

(* rendering: numbers and reference names are single words; every other word is a keyword *)
Definition num_word (z : Z) : list tok :=
  let digits := fun n => W (NilZero.string_of_uint (N.to_uint (Z.to_N n))) in
  if (z <? 0)%Z then [O "("; O "-"; digits (- z)%Z; O ")"] else [digits z].
Definition cmp_toks (c : cmp) : list tok :=
  match c with CEq => [O "="] | CNe => [O "<"; O ">"] | CLt => [O "<"] | CLe => [O "<"; O "="] | CGt => [O ">"] | CGe => [O ">"; O "="] end.
Definition sp : tok := O " ".
Fixpoint render (f : fexpr) : list tok :=
  match f with
  | FNum z => num_word z
  | FRef n => [W n]
  | FParen a => paren (render a)
  | FAdd a b => render a ++ [sp; O "+"; sp] ++ render b
  | FSub a b => render a ++ [sp; O "-"; sp] ++ render b
  | FMul a b => render a ++ [sp; O "*"; sp] ++ render b
  | FDiv a b => render a ++ [sp; O "/"; sp] ++ render b
  | FNullIf a b => [W "NULLIF"; O "("] ++ render a ++ [O ","; sp] ++ render b ++ [O ")"]
  | FCoalesce a b => [W "COALESCE"; O "("] ++ render a ++ [O ","; sp] ++ render b ++ [O ")"]
  | FCase c x y t e => [W "CASE"; sp; W "WHEN"; sp] ++ render x ++ [sp] ++ cmp_toks c ++ [sp] ++ render y ++ [sp; W "THEN"; sp] ++ render t ++
                       [sp; W "ELSE"; sp] ++ render e ++ [sp; W "END"]
  end.
Definition keywords : list string := ["NULLIF"; "COALESCE"; "CASE"; "WHEN"; "THEN"; "ELSE"; "END"].
Definition all_digits (s : string) : bool :=
  (fix go (s : string) := match s with EmptyString => true | String c r => (let n := nat_of_ascii c in (48 <=? n) && (n <=? 57))%nat && go r end) s.
(* component names are identifiers: not a keyword of the formula language, not a numeral *)
Definition names_ok {A} (rho : list (string * A)) : bool :=
  forallb (fun '(d, _) => negb (existsb (String.eqb d) keywords) && negb (all_digits d)) rho.
