(* Which writes of the query path the models account for.  Gen/Effects_gen.v lists, regenerated from the source on every run
   (translator/gen_effects.py), every place where code reachable from compile / explain / query / sql / generate / rewrite / the rollup matcher
   may write something that outlives the call: attributes and items of objects reached from `self` (generator, graph, registered definitions),
   module-level containers, functools caches, and the caller's own argument lists.  A write is ACCOUNTED FOR when it is a write of the state the
   concurrency / history model (Model/Conc.v: the adjacency cache and its dirty flag) describes, or is local to one call for the stated reason. *)
From Coq Require Import String List Bool.
Import ListNotations.
Open Scope string_scope.

Definition effect := (string * string * string)%type.     (* function, kind, target *)

Definition eff_eqb (a b : effect) : bool :=
  String.eqb (fst (fst a)) (fst (fst b)) && String.eqb (snd (fst a)) (snd (fst b)) && String.eqb (snd a) (snd b).

(* the state of Model/Conc.v: `Publish` and `SetFlag` of the adjacency program (Gen/AdjProg_gen.v) *)
Definition modelled_writes : list effect :=
  [ ("sidemantic/core/semantic_graph.py:SemanticGraph.build_adjacency", "store", "self._adjacency");
    ("sidemantic/core/semantic_graph.py:SemanticGraph.find_relationship_path", "store", "self._adjacency_dirty") ].

(* call-local: nothing of it can be read by a later call
   - QueryRewriter.inferred_table is assigned from the statement at the top of _rewrite_simple_query, before its only readers
     (_extract_metrics_and_dimensions / _resolve_column, called below it) run: a scratch field of the current rewrite;
   - validation._valid_measure_aggs takes no argument and returns the aggregation literals of Metric.agg: a constant. *)
Definition call_local_writes : list effect :=
  [ ("sidemantic/sql/query_rewriter.py:QueryRewriter._rewrite_simple_query", "store", "self.inferred_table");
    ("sidemantic/validation.py:_valid_measure_aggs", "decorator", "lru_cache") ].

Definition accounted (e : effect) : bool := existsb (eff_eqb e) (modelled_writes ++ call_local_writes).
Definition effects_closed (l : list effect) : bool := forallb accounted l.
