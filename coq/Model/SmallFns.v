(* Hand-written models of four small text-building methods of SQLGenerator.  Gen/Small_gen.v holds what the real methods return on scripted
   inputs (regenerated on every run by executing their ASTs); Props ties the two on every row.  No proofs here. *)
From Coq Require Import String Ascii List Bool Arith.
Require Import V.Model.Valid V.Model.Required.
Import ListNotations.
Open Scope string_scope.

(* ---- _join_conjuncts: a condition whose top-level operator is OR is parenthesised, then everything is joined with AND *)
Inductive ckind := KOr | KOther | KUnparsable.
Definition paren (c : string * ckind) : string := match snd c with KOr => "(" ++ fst c ++ ")" | _ => fst c end.
Definition join_conjuncts (l : list (string * ckind)) : string := String.concat " AND " (map paren l).

(* ---- _wrap_with_fill_nulls: COALESCE(<expr>, <literal>); a text value is quoted with its quotes doubled, anything else is printed *)
Inductive fillv := FNone | FText (printed : string) | FStr (s : string).
Fixpoint double_quotes (s : string) : string :=
  match s with
  | EmptyString => EmptyString
  | String c r => if Ascii.eqb c "'"%char then String c (String c (double_quotes r)) else String c (double_quotes r)
  end.
Definition wrap_fill (e : string) (f : fillv) : string :=
  match f with
  | FNone => e
  | FText t => "COALESCE(" ++ e ++ ", " ++ t ++ ")"
  | FStr s => "COALESCE(" ++ e ++ ", '" ++ double_quotes s ++ "')"
  end.

(* ---- _parse_dimension_refs: split at the LAST "__" (str.rsplit("__", 1)) *)
Definition parse_dimref (d : string) : string * option string :=
  match last_dunder_prefix "" d None with
  | Some p => (p, Some (substring (String.length p + 2) (String.length d - String.length p - 2) d))
  | None => (d, None)
  end.

(* ---- _build_measure_aggregation_sql: the aggregate over the raw column the model CTE projects for the measure *)
Definition is_alpha_ (c : ascii) : bool :=
  let n := nat_of_ascii c in (Nat.leb 65 n && Nat.leb n 90) || (Nat.leb 97 n && Nat.leb n 122) || Nat.eqb n 95.
Definition is_alnum_ (c : ascii) : bool := is_alpha_ c || (let n := nat_of_ascii c in Nat.leb 48 n && Nat.leb n 57).
Fixpoint all_chars (p : ascii -> bool) (s : string) : bool := match s with EmptyString => true | String c r => p c && all_chars p r end.
Definition simple_identifier (s : string) : bool :=
  match s with EmptyString => false | String c r => is_alpha_ c && all_chars is_alnum_ r end.
Fixpoint double_dquotes (s : string) : string :=
  match s with
  | EmptyString => EmptyString
  | String c r => if Ascii.eqb c (ascii_of_nat 34) then String c (String c (double_dquotes r)) else String c (double_dquotes r)
  end.
Definition dq : string := String (ascii_of_nat 34) EmptyString.
Definition quote_identifier (s : string) : string := if simple_identifier s then s else dq ++ double_dquotes s ++ dq.
Definition upper_char (c : ascii) : ascii := let n := nat_of_ascii c in if Nat.leb 97 n && Nat.leb n 122 then ascii_of_nat (n - 32) else c.
Fixpoint upper (s : string) : string := match s with EmptyString => EmptyString | String c r => String (upper_char c) (upper r) end.
Definition cte_ref (model col : string) : string := quote_identifier (model ++ "_cte") ++ "." ++ quote_identifier col.
Definition agg_sql (agg model measure : string) : string :=
  let raw := cte_ref model (measure ++ "_raw") in
  let a := upper agg in
  if String.eqb a "COUNT_DISTINCT" then "COUNT(DISTINCT " ++ raw ++ ")" else a ++ "(" ++ raw ++ ")".

(* ---- row checks against the regenerated tables *)
Definition conj_row_ok (r : list (string * ckind) * string) : bool := String.eqb (join_conjuncts (fst r)) (snd r).
Definition fill_row_ok (r : string * fillv * string) : bool := let '(e, f, res) := r in String.eqb (wrap_fill e f) res.
Definition opt_s_eqb (a b : option string) : bool := match a, b with Some x, Some y => String.eqb x y | None, None => true | _, _ => false end.
Definition dimref_row_ok (r : string * (string * option string)) : bool :=
  let '(d, (p, g)) := r in let '(p', g') := parse_dimref d in String.eqb p p' && opt_s_eqb g g'.
Definition aggsql_row_ok (r : string * string * string * string) : bool := let '(a, m, n, res) := r in String.eqb (agg_sql a m n) res.
