(* Hand-written model of SQLGenerator._try_use_preaggregation: what reaches the rollup matcher, when the method gives up, which granularities are re-checked
   on the matched rollup.  The matcher is a parameter: `find` = does it return a rollup for the granularity it is asked about, `serves` = the granularities
   the returned rollup can answer (can_satisfy_query with the same names and filters).  Gen/TryRoute_gen.v holds what the real method does on scripted
   scenarios.  No proofs here. *)
From Coq Require Import String List Bool.
Require Import V.Model.Valid.
Import ListNotations.
Open Scope string_scope.

(* text after the FIRST dot (ref.split(".", 1)[1]); the whole text when there is none *)
Fixpoint after_dot (s : string) : option string :=
  match s with
  | EmptyString => None
  | String c r => if Ascii.eqb c (Ascii.ascii_of_nat 46) then Some r else after_dot r
  end.
Definition strip_model (s : string) : string := match after_dot s with Some r => r | None => s end.

Definition mem_s (x : string) (l : list string) : bool := existsb (String.eqb x) l.
Fixpoint grans_of (dims : list (string * option string)) (seen : list string) : list string :=    (* every requested granularity once, in order of first appearance *)
  match dims with
  | [] => []
  | (_, Some g) :: r => if mem_s g seen then grans_of r seen else g :: grans_of r (g :: seen)
  | (_, None) :: r => grans_of r seen
  end.
Fixpoint last_gran (dims : list (string * option string)) (cur : option string) : option string :=
  match dims with [] => cur | (_, Some g) :: r => last_gran r (Some g) | (_, None) :: r => last_gran r cur end.
Definition opt_is (o : option string) (g : string) : bool := match o with Some x => String.eqb x g | None => false end.

(* the re-check loop: every requested granularity other than the one the matcher was asked about, until the first the rollup cannot serve *)
Fixpoint recheck (asked : option string) (req serves : list string) : bool * list string :=
  match req with
  | [] => (true, [])
  | g :: r => if opt_is asked g then recheck asked r serves
              else if mem_s g serves then (let '(ok, l) := recheck asked r serves in (ok, g :: l)) else (false, [g])
  end.

Definition strip_filter (model f : string) : string := py_remove (model ++ "_cte.") (py_remove (model ++ ".") f).

Definition ask := (list string * list string * option string * list string)%type.      (* metric names, dimension names, granularity, filter texts *)
Definition try_route (model : string) (is_time : string -> bool) (has_rollups : bool) (dims : list (string * option string)) (mets : list string)
                     (filters : option (list string)) (find : bool) (serves : list string) : bool * option ask * list string :=
  if negb has_rollups then (false, None, [])
  else if existsb (fun d => match snd d with None => is_time (strip_model (fst d)) | Some _ => false end) dims then (false, None, [])   (* a bare time dimension *)
  else
    let asked := last_gran dims None in
    let a : ask := (map strip_model mets, map (fun d => strip_model (fst d)) dims, asked, map (strip_filter model) (match filters with Some l => l | None => [] end)) in
    if negb find then (false, Some a, [])
    else let '(ok, l) := recheck asked (grans_of dims []) serves in (ok, Some a, l).

(* ---- row check against the regenerated table *)
Fixpoint strs_eqb (a b : list string) : bool := match a, b with [], [] => true | x :: a', y :: b' => String.eqb x y && strs_eqb a' b' | _, _ => false end.
Definition opt_eqb_s (a b : option string) : bool := match a, b with Some x, Some y => String.eqb x y | None, None => true | _, _ => false end.
Definition ask_eqb (a b : option ask) : bool :=
  match a, b with
  | None, None => true
  | Some (m1, d1, g1, f1), Some (m2, d2, g2, f2) => strs_eqb m1 m2 && strs_eqb d1 d2 && opt_eqb_s g1 g2 && strs_eqb f1 f2
  | _, _ => false
  end.
Definition tryroute_row_ok (row : bool * list (string * option string) * list string * option (list string) * bool * list string *
                                  (bool * option ask * list string)) : bool :=
  let '(hp, dims, mets, filters, find, serves, (routed, a, re)) := row in
  let '(routed', a', re') := try_route "ev" (String.eqb "ts") hp dims mets filters find serves in
  Bool.eqb routed routed' && ask_eqb a a' && strs_eqb re re'.
