(* Hand-written model of the STRUCTURE of the statement SQLGenerator._generate_with_preaggregation builds (the multi-fact form): which sub-queries, which output columns,
   which joins on which columns, where filters / ORDER BY / LIMIT / OFFSET go.  Gen/MultiFactShape_gen.v holds what the real method builds on scripted queries.
   The scripted environment writes a row filter of model m as "R:<m>:<text>", a resolved segment of model m as "SEG:<m>:<reference>", anything else stays on the outer
   query.  No proofs here. *)
From Coq Require Import String Ascii List Bool Arith DecimalString.
Require Import V.Base.PyLib V.Model.Valid V.Model.Plan V.Model.Required V.Model.SmallFns V.Model.TryRoute.
Import ListNotations.
Open Scope string_scope.

Definition mf_input := (list string * list string * option (list string) * list string * list string * option nat * option nat)%type.
Inductive mf_shape :=
| Fallback
| Shape (ctes : list string) (subs : list (list string * list string * list string)) (selects : list (bool * list string * string)) (first : string)
        (joins : list (bool * string * list string)) (where_ order_ limit_ offset_ : option string).

Definition graph_models : list string := ["a"; "b"; "c"; "x"].                  (* the scripted graph, in name order *)
Definition has_dot (s : string) : bool := match before_dot s with Some _ => true | None => false end.
Definition model_of (s : string) : string := match before_dot s with Some m => m | None => s end.
Definition field_of (s : string) : string := strip_model s.
Definition metric_models_of (ms : list string) : list string := dedupe (map model_of (filter has_dot ms)) [].

(* column of a dimension reference in the sub-queries: <name>__<gran> or <name> *)
Definition dim_col (d : string) : string :=
  let '(p, g) := parse_dimref d in
  let n := match after_dot p with Some r => (match before_dot r with Some x => x | None => r end) | None => p end in      (* dim_ref.split(".")[1] *)
  match g with Some gr => n ++ "__" ++ gr | None => n end.

(* the scripted classification *)
Definition starts (p s : string) : bool := starts_with p s.
Definition tagged_model (f : string) : option string :=
  if starts "R:" f then before_dot_from "" (String.substring 2 (String.length f) f) else
  if starts "SEG:" f then before_dot_from "" (String.substring 4 (String.length f) f) else None.
(* text up to the next ":" *)
Fixpoint upto_colon (acc s : string) : string :=
  match s with EmptyString => acc | String c r => if Ascii.eqb c ":"%char then acc else upto_colon (acc ++ String c EmptyString) r end.
Definition row_filter_model (f : string) : option string :=
  let m := if starts "R:" f then Some (upto_colon "" (String.substring 2 (String.length f) f))
           else if starts "SEG:" f then Some (upto_colon "" (String.substring 4 (String.length f) f)) else None in
  match m with Some x => if mem_s x graph_models then Some x else None | None => None end.
Definition seg_filter (s : string) : string := "SEG:" ++ model_of s ++ ":" ++ s.

Definition nat_s (n : nat) : string := NilEmpty.string_of_uint (Nat.to_uint n).

Definition mf_build (inp : mf_input) (aliases : list (string * string)) : mf_shape :=
  let '(metrics, dims, filters, segments, order_by, limit, offset) := inp in
  let mm := metric_models_of metrics in
  if Nat.ltb (length mm) 2 then Fallback else
  let all_filters := ((match filters with Some l => l | None => [] end) ++ map seg_filter segments)%list in
  (* every row filter goes to every sub-query, model by model in name order; the others stay outside *)
  let rowf := flat_map (fun m => filter (fun f => match row_filter_model f with Some x => String.eqb x m | None => false end) all_filters) graph_models in
  let outer := filter (fun f => match row_filter_model f with Some _ => false | None => true end) all_filters in
  let ctes := map (fun m => m ++ "_preagg") mm in
  let subs := map (fun m => (filter (fun x => has_dot x && String.eqb (model_of x) m) metrics, dims, rowf)) mm in
  let alias_of := fun k d => match assoc_get aliases k with Some a => a | None => d end in
  let dim_sel := map (fun d => (true, map (fun c => c ++ "." ++ dim_col d) ctes, alias_of d (dim_col d))) dims in
  let names := map field_of (filter has_dot metrics) in
  let met_sel := flat_map (fun m => map (fun x => let n := field_of x in
                                          (false, [m ++ "_preagg." ++ n],
                                           match assoc_get aliases x with Some a => a
                                           | None => if Nat.ltb 1 (length (filter (String.eqb n) names)) then m ++ "_" ++ n else n end))
                                        (filter (fun x => has_dot x && String.eqb (model_of x) m) metrics)) mm in
  let first := match ctes with c :: _ => c | [] => "" end in
  let joins := map (fun c => match dims with
                             | [] => (false, c, [])
                             | _ => (true, c, map (fun d => first ++ "." ++ dim_col d ++ "=" ++ c ++ "." ++ dim_col d) dims) end) (tl ctes) in
  Shape ctes subs (dim_sel ++ met_sel)%list first joins
        (match outer with [] => None | _ => Some (String.concat " AND " outer) end)
        (match order_by with [] => None | _ => Some (String.concat ", " (map strip_model order_by)) end)
        (option_map nat_s limit)
        (match offset with Some O => None | Some n => Some (nat_s n) | None => None end).
