(* Hand-written model of SQLGenerator._apply_default_time_dimensions (generator.py 112-165) on parsed references, and of the
   granularity part of validation.validate_query (240-329).  No proofs here. *)
From Coq Require Import String List Bool.
Import ListNotations.
Open Scope string_scope.

Record tdim := { td_name : string; td_is_time : bool }.
Record tmodel := { tm_name : string; tm_dims : list tdim; tm_default : option string; tm_grain : option string }.
(* a requested dimension  model.dim[__gran] ; a requested metric: Some model for  model.x , None for a graph-level name *)
Record dref := { dr_model : string; dr_dim : string; dr_gran : option string }.

Fixpoint find_tm (ms : list tmodel) (n : string) : option tmodel :=
  match ms with [] => None | m :: r => if String.eqb (tm_name m) n then Some m else find_tm r n end.
Definition is_time_dim (m : tmodel) (d : string) : bool := existsb (fun x => String.eqb (td_name x) d && td_is_time x) (tm_dims m).
Definition opt_eqb (a b : option string) : bool := match a, b with Some x, Some y => String.eqb x y | None, None => true | _, _ => false end.
Definition dref_eqb (a b : dref) : bool := String.eqb (dr_model a) (dr_model b) && String.eqb (dr_dim a) (dr_dim b) && opt_eqb (dr_gran a) (dr_gran b).
Definition mem_s (x : string) (l : list string) : bool := existsb (String.eqb x) l.

(* models that already have a time dimension among the requested dimensions *)
Definition models_with_time (ms : list tmodel) (dims : list dref) : list string :=
  flat_map (fun d => match find_tm ms (dr_model d) with Some m => if is_time_dim m (dr_dim d) then [dr_model d] else [] | None => [] end) dims.

Fixpoint add_defaults (ms : list tmodel) (dims : list dref) (metric_models : list string)
                      (with_time checked : list string) (added : list dref) : list dref :=
  match metric_models with
  | [] => added
  | mn :: r =>
      if mem_s mn checked then add_defaults ms dims r with_time checked added
      else match find_tm ms mn with
           | Some m =>
               match tm_default m with
               | Some d =>
                   if mem_s mn with_time then add_defaults ms dims r with_time (mn :: checked) added
                   else let ref := {| dr_model := mn; dr_dim := d; dr_gran := tm_grain m |} in
                        let added' := if existsb (dref_eqb ref) dims || existsb (dref_eqb ref) added then added else (added ++ [ref])%list in
                        add_defaults ms dims r (mn :: with_time) (mn :: checked) added'
               | None => add_defaults ms dims r with_time (mn :: checked) added
               end
           | None => add_defaults ms dims r with_time (mn :: checked) added
           end
  end.
(* metrics: Some model for a dotted reference, None for a graph-level metric name (skipped) *)
Definition apply_defaults (ms : list tmodel) (metrics : list (option string)) (dims : list dref) : list dref :=
  (dims ++ add_defaults ms dims (flat_map (fun o => match o with Some m => [m] | None => [] end) metrics) (models_with_time ms dims) [] [])%list.

Definition drefs_eqb (a b : list dref) : bool := Nat.eqb (length a) (length b) && forallb (fun p => dref_eqb (fst p) (snd p)) (combine a b).

(* validate_query, granularity part (after the repair): the suffix must be one of the six names and the field a time dimension *)
Definition gran_names : list string := ["hour"; "day"; "week"; "month"; "quarter"; "year"].
Definition gran_errors (ms : list tmodel) (d : dref) : nat :=
  match dr_gran d with
  | None => 0
  | Some g => (if mem_s g gran_names then 0 else 1) +
              match find_tm ms (dr_model d) with
              | Some m => if existsb (fun x => String.eqb (td_name x) (dr_dim d)) (tm_dims m) && negb (is_time_dim m (dr_dim d)) then 1 else 0
              | None => 0 end
  end.
