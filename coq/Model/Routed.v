(* Hand-written model of the statement SQLGenerator._generate_from_preaggregation builds to answer a query from a rollup table.  Gen/Routed_gen.v holds what the real
   method builds on scripted queries (DATE_TRUNC printed as TRUNC(<gran>,<col>), a rewritten filter as RW(<filter>)).  No proofs here. *)
From Coq Require Import String List Bool Arith.
Require Import V.Model.Valid V.Model.TryRoute V.Model.MultiFactShape.
Import ListNotations.
Open Scope string_scope.

Definition opt_str_eqb (o : option string) (s : string) : bool := match o with Some x => String.eqb x s | None => false end.

(* one requested dimension: the rollup's own time dimension as stored (same granularity) or truncated to the coarser one; another dimension asked for at a granularity
   truncated from its stored values; anything else as stored *)
Definition dim_item (td gran : option string) (d : string * option string) : string :=
  let name := strip_model (fst d) in
  match snd d with
  | Some g =>
      if opt_str_eqb td name then
        let col := name ++ "_" ++ (match gran with Some pg => pg | None => "None" end) in
        if opt_str_eqb gran g then col ++ " as " ++ name ++ "__" ++ g else "TRUNC(" ++ g ++ "," ++ col ++ ") as " ++ name ++ "__" ++ g
      else "TRUNC(" ++ g ++ "," ++ name ++ ") as " ++ name ++ "__" ++ g
  | None => name
  end.

(* one requested metric, by the aggregation the model declares for it (None: the model has no such metric -- skipped) *)
Definition metric_item (avg_count : option string) (m : string * option string) : list string :=
  let n := strip_model (fst m) in
  let raw := n ++ "_raw" in
  match snd m with
  | None => []
  | Some a =>
      if String.eqb a "sum" then ["SUM(" ++ raw ++ ") as " ++ n]
      else if String.eqb a "count" then ["COALESCE(SUM(" ++ raw ++ "), 0) as " ++ n]
      else if String.eqb a "avg" then ["SUM(" ++ raw ++ ") / NULLIF(SUM(" ++ (match avg_count with Some c => c | None => "count" end) ++ "_raw), 0) as " ++ n]
      else if String.eqb a "min" then ["MIN(" ++ raw ++ ") as " ++ n]
      else if String.eqb a "max" then ["MAX(" ++ raw ++ ") as " ++ n]
      else ["SUM(" ++ raw ++ ") as " ++ n]
  end.

Definition routed_input := (option string * option string * list (string * option string) * list (string * option string) * option (list string) * list string * option nat * option nat * option string)%type.
Definition routed_output := (list string * option string * option string * option string * option string * option string)%type.

Definition routed_build (inp : routed_input) : routed_output :=
  let '(td, gran, dims, mets, filters, order_by, limit, offset, avg_count) := inp in
  ((map (dim_item td gran) dims ++ flat_map (metric_item avg_count) mets)%list,
   match filters with Some (f :: r) => Some (String.concat " AND " (map (fun x => "RW(" ++ x ++ ")") (f :: r))) | _ => None end,
   match dims with [] => None | _ => Some (String.concat ", " (map nat_s (seq 1 (length dims)))) end,
   match order_by with [] => None | _ => Some (String.concat ", " (map strip_model order_by)) end,
   option_map nat_s limit,
   match offset with Some O => None | Some n => Some (nat_s n) | None => None end).

Fixpoint strs_eqb (a b : list string) : bool := match a, b with [], [] => true | x :: a', y :: b' => String.eqb x y && strs_eqb a' b' | _, _ => false end.
Definition oeqb (a b : option string) : bool := match a, b with Some x, Some y => String.eqb x y | None, None => true | _, _ => false end.
Definition routed_row_ok (row : routed_input * routed_output) : bool :=
  let '(inp, (s, w, g, o, l, f)) := row in
  let '(s', w', g', o', l', f') := routed_build inp in
  strs_eqb s s' && oeqb w w' && oeqb g g' && oeqb o o' && oeqb l l' && oeqb f f'.
