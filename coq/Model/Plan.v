(* Hand-written model of the generator's PLANNING decisions for a multi-model query (generator.py: _find_required_models 556-637,
   base model = first required model, _needs_preaggregation_for_fanout 1286-1347, join loop 1732-1763 (BFS paths, skip joined
   models, INNER when the joined model carries a filter), _has_fanout_joins 1237-1284 (symmetric aggregates for the base model
   only), per-model pushdown of single-model filters).  It resolves names to slots / column indices and produces the
   Model/Join.v query.  Join paths come from Model/Graph.v (C10).  No proofs in this file. *)
From Coq Require Import ZArith String List Bool.
Require Import V.Base.PyLib V.Gen.RelKeys_gen V.Model.Graph V.Model.Sem V.Model.Single V.Model.Mult V.Model.Join.
Import ListNotations.
Open Scope string_scope.

Record pmodel := { pm_g : gmodel; pm_cols : list string; pm_rows : list row }.
Record pdim := { pd_model : string; pd_expr : expr }.
Record pmetric := { pmt_model : string; pmt_measure : measure }.
Record pfilter := { pf_model : string; pf_expr : expr }.         (* a filter whose columns all belong to one model *)
Record pquery := { pq_dims : list pdim; pq_metrics : list pmetric; pq_filters : list pfilter }.

Inductive plan_result := PlanOk (q : jquery) (slots : list string) | PlanMultiFact | PlanError (why : string).

Fixpoint index_of (x : string) (l : list string) : option nat :=
  match l with [] => None | y :: r => if String.eqb x y then Some 0 else option_map S (index_of x r) end.
Fixpoint dedupe (l : list string) (seen : list string) : list string :=
  match l with [] => [] | x :: r => if existsb (String.eqb x) seen then dedupe r seen else x :: dedupe r (x :: seen) end.
Fixpoint find_pm (ms : list pmodel) (n : string) : option pmodel :=
  match ms with [] => None | m :: r => if String.eqb (g_name (pm_g m)) n then Some m else find_pm r n end.
Definition graph_of (ms : list pmodel) : graph := map pm_g ms.

Definition required_models (q : pquery) : list string :=
  dedupe (map pd_model (pq_dims q) ++ map pmt_model (pq_metrics q) ++ map pf_model (pq_filters q)) [].

Definition path_has (g : graph) (a b : string) (ty : string) : bool :=
  match find_relationship_path g a b with
  | Path p => existsb (fun h => String.eqb (e_type (snd (fst h))) ty) p
  | _ => false end.
Fixpoint pairs_of (l : list string) : list (string * string) :=
  match l with [] => [] | x :: r => map (fun y => (x, y)) r ++ pairs_of r end.
Definition needs_multifact (g : graph) (q : pquery) : bool :=
  let mm := dedupe (map pmt_model (pq_metrics q)) [] in
  (Nat.leb 2 (length (pq_metrics q))) && (Nat.leb 2 (length mm)) &&
  existsb (fun '(a, b) => path_has g a b "many_to_one" || path_has g b a "many_to_one") (pairs_of mm).

Definition kind_of (ty : string) : kind :=
  if String.eqb ty "many_to_one" then ToOne else if String.eqb ty "one_to_one" then OneOne else ToMany.

Fixpoint cols_idx (cols : list string) (names : list string) : option (list nat) :=
  match names with
  | [] => Some []
  | n :: r => match index_of n cols, cols_idx cols r with Some i, Some l => Some (i :: l) | _, _ => None end
  end.

(* add the hops of one path; `joined` = model names in slot order *)
Fixpoint add_hops (ms : list pmodel) (filtered : list string) (hops : list (string * edge * string))
                  (joined : list string) (steps : list jstep) : option (list string * list jstep) :=
  match hops with
  | [] => Some (joined, steps)
  | (from, e, to) :: r =>
      if existsb (String.eqb to) joined then add_hops ms filtered r joined steps
      else
        match index_of from joined, find_pm ms from, find_pm ms to with
        | Some ps, Some pmf, Some pmt =>
            if negb (Nat.eqb (length (e_from_keys e)) (length (e_to_keys e))) then None     (* ValueError: mismatched key columns *)
            else match cols_idx (pm_cols pmf) (e_from_keys e), cols_idx (pm_cols pmt) (e_to_keys e) with
                 | Some fc, Some tc =>
                     add_hops ms filtered r (joined ++ [to])
                              (steps ++ [ {| js_parent := ps; js_from := fc; js_to := tc; js_kind := kind_of (e_type e);
                                             js_left := negb (existsb (String.eqb to) filtered) |} ])
                 | _, _ => None end
        | _, _, _ => None
        end
  end.

Fixpoint add_others (ms : list pmodel) (g : graph) (filtered : list string) (base : string) (others : list string)
                    (joined : list string) (steps : list jstep) : option (list string * list jstep) :=
  match others with
  | [] => Some (joined, steps)
  | o :: r =>
      match find_relationship_path g base o with
      | Path hops => match add_hops ms filtered hops joined steps with
                     | Some (j', s') => add_others ms g filtered base r j' s'
                     | None => None end
      | _ => None                                                        (* no join path: the query is rejected *)
      end
  end.

Definition plan (ms : list pmodel) (q : pquery) : plan_result :=
  let g := graph_of ms in
  match required_models q with
  | [] => PlanError "no models"
  | base :: others =>
      if needs_multifact g q then PlanMultiFact
      else
      let filtered := map pf_model (pq_filters q) in
      match add_others ms g filtered base others [base] [] with
      | None => PlanError "join"
      | Some (joined, steps) =>
          let tables := map (fun n => match find_pm ms n with
                                      | Some m => filter (all_hold (map pf_expr (filter (fun f => String.eqb (pf_model f) n) (pq_filters q)))) (pm_rows m)
                                      | None => [] end) joined in
          let fanout := existsb (fun o => path_has g base o "one_to_many") others in
          let dims := map (fun d => match index_of (pd_model d) joined with Some s => Some {| jd_slot := s; jd_expr := pd_expr d |} | None => None end) (pq_dims q) in
          let mets := map (fun m => match index_of (pmt_model m) joined, find_pm ms (pmt_model m) with
                                    | Some s, Some pmm =>
                                        match cols_idx (pm_cols pmm) (model_primary_key_columns (g_pk (pm_g pmm))) with
                                        | Some pk => Some {| jm_slot := s; jm_measure := pmt_measure m; jm_pk := pk;
                                                             jm_sym := fanout && String.eqb (pmt_model m) base |}
                                        | None => None end
                                    | _, _ => None end) (pq_metrics q) in
          match all_some dims, all_some mets with
          | Some ds, Some mts => PlanOk {| jq_tables := tables; jq_steps := steps; jq_dims := ds; jq_metrics := mts |} joined
          | _, _ => PlanError "resolve"
          end
      end
  end.
