(* Model of PreAggregationMatcher.can_satisfy_query (preagg_matcher.py 92-153): how the matcher COMBINES the dimension-subset test, the
   per-metric derivability test, the granularity test and the filter-column test.  The sub-decisions are inputs here (they are
   translated separately: Gen/Derivable_gen.v, Gen/GranCompat_gen.v; the filter columns come from sqlglot).  Gen/Satisfy_gen.v holds
   the verdicts of the real method on scripted scenarios, extracted on every run.  No proofs in this file. *)
From Coq Require Import String List Bool.
Import ListNotations.
Open Scope string_scope.

Record rollup := { p_dims : list string; p_time : option string; p_gran : option string }.
Definition mem_s (x : string) (l : list string) : bool := existsb (String.eqb x) l.
Definition is_time (p : rollup) (c : string) : bool := match p_time p with Some t => negb (String.eqb t "") && String.eqb t c | None => false end.
(* a column of the rollup table: one of its dimensions or its time dimension *)
Definition rollup_column (p : rollup) (c : string) : bool := mem_s c (p_dims p) || is_time p c.

Definition can_satisfy (p : rollup) (qdims : list string) (metrics : list (bool * bool)) (qgran : option string) (compatible : bool)
                       (filter_cols : option (list string)) : bool :=
  forallb (fun d => rollup_column p d) qdims &&
  forallb (fun m => fst m && snd m) metrics &&
  (match qgran, p_gran p with
   | Some qg, Some pg => if negb (String.eqb qg "") && negb (String.eqb pg "") then compatible else true
   | _, _ => true end) &&
  match filter_cols with None => true | Some cols => forallb (rollup_column p) cols end.

Definition satisfy_row_ok (row : rollup * list string * list (bool * bool) * option string * bool * option (list string) * bool) : bool :=
  let '(p, qdims, metrics, qgran, compatible, fcols, verdict) := row in Bool.eqb (can_satisfy p qdims metrics qgran compatible fcols) verdict.
