(* The scripted world of Gen/Validate_gen.v (what validation.validate_query reports on scripted graphs, extracted from validation.py on every run) and
   the row-by-row comparison with Model/Valid.validate_query.  No proofs in this file. *)
From Coq Require Import String List Bool.
Require Import V.Base.PyLib V.Model.Graph V.Model.Valid.
Import ListNotations.
Open Scope string_scope.

(* models a (dimensions t: time, s; metric x), b (u: time; y), c (v; z); a -> b many_to_one, c is not connected; graph-level metrics g1 (sql a.x),
   g2 (sql c.z), g3 (no dotted sql), g4 (a ratio of a.x and c.z), g5 (sql b.y + a.x) *)
Definition script_vmodels : list vmodel :=
  [ {| vm_name := "a"; vm_dims := [("t", true); ("s", false)]; vm_metrics := ["x"] |};
    {| vm_name := "b"; vm_dims := [("u", true)]; vm_metrics := ["y"] |};
    {| vm_name := "c"; vm_dims := [("v", false)]; vm_metrics := ["z"] |} ].
Definition script_graph : graph :=
  [ {| g_name := "a"; g_pk := KStr "id"; g_rels := [ {| r_name := "b"; r_type := "many_to_one"; r_fk := KStr "b_id"; r_pk := KNone; r_through := None; r_tfk := None; r_rfk := None |} ] |};
    {| g_name := "b"; g_pk := KStr "id"; g_rels := [] |};
    {| g_name := "c"; g_pk := KStr "id"; g_rels := [] |} ].
Definition script_gmetrics : gmetrics := [("g1", ["a"]); ("g2", ["c"]); ("g3", []); ("g4", ["a"; "c"]); ("g5", ["b"; "a"])].

Definition verr_eqb (x y : verr) : bool :=
  match x, y with
  | EModel a, EModel b | EBareMetric a, EBareMetric b | EGran a, EGran b | EFormat a, EFormat b => String.eqb a b
  | EMetric a b, EMetric c d | EDim a b, EDim c d | ENonTime a b, ENonTime c d | ENoPath a b, ENoPath c d => String.eqb a c && String.eqb b d
  | _, _ => false
  end.
Fixpoint verrs_eqb (a b : list verr) : bool :=
  match a, b with [], [] => true | x :: a', y :: b' => verr_eqb x y && verrs_eqb a' b' | _, _ => false end.
Definition is_nopath (e : verr) : bool := match e with ENoPath _ _ => true | _ => false end.
Definition pair_in (a b : string) (l : list (string * string)) : bool :=
  existsb (fun p => (String.eqb (fst p) a && String.eqb (snd p) b) || (String.eqb (fst p) b && String.eqb (snd p) a)) l.
(* reference errors in the same order; the unjoinable pairs as a set of unordered pairs *)
Definition validate_row_ok (row : list mref * list dref * list verr * list (string * string)) : bool :=
  let '(metrics, dims, errs, nopaths) := row in
  let got := validate_query script_vmodels script_graph script_gmetrics metrics dims in
  let got_np := flat_map (fun e => match e with ENoPath a b => [(a, b)] | _ => [] end) got in
  verrs_eqb (filter (fun e => negb (is_nopath e)) got) errs &&
  Nat.eqb (length got_np) (length nopaths) &&
  forallb (fun p => pair_in (fst p) (snd p) nopaths) got_np && forallb (fun p => pair_in (fst p) (snd p) got_np) nopaths.
