(* Deterministic emission: the generator iterates Python sets when it emits CTEs and columns; the iteration order of a set
   depends on the process's hash seed.  Model: the set is given to the generator in an ARBITRARY order (an oracle permutation);
   emission walks `sort` of it.  Executable; no proofs here. *)
From Coq Require Import String List Bool.
Import ListNotations.
Open Scope string_scope.

(* classification of an iteration site over a set-typed value (Gen/SetIter_gen.v) *)
Inductive iter_kind :=
| Sorted            (* for x in sorted(s)               -- total order on strings *)
| Irrelevant        (* the body only accumulates into sets / dicts / counters, or returns constants *)
| PartialSort       (* sorted(s, key=len): ties keep the set's own order *)
| Raw.              (* order-sensitive body over the raw set *)
Definition site_ok (k : iter_kind) : bool := match k with Sorted | Irrelevant => true | _ => false end.

Fixpoint insert (x : string) (l : list string) : list string :=
  match l with [] => [x] | y :: r => if String.leb x y then x :: l else y :: insert x r end.
Definition sort (l : list string) : list string := fold_right insert [] l.

(* emitting text for the elements in iteration order *)
Definition emit (f : string -> string) (l : list string) : string := String.concat "," (map f l).
