(* Hand-written executable model of SemanticGraph.build_adjacency / find_relationship_path (semantic_graph.py 186-323).
   Key defaults, key normalisation and cardinality inversion are NOT hand-written: they come from Gen/RelKeys_gen.v,
   regenerated from relationship.py / model.py / semantic_graph.py on every run.  No proofs in this file. *)
From Coq Require Import String List Bool.
Require Import V.Base.PyLib V.Gen.RelKeys_gen V.Base.Bfs.
Import ListNotations.
Open Scope string_scope.

Record rel := { r_name : string; r_type : string; r_fk : pykey; r_pk : pykey;
                r_through : option string; r_tfk : option string; r_rfk : option string }.
Record gmodel := { g_name : string; g_pk : pykey; g_rels : list rel }.
Definition graph := list gmodel.     (* registration order = dict order of SemanticGraph.models *)
Record edge := { e_to : string; e_from_keys : list string; e_to_keys : list string; e_type : string }.

Fixpoint lookup (g : graph) (n : string) : option gmodel :=
  match g with [] => None | m :: r => if String.eqb (g_name m) n then Some m else lookup r n end.

Definition mk (t : string) fk tk ty := {| e_to := t; e_from_keys := fk; e_to_keys := tk; e_type := ty |}.
Definition fkc (r : rel) : list string := foreign_key_columns (r_name r) (r_type r) (r_fk r).
Definition mpk (m : gmodel) : list string := model_primary_key_columns (g_pk m).
Definition optstr_truthy (o : option string) : bool := match o with Some s => negb (String.eqb s "") | None => false end.
(* remote key of a relationship: explicit primary_key if truthy, else the related model's primary key *)
Definition remote_pk (r : rel) (related : gmodel) : list string :=
  if key_truthy (r_pk r) then rel_primary_key_columns (r_pk r) else mpk related.

(* the edges one relationship contributes, as (from, edge) pairs in insertion order (semantic_graph.py 213-265) *)
Definition rel_edges (g : graph) (m : gmodel) (r : rel) : list (string * edge) :=
  match lookup g (r_name r) with
  | None => []                                   (* related model not registered: skipped *)
  | Some related =>
      if String.eqb (r_type r) "many_to_many" then
        match (match r_through r with
               | Some j => if String.eqb j "" then None else match lookup g j with Some _ => Some j | None => None end
               | None => None end) with
        | None =>
            if key_truthy (r_fk r)
            then [ (g_name m, mk (r_name r) (mpk m) (fkc r) "one_to_many");
                   (r_name r, mk (g_name m) (fkc r) (mpk m) "many_to_one") ]
            else []
        | Some j =>
            let '(js, jr) := junction_keys (r_type r) (r_fk r) (r_tfk r) (r_rfk r) in
            if negb (key_truthy js) || negb (optstr_truthy jr) then []
            else
              let sfk := [key_as_str js] in      (* a LIST-valued junction key is outside the modelled fragment (DESIGN C10) *)
              let rfk := match jr with Some s => [s] | None => [] end in
              let related_pk := remote_pk r related in
              [ (g_name m, mk j (mpk m) sfk "one_to_many"); (j, mk (g_name m) sfk (mpk m) "many_to_one");
                (j, mk (r_name r) rfk related_pk "many_to_one"); (r_name r, mk j related_pk rfk "one_to_many") ]
        end
      else
        let '(local, remote) :=
          if String.eqb (r_type r) "many_to_one" then (fkc r, remote_pk r related) else (mpk m, fkc r) in
        [ (g_name m, mk (r_name r) local remote (r_type r));
          (r_name r, mk (g_name m) remote local (invert_relationship (r_type r))) ]
  end.

Definition all_edges (g : graph) : list (string * edge) :=
  flat_map (fun m => flat_map (rel_edges g m) (g_rels m)) g.
(* self._adjacency[a] : edges leaving a, in insertion order *)
Definition adj (g : graph) (a : string) : list edge :=
  map snd (filter (fun p => String.eqb (fst p) a) (all_edges g)).

Definition succ_of (g : graph) (a : string) : list (edge * string) := map (fun e => (e, e_to e)) (adj g a).

Inductive outcome := Path (p : list (string * edge * string)) | NoJoinPath | KeyErr.
Definition has_model (g : graph) (n : string) : bool := match lookup g n with Some _ => true | None => false end.

(* semantic_graph.py 267-323: equal names first, then the two KeyError checks, then queue BFS
   (level-synchronous form with the queue's tie-breaking; fuel = |models| + 1, proved sufficient) *)
Definition find_relationship_path (g : graph) (a b : string) : outcome :=
  if String.eqb a b then Path []
  else if negb (has_model g a) then KeyErr
  else if negb (has_model g b) then KeyErr
  else match find_path string String.eqb edge (succ_of g) (S (length g)) a b with
       | Found _ _ p => Path p
       | _ => NoJoinPath
       end.

(* validation.validate_query, join-path part (299-329): every pair of distinct *registered* models among the
   query's metric/dimension models must have a path; returns the list of failing pairs *)
Fixpoint pairs_after {A} (l : list A) : list (A * A) :=
  match l with [] => [] | x :: r => map (fun y => (x, y)) r ++ pairs_after r end.
Definition unjoinable_pairs (g : graph) (ms : list string) : list (string * string) :=
  filter (fun p => match find_relationship_path g (fst p) (snd p) with Path _ => false | _ => true end)
         (pairs_after (filter (has_model g) ms)).
