(* Hand-written model of the PARSED branch of two reference-rewriting helpers of SQLGenerator, at the level of the (table, column) references of a filter / expression
   (everything else in the text -- literals, operators -- is not a reference and is not touched by that branch):
     _rewrite_model_refs_to_ctes          model.col / model_cte.col -> <model>_cte.col for registered models
     _rewrite_filter_for_preaggregation   the model's own qualifiers dropped, the rollup's time dimension mapped to its time column <dimension>_<granularity>
   Gen/RefRewrite_gen.v holds what the real methods return on scripted texts (regenerated on every run); texts that do not parse take a textual fallback, which the table
   records and this model does not cover.  No proofs here. *)
From Coq Require Import String List Bool.
Require Import V.Base.PyLib V.Model.Valid V.Model.CteShape.
Import ListNotations.
Open Scope string_scope.

Definition cref := (string * string)%type.
Definition to_cte (models : list string) (r : cref) : cref :=
  if str_truthy (fst r) && mem (recover (fst r)) models then (recover (fst r) ++ "_cte", snd r) else r.
Definition refs_to_ctes (models : list string) (refs : list cref) : list cref := map (to_cte models) refs.

Definition own (model : string) (r : cref) : bool := String.eqb (fst r) model || String.eqb (fst r) (model ++ "_cte").
Definition to_rollup (model : string) (td gran : option string) (r : cref) : cref :=
  let r1 := if own model r then ("", snd r) else r in
  match td, gran with
  | Some t, Some g => if str_truthy t && str_truthy g && negb (str_truthy (fst r1)) && String.eqb (snd r1) t then ("", t ++ "_" ++ g) else r1
  | _, _ => r1
  end.
Definition refs_to_rollup (model : string) (td gran : option string) (refs : list cref) : list cref := map (to_rollup model td gran) refs.

Definition rr_parse (texts : list (string * option (list cref))) (t : string) : option (list cref) := match assoc_get texts t with Some r => r | None => None end.
Definition cte_ref_row_ok (models : list string) (texts : list (string * option (list cref))) (row : string * string) : bool :=
  match rr_parse texts (fst row) with Some refs => String.eqb (s_print (refs_to_ctes models refs)) (snd row) | None => true end.
Definition preagg_ref_row_ok (texts : list (string * option (list cref))) (row : (string * option string * option string) * string) : bool :=
  let '((t, td, g), res) := row in
  match rr_parse texts t with Some refs => String.eqb (s_print (refs_to_rollup "orders" td g refs)) res | None => true end.
Definition parsed_rows {A} (texts : list (string * option (list cref))) (key : A -> string) (rows : list A) : nat :=
  length (filter (fun r => match rr_parse texts (key r) with Some _ => true | None => false end) rows).
