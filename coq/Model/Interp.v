(* Model of ParameterSet.interpolate (parameter.py 156-192) on a template given as pieces: literal text and {{ name }} holes.
   One pass: every hole whose name is a declared parameter is replaced by the text format_value returned for the parameter's value,
   any other hole keeps its raw text, and inserted text is never scanned again.  Gen/Interp_gen.v holds what the real function
   returns on scripted templates, extracted on every run.  No proofs in this file. *)
From Coq Require Import String List Bool.
Import ListNotations.
Open Scope string_scope.

Inductive piece := Lit (s : string) | Hole (raw name : string).
Fixpoint assoc_s (l : list (string * string)) (k : string) : option string :=
  match l with [] => None | (k', v) :: r => if String.eqb k' k then Some v else assoc_s r k end.
Definition fill (fmt : list (string * string)) (p : piece) : string :=
  match p with Lit s => s | Hole raw n => match assoc_s fmt n with Some t => t | None => raw end end.
Definition interpolate_model (fmt : list (string * string)) (pieces : list piece) : string := String.concat "" (map (fill fmt) pieces).
Definition interp_row_ok (row : list piece * list (string * string) * string) : bool :=
  let '(pieces, fmt, res) := row in String.eqb (interpolate_model fmt pieces) res.
