(* Vocabulary round trips of the format adapters: an aggregation literal that goes out through an exporter's table and comes back
   through the importer is kept, or dropped, but never turned into ANOTHER literal.  Generic in the tables (the tables themselves
   are regenerated / measured: Gen/AdapterMaps_gen.v).  No proofs in this file. *)
From Coq Require Import String Ascii List Bool.
Import ListNotations.
Open Scope string_scope.

Definition mem (x : string) (l : list string) : bool := existsb (String.eqb x) l.
Fixpoint assoc {A} (l : list (string * A)) (k : string) : option A :=
  match l with [] => None | (k', v) :: r => if String.eqb k k' then Some v else assoc r k end.
Definition listed (known : list (string * list string)) (adapter lit : string) : bool :=
  match assoc known adapter with Some l => mem lit l || mem "*" l | None => false end.

(* measured round trip  literal -> what came back : faithful outside the listed literals *)
Definition faithful (known : list (string * list string)) (adapter : string) (tbl : list (string * option string)) : bool :=
  forallb (fun '(a, r) => match r with None => true | Some b => String.eqb a b || listed known adapter a end) tbl.
Definition all_faithful (known : list (string * list string)) (tbls : list (string * list (string * option string))) : bool :=
  forallb (fun '(adapter, tbl) => faithful known adapter tbl) tbls.

(* an exporter's  table.get(agg, default) : a literal outside the table's keys is written as the default token, i.e. as whatever
   aggregation the default stands for; that is only acceptable when there is no default (nothing is written), when the literal is
   listed, or when the default token is computed from the literal itself *)
Definition computed_default (d : option string) : bool :=
  match d with Some s => match s with String c _ => Ascii.eqb c "<"%char | EmptyString => false end | None => true end.
Definition export_map_ok (known : list (string * list string)) (vocab : list string) (e : string * string * list (string * option string) * option string) : bool :=
  let '(adapter, site, tbl, default) := e in
  computed_default default || forallb (fun a => match assoc tbl a with Some _ => true | None => listed known adapter a end) vocab.
Definition export_maps_ok known vocab (maps : list (string * string * list (string * option string) * option string)) : bool :=
  forallb (export_map_ok known vocab) maps.
