(* Hand-written model of what a rollup table holds (pre_aggregation.py generate_materialization_sql 111-190) and of the
   re-aggregating query the generator emits over it (generator.py _generate_from_preaggregation 3170-3327), on the pointwise
   bag formulation shared with C07/C18 (Model/Refresh.v): a base row is (timestamp, dimension value, measure value); the
   rollup key is (bucket, dimension value).  The single dimension value stands for the tuple of the rollup's dimensions
   (the theorems quantify over ARBITRARY predicates on the key, which covers grouping by any subset of them and any
   filter on them).  Truncation is a parameter.  Also: the count-measure lookup used for AVG, modelled for the
   correspondence check, and the criterion `exactly_derivable` the routing decisions are audited against.
   No proofs in this file. *)
From Coq Require Import ZArith String Ascii List Bool.
Require Import V.Model.Refresh.
Import ListNotations.
Open Scope Z_scope.

Section Preagg.
Variable tr : Z -> Z.                      (* DATE_TRUNC(rollup granularity, .) *)
Notation key := (Z * Z)%type.

(* one rollup row: SUM(v), COUNT(v) / COUNT( * ), MIN(v), MAX(v), and the per-bucket value of any other aggregate f
   (AVG, MEDIAN, ... : `other`), as materialised for the bucket *)
Record prow := { p_bucket : Z; p_dim : Z; p_sum : Z; p_cnt : Z; p_min : option Z; p_max : option Z; p_other : Z }.
Definition pkey (x : prow) : key := (p_bucket x, p_dim x).

Definition lmin (l : list Z) : option Z := match l with [] => None | x :: r => Some (fold_right Z.min x r) end.
Definition lmax (l : list Z) : option Z := match l with [] => None | x :: r => Some (fold_right Z.max x r) end.
Definition omin (a b : option Z) : option Z := match a, b with Some x, Some y => Some (Z.min x y) | Some x, None | None, Some x => Some x | None, None => None end.
Definition omax (a b : option Z) : option Z := match a, b with Some x, Some y => Some (Z.max x y) | Some x, None | None, Some x => Some x | None, None => None end.

Definition vals_at (b : list brow) (k : key) : list Z := map b_v (at_b tr b k).

(* CREATE TABLE rollup AS SELECT DATE_TRUNC(g, ts), dim, SUM(v), COUNT(v), MIN(v), MAX(v), f(v) FROM base GROUP BY 1, 2 *)
Definition materialize_p (f : list Z -> Z) (b : list brow) : list prow :=
  map (fun k => {| p_bucket := fst k; p_dim := snd k; p_sum := zsum (vals_at b k); p_cnt := Z.of_nat (length (vals_at b k));
                   p_min := lmin (vals_at b k); p_max := lmax (vals_at b k); p_other := f (vals_at b k) |})
      (first_occ (map (bkey tr) b)).

(* the routed query for one result group: the rollup rows whose key satisfies `sel` (group membership AND the rewritten
   filters -- both are predicates on the rollup's own columns), re-aggregated *)
Definition sel_rows (sel : key -> bool) (r : list prow) : list prow := filter (fun x => sel (pkey x)) r.
Definition routed_sum (sel : key -> bool) (r : list prow) : Z := zsum (map p_sum (sel_rows sel r)).           (* SUM(x_raw) *)
Definition routed_count (sel : key -> bool) (r : list prow) : Z := zsum (map p_cnt (sel_rows sel r)).         (* SUM(count_raw) *)
Definition routed_min (sel : key -> bool) (r : list prow) : option Z := fold_right omin None (map p_min (sel_rows sel r)).
Definition routed_max (sel : key -> bool) (r : list prow) : option Z := fold_right omax None (map p_max (sel_rows sel r)).
Definition routed_other_as_sum (sel : key -> bool) (r : list prow) : Z := zsum (map p_other (sel_rows sel r)). (* "default to SUM" *)
Definition has_group (sel : key -> bool) (r : list prow) : bool := existsb (fun x => sel (pkey x)) r.

(* the same group computed from the base table *)
Definition base_vals (sel : key -> bool) (b : list brow) : list Z := map b_v (filter (fun y => sel (bkey tr y)) b).
End Preagg.

(* ---------- _find_count_measure_for_avg (preagg_matcher.py 223-262), on names ---------- *)
Open Scope string_scope.
Fixpoint starts_with (p s : string) : bool :=
  match p, s with
  | EmptyString, _ => true
  | String a p', String b s' => Ascii.eqb a b && starts_with p' s'
  | _, EmptyString => false
  end.
Fixpoint drop (n : nat) (s : string) : string := match n, s with O, _ => s | S n', String _ r => drop n' r | _, EmptyString => EmptyString end.
(* str.replace(old, new), leftmost non-overlapping occurrences; `old` non-empty *)
Fixpoint replace_all (fuel : nat) (old new s : string) : string :=
  match fuel with
  | O => s
  | S f => match s with
           | EmptyString => EmptyString
           | String c r => if starts_with old s then new ++ replace_all f old new (drop (String.length old) s)
                           else String c (replace_all f old new r)
           end
  end.
Fixpoint contains (sub s : string) : bool :=
  starts_with sub s || match s with EmptyString => false | String _ r => contains sub r end.
Definition mem_str (x : string) (l : list string) : bool := existsb (String.eqb x) l.
(* re.search(r"(?:^|_)count(?:$|_)", name): `count` delimited by string ends or underscores *)
Fixpoint count_word_from (at_start : bool) (s : string) : bool :=
  (at_start && starts_with "count" s && (let r := drop 5 s in match r with EmptyString => true | String c _ => Ascii.eqb c "_" end)) ||
  match s with EmptyString => false | String c r => count_word_from (Ascii.eqb c "_") r end.
Definition count_word (s : string) : bool := count_word_from true s.

Definition find_count_measure (avg_name : string) (measures : list string) : option string :=
  let c1 := "count_" ++ drop 4 avg_name in
  if starts_with "avg_" avg_name && mem_str c1 measures then Some c1
  else let c2 := replace_all (S (String.length avg_name)) "_avg" "_count" avg_name in
       if contains "_avg" avg_name && mem_str c2 measures then Some c2
       else if mem_str "count" measures then Some "count"
       else find count_word measures.

(* ---------- the criterion routing decisions are audited against ---------- *)
(* what the check knows about one routed query: per metric its aggregation literal and whether it carries filters; whether
   every requested dimension / filter column is a rollup column; how the time dimension is requested *)
Inductive time_use := NoTime | TimeAt (nested_ok : bool) | TimeBare.
Record route_facts := { rf_aggs : list (string * bool);        (* (agg literal, has measure filters) *)
                        rf_dims_in_rollup : bool; rf_filters_on_rollup_columns : bool; rf_raw_time_filter : bool;
                        rf_time : time_use }.
Definition agg_exact (a : string) : bool := mem_str a ["sum"; "count"; "min"; "max"].
Definition exactly_derivable (f : route_facts) : bool :=
  forallb (fun '(a, filtered) => agg_exact a && negb filtered) (rf_aggs f) &&
  rf_dims_in_rollup f && rf_filters_on_rollup_columns f && negb (rf_raw_time_filter f) &&
  match rf_time f with NoTime => true | TimeAt ok => ok | TimeBare => false end.

(* ---------- NULL measure values ----------
   A base row whose measure value is NULL is a row (it makes its bucket exist and counts for COUNT( * )) that no NULL-ignoring
   aggregate sees.  nrow: a base row and whether its value is NULL (the value field is then meaningless). *)
Section PreaggNull.
Variable tr : Z -> Z.
Notation key := (Z * Z)%type.
Record nrow := { n_row : brow; n_null : bool }.
Definition nkey (x : nrow) : key := bkey tr (n_row x).
Definition non_null_rows (b : list nrow) : list brow := map n_row (filter (fun x => negb (n_null x)) b).
(* SUM(v): NULL when the bucket holds no non-NULL value; COUNT(v): the non-NULL values.  (COUNT( * ) is C08_count on the table of all rows.) *)
Record pnrow := { pn_bucket : Z; pn_dim : Z; pn_sum : option Z; pn_cnt : Z }.
Definition pnkey (x : pnrow) : key := (pn_bucket x, pn_dim x).
Definition osum (l : list Z) : option Z := match l with [] => None | _ => Some (zsum l) end.
Definition materialize_n (b : list nrow) : list pnrow :=
  map (fun k => let vs := vals_at tr (non_null_rows b) k in
                {| pn_bucket := fst k; pn_dim := snd k; pn_sum := osum vs; pn_cnt := Z.of_nat (length vs) |})
      (first_occ (map nkey b)).
Definition somes (l : list (option Z)) : list Z := flat_map (fun o => match o with Some z => [z] | None => [] end) l.
(* SUM(x_raw) over the selected rollup rows: NULL sums are ignored, NULL when nothing is left *)
Definition routed_sum_n (sel : key -> bool) (r : list pnrow) : option Z := osum (somes (map pn_sum (filter (fun x => sel (pnkey x)) r))).
Definition routed_count_n (sel : key -> bool) (r : list pnrow) : Z := zsum (map pn_cnt (filter (fun x => sel (pnkey x)) r)).
(* the base query: SUM over the non-NULL values of the selected rows *)
Definition base_sum_n (sel : key -> bool) (b : list nrow) : option Z := osum (base_vals tr sel (non_null_rows b)).
End PreaggNull.
