(* Interleaving semantics of the shared planning state touched by SemanticGraph.find_relationship_path:
   (adjacency dict, dirty flag).  A thread runs a program = list of atomic shared-memory actions (the access skeleton
   extracted from semantic_graph.py on every run, Gen/AdjProg_gen.v); actions are at least as fine as source lines, so the
   model's interleavings include every line-granular schedule.  Executable; no proofs here. *)
From Coq Require Import List Arith Bool.
Import ListNotations.

Inductive action :=
| IfDirty (skip : nat)     (* read the flag; when clean, jump over the next [skip] actions *)
| BuildLocal               (* compute the adjacency into a thread-local dict (no shared access) *)
| Publish                  (* self._adjacency = <local dict> : one reference assignment *)
| ClearInPlace             (* self._adjacency.clear() on the shared dict *)
| FillInPlace              (* the shared dict refilled edge by edge; modelled at its END (complete again) *)
| SetFlagFalse             (* self._adjacency_dirty = False *)
| Snapshot                 (* local = self._adjacency : one reference read *)
| ReadShared               (* a read through self._adjacency during the search *)
| ReadSnap.                (* a read through the thread-local snapshot *)

Section Conc.
Variable A : Type.
Variable good : A.          (* build_adjacency(models): what a serial call uses *)
Variable a0 : A.            (* whatever the shared dict holds before the first build *)
Variable empty : A.         (* the dict right after .clear() *)

Record shared := { val : A; dirty : bool }.
Record local := { pc : nat; loc : A; snap : A; reads : list A }.

Definition step_thread (prog : list action) (sh : shared) (l : local) : shared * local :=
  match nth_error prog (pc l) with
  | None => (sh, l)
  | Some a =>
      let next := S (pc l) in
      match a with
      | IfDirty k => (sh, {| pc := if dirty sh then next else next + k; loc := loc l; snap := snap l; reads := reads l |})
      | BuildLocal => (sh, {| pc := next; loc := good; snap := snap l; reads := reads l |})
      | Publish => ({| val := loc l; dirty := dirty sh |}, {| pc := next; loc := loc l; snap := snap l; reads := reads l |})
      | ClearInPlace => ({| val := empty; dirty := dirty sh |}, {| pc := next; loc := loc l; snap := snap l; reads := reads l |})
      | FillInPlace => ({| val := good; dirty := dirty sh |}, {| pc := next; loc := loc l; snap := snap l; reads := reads l |})
      | SetFlagFalse => ({| val := val sh; dirty := false |}, {| pc := next; loc := loc l; snap := snap l; reads := reads l |})
      | Snapshot => (sh, {| pc := next; loc := loc l; snap := val sh; reads := reads l |})
      | ReadShared => (sh, {| pc := next; loc := loc l; snap := snap l; reads := val sh :: reads l |})
      | ReadSnap => (sh, {| pc := next; loc := loc l; snap := snap l; reads := snap l :: reads l |})
      end
  end.

Definition finished (prog : list action) (l : local) : bool := Nat.leb (length prog) (pc l).

Definition state := (shared * list local)%type.
Fixpoint update (ls : list local) (i : nat) (l : local) : list local :=
  match ls, i with
  | [], _ => []
  | _ :: r, 0 => l :: r
  | x :: r, S j => x :: update r j l
  end.
Definition step (prog : list action) (s : state) (i : nat) : state :=
  match nth_error (snd s) i with
  | None => s
  | Some l => let '(sh', l') := step_thread prog (fst s) l in (sh', update (snd s) i l')
  end.
(* a schedule is the list of thread indices that take the successive steps *)
Definition run (prog : list action) (sched : list nat) (s : state) : state := fold_left (step prog) sched s.
Definition init (n : nat) : state :=
  ({| val := a0; dirty := true |}, repeat {| pc := 0; loc := a0; snap := a0; reads := [] |} n).
End Conc.

(* the skeleton for which safety is proved: build locally, publish by one assignment, reset the flag, search over one snapshot *)
Definition fixed_prog : list action := [IfDirty 3; BuildLocal; Publish; SetFlagFalse; Snapshot; ReadSnap].

(* executable safety test of one schedule (used by the check to search the model for a bad schedule when the extracted
   skeleton is not [fixed_prog]); values are nat: good = 1, initial = 7, cleared = 0 *)
Definition all_reads_good (prog : list action) (n : nat) (sched : list nat) : bool :=
  forallb (fun l => negb (finished nat prog l) || forallb (Nat.eqb 1) (reads nat l))
          (snd (run nat 1 0 prog sched (init nat 7 n))).
Definition all_finished (prog : list action) (n : nat) (sched : list nat) : bool :=
  forallb (finished nat prog) (snd (run nat 1 0 prog sched (init nat 7 n))).
