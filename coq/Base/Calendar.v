(* Civil calendar on day numbers (proleptic Gregorian, unbounded Z), era periodicity, one-era sweep infrastructure. *)
From Coq Require Import ZArith List Bool Lia.
Open Scope Z_scope.
Ltac Zify.zify_post_hook ::= Z.to_euclidean_division_equations.

(* ---------- civil calendar on day numbers (days since 1970-01-01, proleptic Gregorian) ---------- *)
Definition civil (z0 : Z) : Z * Z * Z :=
  let z := z0 + 719468 in
  let era := z / 146097 in
  let doe := z - era * 146097 in
  let yoe := (doe - doe / 1460 + doe / 36524 - doe / 146096) / 365 in
  let y := yoe + era * 400 in
  let doy := doe - (365*yoe + yoe/4 - yoe/100) in
  let mp := (5*doy + 2)/153 in
  let d := doy - (153*mp+2)/5 + 1 in
  let m := if mp <? 10 then mp+3 else mp-9 in
  (if m <=? 2 then y+1 else y, m, d).

Definition days_from_civil (y0 m d : Z) : Z :=
  let y := if m <=? 2 then y0 - 1 else y0 in
  let era := y / 400 in
  let yoe := y - era * 400 in
  let mp := if m >? 2 then m - 3 else m + 9 in
  let doy := (153 * mp + 2)/5 + d - 1 in
  let doe := yoe * 365 + yoe/4 - yoe/100 + doy in
  era * 146097 + doe - 719468.

Definition ERA : Z := 146097.

Lemma civil_shift z k : civil (z + ERA * k) = let '(y,m,d) := civil z in (y + 400 * k, m, d).
Proof.
  unfold civil, ERA.
  replace (z + 146097 * k + 719468) with (z + 719468 + k * 146097) by lia.
  rewrite Z.div_add by lia.
  set (e := (z + 719468) / 146097).
  replace (z + 719468 + k * 146097 - (e + k) * 146097) with (z + 719468 - e * 146097) by lia.
  set (doe := z + 719468 - e * 146097).
  set (yoe := (doe - doe / 1460 + doe / 36524 - doe / 146096) / 365).
  set (doy := doe - (365 * yoe + yoe / 4 - yoe / 100)).
  set (mp := (5 * doy + 2) / 153).
  destruct (mp <? 10) eqn:?; cbv zeta.
  - destruct (mp + 3 <=? 2) eqn:?; f_equal; f_equal; lia.
  - destruct (mp - 9 <=? 2) eqn:?; f_equal; f_equal; lia.
Qed.

Lemma dfc_shift y m d k : days_from_civil (y + 400 * k) m d = days_from_civil y m d + ERA * k.
Proof.
  unfold days_from_civil, ERA.
  destruct (m <=? 2) eqn:?.
  - replace (y + 400 * k - 1) with (y - 1 + k * 400) by lia. rewrite Z.div_add by lia.
    set (e := (y-1)/400). replace (y - 1 + k * 400 - (e + k) * 400) with (y - 1 - e * 400) by lia. lia.
  - replace (y + 400 * k) with (y + k * 400) by lia. rewrite Z.div_add by lia.
    set (e := y/400). replace (y + k * 400 - (e + k) * 400) with (y - e * 400) by lia. lia.
Qed.

(* ---------- exhaustive sweep of one era, lifted to Z ---------- *)
Definition sweep (f : Z -> bool) (start : Z) (n : positive) : bool :=
  fst (Pos.iter (fun '(b, z) => (b && f z, z + 1)) (true, start) n).

Lemma sweep_nat f start n :
  nat_rect (fun _ => (bool * Z)%type) (true, start) (fun _ '(b, z) => (b && f z, z + 1)) n
  = (forallb f (map (fun i => start + Z.of_nat i) (seq 0 n)), start + Z.of_nat n).
Proof.
  induction n as [|n IH].
  - simpl. f_equal. lia.
  - cbn [nat_rect]. rewrite IH. rewrite seq_S, map_app, forallb_app. cbn [map forallb Nat.add].
    rewrite andb_true_r. f_equal. lia.
Qed.

Lemma sweep_spec f start n : sweep f start n = true ->
  forall z, start <= z < start + Z.pos n -> f z = true.
Proof.
  unfold sweep. rewrite Pos2Nat.inj_iter, sweep_nat. cbn [fst].
  intros H z Hz. rewrite forallb_forall in H. apply H.
  apply in_map_iff. exists (Z.to_nat (z - start)). split; [lia|].
  apply in_seq. lia.
Qed.

(* a predicate invariant under era shifts holds everywhere if it holds on one era *)
Lemma era_lift (f : Z -> bool) :
  (forall z k, f (z + ERA * k) = f z) -> sweep f 0 146097 = true -> forall z, f z = true.
Proof.
  intros Hs Hw z.
  assert (Hr : 0 <= z - 146097 * (z / 146097) < 0 + Z.pos 146097) by lia.
  pose proof (sweep_spec _ _ _ Hw _ Hr) as H0.
  rewrite <- (Hs _ (z / 146097)) in H0. unfold ERA in H0.
  replace (z - 146097 * (z / 146097) + 146097 * (z / 146097)) with z in H0 by lia.
  exact H0.
Qed.

(* ---------- day-level truncations ---------- *)
Definition dom (z : Z) : Z := let '(_,_,d) := civil z in d.
Definition moy (z : Z) : Z := let '(_,m,_) := civil z in m.
Definition yr  (z : Z) : Z := let '(y,_,_) := civil z in y.

Inductive gran := Hour | Day | Week | Month | Quarter | Year.

Definition startd (g : gran) (z : Z) : bool :=
  match g with
  | Hour | Day => true
  | Week => (z + 3) mod 7 =? 0
  | Month => dom z =? 1
  | Quarter => (dom z =? 1) && ((moy z - 1) mod 3 =? 0)
  | Year => (dom z =? 1) && (moy z =? 1)
  end.

Definition truncd (g : gran) (z : Z) : Z :=
  match g with
  | Hour | Day => z
  | Week => z - (z + 3) mod 7
  | Month => z - (dom z - 1)
  | Quarter => days_from_civil (yr z) (3 * ((moy z - 1) / 3) + 1) 1
  | Year => days_from_civil (yr z) 1 1
  end.

Definition rec_ok (g : gran) (z : Z) : bool :=
  (if startd g (z+1) then truncd g (z+1) =? z+1 else truncd g (z+1) =? truncd g z)
  && (truncd g z <=? z) && startd g (truncd g z).

Lemma startd_shift g z k : startd g (z + ERA * k) = startd g z.
Proof.
  destruct g; cbn [startd]; trivial.
  - unfold ERA. f_equal. lia.
  - unfold dom. rewrite civil_shift. destruct (civil z) as [[? ?] ?]. reflexivity.
  - unfold dom, moy. rewrite civil_shift. destruct (civil z) as [[? ?] ?]. reflexivity.
  - unfold dom, moy. rewrite civil_shift. destruct (civil z) as [[? ?] ?]. reflexivity.
Qed.

Lemma truncd_shift g z k : truncd g (z + ERA * k) = truncd g z + ERA * k.
Proof.
  destruct g; cbn [truncd]; trivial.
  - unfold ERA. lia.
  - unfold dom. rewrite civil_shift. destruct (civil z) as [[? ?] ?]. lia.
  - unfold yr, moy. rewrite civil_shift. destruct (civil z) as [[? ?] ?]. apply dfc_shift.
  - unfold yr. rewrite civil_shift. destruct (civil z) as [[? ?] ?]. apply dfc_shift.
Qed.

Lemma rec_ok_shift g z k : rec_ok g (z + ERA * k) = rec_ok g z.
Proof.
  unfold rec_ok.
  replace (z + ERA * k + 1) with (z + 1 + ERA * k) by lia.
  rewrite !startd_shift, !truncd_shift, startd_shift.
  destruct (startd g (z+1)); f_equal; f_equal; try (f_equal; lia).
  - destruct (Z.eqb_spec (truncd g (z+1)) (z+1)), (Z.eqb_spec (truncd g (z + 1) + ERA * k) (z + 1 + ERA * k)); trivial; lia.
  - destruct (Z.eqb_spec (truncd g (z+1)) (truncd g z)), (Z.eqb_spec (truncd g (z + 1) + ERA * k) (truncd g z + ERA * k)); trivial; lia.
  - destruct (Z.leb_spec (truncd g z) z), (Z.leb_spec (truncd g z + ERA * k) (z + ERA * k)); trivial; lia.
  - destruct (Z.leb_spec (truncd g z) z), (Z.leb_spec (truncd g z + ERA * k) (z + ERA * k)); trivial; lia.
Qed.

(* ---------- microsecond level (definitions only; the floor theorems are in Base/CalendarFacts.v) ---------- *)
Definition UD : Z := 86400000000.   (* microseconds per day *)
Definition UH : Z := 3600000000.    (* microseconds per hour *)

Definition trunc (g : gran) (t : Z) : Z :=
  match g with
  | Hour => t / UH * UH
  | _ => truncd g (t / UD) * UD
  end.

Definition boundary (g : gran) (t : Z) : Prop :=
  match g with
  | Hour => t mod UH = 0
  | _ => t mod UD = 0 /\ startd g (t / UD) = true
  end.
