(* Dynamic universe of Python values for the output of translator/gen_params.py.  External behaviour (decimal printing
   of ints, float parsing, str.isalnum per character) is a Section variable, never an axiom. *)
From Coq Require Import ZArith String Ascii List Bool Lia.
Import ListNotations.
Open Scope string_scope.

(* ---------- a small universe of Python values ---------- *)
Inductive pyfloat := FFinite (repr : string) | FNan | FPosInf | FNegInf.   (* finite floats are carried by their repr *)
Inductive pyval := PNone | PBool (b : bool) | PInt (z : Z) | PFloat (f : pyfloat) | PStr (s : string) | PExn.
Inductive res := Ret (v : pyval) | Raise.
Definition bind_val (v : pyval) (k : pyval -> res) : res := match v with PExn => Raise | _ => k v end.

Section Oracles.
(* external behaviour, recorded in the trusted base: decimal printing of integers and parsing of float literals *)
Variable z_repr : Z -> string.
Variable float_parse : string -> option pyfloat.
Variable isalnum_char : ascii -> bool.

Definition py_truthy (v : pyval) : bool :=
  match v with PNone => false | PBool b => b | PInt z => negb (Z.eqb z 0) | PFloat (FFinite r) => negb (String.eqb r "0.0" || String.eqb r "-0.0")
             | PFloat _ => true | PStr s => negb (String.eqb s "") | PExn => false end.
Definition py_is_none (v : pyval) : pyval := PBool (match v with PNone => true | _ => false end).
Definition py_str (v : pyval) : pyval :=
  match v with
  | PNone => PStr "None" | PBool true => PStr "True" | PBool false => PStr "False"
  | PInt z => PStr (z_repr z)
  | PFloat (FFinite r) => PStr r | PFloat FNan => PStr "nan" | PFloat FPosInf => PStr "inf" | PFloat FNegInf => PStr "-inf"
  | PStr s => PStr s | PExn => PExn end.
Definition py_concat (a b : pyval) : pyval := match a, b with PStr x, PStr y => PStr (x ++ y) | _, _ => PExn end.
Definition py_eq (a b : pyval) : pyval :=
  PBool (match a, b with PStr x, PStr y => String.eqb x y | PNone, PNone => true | PBool x, PBool y => Bool.eqb x y | PInt x, PInt y => Z.eqb x y | _, _ => false end).
Definition py_not (a : pyval) : pyval := PBool (negb (py_truthy a)).
Definition py_and (a b : pyval) : pyval := if py_truthy a then b else a.
Definition py_isinstance (v : pyval) (tys : list string) : pyval :=
  PBool (existsb (fun t => match v with
                           | PBool _ => String.eqb t "int" || String.eqb t "bool"     (* bool is a subclass of int *)
                           | PInt _ => String.eqb t "int" | PFloat _ => String.eqb t "float" | PStr _ => String.eqb t "str"
                           | _ => false end) tys).
Definition py_float (v : pyval) : pyval :=
  match v with
  | PStr s => match float_parse s with Some f => PFloat f | None => PExn end
  | PInt z => PFloat (FFinite (z_repr z ++ ".0")) | PBool b => PFloat (FFinite (if b then "1.0" else "0.0"))
  | PFloat f => PFloat f | _ => PExn end.
Definition py_neg (v : pyval) : pyval :=
  match v with PFloat FPosInf => PFloat FNegInf | PFloat FNegInf => PFloat FPosInf | PFloat FNan => PFloat FNan | _ => PExn end.
(* only the comparisons against +-inf that the code performs *)
Definition py_lt (a b : pyval) : pyval :=
  match a, b with
  | PFloat FNegInf, PFloat (FFinite _) | PFloat (FFinite _), PFloat FPosInf | PFloat FNegInf, PFloat FPosInf => PBool true
  | PFloat _, PFloat _ => PBool false
  | _, _ => PExn end.

(* str.replace for a one-character pattern (the only form the translated code uses) *)
Fixpoint replace_char (c : ascii) (new : string) (s : string) : string :=
  match s with EmptyString => EmptyString | String x r => (if Ascii.eqb x c then new else String x EmptyString) ++ replace_char c new r end.
Definition py_replace (s old new : pyval) : pyval :=
  match s, old, new with PStr s, PStr (String c EmptyString), PStr n => PStr (replace_char c n s) | _, _, _ => PExn end.
Fixpoint all_chars (p : ascii -> bool) (s : string) : bool := match s with EmptyString => true | String c r => p c && all_chars p r end.
Definition py_isalnum (v : pyval) : pyval :=
  match v with PStr s => PBool (negb (String.eqb s "") && all_chars isalnum_char s) | _ => PExn end.
End Oracles.


(* control-flow helpers of the translated code: a raised exception inside a condition or a returned expression propagates *)
Definition ret_val (v : pyval) : res := match v with PExn => Raise | _ => Ret v end.
Definition if_truthy (c : pyval) (a b : res) : res := match c with PExn => Raise | _ => if py_truthy c then a else b end.
