From Coq Require Import List Arith Bool Lia.
Import ListNotations.

Section BFS.
Variable V : Type.
Variable eqb : V -> V -> bool.
Hypothesis eqb_spec : forall a b, reflect (a = b) (eqb a b).
Variable L : Type.
Variable succ : V -> list (L * V).

Local Notation hop := (V * L * V)%type.
Local Notation path := (list (V * L * V)).

Fixpoint mem (x : V) (l : list V) : bool := match l with [] => false | y :: r => eqb x y || mem x r end.
Lemma mem_In x l : mem x l = true <-> In x l.
Proof. induction l as [|y r IH]; cbn; [split; [discriminate|tauto]|].
  rewrite orb_true_iff, IH. destruct (eqb_spec x y); split; intros; subst; auto; intuition congruence. Qed.

(* chain a p b : p is a connected chain of successor edges from a to b *)
Inductive chain : V -> path -> V -> Prop :=
| chain_nil a : chain a [] a
| chain_snoc a p x l y : chain a p x -> In (l, y) (succ x) -> chain a (p ++ [(x, l, y)]) y.

Fixpoint expand_node (cur : V) (p : path) (es : list (L * V)) (tgt : V) (vis : list V) (acc : list (V * path))
  : option path * list V * list (V * path) :=
  match es with
  | [] => (None, vis, acc)
  | (l, n) :: r =>
      if mem n vis then expand_node cur p r tgt vis acc
      else let p' := p ++ [(cur, l, n)] in
           if eqb n tgt then (Some p', vis, acc)
           else expand_node cur p r tgt (n :: vis) (acc ++ [(n, p')])
  end.

Fixpoint expand_frontier (fr : list (V * path)) (tgt : V) (vis : list V) (acc : list (V * path))
  : option path * list V * list (V * path) :=
  match fr with
  | [] => (None, vis, acc)
  | (c, p) :: r =>
      match expand_node c p (succ c) tgt vis acc with
      | (Some q, v, a) => (Some q, v, a)
      | (None, vis', acc') => expand_frontier r tgt vis' acc'
      end
  end.

Inductive result := Found (p : path) | NoPath | OutOfFuel.

Fixpoint bfs (fuel : nat) (fr : list (V * path)) (tgt : V) (vis : list V) : result :=
  match fuel with
  | O => OutOfFuel
  | S k => match expand_frontier fr tgt vis [] with
           | (Some q, _, _) => Found q
           | (None, _, []) => NoPath
           | (None, vis', fr') => bfs k fr' tgt vis'
           end
  end.

Definition find_path (fuel : nat) (a b : V) : result :=
  if eqb a b then Found [] else bfs fuel [(a, [])] b [a].

(* ---------- invariants ---------- *)
(* reach k x : x reachable from a by a chain of length <= k *)
Definition reach (a : V) (k : nat) (x : V) : Prop := exists p, chain a p x /\ length p <= k.

Record Inv (a tgt : V) (k : nat) (fr : list (V * path)) (vis : list V) : Prop := {
  i_paths : forall n p, In (n, p) fr -> chain a p n /\ length p = k;
  i_fr_vis : forall n p, In (n, p) fr -> In n vis;
  i_tgt : ~ In tgt vis;
  i_a : In a vis;
  i_reach : forall x, reach a k x -> In x vis;
  i_closed : forall x, In x vis -> (exists p, In (x, p) fr) \/ (forall l y, In (l, y) (succ x) -> In y vis)
}.

(* one node expansion *)
Lemma expand_node_spec a tgt k cur p es vis acc :
  chain a p cur -> length p = k -> ~ In tgt vis ->
  (forall n q, In (n, q) acc -> chain a q n /\ length q = S k) ->
  (forall n q, In (n, q) acc -> In n vis) ->
  (forall l y, In (l, y) es -> In (l, y) (succ cur)) ->
  match expand_node cur p es tgt vis acc with
  | (Some q, _, _) => chain a q tgt /\ length q = S k
  | (None, vis', acc') =>
      ~ In tgt vis' /\ (forall x, In x vis -> In x vis') /\
      (forall l y, In (l, y) es -> In y vis') /\
      (forall n q, In (n, q) acc' -> chain a q n /\ length q = S k) /\
      (forall n q, In (n, q) acc' -> In n vis') /\
      (forall n q, In (n, q) acc -> In (n, q) acc') /\
      (forall x, In x vis' -> In x vis \/ exists q, In (x, q) acc')
  end.
Proof.
  intros Hp Hk. revert vis acc.
  induction es as [|[l n] r IH]; intros vis acc Ht Hacc Haccv Hes; cbn [expand_node].
  - split; [exact Ht|]. split; [auto|]. split; [intros l y []|]. split; [exact Hacc|]. split; [exact Haccv|]. split; [auto|]. intros x Hx; left; exact Hx.
  - destruct (mem n vis) eqn:Em.
    + specialize (IH vis acc Ht Hacc Haccv (fun l y H => Hes l y (or_intror H))).
      destruct (expand_node cur p r tgt vis acc) as [[[q|] v'] a']; [exact IH|].
      destruct IH as (I1 & I2 & I3 & I4 & I5 & I6 & I7).
      split; [exact I1|]. split; [exact I2|]. split.
      { intros l0 y [E|E]; [injection E as <- <-; apply I2, mem_In, Em | eapply I3; eauto]. }
      split; [exact I4|]. split; [exact I5|]. split; [exact I6| exact I7].
    + assert (Hnew : chain a (p ++ [(cur, l, n)]) n /\ length (p ++ [(cur, l, n)]) = S k).
      { split; [apply chain_snoc; auto; apply Hes; left; reflexivity | rewrite app_length; cbn; lia]. }
      destruct (eqb_spec n tgt) as [->|Hne]; [exact Hnew|].
      assert (Hnv : ~ In n vis) by (rewrite <- mem_In, Em; discriminate).
      specialize (IH (n :: vis) (acc ++ [(n, p ++ [(cur, l, n)])])).
      destruct (expand_node cur p r tgt (n :: vis) (acc ++ [(n, p ++ [(cur, l, n)])])) as [[[q|] v'] a'].
      * apply IH; auto.
        -- intros [E|E]; [congruence|auto].
        -- intros n0 q0 Hin. apply in_app_iff in Hin. destruct Hin as [Hin|[E|[]]]; [auto|injection E as <- <-; exact Hnew].
        -- intros n0 q0 Hin. apply in_app_iff in Hin. destruct Hin as [Hin|[E|[]]]; [right; eauto|injection E as <- <-; left; reflexivity].
        -- intros; apply Hes; right; assumption.
      * destruct IH as (I1 & I2 & I3 & I4 & I5 & I6 & I7).
        -- intros [E|E]; [congruence|auto].
        -- intros n0 q0 Hin. apply in_app_iff in Hin. destruct Hin as [Hin|[E|[]]]; [auto|injection E as <- <-; exact Hnew].
        -- intros n0 q0 Hin. apply in_app_iff in Hin. destruct Hin as [Hin|[E|[]]]; [right; eauto|injection E as <- <-; left; reflexivity].
        -- intros; apply Hes; right; assumption.
        -- split; [exact I1|]. split; [intros x Hx; apply I2; right; exact Hx|]. split.
           { intros l0 y [E|E]; [injection E as <- <-; apply I2; left; reflexivity | eapply I3; eauto]. }
           split; [exact I4|]. split; [exact I5|]. split.
           { intros n0 q0 Hin. apply I6, in_app_iff. left. exact Hin. }
           intros x Hx. destruct (I7 x Hx) as [[<-|Hv]|Hq]; auto.
           right. exists (p ++ [(cur, l, n)]). apply I6, in_app_iff. right. left. reflexivity.
Qed.

Lemma expand_frontier_spec a tgt k fr vis acc :
  (forall n p, In (n, p) fr -> chain a p n /\ length p = k) -> ~ In tgt vis ->
  (forall n q, In (n, q) acc -> chain a q n /\ length q = S k) ->
  (forall n q, In (n, q) acc -> In n vis) ->
  match expand_frontier fr tgt vis acc with
  | (Some q, _, _) => chain a q tgt /\ length q = S k
  | (None, vis', acc') =>
      ~ In tgt vis' /\ (forall x, In x vis -> In x vis') /\
      (forall n p, In (n, p) fr -> forall l y, In (l, y) (succ n) -> In y vis') /\
      (forall n q, In (n, q) acc' -> chain a q n /\ length q = S k) /\
      (forall n q, In (n, q) acc' -> In n vis') /\
      (forall n q, In (n, q) acc -> In (n, q) acc') /\
      (forall x, In x vis' -> In x vis \/ exists q, In (x, q) acc')
  end.
Proof.
  revert vis acc. induction fr as [|[c p] r IH]; intros vis acc Hfr Ht Hacc Haccv; cbn [expand_frontier].
  - split; [exact Ht|]. split; [auto|]. split; [intros n p []|]. split; [exact Hacc|]. split; [exact Haccv|]. split; [auto|].
    intros x Hx; left; exact Hx.
  - destruct (Hfr c p (or_introl eq_refl)) as [Hc Hl].
    pose proof (expand_node_spec a tgt k c p (succ c) vis acc Hc Hl Ht Hacc Haccv (fun l y H => H)) as HN.
    destruct (expand_node c p (succ c) tgt vis acc) as [[[q|] v1] a1]; [exact HN|].
    destruct HN as (N1 & N2 & N3 & N4 & N5 & N6 & N7).
    specialize (IH v1 a1 (fun n p0 H => Hfr n p0 (or_intror H)) N1 N4 N5).
    destruct (expand_frontier r tgt v1 a1) as [[[q|] v2] a2]; [exact IH|].
    destruct IH as (I1 & I2 & I3 & I4 & I5 & I6 & I7).
    split; [exact I1|]. split; [auto|]. split.
    { intros n p0 [E|E] l y Hy; [injection E as <- <-; apply I2, (N3 l y Hy) | eapply I3; eauto]. }
    split; [exact I4|]. split; [exact I5|]. split; [auto|].
    intros x Hx. destruct (I7 x Hx) as [Hv|[q Hq]]; [|right; eauto].
    destruct (N7 x Hv) as [Hv0|[q Hq]]; [left; exact Hv0 | right; exists q; auto].
Qed.

Lemma chain_snoc_inv a p x : chain a p x -> p <> [] ->
  exists p0 x0 l, p = p0 ++ [(x0, l, x)] /\ chain a p0 x0 /\ In (l, x) (succ x0).
Proof. intros H. destruct H as [|a p x0 l y H1 H2]; [congruence|]. intros _. eauto 8. Qed.

Lemma closed_chain (S : V -> Prop) a p x :
  (forall u, S u -> forall l y, In (l, y) (succ u) -> S y) -> S a -> chain a p x -> S x.
Proof. intros Hc Ha H. induction H; eauto. Qed.

Theorem bfs_correct fuel : forall a tgt k fr vis, Inv a tgt k fr vis ->
  match bfs fuel fr tgt vis with
  | Found q => chain a q tgt /\ forall p', chain a p' tgt -> length q <= length p'
  | NoPath => forall p', ~ chain a p' tgt
  | OutOfFuel => True
  end.
Proof.
  induction fuel as [|fuel IH]; intros a tgt k fr vis HI; cbn [bfs]; [exact I|].
  destruct HI as [P1 P2 P3 P4 P5 P6].
  pose proof (expand_frontier_spec a tgt k fr vis [] P1 P3 (fun n q (H : In (n,q) []) => match H with end) (fun n q (H : In (n,q) []) => match H with end)) as HF.
  destruct (expand_frontier fr tgt vis []) as [[[q|] v'] fr'].
  - destruct HF as [Hq Hl]. split; [exact Hq|]. intros p' Hp'.
    destruct (Nat.le_gt_cases (length q) (length p')) as [|Hlt]; [assumption|]. exfalso.
    apply P3, P5. exists p'. split; [exact Hp'|lia].
  - destruct HF as (F1 & F2 & F3 & F4 & F5 & _ & F7).
    assert (Hclosed_old : forall x, In x vis -> forall l y, In (l, y) (succ x) -> In y v').
    { intros x Hx l y Hy. destruct (P6 x Hx) as [[p Hp]|Hall]; [eapply F3; eauto | apply F2; eapply Hall; eauto]. }
    destruct fr' as [|f0 fr'].
    + (* no new nodes: visited set is closed, target not in it *)
      intros p' Hp'. apply F1.
      apply (closed_chain (fun u => In u v') a p' tgt); auto.
      intros u Hu l y Hy. destruct (F7 u Hu) as [Hv|[q []]]. eapply Hclosed_old; eauto.
    + apply (IH a tgt (S k)). constructor.
      * exact F4.
      * exact F5.
      * exact F1.
      * apply F2, P4.
      * intros x [p [Hp Hlen]].
        destruct (Nat.eq_dec (length p) (S k)) as [E|NE].
        -- destruct (chain_snoc_inv a p x Hp) as (p0 & x0 & l & -> & H0 & Hin); [intro; subst; discriminate|].
           rewrite app_length in E; cbn in E.
           eapply Hclosed_old; [|exact Hin]. apply P5. exists p0. split; [exact H0|lia].
        -- apply F2, P5. exists p. split; [exact Hp|lia].
      * intros x Hx. destruct (F7 x Hx) as [Hv|[q Hq]]; [right; intros l y Hy; eapply Hclosed_old; eauto | left; eauto].
Qed.

Theorem find_path_correct fuel a b :
  match find_path fuel a b with
  | Found q => chain a q b /\ forall p', chain a p' b -> length q <= length p'
  | NoPath => forall p', ~ chain a p' b
  | OutOfFuel => True
  end.
Proof.
  unfold find_path. destruct (eqb_spec a b) as [->|Hne].
  - split; [constructor|]. intros; cbn; lia.
  - apply (bfs_correct fuel a b 0). constructor.
    + intros n p [E|[]]. injection E as <- <-. split; [constructor|reflexivity].
    + intros n p [E|[]]. injection E as <- <-. left; reflexivity.
    + intros [E|[]]. congruence.
    + left; reflexivity.
    + intros x [p [Hp Hl]]. destruct p; [|cbn in Hl; lia]. inversion Hp; subst; [left; reflexivity|].
      match goal with H : _ ++ [_] = [] |- _ => destruct (app_cons_not_nil _ _ _ (eq_sym H)) end.
    + intros x [<-|[]]. left. exists []. left. reflexivity.
Qed.

(* ---------- fuel sufficiency: the search never runs out of fuel on a finite node universe ---------- *)
Variable U : list V.
Hypothesis succ_in_U : forall x l y, In (l, y) (succ x) -> In y U.

Lemma expand_node_size cur p es tgt vis acc :
  NoDup vis -> (forall l y, In (l, y) es -> In y U) -> (forall x, In x vis -> In x U) ->
  match expand_node cur p es tgt vis acc with
  | (Some _, _, _) => True
  | (None, vis', acc') => NoDup vis' /\ (forall x, In x vis' -> In x U) /\
                          length vis' + length acc = length vis + length acc'
  end.
Proof.
  revert vis acc. induction es as [|[l n] r IH]; intros vis acc Hnd Hes HU; cbn [expand_node].
  - auto.
  - destruct (mem n vis) eqn:Em.
    + apply IH; auto. intros; eapply Hes; right; eauto.
    + destruct (eqb_spec n tgt); [exact I|].
      assert (~ In n vis) by (rewrite <- mem_In, Em; discriminate).
      specialize (IH (n :: vis) (acc ++ [(n, p ++ [(cur, l, n)])])).
      destruct (expand_node cur p r tgt (n :: vis) (acc ++ [(n, p ++ [(cur, l, n)])])) as [[[q|] v'] a']; [exact I|].
      destruct IH as (I1 & I2 & I3).
      * constructor; assumption.
      * intros; eapply Hes; right; eauto.
      * intros x [<-|Hx]; [eapply Hes; left; reflexivity | auto].
      * repeat split; auto. rewrite app_length in I3. cbn in I3. lia.
Qed.

Lemma expand_frontier_size fr tgt vis acc :
  NoDup vis -> (forall x, In x vis -> In x U) ->
  match expand_frontier fr tgt vis acc with
  | (Some _, _, _) => True
  | (None, vis', acc') => NoDup vis' /\ (forall x, In x vis' -> In x U) /\
                          length vis' + length acc = length vis + length acc'
  end.
Proof.
  revert vis acc. induction fr as [|[c p] r IH]; intros vis acc Hnd HU; cbn [expand_frontier]; [auto|].
  pose proof (expand_node_size c p (succ c) tgt vis acc Hnd (fun l y H => succ_in_U c l y H) HU) as HN.
  destruct (expand_node c p (succ c) tgt vis acc) as [[[q|] v1] a1]; [exact I|].
  destruct HN as (N1 & N2 & N3).
  specialize (IH v1 a1 N1 N2).
  destruct (expand_frontier r tgt v1 a1) as [[[q|] v2] a2]; [exact I|].
  destruct IH as (I1 & I2 & I3). repeat split; auto. lia.
Qed.

Theorem bfs_fuel fuel : forall fr tgt vis,
  NoDup vis -> (forall x, In x vis -> In x U) -> length U < fuel + length vis ->
  bfs fuel fr tgt vis <> OutOfFuel.
Proof.
  induction fuel as [|fuel IH]; intros fr tgt vis Hnd HU Hlen.
  - exfalso. pose proof (NoDup_incl_length Hnd HU). lia.
  - cbn [bfs]. pose proof (expand_frontier_size fr tgt vis [] Hnd HU) as HS.
    destruct (expand_frontier fr tgt vis []) as [[[q|] v'] fr']; [discriminate|].
    destruct HS as (S1 & S2 & S3). destruct fr' as [|f0 fr']; [discriminate|].
    apply IH; auto. cbn in S3. lia.
Qed.

Theorem find_path_total a b : In a U -> find_path (S (length U)) a b <> OutOfFuel.
Proof.
  intros Ha. unfold find_path. destruct (eqb_spec a b); [discriminate|].
  apply bfs_fuel.
  - constructor; [intros []|constructor].
  - intros x [<-|[]]; assumption.
  - cbn. lia.
Qed.
End BFS.


