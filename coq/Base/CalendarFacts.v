(* rec_ok for every day number; floors onto boundary sets; microsecond-level truncation. *)
From Coq Require Import ZArith List Bool Lia String.
Require Import V.Base.Calendar V.Base.CalSweepMonth V.Base.CalSweepQuarter V.Base.CalSweepYear.
Open Scope Z_scope.
Ltac Zify.zify_post_hook ::= Z.to_euclidean_division_equations.

Lemma rec_ok_all g z : rec_ok g z = true.
Proof.
  destruct g.
  - unfold rec_ok; cbn. rewrite Z.eqb_refl, Z.leb_refl. reflexivity.
  - unfold rec_ok; cbn. rewrite Z.eqb_refl, Z.leb_refl. reflexivity.
  - unfold rec_ok; cbn [startd truncd].
    destruct (Z.eqb_spec ((z + 1 + 3) mod 7) 0) as [E|E];
    repeat (apply andb_true_intro; split); try (apply Z.eqb_eq); try (apply Z.leb_le); lia.
  - apply (era_lift (rec_ok Month)); [apply rec_ok_shift | apply rec_sweep_month].
  - apply (era_lift (rec_ok Quarter)); [apply rec_ok_shift | apply rec_sweep_quarter].
  - apply (era_lift (rec_ok Year)); [apply rec_ok_shift | apply rec_sweep_year].
Qed.




(* ---------- abstract floors onto boundary sets ---------- *)
Definition is_floor (B : Z -> Prop) (f : Z -> Z) : Prop :=
  forall t, B (f t) /\ f t <= t /\ forall b, B b -> b <= t -> b <= f t.

Lemma floor_compose BQ BP fq fp :
  is_floor BQ fq -> is_floor BP fp -> (forall b, BQ b -> BP b) ->
  forall t, fq (fp t) = fq t.
Proof.
  intros HQ HP Hsub t.
  destruct (HQ t) as (Q1 & Q2 & Q3). destruct (HP t) as (P1 & P2 & P3).
  destruct (HQ (fp t)) as (R1 & R2 & R3).
  assert (fq t <= fp t) by (apply P3; auto).
  assert (fq (fp t) <= fq t) by (apply Q3; auto; lia).
  assert (fq t <= fq (fp t)) by (apply R3; auto).
  lia.
Qed.

(* ---------- day level: recurrence => floor ---------- *)
Lemma rec_parts g z :
  (startd g (z+1) = true -> truncd g (z+1) = z+1) /\
  (startd g (z+1) = false -> truncd g (z+1) = truncd g z) /\
  truncd g z <= z /\ startd g (truncd g z) = true.
Proof.
  pose proof (rec_ok_all g z) as H. unfold rec_ok in H.
  apply andb_true_iff in H. destruct H as [H H3]. apply andb_true_iff in H. destruct H as [H1 H2].
  apply Z.leb_le in H2.
  destruct (startd g (z+1)); apply Z.eqb_eq in H1; repeat split; auto; discriminate.
Qed.

Lemma truncd_floor g : is_floor (fun z => startd g z = true) (truncd g).
Proof.
  intro t. destruct (rec_parts g t) as (_ & _ & Hle & Hst). repeat split; auto.
  intros b Hb Hbt.
  (* induction on t - b *)
  assert (forall n : nat, forall t, t - b = Z.of_nat n -> b <= truncd g t) as IH.
  { induction n as [|n IHn]; intros t0 Ht0.
    - assert (t0 = b) by lia. subst t0.
      destruct (rec_parts g (b-1)) as (H1 & _). replace (b - 1 + 1) with b in H1 by lia.
      rewrite (H1 Hb). lia.
    - destruct (rec_parts g (t0-1)) as (H1 & H2 & _). replace (t0 - 1 + 1) with t0 in * by lia.
      destruct (startd g t0) eqn:E.
      + rewrite (H1 eq_refl). lia.
      + rewrite (H2 eq_refl). apply IHn. lia. }
  apply (IH (Z.to_nat (t - b))). lia.
Qed.

(* ---------- microsecond level: UD, UH, trunc, boundary are defined in Base/Calendar.v (models that only need the DEFINITIONS do not load the sweeps) ---------- *)

Lemma trunc_floor g : is_floor (boundary g) (trunc g).
Proof.
  destruct g; intro t; cbn [trunc boundary].
  1: { unfold UH. repeat split; try lia. }
  all: match goal with |- context [truncd ?g _] => destruct (truncd_floor g (t / UD)) as (F1 & F2 & F3) end.
  all: unfold UD in *; repeat split.
  all: try (rewrite Z.mod_mul; lia).
  all: try (rewrite Z.div_mul by lia; exact F1).
  all: try lia.
  all: intros b [Hb1 Hb2] Hbt; specialize (F3 (b / 86400000000) Hb2); lia.
Qed.

Lemma boundary_incl q p :
  (match q, p with
   | Hour, Hour | Day, (Hour|Day) | Week, (Hour|Day|Week) | Month, (Hour|Day|Month)
   | Quarter, (Hour|Day|Month|Quarter) | Year, (Hour|Day|Month|Quarter|Year) => True
   | _, _ => False end) ->
  forall b, boundary q b -> boundary p b.
Proof.
  destruct q, p; intros H b; try contradiction; cbn [boundary startd]; unfold UD, UH; intros Hb; try tauto; try lia.
  all: try (destruct Hb as [Hb1 Hb2]; try lia; split; auto).
  all: try (apply andb_true_iff in Hb2; destruct Hb2 as [Hd Hm]; try assumption).
  all: try (apply andb_true_iff; split; auto).
  (* year -> quarter : moy = 1 -> (moy-1) mod 3 = 0 *)
  all: try (apply Z.eqb_eq in Hm; rewrite Hm; reflexivity).
Qed.
