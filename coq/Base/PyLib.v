(* Typed helper library for the output of translator/py2v_typed.py: association lists as Python dict literals,
   optional ints as `dict.get` results. *)
From Coq Require Import ZArith String List Bool.
Import ListNotations.
Fixpoint assoc_get {A} (l : list (string * A)) (k : string) : option A :=
  match l with [] => None | (k', v) :: r => if String.eqb k k' then Some v else assoc_get r k end.
Definition assoc_get_default {A} (l : list (string * A)) (k : string) (d : A) : A :=
  match assoc_get l k with Some v => v | None => d end.
Definition is_none {A} (o : option A) : bool := match o with None => true | Some _ => false end.
(* Python raises TypeError when comparing None with an int; the translated code only compares after the None test,
   so the None case is unreachable there; it is mapped to false. *)
Definition opt_leb (a b : option Z) : bool := match a, b with Some x, Some y => Z.leb x y | _, _ => false end.
Definition opt_ltb (a b : option Z) : bool := match a, b with Some x, Some y => Z.ltb x y | _, _ => false end.
Definition opt_geb (a b : option Z) : bool := match a, b with Some x, Some y => Z.geb x y | _, _ => false end.
Definition opt_gtb (a b : option Z) : bool := match a, b with Some x, Some y => Z.gtb x y | _, _ => false end.
(* Python truthiness / comparisons of an optional string (None and "" are falsy) and of a list *)
Definition opt_truthy (o : option string) : bool := match o with Some s => negb (String.eqb s "") | None => false end.
Definition opt_eqb (o : option string) (s : string) : bool := match o with Some x => String.eqb x s | None => false end.
Definition opt_in (o : option string) (l : list string) : bool := match o with Some x => existsb (String.eqb x) l | None => false end.
Definition list_truthy {A} (l : list A) : bool := match l with [] => false | _ => true end.
Lemma assoc_get_in {A} (l : list (string * A)) k v : assoc_get l k = Some v -> In (k, v) l.
Proof.
  induction l as [|[k' v'] r IH]; cbn; [discriminate|].
  destruct (String.eqb_spec k k'); intros H; [injection H as <-; subst; auto | right; auto].
Qed.

(* a Python value of type  str | list[str] | None  (relationship / model key fields) *)
Inductive pykey := KNone | KStr (s : string) | KList (l : list string).
Definition key_is_none (k : pykey) : bool := match k with KNone => true | _ => false end.
Definition key_is_str (k : pykey) : bool := match k with KStr _ => true | _ => false end.
Definition key_is_list (k : pykey) : bool := match k with KList _ => true | _ => false end.
Definition key_truthy (k : pykey) : bool :=
  match k with KNone => false | KStr s => negb (String.eqb s "") | KList l => match l with [] => false | _ => true end end.
(* coercions, only emitted under the corresponding isinstance / is-None guards *)
Definition key_as_str (k : pykey) : string := match k with KStr s => s | _ => EmptyString end.
Definition key_as_list (k : pykey) : list string := match k with KList l => l | KStr s => [s] | KNone => [] end.
Definition key_of_optstr (o : option string) : pykey := match o with Some s => KStr s | None => KNone end.
Definition key_or (a b : pykey) : pykey := if key_truthy a then a else b.
