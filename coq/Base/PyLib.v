(* Typed helper library for the output of translator/py2v_typed.py: association lists as Python dict literals,
   optional ints as `dict.get` results. *)
From Coq Require Import ZArith String List Bool.
Import ListNotations.
Fixpoint assoc_get {A} (l : list (string * A)) (k : string) : option A :=
  match l with [] => None | (k', v) :: r => if String.eqb k k' then Some v else assoc_get r k end.
Definition assoc_get_default {A} (l : list (string * A)) (k : string) (d : A) : A :=
  match assoc_get l k with Some v => v | None => d end.
Definition is_none {A} (o : option A) : bool := match o with None => true | Some _ => false end.
(* Python raises TypeError when comparing None with an int; the translated code only compares after the None test,
   so the None case is unreachable there; it is mapped to false. *)
Definition opt_leb (a b : option Z) : bool := match a, b with Some x, Some y => Z.leb x y | _, _ => false end.
Definition opt_ltb (a b : option Z) : bool := match a, b with Some x, Some y => Z.ltb x y | _, _ => false end.
Definition opt_geb (a b : option Z) : bool := match a, b with Some x, Some y => Z.geb x y | _, _ => false end.
Definition opt_gtb (a b : option Z) : bool := match a, b with Some x, Some y => Z.gtb x y | _, _ => false end.
Lemma assoc_get_in {A} (l : list (string * A)) k v : assoc_get l k = Some v -> In (k, v) l.
Proof.
  induction l as [|[k' v'] r IH]; cbn; [discriminate|].
  destruct (String.eqb_spec k k'); intros H; [injection H as <-; subst; auto | right; auto].
Qed.
