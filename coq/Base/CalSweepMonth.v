(* One-era exhaustive sweep (146097 days) of the truncation recurrence for Month; lifted to all Z in CalendarFacts.v by era_lift. *)
From Coq Require Import ZArith Bool.
Require Import V.Base.Calendar.
Lemma rec_sweep_month : sweep (rec_ok Month) 0 146097 = true.
Proof. vm_cast_no_check (eq_refl true). Qed.
