(* One-era exhaustive sweep (146097 days) of the truncation recurrence for Year; lifted to all Z in CalendarFacts.v by era_lift. *)
From Coq Require Import ZArith Bool.
Require Import V.Base.Calendar.
Lemma rec_sweep_year : sweep (rec_ok Year) 0 146097 = true.
Proof. vm_cast_no_check (eq_refl true). Qed.
