(* GENERATED on every run by translator/gen_derivable.py from sidemantic/core/preagg_matcher.py (_is_measure_derivable) -- do not edit *)
From Coq Require Import ZArith String List Bool.
Require Import V.Base.PyLib.
Import ListNotations.
Open Scope string_scope.

Definition is_measure_derivable (metric_name : string) (metric_agg : option string) (metric_filters : list string) (rollup_measures : list string) (count_measure : option string) : bool :=
  let preagg_measures := rollup_measures in
  if (negb (existsb (String.eqb metric_name) preagg_measures)) then false
  else if (list_truthy metric_filters) then false
  else let agg_type := metric_agg in
  if (negb (opt_truthy agg_type)) then false
  else if (opt_in agg_type ["sum"; "count"; "min"; "max"]) then true
  else if (opt_eqb agg_type "avg") then let count_measure := count_measure in
  (negb (is_none count_measure))
  else if (opt_eqb agg_type "count_distinct") then false
  else false.
