(* GENERATED on every run by translator/gen_refresh.py from sidemantic/core/pre_aggregation.py -- do not edit *)
From Coq Require Import String List Bool.
Require Import V.Model.RefreshProg.
Import ListNotations.
Open Scope string_scope.

Definition refresh_full_prog : list stmt := [SDropIfExists TTarget; SCreateAs TTarget None].

(* arguments: the target table exists; it has a maximum watermark (is non-empty); a lookback is given *)
Definition refresh_incr_prog (exists_ has_wm has_lb : bool) : list stmt :=
  match exists_, has_wm, has_lb with
  | false, false, false => [SCreateAs TTarget (Some WCur)]
  | false, false, true => [SCreateAs TTarget (Some WLookback)]
  | false, true, false => [SCreateAs TTarget (Some WCur)]
  | false, true, true => [SCreateAs TTarget (Some WLookback)]
  | true, false, false => [SInsertSrc TTarget (Some WCur)]
  | true, false, true => [SInsertSrc TTarget (Some WLookback)]
  | true, true, false => [SInsertSrc TTarget (Some WCur)]
  | true, true, true => [SInsertSrc TTarget (Some WLookback)]
  end.

(* arguments: the target table exists; it has a maximum watermark (is non-empty); a lookback is given *)
Definition refresh_merge_prog (exists_ has_wm has_lb : bool) : list stmt :=
  match exists_, has_wm, has_lb with
  | false, false, false => [SCreateAs TTarget (Some WCur)]
  | false, false, true => [SCreateAs TTarget (Some WLookback)]
  | false, true, false => [SCreateAs TTarget (Some WCur)]
  | false, true, true => [SCreateAs TTarget (Some WLookback)]
  | true, false, false => [SDropIfExists TTemp; SCreateAs TTemp (Some WCur); SDelete TTarget CGe WCur; SInsertAll TTarget TTemp; SDrop TTemp]
  | true, false, true => [SDropIfExists TTemp; SCreateAs TTemp (Some WLookback); SDelete TTarget CGe WLookback; SInsertAll TTarget TTemp; SDrop TTemp]
  | true, true, false => [SDropIfExists TTemp; SCreateAs TTemp (Some WCur); SDelete TTarget CGe WCur; SInsertAll TTarget TTemp; SDrop TTemp]
  | true, true, true => [SDropIfExists TTemp; SCreateAs TTemp (Some WLookback); SDelete TTarget CGe WLookback; SInsertAll TTarget TTemp; SDrop TTemp]
  end.

Definition mode_dispatch : list (string * string) := [("full", "_refresh_full"); ("incremental", "_refresh_incremental"); ("merge", "_refresh_merge"); ("engine", "_refresh_engine")].
