(* GENERATED on every run by translator/gen_params.py from sidemantic/core/parameter.py -- do not edit *)
From Coq Require Import ZArith String List Bool.
Require Import V.Base.PyVal.
Import ListNotations.
Open Scope string_scope.

Section FormatValue.
(* oracles: external behaviour recorded in the trusted base *)
Variable z_repr : Z -> string.
Variable float_parse : string -> option pyfloat.
Variable isalnum_char : Ascii.ascii -> bool.
Local Notation py_str := (PyVal.py_str z_repr).
Local Notation py_float := (PyVal.py_float z_repr float_parse).
Local Notation py_isalnum := (PyVal.py_isalnum isalnum_char).
Variable self_type : pyval.
Variable self_default_value : pyval.
Definition format_value (value : pyval) : res :=
  (if_truthy (py_is_none value)
   (bind_val self_default_value (fun value =>
  (if_truthy (py_eq self_type (PStr "string"))
   (bind_val (py_replace (py_str value) (PStr "'") (PStr "''")) (fun escaped =>
  (ret_val (py_concat (py_concat (PStr "'") (py_str escaped)) (PStr "'")))))
   (if_truthy (py_eq self_type (PStr "date"))
   (bind_val (py_replace (py_str value) (PStr "'") (PStr "''")) (fun escaped =>
  (ret_val (py_concat (py_concat (PStr "'") (py_str escaped)) (PStr "'")))))
   (if_truthy (py_eq self_type (PStr "number"))
   (if_truthy (py_isinstance value ["int"; "float"])
   (if_truthy (py_and (py_isinstance value ["float"]) (py_not (py_and (py_lt (py_neg (PFloat FPosInf)) value) (py_lt value (PFloat FPosInf)))))
   Raise
   (ret_val (py_str value)))
   (if_truthy (py_isinstance value ["str"])
   (bind_val (py_float value) (fun parsed =>
  (if_truthy (py_not (py_and (py_lt (py_neg (PFloat FPosInf)) parsed) (py_lt parsed (PFloat FPosInf))))
   Raise
   (ret_val (py_str parsed)))))
   Raise))
   (if_truthy (py_eq self_type (PStr "unquoted"))
   (bind_val (py_str value) (fun str_value =>
  (if_truthy (py_not (py_isalnum (py_replace (py_replace str_value (PStr "_") (PStr "")) (PStr ".") (PStr ""))))
   Raise
   (ret_val str_value))))
   (if_truthy (py_eq self_type (PStr "yesno"))
   (ret_val (if py_truthy value then (PStr "TRUE") else (PStr "FALSE")))
   (ret_val (py_str value)))))))))
   (if_truthy (py_eq self_type (PStr "string"))
   (bind_val (py_replace (py_str value) (PStr "'") (PStr "''")) (fun escaped =>
  (ret_val (py_concat (py_concat (PStr "'") (py_str escaped)) (PStr "'")))))
   (if_truthy (py_eq self_type (PStr "date"))
   (bind_val (py_replace (py_str value) (PStr "'") (PStr "''")) (fun escaped =>
  (ret_val (py_concat (py_concat (PStr "'") (py_str escaped)) (PStr "'")))))
   (if_truthy (py_eq self_type (PStr "number"))
   (if_truthy (py_isinstance value ["int"; "float"])
   (if_truthy (py_and (py_isinstance value ["float"]) (py_not (py_and (py_lt (py_neg (PFloat FPosInf)) value) (py_lt value (PFloat FPosInf)))))
   Raise
   (ret_val (py_str value)))
   (if_truthy (py_isinstance value ["str"])
   (bind_val (py_float value) (fun parsed =>
  (if_truthy (py_not (py_and (py_lt (py_neg (PFloat FPosInf)) parsed) (py_lt parsed (PFloat FPosInf))))
   Raise
   (ret_val (py_str parsed)))))
   Raise))
   (if_truthy (py_eq self_type (PStr "unquoted"))
   (bind_val (py_str value) (fun str_value =>
  (if_truthy (py_not (py_isalnum (py_replace (py_replace str_value (PStr "_") (PStr "")) (PStr ".") (PStr ""))))
   Raise
   (ret_val str_value))))
   (if_truthy (py_eq self_type (PStr "yesno"))
   (ret_val (if py_truthy value then (PStr "TRUE") else (PStr "FALSE")))
   (ret_val (py_str value)))))))).
End FormatValue.
