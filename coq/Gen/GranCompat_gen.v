(* GENERATED on every run by translator/gen_grancompat.py from sidemantic/core/preagg_matcher.py -- do not edit *)
From Coq Require Import ZArith String List Bool.
Require Import V.Base.PyLib.
Import ListNotations.
Open Scope string_scope.

Definition GRANULARITY_HIERARCHY : list (string * Z) :=
  [("year", (1)%Z); ("quarter", (2)%Z); ("month", (3)%Z); ("week", (4)%Z); ("day", (5)%Z); ("hour", (6)%Z)].

Definition is_granularity_compatible (query_granularity : string) (preagg_granularity : string) : bool :=
  let query_level := (assoc_get GRANULARITY_HIERARCHY query_granularity) in
  let preagg_level := (assoc_get GRANULARITY_HIERARCHY preagg_granularity) in
  if (orb (is_none query_level) (is_none preagg_level)) then (String.eqb query_granularity preagg_granularity)
  else if (andb (String.eqb preagg_granularity "week") (existsb (String.eqb query_granularity) ["month"; "quarter"; "year"])) then false
  else (opt_leb query_level preagg_level).
