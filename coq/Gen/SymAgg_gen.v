(* GENERATED on every run by translator/gen_symagg.py from sidemantic/core/symmetric_aggregate.py (build_symmetric_aggregate_sql, DuckDB branch)
   and sidemantic/sql/generator.py (SQLGenerator._has_fanout_joins) -- do not edit *)
From Coq Require Import ZArith String List Bool.
Require Import V.Model.SymShape.
Import ListNotations.
Open Scope string_scope.

(* aggregation literal -> the shape of the SQL the function returns (ShReject: it raises ValueError) *)
Definition sym_shapes : list (string * shape) :=
  [("sum", ShSumDiff (1099511627776)%Z);
   ("avg", ShAvg (1099511627776)%Z);
   ("count", ShCountDistinctKey);
   ("count_distinct", ShCountDistinctMeasure);
   ("min", ShPlain "min");
   ("max", ShPlain "max");
   ("median", ShReject);
   ("stddev", ShReject);
   ("variance", ShReject);
   ("weird", ShReject)].

(* one row per scripted scenario: the join path from the base model to each other model (hop types; None = the search raises),
   the verdict for the base model, the verdicts for the other models *)
Definition fanout_rows : list (list (option (list string)) * bool * list bool) :=
  [([], false, []);
   ([(Some [])], false, [false]);
   ([(Some ["one_to_many"])], true, [false]);
   ([(Some ["many_to_one"])], false, [false]);
   ([(Some ["one_to_one"])], false, [false]);
   ([(Some ["many_to_one"; "one_to_many"])], true, [false]);
   ([(Some ["one_to_many"; "many_to_one"])], true, [false]);
   ([(Some ["one_to_one"; "one_to_one"])], false, [false]);
   ([(Some ["many_to_one"; "many_to_one"])], false, [false]);
   ([None], false, [false]);
   ([None], false, [false]);
   ([(Some []); (Some [])], false, [false; false]);
   ([(Some []); (Some ["one_to_many"])], true, [false; false]);
   ([(Some []); (Some ["many_to_one"])], false, [false; false]);
   ([(Some []); (Some ["one_to_one"])], false, [false; false]);
   ([(Some []); (Some ["many_to_one"; "one_to_many"])], true, [false; false]);
   ([(Some []); (Some ["one_to_many"; "many_to_one"])], true, [false; false]);
   ([(Some []); (Some ["one_to_one"; "one_to_one"])], false, [false; false]);
   ([(Some []); (Some ["many_to_one"; "many_to_one"])], false, [false; false]);
   ([(Some []); None], false, [false; false]);
   ([(Some []); None], false, [false; false]);
   ([(Some ["one_to_many"]); (Some [])], true, [false; false]);
   ([(Some ["one_to_many"]); (Some ["one_to_many"])], true, [false; false]);
   ([(Some ["one_to_many"]); (Some ["many_to_one"])], true, [false; false]);
   ([(Some ["one_to_many"]); (Some ["one_to_one"])], true, [false; false]);
   ([(Some ["one_to_many"]); (Some ["many_to_one"; "one_to_many"])], true, [false; false]);
   ([(Some ["one_to_many"]); (Some ["one_to_many"; "many_to_one"])], true, [false; false]);
   ([(Some ["one_to_many"]); (Some ["one_to_one"; "one_to_one"])], true, [false; false]);
   ([(Some ["one_to_many"]); (Some ["many_to_one"; "many_to_one"])], true, [false; false]);
   ([(Some ["one_to_many"]); None], true, [false; false]);
   ([(Some ["one_to_many"]); None], true, [false; false]);
   ([(Some ["many_to_one"]); (Some [])], false, [false; false]);
   ([(Some ["many_to_one"]); (Some ["one_to_many"])], true, [false; false]);
   ([(Some ["many_to_one"]); (Some ["many_to_one"])], false, [false; false]);
   ([(Some ["many_to_one"]); (Some ["one_to_one"])], false, [false; false]);
   ([(Some ["many_to_one"]); (Some ["many_to_one"; "one_to_many"])], true, [false; false]);
   ([(Some ["many_to_one"]); (Some ["one_to_many"; "many_to_one"])], true, [false; false]);
   ([(Some ["many_to_one"]); (Some ["one_to_one"; "one_to_one"])], false, [false; false]);
   ([(Some ["many_to_one"]); (Some ["many_to_one"; "many_to_one"])], false, [false; false]);
   ([(Some ["many_to_one"]); None], false, [false; false]);
   ([(Some ["many_to_one"]); None], false, [false; false]);
   ([(Some ["one_to_one"]); (Some [])], false, [false; false]);
   ([(Some ["one_to_one"]); (Some ["one_to_many"])], true, [false; false]);
   ([(Some ["one_to_one"]); (Some ["many_to_one"])], false, [false; false]);
   ([(Some ["one_to_one"]); (Some ["one_to_one"])], false, [false; false]);
   ([(Some ["one_to_one"]); (Some ["many_to_one"; "one_to_many"])], true, [false; false]);
   ([(Some ["one_to_one"]); (Some ["one_to_many"; "many_to_one"])], true, [false; false]);
   ([(Some ["one_to_one"]); (Some ["one_to_one"; "one_to_one"])], false, [false; false]);
   ([(Some ["one_to_one"]); (Some ["many_to_one"; "many_to_one"])], false, [false; false]);
   ([(Some ["one_to_one"]); None], false, [false; false]);
   ([(Some ["one_to_one"]); None], false, [false; false]);
   ([(Some ["many_to_one"; "one_to_many"]); (Some [])], true, [false; false]);
   ([(Some ["many_to_one"; "one_to_many"]); (Some ["one_to_many"])], true, [false; false]);
   ([(Some ["many_to_one"; "one_to_many"]); (Some ["many_to_one"])], true, [false; false]);
   ([(Some ["many_to_one"; "one_to_many"]); (Some ["one_to_one"])], true, [false; false]);
   ([(Some ["many_to_one"; "one_to_many"]); (Some ["many_to_one"; "one_to_many"])], true, [false; false]);
   ([(Some ["many_to_one"; "one_to_many"]); (Some ["one_to_many"; "many_to_one"])], true, [false; false]);
   ([(Some ["many_to_one"; "one_to_many"]); (Some ["one_to_one"; "one_to_one"])], true, [false; false]);
   ([(Some ["many_to_one"; "one_to_many"]); (Some ["many_to_one"; "many_to_one"])], true, [false; false]);
   ([(Some ["many_to_one"; "one_to_many"]); None], true, [false; false]);
   ([(Some ["many_to_one"; "one_to_many"]); None], true, [false; false]);
   ([(Some ["one_to_many"; "many_to_one"]); (Some [])], true, [false; false]);
   ([(Some ["one_to_many"; "many_to_one"]); (Some ["one_to_many"])], true, [false; false]);
   ([(Some ["one_to_many"; "many_to_one"]); (Some ["many_to_one"])], true, [false; false]);
   ([(Some ["one_to_many"; "many_to_one"]); (Some ["one_to_one"])], true, [false; false]);
   ([(Some ["one_to_many"; "many_to_one"]); (Some ["many_to_one"; "one_to_many"])], true, [false; false]);
   ([(Some ["one_to_many"; "many_to_one"]); (Some ["one_to_many"; "many_to_one"])], true, [false; false]);
   ([(Some ["one_to_many"; "many_to_one"]); (Some ["one_to_one"; "one_to_one"])], true, [false; false]);
   ([(Some ["one_to_many"; "many_to_one"]); (Some ["many_to_one"; "many_to_one"])], true, [false; false]);
   ([(Some ["one_to_many"; "many_to_one"]); None], true, [false; false]);
   ([(Some ["one_to_many"; "many_to_one"]); None], true, [false; false]);
   ([(Some ["one_to_one"; "one_to_one"]); (Some [])], false, [false; false]);
   ([(Some ["one_to_one"; "one_to_one"]); (Some ["one_to_many"])], true, [false; false]);
   ([(Some ["one_to_one"; "one_to_one"]); (Some ["many_to_one"])], false, [false; false]);
   ([(Some ["one_to_one"; "one_to_one"]); (Some ["one_to_one"])], false, [false; false]);
   ([(Some ["one_to_one"; "one_to_one"]); (Some ["many_to_one"; "one_to_many"])], true, [false; false]);
   ([(Some ["one_to_one"; "one_to_one"]); (Some ["one_to_many"; "many_to_one"])], true, [false; false]);
   ([(Some ["one_to_one"; "one_to_one"]); (Some ["one_to_one"; "one_to_one"])], false, [false; false]);
   ([(Some ["one_to_one"; "one_to_one"]); (Some ["many_to_one"; "many_to_one"])], false, [false; false]);
   ([(Some ["one_to_one"; "one_to_one"]); None], false, [false; false]);
   ([(Some ["one_to_one"; "one_to_one"]); None], false, [false; false]);
   ([(Some ["many_to_one"; "many_to_one"]); (Some [])], false, [false; false]);
   ([(Some ["many_to_one"; "many_to_one"]); (Some ["one_to_many"])], true, [false; false]);
   ([(Some ["many_to_one"; "many_to_one"]); (Some ["many_to_one"])], false, [false; false]);
   ([(Some ["many_to_one"; "many_to_one"]); (Some ["one_to_one"])], false, [false; false]);
   ([(Some ["many_to_one"; "many_to_one"]); (Some ["many_to_one"; "one_to_many"])], true, [false; false]);
   ([(Some ["many_to_one"; "many_to_one"]); (Some ["one_to_many"; "many_to_one"])], true, [false; false]);
   ([(Some ["many_to_one"; "many_to_one"]); (Some ["one_to_one"; "one_to_one"])], false, [false; false]);
   ([(Some ["many_to_one"; "many_to_one"]); (Some ["many_to_one"; "many_to_one"])], false, [false; false]);
   ([(Some ["many_to_one"; "many_to_one"]); None], false, [false; false]);
   ([(Some ["many_to_one"; "many_to_one"]); None], false, [false; false]);
   ([None; (Some [])], false, [false; false]);
   ([None; (Some ["one_to_many"])], true, [false; false]);
   ([None; (Some ["many_to_one"])], false, [false; false]);
   ([None; (Some ["one_to_one"])], false, [false; false]);
   ([None; (Some ["many_to_one"; "one_to_many"])], true, [false; false]);
   ([None; (Some ["one_to_many"; "many_to_one"])], true, [false; false]);
   ([None; (Some ["one_to_one"; "one_to_one"])], false, [false; false]);
   ([None; (Some ["many_to_one"; "many_to_one"])], false, [false; false]);
   ([None; None], false, [false; false]);
   ([None; None], false, [false; false]);
   ([None; (Some [])], false, [false; false]);
   ([None; (Some ["one_to_many"])], true, [false; false]);
   ([None; (Some ["many_to_one"])], false, [false; false]);
   ([None; (Some ["one_to_one"])], false, [false; false]);
   ([None; (Some ["many_to_one"; "one_to_many"])], true, [false; false]);
   ([None; (Some ["one_to_many"; "many_to_one"])], true, [false; false]);
   ([None; (Some ["one_to_one"; "one_to_one"])], false, [false; false]);
   ([None; (Some ["many_to_one"; "many_to_one"])], false, [false; false]);
   ([None; None], false, [false; false]);
   ([None; None], false, [false; false])].
