(* GENERATED on every run by translator/gen_lagoffset.py from sidemantic/sql/generator.py (_calculate_lag_offset) -- do not edit *)
From Coq Require Import ZArith String List Bool.
Require Import V.Base.PyLib.
Import ListNotations.
Open Scope string_scope.

Definition default_offsets : list (string * Z) := [("dod", (1)%Z); ("wow", (1)%Z); ("mom", (1)%Z); ("qoq", (1)%Z); ("yoy", (12)%Z); ("prior_period", (1)%Z)].

Definition offset_map : list (string * list (string * Z)) :=
  [("dod", [("day", (1)%Z); ("week", (1)%Z); ("month", (1)%Z); ("quarter", (1)%Z); ("year", (1)%Z)]);
   ("wow", [("day", (7)%Z); ("week", (1)%Z); ("month", (1)%Z); ("quarter", (1)%Z); ("year", (1)%Z)]);
   ("mom", [("day", (30)%Z); ("week", (4)%Z); ("month", (1)%Z); ("quarter", (1)%Z); ("year", (1)%Z)]);
   ("qoq", [("day", (90)%Z); ("week", (13)%Z); ("month", (3)%Z); ("quarter", (1)%Z); ("year", (1)%Z)]);
   ("yoy", [("day", (365)%Z); ("week", (52)%Z); ("month", (12)%Z); ("quarter", (4)%Z); ("year", (1)%Z)]);
   ("prior_period", [("day", (1)%Z); ("week", (1)%Z); ("month", (1)%Z); ("quarter", (1)%Z); ("year", (1)%Z)])].

(* Python truthiness of an optional string: None and "" are falsy *)
Definition truthy (o : option string) : bool := match o with Some s => negb (String.eqb s "") | None => false end.
Definition opt_str (o : option string) : string := match o with Some s => s | None => "" end.

Definition lag_offset (comparison_type time_granularity : option string) : Z :=
  if negb (truthy comparison_type) then 1%Z
  else if negb (truthy time_granularity) then assoc_get_default default_offsets (opt_str comparison_type) 1%Z
  else match assoc_get offset_map (opt_str comparison_type) with
       | Some row => assoc_get_default row (opt_str time_granularity) 1%Z
       | None => 1%Z
       end.
