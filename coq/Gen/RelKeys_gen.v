(* GENERATED on every run by translator/gen_relkeys.py from relationship.py, model.py, semantic_graph.py -- do not edit *)
From Coq Require Import ZArith String List Bool.
Require Import V.Base.PyLib.
Import ListNotations.
Open Scope string_scope.



Definition foreign_key_columns (name : string) (type : string) (foreign_key : pykey) : list string :=
  if (key_is_none foreign_key) then if (String.eqb type "many_to_one") then [(name ++ "_id")]
  else ["id"]
  else if (key_is_str foreign_key) then [key_as_str foreign_key]
  else (key_as_list foreign_key).

Definition rel_primary_key_columns (primary_key : pykey) : list string :=
  if (key_is_none primary_key) then ["id"]
  else if (key_is_str primary_key) then [key_as_str primary_key]
  else (key_as_list primary_key).

Definition junction_keys (type : string) (foreign_key : pykey) (through_foreign_key : option string) (related_foreign_key : option string) : (pykey * option string)%type :=
  if (negb (String.eqb type "many_to_many")) then (KNone, None)
  else ((key_or (key_of_optstr through_foreign_key) foreign_key), related_foreign_key).

Definition model_primary_key_columns (primary_key : pykey) : list string :=
  if (key_is_str primary_key) then [key_as_str primary_key]
  else (key_as_list primary_key).

Definition invert_relationship (relationship_type : string) : string :=
  if (String.eqb relationship_type "many_to_one") then "one_to_many"
  else if (String.eqb relationship_type "one_to_many") then "many_to_one"
  else relationship_type.
