(* GENERATED on every run by translator/gen_adjprog.py from sidemantic/core/semantic_graph.py -- do not edit *)
From Coq Require Import List.
Require Import V.Model.Conc.
Import ListNotations.

(* shared-state access skeleton of SemanticGraph.find_relationship_path (build_adjacency inlined) *)
Definition adjacency_prog : list action :=
  [(IfDirty 3) (* line 281 *); BuildLocal (* line 263 *); Publish (* line 263 *); SetFlagFalse (* line 283 *); Snapshot (* line 290 *); ReadSnap (* line 290 *)].
