(* GENERATED on every run by translator/gen_detect.py from sidemantic/loaders.py (load_from_directory) -- do not edit *)
From Coq Require Import String List Bool.
Require Import V.Model.Loader.
Import ListNotations.
Open Scope string_scope.

Definition detection_tree : dtree :=
  (Ite (CSuffix ".lkml") (Leaf (Some "LookML")) (Ite (CSuffix ".malloy") (Leaf (Some "Malloy")) (Ite (CSuffix ".sql") (Ite (CHas "<_looks_like_yardstick_sql>") (Leaf (Some "Yardstick")) (Leaf (Some "Sidemantic"))) (Ite (CSuffix ".json") (Ite (CAnd (CHas """ldm""") (CHas """datasets""")) (Leaf (Some "GoodData")) (Ite (CHas """projectModel""") (Leaf (Some "GoodData")) (Ite (COr (COr (CHas """dateInstances""") (CHas """date_instances""")) (CHas """dateDimensions""")) (Leaf (Some "GoodData")) (Ite (CAnd (CHas """datasets""") (COr (CHas """dataSourceTableId""") (CHas """data_source_table_id"""))) (Leaf (Some "GoodData")) (Leaf None))))) (Ite (CSuffix ".aml") (Leaf (Some "Holistics")) (Ite (CSuffix ".tml") (Leaf (Some "ThoughtSpot")) (Ite (CSuffixIn [".yml"; ".yaml"]) (Ite (CHas "semantic_models:") (Leaf (Some "MetricFlow")) (Ite (CAnd (CHas "semantic_model:") (CHas "datasets:")) (Leaf (Some "OSI")) (Ite (CAnd (CHas ": _.") (COr (CHas "dimensions:") (CHas "measures:"))) (Leaf (Some "BSL")) (Ite (COr (CHas "cubes:") (CAnd (CHas "views:") (CHas "measures:"))) (Leaf (Some "Cube")) (Ite (CHas "models:") (Leaf (Some "Sidemantic")) (Ite (CAnd (CAnd (CHas "table_name:") (CHas "columns:")) (CHas "metrics:")) (Leaf (Some "Superset")) (Ite (CAnd (CHas "tables:") (CHas "base_table:")) (Leaf (Some "Snowflake")) (Ite (CAnd (CHas "metrics:") (CHas "type: ")) (Leaf (Some "MetricFlow")) (Ite (CAnd (COr (CHas "base_sql_table:") (CHas "base_sql_query:")) (CHas "measures:")) (Leaf (Some "Hex")) (Ite (CAnd (CAnd (CHas "table:") (CHas "db_table:")) (CHas "columns:")) (Leaf (Some "ThoughtSpot")) (Ite (CAnd (CHas "worksheet:") (CHas "worksheet_columns:")) (Leaf (Some "ThoughtSpot")) (Ite (CHas "type: metrics_view") (Leaf (Some "Rill")) (Ite (CAnd (CAnd (CHas "measures:") (CHas "dimensions:")) (COr (COr (CHas "table_name:") (CHas "table:")) (CHas "schema:"))) (Leaf (Some "Omni")) (Leaf None)))))))))))))) (Leaf None)))))))).

(* MEASURED by the harness on this run: per kind of file an exporter writes (and its own adapter reads valid models from) -- label, suffix,
   the marker sets observed, the adapter that must handle it *)
Definition signatures : list (string * string * list (list string) * string) :=
  [("bsl.yml", ".yml", [[": _."; "dimensions:"; "measures:"; "table:"; "type: "]; [": _."; "dimensions:"; "table:"]], "BSL");
   ("cube.yml", ".yml", [["cubes:"; "dimensions:"; "measures:"; "table:"; "type: "]; ["cubes:"; "dimensions:"; "table:"; "type: "]], "Cube");
   ("gooddata.json", ".json", [["""dataSourceTableId"""; """datasets"""; """ldm"""]], "GoodData");
   ("hex.yml", ".yml", [["base_sql_query:"; "dimensions:"; "measures:"; "type: "]; ["base_sql_table:"; "dimensions:"; "measures:"; "table:"; "type: "]], "Hex");
   ("holistics.aml", ".aml", [["table_name:"; "type: "]; ["type: "]], "Holistics");
   ("lookml.lkml", ".lkml", [["table:"; "table_name:"; "type: "]; ["table_name:"; "type: "]], "LookML");
   ("malloy.malloy", ".malloy", [[]], "Malloy");
   ("metricflow.yml", ".yml", [["dimensions:"; "measures:"; "models:"; "semantic_models:"; "type: "]; ["dimensions:"; "models:"; "semantic_models:"; "type: "]], "MetricFlow");
   ("omni.yaml", ".yaml", [["dimensions:"; "measures:"; "table_name:"; "type: "]], "Omni");
   ("osi.yaml", ".yaml", [["columns:"; "datasets:"; "metrics:"; "semantic_model:"]; ["datasets:"; "metrics:"; "semantic_model:"]; ["datasets:"; "semantic_model:"]], "OSI");
   ("rill.yaml", ".yaml", [["dimensions:"; "measures:"; "type: "; "type: metrics_view"]; ["dimensions:"; "type: "; "type: metrics_view"]], "Rill");
   ("sidemantic.yml", ".yml", [["dimensions:"; "metrics:"; "models:"; "table:"; "type: "]; ["dimensions:"; "models:"; "table:"; "type: "]], "Sidemantic");
   ("snowflake.yaml", ".yaml", [["base_table:"; "columns:"; "dimensions:"; "table:"; "tables:"; "type: "]], "Snowflake");
   ("superset.yaml", ".yaml", [["columns:"; "metrics:"; "schema:"; "table_name:"; "type: "]], "Superset");
   ("thoughtspot.tml", ".tml", [["columns:"; "db_table:"; "table:"; "type: "]; ["columns:"; "table:"; "tables:"; "type: "; "worksheet:"; "worksheet_columns:"]], "ThoughtSpot")].
