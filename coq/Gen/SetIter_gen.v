(* GENERATED on every run by translator/gen_setiter.py from sidemantic/sql/generator.py -- do not edit *)
From Coq Require Import String List.
Require Import V.Model.Determ.
Import ListNotations.
Open Scope string_scope.

(* (file, function, line, iterated expression, classification) of every iteration over a set-typed value *)
Definition set_iteration_sites : list (string * string * nat * string * iter_kind) :=
  [("sidemantic/sql/generator.py", "generate", 402, "pushdown_filters.items()", Irrelevant);
   ("sidemantic/sql/generator.py", "generate", 437, "all_models", Sorted);
   ("sidemantic/sql/generator.py", "collect_models_from_metric", 617, "metric.get_dependencies(self.graph)", Sorted);
   ("sidemantic/sql/generator.py", "collect_models_from_metric", 622, "self._extract_models_from_sql(metric.sql)", Sorted);
   ("sidemantic/sql/generator.py", "collect_models_from_metric", 627, "self._extract_models_from_sql(metric.sql)", Sorted);
   ("sidemantic/sql/generator.py", "_classify_filters_for_pushdown", 696, "all_models", Irrelevant);
   ("sidemantic/sql/generator.py", "extract_from_measure_ref", 828, "deps", Sorted);
   ("sidemantic/sql/generator.py", "extract_from_metric", 847, "deps", Sorted);
   ("sidemantic/sql/generator.py", "extract_from_metric", 863, "deps", Sorted);
   ("sidemantic/sql/generator.py", "collect_measures_from_metric", 1138, "measure.get_dependencies(self.graph, ref_model_name)", Sorted);
   ("sidemantic/sql/generator.py", "collect_measures_from_metric", 1161, "measure.get_dependencies(self.graph, model_name)", Sorted);
   ("sidemantic/sql/generator.py", "collect_measures_from_metric", 1172, "metric.get_dependencies(self.graph, model_name)", Sorted);
   ("sidemantic/sql/generator.py", "_build_model_cte", 1183, "all_metric_columns", Sorted);
   ("sidemantic/sql/generator.py", "_build_model_cte", 1200, "all_metric_columns", Irrelevant);
   ("sidemantic/sql/generator.py", "_build_model_cte", 1206, "measures_needed", Sorted);
   ("sidemantic/sql/generator.py", "_needs_preaggregation_for_fanout", 1369, "enumerate(metric_model_list)", Irrelevant);
   ("sidemantic/sql/generator.py", "_generate_with_preaggregation", 1463, "pushdown_by_model", Sorted);
   ("sidemantic/sql/generator.py", "_build_metric_sql", 2216, "dependencies", Sorted);
   ("sidemantic/sql/generator.py", "collect_leaf_base_metrics", 2585, "dependencies", Sorted);
   ("sidemantic/sql/generator.py", "build_time_comparison_base_expression", 2729, "metric_obj.get_dependencies(self.graph, resolved_context)", Sorted)].
