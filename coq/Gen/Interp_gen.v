(* GENERATED on every run by translator/gen_interp.py from sidemantic/core/parameter.py (ParameterSet.interpolate / format / get) -- do not edit *)
From Coq Require Import String List Bool.
Require Import V.Model.Interp.
Import ListNotations.
Open Scope string_scope.

(* per scripted scenario: the template as pieces, the declared parameters with the text format_value returned for their current value, the text returned *)
Definition interp_rows : list (list piece * list (string * string) * string) :=
  [([Lit "status = "; Hole "{{ p }}" "p"], [("p", "<p|V1>"); ("q", "<q|V2>")], "status = <p|V1>");
   ([Lit "status = "; Hole "{{ p }}" "p"], [("p", "<p|{{ q }}>"); ("q", "<q|V2>")], "status = <p|{{ q }}>");
   ([Lit "status = "; Hole "{{ p }}" "p"], [("p", "<p|x {{p}} y>"); ("q", "<q|{{ p }}>")], "status = <p|x {{p}} y>");
   ([Lit "status = "; Hole "{{ p }}" "p"], [("p", "<p|it's>"); ("q", "<q|>")], "status = <p|it's>");
   ([Lit "status = "; Hole "{{ p }}" "p"], [("p", "<p|V1>"); ("q", "<q|DEFq>")], "status = <p|V1>");
   ([Lit "a = "; Hole "{{p}}" "p"; Lit " AND b = "; Hole "{{  q  }}" "q"], [("p", "<p|V1>"); ("q", "<q|V2>")], "a = <p|V1> AND b = <q|V2>");
   ([Lit "a = "; Hole "{{p}}" "p"; Lit " AND b = "; Hole "{{  q  }}" "q"], [("p", "<p|{{ q }}>"); ("q", "<q|V2>")], "a = <p|{{ q }}> AND b = <q|V2>");
   ([Lit "a = "; Hole "{{p}}" "p"; Lit " AND b = "; Hole "{{  q  }}" "q"], [("p", "<p|x {{p}} y>"); ("q", "<q|{{ p }}>")], "a = <p|x {{p}} y> AND b = <q|{{ p }}>");
   ([Lit "a = "; Hole "{{p}}" "p"; Lit " AND b = "; Hole "{{  q  }}" "q"], [("p", "<p|it's>"); ("q", "<q|>")], "a = <p|it's> AND b = <q|>");
   ([Lit "a = "; Hole "{{p}}" "p"; Lit " AND b = "; Hole "{{  q  }}" "q"], [("p", "<p|V1>"); ("q", "<q|DEFq>")], "a = <p|V1> AND b = <q|DEFq>");
   ([Lit "x = "; Hole "{{ nope }}" "nope"; Lit " AND y = "; Hole "{{ p }}" "p"], [("p", "<p|V1>"); ("q", "<q|V2>")], "x = {{ nope }} AND y = <p|V1>");
   ([Lit "x = "; Hole "{{ nope }}" "nope"; Lit " AND y = "; Hole "{{ p }}" "p"], [("p", "<p|{{ q }}>"); ("q", "<q|V2>")], "x = {{ nope }} AND y = <p|{{ q }}>");
   ([Lit "x = "; Hole "{{ nope }}" "nope"; Lit " AND y = "; Hole "{{ p }}" "p"], [("p", "<p|x {{p}} y>"); ("q", "<q|{{ p }}>")], "x = {{ nope }} AND y = <p|x {{p}} y>");
   ([Lit "x = "; Hole "{{ nope }}" "nope"; Lit " AND y = "; Hole "{{ p }}" "p"], [("p", "<p|it's>"); ("q", "<q|>")], "x = {{ nope }} AND y = <p|it's>");
   ([Lit "x = "; Hole "{{ nope }}" "nope"; Lit " AND y = "; Hole "{{ p }}" "p"], [("p", "<p|V1>"); ("q", "<q|DEFq>")], "x = {{ nope }} AND y = <p|V1>");
   ([Hole "{{ p }}" "p"; Hole "{{ q }}" "q"], [("p", "<p|V1>"); ("q", "<q|V2>")], "<p|V1><q|V2>");
   ([Hole "{{ p }}" "p"; Hole "{{ q }}" "q"], [("p", "<p|{{ q }}>"); ("q", "<q|V2>")], "<p|{{ q }}><q|V2>");
   ([Hole "{{ p }}" "p"; Hole "{{ q }}" "q"], [("p", "<p|x {{p}} y>"); ("q", "<q|{{ p }}>")], "<p|x {{p}} y><q|{{ p }}>");
   ([Hole "{{ p }}" "p"; Hole "{{ q }}" "q"], [("p", "<p|it's>"); ("q", "<q|>")], "<p|it's><q|>");
   ([Hole "{{ p }}" "p"; Hole "{{ q }}" "q"], [("p", "<p|V1>"); ("q", "<q|DEFq>")], "<p|V1><q|DEFq>");
   ([Lit "no holes at all"], [("p", "<p|V1>"); ("q", "<q|V2>")], "no holes at all");
   ([Lit "no holes at all"], [("p", "<p|{{ q }}>"); ("q", "<q|V2>")], "no holes at all");
   ([Lit "no holes at all"], [("p", "<p|x {{p}} y>"); ("q", "<q|{{ p }}>")], "no holes at all");
   ([Lit "no holes at all"], [("p", "<p|it's>"); ("q", "<q|>")], "no holes at all");
   ([Lit "no holes at all"], [("p", "<p|V1>"); ("q", "<q|DEFq>")], "no holes at all");
   ([Lit "d >= "; Hole "{{ p }}" "p"; Lit " AND d < "; Hole "{{ p }}" "p"], [("p", "<p|V1>"); ("q", "<q|V2>")], "d >= <p|V1> AND d < <p|V1>");
   ([Lit "d >= "; Hole "{{ p }}" "p"; Lit " AND d < "; Hole "{{ p }}" "p"], [("p", "<p|{{ q }}>"); ("q", "<q|V2>")], "d >= <p|{{ q }}> AND d < <p|{{ q }}>");
   ([Lit "d >= "; Hole "{{ p }}" "p"; Lit " AND d < "; Hole "{{ p }}" "p"], [("p", "<p|x {{p}} y>"); ("q", "<q|{{ p }}>")], "d >= <p|x {{p}} y> AND d < <p|x {{p}} y>");
   ([Lit "d >= "; Hole "{{ p }}" "p"; Lit " AND d < "; Hole "{{ p }}" "p"], [("p", "<p|it's>"); ("q", "<q|>")], "d >= <p|it's> AND d < <p|it's>");
   ([Lit "d >= "; Hole "{{ p }}" "p"; Lit " AND d < "; Hole "{{ p }}" "p"], [("p", "<p|V1>"); ("q", "<q|DEFq>")], "d >= <p|V1> AND d < <p|V1>");
   ([Lit "name = '{{ not a hole'"], [("p", "<p|V1>"); ("q", "<q|V2>")], "name = '{{ not a hole'");
   ([Lit "name = '{{ not a hole'"], [("p", "<p|{{ q }}>"); ("q", "<q|V2>")], "name = '{{ not a hole'");
   ([Lit "name = '{{ not a hole'"], [("p", "<p|x {{p}} y>"); ("q", "<q|{{ p }}>")], "name = '{{ not a hole'");
   ([Lit "name = '{{ not a hole'"], [("p", "<p|it's>"); ("q", "<q|>")], "name = '{{ not a hole'");
   ([Lit "name = '{{ not a hole'"], [("p", "<p|V1>"); ("q", "<q|DEFq>")], "name = '{{ not a hole'");
   ([Lit "k IN ("; Hole "{{ q }}" "q"; Lit ", "; Hole "{{ p }}" "p"; Lit ")"], [("p", "<p|V1>"); ("q", "<q|V2>")], "k IN (<q|V2>, <p|V1>)");
   ([Lit "k IN ("; Hole "{{ q }}" "q"; Lit ", "; Hole "{{ p }}" "p"; Lit ")"], [("p", "<p|{{ q }}>"); ("q", "<q|V2>")], "k IN (<q|V2>, <p|{{ q }}>)");
   ([Lit "k IN ("; Hole "{{ q }}" "q"; Lit ", "; Hole "{{ p }}" "p"; Lit ")"], [("p", "<p|x {{p}} y>"); ("q", "<q|{{ p }}>")], "k IN (<q|{{ p }}>, <p|x {{p}} y>)");
   ([Lit "k IN ("; Hole "{{ q }}" "q"; Lit ", "; Hole "{{ p }}" "p"; Lit ")"], [("p", "<p|it's>"); ("q", "<q|>")], "k IN (<q|>, <p|it's>)");
   ([Lit "k IN ("; Hole "{{ q }}" "q"; Lit ", "; Hole "{{ p }}" "p"; Lit ")"], [("p", "<p|V1>"); ("q", "<q|DEFq>")], "k IN (<q|DEFq>, <p|V1>)")].
