(* GENERATED on every run by translator/gen_cte.py from sidemantic/sql/generator.py (_build_model_cte, _find_needed_dimensions) -- do not edit *)
From Coq Require Import String List Bool.
Require Import V.Model.CteShape.
Import ListNotations.
Open Scope string_scope.

(* the scripted world: dimensions and metrics of model o, the parse trees of the scripted texts, the relationship variants of o, the other models of the graph
   (graph order: c, o, j, j2), the primary keys, the model SQL, the model sets and the join-key lists the scenarios index *)
Definition w_dims : list cdim :=
  [(mkDim "status" "categorical" None "status"); (mkDim "ts" "time" (Some "day") "created_at"); (mkDim "ts2" "time" None "{model}.updated"); (mkDim "xm" "numeric" None "{model}.a + 1"); (mkDim "c_id" "numeric" None "c_id * 1"); (mkDim "id" "numeric" None "id + 0"); (mkDim "rev_raw" "categorical" None "rr")].
Definition w_metrics : list cmet :=
  [(mkMet "rev" None (Some "sum") (Some "amount") "amount" [] [] false); (mkMet "cnt" None (Some "count") None "cnt" [] [] false); (mkMet "cntstar" None (Some "count") (Some "*") "*" [] [] false); (mkMet "cntx" None (Some "count") (Some "x") "x" [] [] false); (mkMet "cd" None (Some "count_distinct") None "cd" [] [] false); (mkMet "cdx" None (Some "count_distinct") (Some "{model}.u") "{model}.u" [] [] false); (mkMet "frev" None (Some "sum") (Some "amount") "amount" ["{model}.status = 'a'"; "{model}x > 1"] [] false); (mkMet "fcnt" None (Some "count") (Some "x") "x" ["f"] [] false); (mkMet "ratio" (Some "ratio") None None "ratio" [] ["o.cnt"; "o.rev"] false); (mkMet "der" (Some "derived") None (Some "rev + other") "rev + other" [] ["c.other"; "o.frev"; "rev"] false); (mkMet "cyc" (Some "derived") None (Some "cyc + cd") "cyc + cd" [] ["o.cd"; "o.cyc"] false); (mkMet "expr" None None (Some "rev * 2") "rev * 2" [] ["rev"] false); (mkMet "inline" None None (Some "AGG:inline") "AGG:inline" [] ["qty"] true); (mkMet "tc" (Some "time_comparison") None None "tc" [] ["o.rev"] false)].
Definition w_graph_metrics : list (string * list string) := [("gm", ["c.other"; "o.rev"])].
Definition w_texts : list (string * option (list (string * string))) :=
  [("Fs", (Some [("o", "status")])); ("Fcte", (Some [("o_cte", "ts2")])); ("Fc", (Some [("c", "x")])); ("Fmix", (Some [("o", "xm"); ("", "bare"); ("c", "y")])); ("BAD", None); ("AGG:inline", (Some [("", "qty"); ("o", "price"); ("o_cte", "status"); ("c", "x"); ("", "rev")]))].
Definition w_rels_o : list (list crel) :=
  [[]; [(mkRel "c" "many_to_one" ["c_id"] None None None)]; [(mkRel "c" "many_to_one" ["ca"; "cb"] None None None); (mkRel "z" "many_to_one" ["z_id"] None None None); (mkRel "c" "one_to_many" ["zz"] None None None)]].
Definition w_before : list (string * list crel) := [("c", [(mkRel "o" "one_to_many" ["o_fk"] None None None); (mkRel "o" "many_to_one" ["not_here"] None None None); (mkRel "x" "one_to_one" ["x_fk"] None None None)])].
Definition w_after : list (string * list crel) := [("j", [(mkRel "z" "many_to_many" ["id"] (Some "o") (Some "o_left") (Some "o_right")); (mkRel "o" "one_to_one" ["o_fk"; "o_fk2"] None None None)]); ("j2", [(mkRel "z" "many_to_many" ["id"] (Some "o") None (Some "o_r2")); (mkRel "z" "many_to_many" ["id"] (Some "other") (Some "no") (Some "no2"))])].
Definition w_pks : list (list string) := [["id"]; ["k1"; "k2"]].
Definition w_sqls : list (option string) := [None; (Some "SELECT * FROM raw")].
Definition w_all_models : list (list string) := [["o"]; ["o"; "c"]; ["o"; "c"; "j"; "j2"]].
Definition w_jks : list (option (list string)) := [None; (Some ["jk"; "id"; "status"])].
Definition cte_world : cworld := mkWorld w_dims w_metrics w_graph_metrics w_texts w_rels_o w_before w_after w_pks w_sqls w_all_models w_jks.

(* per scenario: (pk, sql, relationship variant, model set, join-key list, parsed dimensions, metrics, pushed filters, order_by, metric filter columns)
   ->  (CTE name as printed, projected (expression, alias) items, FROM, WHERE) *)
Definition cte_rows : list (cte_scenario * (string * list (string * string) * string * option string)) :=
  [((0, 0, 0, 0, 0, [("o.status", None); ("o.c_id", None)], ["o.rev"; "o.cd"], (Some ["Fs"]), None, None)%nat,
    ("QI(o_cte)", [("id", "QA(id)"); ("status", "QA(status)"); ("c_id * 1", "QA(c_id)"); ("id", "QA(cd_raw)"); ("amount", "QA(rev_raw)")], "raw.o", (Some "CONJ[P[status]]")));
   ((0, 0, 0, 0, 1, [("o.status", None); ("o.c_id", None)], ["o.rev"; "o.cd"], (Some ["Fs"]), None, None)%nat,
    ("QI(o_cte)", [("id", "QA(id)"); ("jk", "QA(jk)"); ("status", "QA(status)"); ("c_id * 1", "QA(c_id)"); ("id", "QA(cd_raw)"); ("amount", "QA(rev_raw)")], "raw.o", (Some "CONJ[P[status]]")));
   ((0, 0, 0, 1, 0, [("o.status", None); ("o.c_id", None)], ["o.rev"; "o.cd"], (Some ["Fs"]), None, None)%nat,
    ("QI(o_cte)", [("id", "QA(id)"); ("o_fk", "QA(o_fk)"); ("status", "QA(status)"); ("c_id * 1", "QA(c_id)"); ("id", "QA(cd_raw)"); ("amount", "QA(rev_raw)")], "raw.o", (Some "CONJ[P[status]]")));
   ((0, 0, 0, 1, 1, [("o.status", None); ("o.c_id", None)], ["o.rev"; "o.cd"], (Some ["Fs"]), None, None)%nat,
    ("QI(o_cte)", [("id", "QA(id)"); ("o_fk", "QA(o_fk)"); ("jk", "QA(jk)"); ("status", "QA(status)"); ("c_id * 1", "QA(c_id)"); ("id", "QA(cd_raw)"); ("amount", "QA(rev_raw)")], "raw.o", (Some "CONJ[P[status]]")));
   ((0, 0, 0, 2, 0, [("o.status", None); ("o.c_id", None)], ["o.rev"; "o.cd"], (Some ["Fs"]), None, None)%nat,
    ("QI(o_cte)", [("id", "QA(id)"); ("o_fk", "QA(o_fk)"); ("o_fk2", "QA(o_fk2)"); ("o_left", "QA(o_left)"); ("o_right", "QA(o_right)"); ("o_r2", "QA(o_r2)"); ("status", "QA(status)"); ("c_id * 1", "QA(c_id)"); ("id", "QA(cd_raw)"); ("amount", "QA(rev_raw)")], "raw.o", (Some "CONJ[P[status]]")));
   ((0, 0, 0, 2, 1, [("o.status", None); ("o.c_id", None)], ["o.rev"; "o.cd"], (Some ["Fs"]), None, None)%nat,
    ("QI(o_cte)", [("id", "QA(id)"); ("o_fk", "QA(o_fk)"); ("o_fk2", "QA(o_fk2)"); ("o_left", "QA(o_left)"); ("o_right", "QA(o_right)"); ("o_r2", "QA(o_r2)"); ("jk", "QA(jk)"); ("status", "QA(status)"); ("c_id * 1", "QA(c_id)"); ("id", "QA(cd_raw)"); ("amount", "QA(rev_raw)")], "raw.o", (Some "CONJ[P[status]]")));
   ((0, 0, 1, 0, 0, [("o.status", None); ("o.c_id", None)], ["o.rev"; "o.cd"], (Some ["Fs"]), None, None)%nat,
    ("QI(o_cte)", [("id", "QA(id)"); ("c_id", "QA(c_id)"); ("status", "QA(status)"); ("id", "QA(cd_raw)"); ("amount", "QA(rev_raw)")], "raw.o", (Some "CONJ[P[status]]")));
   ((0, 0, 1, 0, 1, [("o.status", None); ("o.c_id", None)], ["o.rev"; "o.cd"], (Some ["Fs"]), None, None)%nat,
    ("QI(o_cte)", [("id", "QA(id)"); ("c_id", "QA(c_id)"); ("jk", "QA(jk)"); ("status", "QA(status)"); ("id", "QA(cd_raw)"); ("amount", "QA(rev_raw)")], "raw.o", (Some "CONJ[P[status]]")));
   ((0, 0, 1, 1, 0, [("o.status", None); ("o.c_id", None)], ["o.rev"; "o.cd"], (Some ["Fs"]), None, None)%nat,
    ("QI(o_cte)", [("id", "QA(id)"); ("c_id", "QA(c_id)"); ("o_fk", "QA(o_fk)"); ("status", "QA(status)"); ("id", "QA(cd_raw)"); ("amount", "QA(rev_raw)")], "raw.o", (Some "CONJ[P[status]]")));
   ((0, 0, 1, 1, 1, [("o.status", None); ("o.c_id", None)], ["o.rev"; "o.cd"], (Some ["Fs"]), None, None)%nat,
    ("QI(o_cte)", [("id", "QA(id)"); ("c_id", "QA(c_id)"); ("o_fk", "QA(o_fk)"); ("jk", "QA(jk)"); ("status", "QA(status)"); ("id", "QA(cd_raw)"); ("amount", "QA(rev_raw)")], "raw.o", (Some "CONJ[P[status]]")));
   ((0, 0, 1, 2, 0, [("o.status", None); ("o.c_id", None)], ["o.rev"; "o.cd"], (Some ["Fs"]), None, None)%nat,
    ("QI(o_cte)", [("id", "QA(id)"); ("c_id", "QA(c_id)"); ("o_fk", "QA(o_fk)"); ("o_fk2", "QA(o_fk2)"); ("o_left", "QA(o_left)"); ("o_right", "QA(o_right)"); ("o_r2", "QA(o_r2)"); ("status", "QA(status)"); ("id", "QA(cd_raw)"); ("amount", "QA(rev_raw)")], "raw.o", (Some "CONJ[P[status]]")));
   ((0, 0, 1, 2, 1, [("o.status", None); ("o.c_id", None)], ["o.rev"; "o.cd"], (Some ["Fs"]), None, None)%nat,
    ("QI(o_cte)", [("id", "QA(id)"); ("c_id", "QA(c_id)"); ("o_fk", "QA(o_fk)"); ("o_fk2", "QA(o_fk2)"); ("o_left", "QA(o_left)"); ("o_right", "QA(o_right)"); ("o_r2", "QA(o_r2)"); ("jk", "QA(jk)"); ("status", "QA(status)"); ("id", "QA(cd_raw)"); ("amount", "QA(rev_raw)")], "raw.o", (Some "CONJ[P[status]]")));
   ((0, 0, 2, 0, 0, [("o.status", None); ("o.c_id", None)], ["o.rev"; "o.cd"], (Some ["Fs"]), None, None)%nat,
    ("QI(o_cte)", [("id", "QA(id)"); ("status", "QA(status)"); ("c_id * 1", "QA(c_id)"); ("id", "QA(cd_raw)"); ("amount", "QA(rev_raw)")], "raw.o", (Some "CONJ[P[status]]")));
   ((0, 0, 2, 0, 1, [("o.status", None); ("o.c_id", None)], ["o.rev"; "o.cd"], (Some ["Fs"]), None, None)%nat,
    ("QI(o_cte)", [("id", "QA(id)"); ("jk", "QA(jk)"); ("status", "QA(status)"); ("c_id * 1", "QA(c_id)"); ("id", "QA(cd_raw)"); ("amount", "QA(rev_raw)")], "raw.o", (Some "CONJ[P[status]]")));
   ((0, 0, 2, 1, 0, [("o.status", None); ("o.c_id", None)], ["o.rev"; "o.cd"], (Some ["Fs"]), None, None)%nat,
    ("QI(o_cte)", [("id", "QA(id)"); ("ca", "QA(ca)"); ("cb", "QA(cb)"); ("o_fk", "QA(o_fk)"); ("status", "QA(status)"); ("c_id * 1", "QA(c_id)"); ("id", "QA(cd_raw)"); ("amount", "QA(rev_raw)")], "raw.o", (Some "CONJ[P[status]]")));
   ((0, 0, 2, 1, 1, [("o.status", None); ("o.c_id", None)], ["o.rev"; "o.cd"], (Some ["Fs"]), None, None)%nat,
    ("QI(o_cte)", [("id", "QA(id)"); ("ca", "QA(ca)"); ("cb", "QA(cb)"); ("o_fk", "QA(o_fk)"); ("jk", "QA(jk)"); ("status", "QA(status)"); ("c_id * 1", "QA(c_id)"); ("id", "QA(cd_raw)"); ("amount", "QA(rev_raw)")], "raw.o", (Some "CONJ[P[status]]")));
   ((0, 0, 2, 2, 0, [("o.status", None); ("o.c_id", None)], ["o.rev"; "o.cd"], (Some ["Fs"]), None, None)%nat,
    ("QI(o_cte)", [("id", "QA(id)"); ("ca", "QA(ca)"); ("cb", "QA(cb)"); ("o_fk", "QA(o_fk)"); ("o_fk2", "QA(o_fk2)"); ("o_left", "QA(o_left)"); ("o_right", "QA(o_right)"); ("o_r2", "QA(o_r2)"); ("status", "QA(status)"); ("c_id * 1", "QA(c_id)"); ("id", "QA(cd_raw)"); ("amount", "QA(rev_raw)")], "raw.o", (Some "CONJ[P[status]]")));
   ((0, 0, 2, 2, 1, [("o.status", None); ("o.c_id", None)], ["o.rev"; "o.cd"], (Some ["Fs"]), None, None)%nat,
    ("QI(o_cte)", [("id", "QA(id)"); ("ca", "QA(ca)"); ("cb", "QA(cb)"); ("o_fk", "QA(o_fk)"); ("o_fk2", "QA(o_fk2)"); ("o_left", "QA(o_left)"); ("o_right", "QA(o_right)"); ("o_r2", "QA(o_r2)"); ("jk", "QA(jk)"); ("status", "QA(status)"); ("c_id * 1", "QA(c_id)"); ("id", "QA(cd_raw)"); ("amount", "QA(rev_raw)")], "raw.o", (Some "CONJ[P[status]]")));
   ((0, 1, 0, 0, 0, [("o.status", None); ("o.c_id", None)], ["o.rev"; "o.cd"], (Some ["Fs"]), None, None)%nat,
    ("QI(o_cte)", [("id", "QA(id)"); ("status", "QA(status)"); ("c_id * 1", "QA(c_id)"); ("id", "QA(cd_raw)"); ("amount", "QA(rev_raw)")], "(SELECT * FROM raw) AS t", (Some "CONJ[P[status]]")));
   ((0, 1, 0, 0, 1, [("o.status", None); ("o.c_id", None)], ["o.rev"; "o.cd"], (Some ["Fs"]), None, None)%nat,
    ("QI(o_cte)", [("id", "QA(id)"); ("jk", "QA(jk)"); ("status", "QA(status)"); ("c_id * 1", "QA(c_id)"); ("id", "QA(cd_raw)"); ("amount", "QA(rev_raw)")], "(SELECT * FROM raw) AS t", (Some "CONJ[P[status]]")));
   ((0, 1, 0, 1, 0, [("o.status", None); ("o.c_id", None)], ["o.rev"; "o.cd"], (Some ["Fs"]), None, None)%nat,
    ("QI(o_cte)", [("id", "QA(id)"); ("o_fk", "QA(o_fk)"); ("status", "QA(status)"); ("c_id * 1", "QA(c_id)"); ("id", "QA(cd_raw)"); ("amount", "QA(rev_raw)")], "(SELECT * FROM raw) AS t", (Some "CONJ[P[status]]")));
   ((0, 1, 0, 1, 1, [("o.status", None); ("o.c_id", None)], ["o.rev"; "o.cd"], (Some ["Fs"]), None, None)%nat,
    ("QI(o_cte)", [("id", "QA(id)"); ("o_fk", "QA(o_fk)"); ("jk", "QA(jk)"); ("status", "QA(status)"); ("c_id * 1", "QA(c_id)"); ("id", "QA(cd_raw)"); ("amount", "QA(rev_raw)")], "(SELECT * FROM raw) AS t", (Some "CONJ[P[status]]")));
   ((0, 1, 0, 2, 0, [("o.status", None); ("o.c_id", None)], ["o.rev"; "o.cd"], (Some ["Fs"]), None, None)%nat,
    ("QI(o_cte)", [("id", "QA(id)"); ("o_fk", "QA(o_fk)"); ("o_fk2", "QA(o_fk2)"); ("o_left", "QA(o_left)"); ("o_right", "QA(o_right)"); ("o_r2", "QA(o_r2)"); ("status", "QA(status)"); ("c_id * 1", "QA(c_id)"); ("id", "QA(cd_raw)"); ("amount", "QA(rev_raw)")], "(SELECT * FROM raw) AS t", (Some "CONJ[P[status]]")));
   ((0, 1, 0, 2, 1, [("o.status", None); ("o.c_id", None)], ["o.rev"; "o.cd"], (Some ["Fs"]), None, None)%nat,
    ("QI(o_cte)", [("id", "QA(id)"); ("o_fk", "QA(o_fk)"); ("o_fk2", "QA(o_fk2)"); ("o_left", "QA(o_left)"); ("o_right", "QA(o_right)"); ("o_r2", "QA(o_r2)"); ("jk", "QA(jk)"); ("status", "QA(status)"); ("c_id * 1", "QA(c_id)"); ("id", "QA(cd_raw)"); ("amount", "QA(rev_raw)")], "(SELECT * FROM raw) AS t", (Some "CONJ[P[status]]")));
   ((0, 1, 1, 0, 0, [("o.status", None); ("o.c_id", None)], ["o.rev"; "o.cd"], (Some ["Fs"]), None, None)%nat,
    ("QI(o_cte)", [("id", "QA(id)"); ("c_id", "QA(c_id)"); ("status", "QA(status)"); ("id", "QA(cd_raw)"); ("amount", "QA(rev_raw)")], "(SELECT * FROM raw) AS t", (Some "CONJ[P[status]]")));
   ((0, 1, 1, 0, 1, [("o.status", None); ("o.c_id", None)], ["o.rev"; "o.cd"], (Some ["Fs"]), None, None)%nat,
    ("QI(o_cte)", [("id", "QA(id)"); ("c_id", "QA(c_id)"); ("jk", "QA(jk)"); ("status", "QA(status)"); ("id", "QA(cd_raw)"); ("amount", "QA(rev_raw)")], "(SELECT * FROM raw) AS t", (Some "CONJ[P[status]]")));
   ((0, 1, 1, 1, 0, [("o.status", None); ("o.c_id", None)], ["o.rev"; "o.cd"], (Some ["Fs"]), None, None)%nat,
    ("QI(o_cte)", [("id", "QA(id)"); ("c_id", "QA(c_id)"); ("o_fk", "QA(o_fk)"); ("status", "QA(status)"); ("id", "QA(cd_raw)"); ("amount", "QA(rev_raw)")], "(SELECT * FROM raw) AS t", (Some "CONJ[P[status]]")));
   ((0, 1, 1, 1, 1, [("o.status", None); ("o.c_id", None)], ["o.rev"; "o.cd"], (Some ["Fs"]), None, None)%nat,
    ("QI(o_cte)", [("id", "QA(id)"); ("c_id", "QA(c_id)"); ("o_fk", "QA(o_fk)"); ("jk", "QA(jk)"); ("status", "QA(status)"); ("id", "QA(cd_raw)"); ("amount", "QA(rev_raw)")], "(SELECT * FROM raw) AS t", (Some "CONJ[P[status]]")));
   ((0, 1, 1, 2, 0, [("o.status", None); ("o.c_id", None)], ["o.rev"; "o.cd"], (Some ["Fs"]), None, None)%nat,
    ("QI(o_cte)", [("id", "QA(id)"); ("c_id", "QA(c_id)"); ("o_fk", "QA(o_fk)"); ("o_fk2", "QA(o_fk2)"); ("o_left", "QA(o_left)"); ("o_right", "QA(o_right)"); ("o_r2", "QA(o_r2)"); ("status", "QA(status)"); ("id", "QA(cd_raw)"); ("amount", "QA(rev_raw)")], "(SELECT * FROM raw) AS t", (Some "CONJ[P[status]]")));
   ((0, 1, 1, 2, 1, [("o.status", None); ("o.c_id", None)], ["o.rev"; "o.cd"], (Some ["Fs"]), None, None)%nat,
    ("QI(o_cte)", [("id", "QA(id)"); ("c_id", "QA(c_id)"); ("o_fk", "QA(o_fk)"); ("o_fk2", "QA(o_fk2)"); ("o_left", "QA(o_left)"); ("o_right", "QA(o_right)"); ("o_r2", "QA(o_r2)"); ("jk", "QA(jk)"); ("status", "QA(status)"); ("id", "QA(cd_raw)"); ("amount", "QA(rev_raw)")], "(SELECT * FROM raw) AS t", (Some "CONJ[P[status]]")));
   ((0, 1, 2, 0, 0, [("o.status", None); ("o.c_id", None)], ["o.rev"; "o.cd"], (Some ["Fs"]), None, None)%nat,
    ("QI(o_cte)", [("id", "QA(id)"); ("status", "QA(status)"); ("c_id * 1", "QA(c_id)"); ("id", "QA(cd_raw)"); ("amount", "QA(rev_raw)")], "(SELECT * FROM raw) AS t", (Some "CONJ[P[status]]")));
   ((0, 1, 2, 0, 1, [("o.status", None); ("o.c_id", None)], ["o.rev"; "o.cd"], (Some ["Fs"]), None, None)%nat,
    ("QI(o_cte)", [("id", "QA(id)"); ("jk", "QA(jk)"); ("status", "QA(status)"); ("c_id * 1", "QA(c_id)"); ("id", "QA(cd_raw)"); ("amount", "QA(rev_raw)")], "(SELECT * FROM raw) AS t", (Some "CONJ[P[status]]")));
   ((0, 1, 2, 1, 0, [("o.status", None); ("o.c_id", None)], ["o.rev"; "o.cd"], (Some ["Fs"]), None, None)%nat,
    ("QI(o_cte)", [("id", "QA(id)"); ("ca", "QA(ca)"); ("cb", "QA(cb)"); ("o_fk", "QA(o_fk)"); ("status", "QA(status)"); ("c_id * 1", "QA(c_id)"); ("id", "QA(cd_raw)"); ("amount", "QA(rev_raw)")], "(SELECT * FROM raw) AS t", (Some "CONJ[P[status]]")));
   ((0, 1, 2, 1, 1, [("o.status", None); ("o.c_id", None)], ["o.rev"; "o.cd"], (Some ["Fs"]), None, None)%nat,
    ("QI(o_cte)", [("id", "QA(id)"); ("ca", "QA(ca)"); ("cb", "QA(cb)"); ("o_fk", "QA(o_fk)"); ("jk", "QA(jk)"); ("status", "QA(status)"); ("c_id * 1", "QA(c_id)"); ("id", "QA(cd_raw)"); ("amount", "QA(rev_raw)")], "(SELECT * FROM raw) AS t", (Some "CONJ[P[status]]")));
   ((0, 1, 2, 2, 0, [("o.status", None); ("o.c_id", None)], ["o.rev"; "o.cd"], (Some ["Fs"]), None, None)%nat,
    ("QI(o_cte)", [("id", "QA(id)"); ("ca", "QA(ca)"); ("cb", "QA(cb)"); ("o_fk", "QA(o_fk)"); ("o_fk2", "QA(o_fk2)"); ("o_left", "QA(o_left)"); ("o_right", "QA(o_right)"); ("o_r2", "QA(o_r2)"); ("status", "QA(status)"); ("c_id * 1", "QA(c_id)"); ("id", "QA(cd_raw)"); ("amount", "QA(rev_raw)")], "(SELECT * FROM raw) AS t", (Some "CONJ[P[status]]")));
   ((0, 1, 2, 2, 1, [("o.status", None); ("o.c_id", None)], ["o.rev"; "o.cd"], (Some ["Fs"]), None, None)%nat,
    ("QI(o_cte)", [("id", "QA(id)"); ("ca", "QA(ca)"); ("cb", "QA(cb)"); ("o_fk", "QA(o_fk)"); ("o_fk2", "QA(o_fk2)"); ("o_left", "QA(o_left)"); ("o_right", "QA(o_right)"); ("o_r2", "QA(o_r2)"); ("jk", "QA(jk)"); ("status", "QA(status)"); ("c_id * 1", "QA(c_id)"); ("id", "QA(cd_raw)"); ("amount", "QA(rev_raw)")], "(SELECT * FROM raw) AS t", (Some "CONJ[P[status]]")));
   ((1, 0, 0, 0, 0, [("o.status", None); ("o.c_id", None)], ["o.rev"; "o.cd"], (Some ["Fs"]), None, None)%nat,
    ("QI(o_cte)", [("k1", "QA(k1)"); ("k2", "QA(k2)"); ("status", "QA(status)"); ("c_id * 1", "QA(c_id)"); ("CONCAT(CAST(k1 AS VARCHAR), '|', CAST(k2 AS VARCHAR))", "QA(cd_raw)"); ("amount", "QA(rev_raw)")], "raw.o", (Some "CONJ[P[status]]")));
   ((1, 0, 0, 0, 1, [("o.status", None); ("o.c_id", None)], ["o.rev"; "o.cd"], (Some ["Fs"]), None, None)%nat,
    ("QI(o_cte)", [("k1", "QA(k1)"); ("k2", "QA(k2)"); ("jk", "QA(jk)"); ("id", "QA(id)"); ("status", "QA(status)"); ("c_id * 1", "QA(c_id)"); ("CONCAT(CAST(k1 AS VARCHAR), '|', CAST(k2 AS VARCHAR))", "QA(cd_raw)"); ("amount", "QA(rev_raw)")], "raw.o", (Some "CONJ[P[status]]")));
   ((1, 0, 0, 1, 0, [("o.status", None); ("o.c_id", None)], ["o.rev"; "o.cd"], (Some ["Fs"]), None, None)%nat,
    ("QI(o_cte)", [("k1", "QA(k1)"); ("k2", "QA(k2)"); ("o_fk", "QA(o_fk)"); ("status", "QA(status)"); ("c_id * 1", "QA(c_id)"); ("CONCAT(CAST(k1 AS VARCHAR), '|', CAST(k2 AS VARCHAR))", "QA(cd_raw)"); ("amount", "QA(rev_raw)")], "raw.o", (Some "CONJ[P[status]]")));
   ((1, 0, 0, 1, 1, [("o.status", None); ("o.c_id", None)], ["o.rev"; "o.cd"], (Some ["Fs"]), None, None)%nat,
    ("QI(o_cte)", [("k1", "QA(k1)"); ("k2", "QA(k2)"); ("o_fk", "QA(o_fk)"); ("jk", "QA(jk)"); ("id", "QA(id)"); ("status", "QA(status)"); ("c_id * 1", "QA(c_id)"); ("CONCAT(CAST(k1 AS VARCHAR), '|', CAST(k2 AS VARCHAR))", "QA(cd_raw)"); ("amount", "QA(rev_raw)")], "raw.o", (Some "CONJ[P[status]]")));
   ((1, 0, 0, 2, 0, [("o.status", None); ("o.c_id", None)], ["o.rev"; "o.cd"], (Some ["Fs"]), None, None)%nat,
    ("QI(o_cte)", [("k1", "QA(k1)"); ("k2", "QA(k2)"); ("o_fk", "QA(o_fk)"); ("o_fk2", "QA(o_fk2)"); ("o_left", "QA(o_left)"); ("o_right", "QA(o_right)"); ("o_r2", "QA(o_r2)"); ("status", "QA(status)"); ("c_id * 1", "QA(c_id)"); ("CONCAT(CAST(k1 AS VARCHAR), '|', CAST(k2 AS VARCHAR))", "QA(cd_raw)"); ("amount", "QA(rev_raw)")], "raw.o", (Some "CONJ[P[status]]")));
   ((1, 0, 0, 2, 1, [("o.status", None); ("o.c_id", None)], ["o.rev"; "o.cd"], (Some ["Fs"]), None, None)%nat,
    ("QI(o_cte)", [("k1", "QA(k1)"); ("k2", "QA(k2)"); ("o_fk", "QA(o_fk)"); ("o_fk2", "QA(o_fk2)"); ("o_left", "QA(o_left)"); ("o_right", "QA(o_right)"); ("o_r2", "QA(o_r2)"); ("jk", "QA(jk)"); ("id", "QA(id)"); ("status", "QA(status)"); ("c_id * 1", "QA(c_id)"); ("CONCAT(CAST(k1 AS VARCHAR), '|', CAST(k2 AS VARCHAR))", "QA(cd_raw)"); ("amount", "QA(rev_raw)")], "raw.o", (Some "CONJ[P[status]]")));
   ((1, 0, 1, 0, 0, [("o.status", None); ("o.c_id", None)], ["o.rev"; "o.cd"], (Some ["Fs"]), None, None)%nat,
    ("QI(o_cte)", [("k1", "QA(k1)"); ("k2", "QA(k2)"); ("c_id", "QA(c_id)"); ("status", "QA(status)"); ("CONCAT(CAST(k1 AS VARCHAR), '|', CAST(k2 AS VARCHAR))", "QA(cd_raw)"); ("amount", "QA(rev_raw)")], "raw.o", (Some "CONJ[P[status]]")));
   ((1, 0, 1, 0, 1, [("o.status", None); ("o.c_id", None)], ["o.rev"; "o.cd"], (Some ["Fs"]), None, None)%nat,
    ("QI(o_cte)", [("k1", "QA(k1)"); ("k2", "QA(k2)"); ("c_id", "QA(c_id)"); ("jk", "QA(jk)"); ("id", "QA(id)"); ("status", "QA(status)"); ("CONCAT(CAST(k1 AS VARCHAR), '|', CAST(k2 AS VARCHAR))", "QA(cd_raw)"); ("amount", "QA(rev_raw)")], "raw.o", (Some "CONJ[P[status]]")));
   ((1, 0, 1, 1, 0, [("o.status", None); ("o.c_id", None)], ["o.rev"; "o.cd"], (Some ["Fs"]), None, None)%nat,
    ("QI(o_cte)", [("k1", "QA(k1)"); ("k2", "QA(k2)"); ("c_id", "QA(c_id)"); ("o_fk", "QA(o_fk)"); ("status", "QA(status)"); ("CONCAT(CAST(k1 AS VARCHAR), '|', CAST(k2 AS VARCHAR))", "QA(cd_raw)"); ("amount", "QA(rev_raw)")], "raw.o", (Some "CONJ[P[status]]")));
   ((1, 0, 1, 1, 1, [("o.status", None); ("o.c_id", None)], ["o.rev"; "o.cd"], (Some ["Fs"]), None, None)%nat,
    ("QI(o_cte)", [("k1", "QA(k1)"); ("k2", "QA(k2)"); ("c_id", "QA(c_id)"); ("o_fk", "QA(o_fk)"); ("jk", "QA(jk)"); ("id", "QA(id)"); ("status", "QA(status)"); ("CONCAT(CAST(k1 AS VARCHAR), '|', CAST(k2 AS VARCHAR))", "QA(cd_raw)"); ("amount", "QA(rev_raw)")], "raw.o", (Some "CONJ[P[status]]")));
   ((1, 0, 1, 2, 0, [("o.status", None); ("o.c_id", None)], ["o.rev"; "o.cd"], (Some ["Fs"]), None, None)%nat,
    ("QI(o_cte)", [("k1", "QA(k1)"); ("k2", "QA(k2)"); ("c_id", "QA(c_id)"); ("o_fk", "QA(o_fk)"); ("o_fk2", "QA(o_fk2)"); ("o_left", "QA(o_left)"); ("o_right", "QA(o_right)"); ("o_r2", "QA(o_r2)"); ("status", "QA(status)"); ("CONCAT(CAST(k1 AS VARCHAR), '|', CAST(k2 AS VARCHAR))", "QA(cd_raw)"); ("amount", "QA(rev_raw)")], "raw.o", (Some "CONJ[P[status]]")));
   ((1, 0, 1, 2, 1, [("o.status", None); ("o.c_id", None)], ["o.rev"; "o.cd"], (Some ["Fs"]), None, None)%nat,
    ("QI(o_cte)", [("k1", "QA(k1)"); ("k2", "QA(k2)"); ("c_id", "QA(c_id)"); ("o_fk", "QA(o_fk)"); ("o_fk2", "QA(o_fk2)"); ("o_left", "QA(o_left)"); ("o_right", "QA(o_right)"); ("o_r2", "QA(o_r2)"); ("jk", "QA(jk)"); ("id", "QA(id)"); ("status", "QA(status)"); ("CONCAT(CAST(k1 AS VARCHAR), '|', CAST(k2 AS VARCHAR))", "QA(cd_raw)"); ("amount", "QA(rev_raw)")], "raw.o", (Some "CONJ[P[status]]")));
   ((1, 0, 2, 0, 0, [("o.status", None); ("o.c_id", None)], ["o.rev"; "o.cd"], (Some ["Fs"]), None, None)%nat,
    ("QI(o_cte)", [("k1", "QA(k1)"); ("k2", "QA(k2)"); ("status", "QA(status)"); ("c_id * 1", "QA(c_id)"); ("CONCAT(CAST(k1 AS VARCHAR), '|', CAST(k2 AS VARCHAR))", "QA(cd_raw)"); ("amount", "QA(rev_raw)")], "raw.o", (Some "CONJ[P[status]]")));
   ((1, 0, 2, 0, 1, [("o.status", None); ("o.c_id", None)], ["o.rev"; "o.cd"], (Some ["Fs"]), None, None)%nat,
    ("QI(o_cte)", [("k1", "QA(k1)"); ("k2", "QA(k2)"); ("jk", "QA(jk)"); ("id", "QA(id)"); ("status", "QA(status)"); ("c_id * 1", "QA(c_id)"); ("CONCAT(CAST(k1 AS VARCHAR), '|', CAST(k2 AS VARCHAR))", "QA(cd_raw)"); ("amount", "QA(rev_raw)")], "raw.o", (Some "CONJ[P[status]]")));
   ((1, 0, 2, 1, 0, [("o.status", None); ("o.c_id", None)], ["o.rev"; "o.cd"], (Some ["Fs"]), None, None)%nat,
    ("QI(o_cte)", [("k1", "QA(k1)"); ("k2", "QA(k2)"); ("ca", "QA(ca)"); ("cb", "QA(cb)"); ("o_fk", "QA(o_fk)"); ("status", "QA(status)"); ("c_id * 1", "QA(c_id)"); ("CONCAT(CAST(k1 AS VARCHAR), '|', CAST(k2 AS VARCHAR))", "QA(cd_raw)"); ("amount", "QA(rev_raw)")], "raw.o", (Some "CONJ[P[status]]")));
   ((1, 0, 2, 1, 1, [("o.status", None); ("o.c_id", None)], ["o.rev"; "o.cd"], (Some ["Fs"]), None, None)%nat,
    ("QI(o_cte)", [("k1", "QA(k1)"); ("k2", "QA(k2)"); ("ca", "QA(ca)"); ("cb", "QA(cb)"); ("o_fk", "QA(o_fk)"); ("jk", "QA(jk)"); ("id", "QA(id)"); ("status", "QA(status)"); ("c_id * 1", "QA(c_id)"); ("CONCAT(CAST(k1 AS VARCHAR), '|', CAST(k2 AS VARCHAR))", "QA(cd_raw)"); ("amount", "QA(rev_raw)")], "raw.o", (Some "CONJ[P[status]]")));
   ((1, 0, 2, 2, 0, [("o.status", None); ("o.c_id", None)], ["o.rev"; "o.cd"], (Some ["Fs"]), None, None)%nat,
    ("QI(o_cte)", [("k1", "QA(k1)"); ("k2", "QA(k2)"); ("ca", "QA(ca)"); ("cb", "QA(cb)"); ("o_fk", "QA(o_fk)"); ("o_fk2", "QA(o_fk2)"); ("o_left", "QA(o_left)"); ("o_right", "QA(o_right)"); ("o_r2", "QA(o_r2)"); ("status", "QA(status)"); ("c_id * 1", "QA(c_id)"); ("CONCAT(CAST(k1 AS VARCHAR), '|', CAST(k2 AS VARCHAR))", "QA(cd_raw)"); ("amount", "QA(rev_raw)")], "raw.o", (Some "CONJ[P[status]]")));
   ((1, 0, 2, 2, 1, [("o.status", None); ("o.c_id", None)], ["o.rev"; "o.cd"], (Some ["Fs"]), None, None)%nat,
    ("QI(o_cte)", [("k1", "QA(k1)"); ("k2", "QA(k2)"); ("ca", "QA(ca)"); ("cb", "QA(cb)"); ("o_fk", "QA(o_fk)"); ("o_fk2", "QA(o_fk2)"); ("o_left", "QA(o_left)"); ("o_right", "QA(o_right)"); ("o_r2", "QA(o_r2)"); ("jk", "QA(jk)"); ("id", "QA(id)"); ("status", "QA(status)"); ("c_id * 1", "QA(c_id)"); ("CONCAT(CAST(k1 AS VARCHAR), '|', CAST(k2 AS VARCHAR))", "QA(cd_raw)"); ("amount", "QA(rev_raw)")], "raw.o", (Some "CONJ[P[status]]")));
   ((1, 1, 0, 0, 0, [("o.status", None); ("o.c_id", None)], ["o.rev"; "o.cd"], (Some ["Fs"]), None, None)%nat,
    ("QI(o_cte)", [("k1", "QA(k1)"); ("k2", "QA(k2)"); ("status", "QA(status)"); ("c_id * 1", "QA(c_id)"); ("CONCAT(CAST(k1 AS VARCHAR), '|', CAST(k2 AS VARCHAR))", "QA(cd_raw)"); ("amount", "QA(rev_raw)")], "(SELECT * FROM raw) AS t", (Some "CONJ[P[status]]")));
   ((1, 1, 0, 0, 1, [("o.status", None); ("o.c_id", None)], ["o.rev"; "o.cd"], (Some ["Fs"]), None, None)%nat,
    ("QI(o_cte)", [("k1", "QA(k1)"); ("k2", "QA(k2)"); ("jk", "QA(jk)"); ("id", "QA(id)"); ("status", "QA(status)"); ("c_id * 1", "QA(c_id)"); ("CONCAT(CAST(k1 AS VARCHAR), '|', CAST(k2 AS VARCHAR))", "QA(cd_raw)"); ("amount", "QA(rev_raw)")], "(SELECT * FROM raw) AS t", (Some "CONJ[P[status]]")));
   ((1, 1, 0, 1, 0, [("o.status", None); ("o.c_id", None)], ["o.rev"; "o.cd"], (Some ["Fs"]), None, None)%nat,
    ("QI(o_cte)", [("k1", "QA(k1)"); ("k2", "QA(k2)"); ("o_fk", "QA(o_fk)"); ("status", "QA(status)"); ("c_id * 1", "QA(c_id)"); ("CONCAT(CAST(k1 AS VARCHAR), '|', CAST(k2 AS VARCHAR))", "QA(cd_raw)"); ("amount", "QA(rev_raw)")], "(SELECT * FROM raw) AS t", (Some "CONJ[P[status]]")));
   ((1, 1, 0, 1, 1, [("o.status", None); ("o.c_id", None)], ["o.rev"; "o.cd"], (Some ["Fs"]), None, None)%nat,
    ("QI(o_cte)", [("k1", "QA(k1)"); ("k2", "QA(k2)"); ("o_fk", "QA(o_fk)"); ("jk", "QA(jk)"); ("id", "QA(id)"); ("status", "QA(status)"); ("c_id * 1", "QA(c_id)"); ("CONCAT(CAST(k1 AS VARCHAR), '|', CAST(k2 AS VARCHAR))", "QA(cd_raw)"); ("amount", "QA(rev_raw)")], "(SELECT * FROM raw) AS t", (Some "CONJ[P[status]]")));
   ((1, 1, 0, 2, 0, [("o.status", None); ("o.c_id", None)], ["o.rev"; "o.cd"], (Some ["Fs"]), None, None)%nat,
    ("QI(o_cte)", [("k1", "QA(k1)"); ("k2", "QA(k2)"); ("o_fk", "QA(o_fk)"); ("o_fk2", "QA(o_fk2)"); ("o_left", "QA(o_left)"); ("o_right", "QA(o_right)"); ("o_r2", "QA(o_r2)"); ("status", "QA(status)"); ("c_id * 1", "QA(c_id)"); ("CONCAT(CAST(k1 AS VARCHAR), '|', CAST(k2 AS VARCHAR))", "QA(cd_raw)"); ("amount", "QA(rev_raw)")], "(SELECT * FROM raw) AS t", (Some "CONJ[P[status]]")));
   ((1, 1, 0, 2, 1, [("o.status", None); ("o.c_id", None)], ["o.rev"; "o.cd"], (Some ["Fs"]), None, None)%nat,
    ("QI(o_cte)", [("k1", "QA(k1)"); ("k2", "QA(k2)"); ("o_fk", "QA(o_fk)"); ("o_fk2", "QA(o_fk2)"); ("o_left", "QA(o_left)"); ("o_right", "QA(o_right)"); ("o_r2", "QA(o_r2)"); ("jk", "QA(jk)"); ("id", "QA(id)"); ("status", "QA(status)"); ("c_id * 1", "QA(c_id)"); ("CONCAT(CAST(k1 AS VARCHAR), '|', CAST(k2 AS VARCHAR))", "QA(cd_raw)"); ("amount", "QA(rev_raw)")], "(SELECT * FROM raw) AS t", (Some "CONJ[P[status]]")));
   ((1, 1, 1, 0, 0, [("o.status", None); ("o.c_id", None)], ["o.rev"; "o.cd"], (Some ["Fs"]), None, None)%nat,
    ("QI(o_cte)", [("k1", "QA(k1)"); ("k2", "QA(k2)"); ("c_id", "QA(c_id)"); ("status", "QA(status)"); ("CONCAT(CAST(k1 AS VARCHAR), '|', CAST(k2 AS VARCHAR))", "QA(cd_raw)"); ("amount", "QA(rev_raw)")], "(SELECT * FROM raw) AS t", (Some "CONJ[P[status]]")));
   ((1, 1, 1, 0, 1, [("o.status", None); ("o.c_id", None)], ["o.rev"; "o.cd"], (Some ["Fs"]), None, None)%nat,
    ("QI(o_cte)", [("k1", "QA(k1)"); ("k2", "QA(k2)"); ("c_id", "QA(c_id)"); ("jk", "QA(jk)"); ("id", "QA(id)"); ("status", "QA(status)"); ("CONCAT(CAST(k1 AS VARCHAR), '|', CAST(k2 AS VARCHAR))", "QA(cd_raw)"); ("amount", "QA(rev_raw)")], "(SELECT * FROM raw) AS t", (Some "CONJ[P[status]]")));
   ((1, 1, 1, 1, 0, [("o.status", None); ("o.c_id", None)], ["o.rev"; "o.cd"], (Some ["Fs"]), None, None)%nat,
    ("QI(o_cte)", [("k1", "QA(k1)"); ("k2", "QA(k2)"); ("c_id", "QA(c_id)"); ("o_fk", "QA(o_fk)"); ("status", "QA(status)"); ("CONCAT(CAST(k1 AS VARCHAR), '|', CAST(k2 AS VARCHAR))", "QA(cd_raw)"); ("amount", "QA(rev_raw)")], "(SELECT * FROM raw) AS t", (Some "CONJ[P[status]]")));
   ((1, 1, 1, 1, 1, [("o.status", None); ("o.c_id", None)], ["o.rev"; "o.cd"], (Some ["Fs"]), None, None)%nat,
    ("QI(o_cte)", [("k1", "QA(k1)"); ("k2", "QA(k2)"); ("c_id", "QA(c_id)"); ("o_fk", "QA(o_fk)"); ("jk", "QA(jk)"); ("id", "QA(id)"); ("status", "QA(status)"); ("CONCAT(CAST(k1 AS VARCHAR), '|', CAST(k2 AS VARCHAR))", "QA(cd_raw)"); ("amount", "QA(rev_raw)")], "(SELECT * FROM raw) AS t", (Some "CONJ[P[status]]")));
   ((1, 1, 1, 2, 0, [("o.status", None); ("o.c_id", None)], ["o.rev"; "o.cd"], (Some ["Fs"]), None, None)%nat,
    ("QI(o_cte)", [("k1", "QA(k1)"); ("k2", "QA(k2)"); ("c_id", "QA(c_id)"); ("o_fk", "QA(o_fk)"); ("o_fk2", "QA(o_fk2)"); ("o_left", "QA(o_left)"); ("o_right", "QA(o_right)"); ("o_r2", "QA(o_r2)"); ("status", "QA(status)"); ("CONCAT(CAST(k1 AS VARCHAR), '|', CAST(k2 AS VARCHAR))", "QA(cd_raw)"); ("amount", "QA(rev_raw)")], "(SELECT * FROM raw) AS t", (Some "CONJ[P[status]]")));
   ((1, 1, 1, 2, 1, [("o.status", None); ("o.c_id", None)], ["o.rev"; "o.cd"], (Some ["Fs"]), None, None)%nat,
    ("QI(o_cte)", [("k1", "QA(k1)"); ("k2", "QA(k2)"); ("c_id", "QA(c_id)"); ("o_fk", "QA(o_fk)"); ("o_fk2", "QA(o_fk2)"); ("o_left", "QA(o_left)"); ("o_right", "QA(o_right)"); ("o_r2", "QA(o_r2)"); ("jk", "QA(jk)"); ("id", "QA(id)"); ("status", "QA(status)"); ("CONCAT(CAST(k1 AS VARCHAR), '|', CAST(k2 AS VARCHAR))", "QA(cd_raw)"); ("amount", "QA(rev_raw)")], "(SELECT * FROM raw) AS t", (Some "CONJ[P[status]]")));
   ((1, 1, 2, 0, 0, [("o.status", None); ("o.c_id", None)], ["o.rev"; "o.cd"], (Some ["Fs"]), None, None)%nat,
    ("QI(o_cte)", [("k1", "QA(k1)"); ("k2", "QA(k2)"); ("status", "QA(status)"); ("c_id * 1", "QA(c_id)"); ("CONCAT(CAST(k1 AS VARCHAR), '|', CAST(k2 AS VARCHAR))", "QA(cd_raw)"); ("amount", "QA(rev_raw)")], "(SELECT * FROM raw) AS t", (Some "CONJ[P[status]]")));
   ((1, 1, 2, 0, 1, [("o.status", None); ("o.c_id", None)], ["o.rev"; "o.cd"], (Some ["Fs"]), None, None)%nat,
    ("QI(o_cte)", [("k1", "QA(k1)"); ("k2", "QA(k2)"); ("jk", "QA(jk)"); ("id", "QA(id)"); ("status", "QA(status)"); ("c_id * 1", "QA(c_id)"); ("CONCAT(CAST(k1 AS VARCHAR), '|', CAST(k2 AS VARCHAR))", "QA(cd_raw)"); ("amount", "QA(rev_raw)")], "(SELECT * FROM raw) AS t", (Some "CONJ[P[status]]")));
   ((1, 1, 2, 1, 0, [("o.status", None); ("o.c_id", None)], ["o.rev"; "o.cd"], (Some ["Fs"]), None, None)%nat,
    ("QI(o_cte)", [("k1", "QA(k1)"); ("k2", "QA(k2)"); ("ca", "QA(ca)"); ("cb", "QA(cb)"); ("o_fk", "QA(o_fk)"); ("status", "QA(status)"); ("c_id * 1", "QA(c_id)"); ("CONCAT(CAST(k1 AS VARCHAR), '|', CAST(k2 AS VARCHAR))", "QA(cd_raw)"); ("amount", "QA(rev_raw)")], "(SELECT * FROM raw) AS t", (Some "CONJ[P[status]]")));
   ((1, 1, 2, 1, 1, [("o.status", None); ("o.c_id", None)], ["o.rev"; "o.cd"], (Some ["Fs"]), None, None)%nat,
    ("QI(o_cte)", [("k1", "QA(k1)"); ("k2", "QA(k2)"); ("ca", "QA(ca)"); ("cb", "QA(cb)"); ("o_fk", "QA(o_fk)"); ("jk", "QA(jk)"); ("id", "QA(id)"); ("status", "QA(status)"); ("c_id * 1", "QA(c_id)"); ("CONCAT(CAST(k1 AS VARCHAR), '|', CAST(k2 AS VARCHAR))", "QA(cd_raw)"); ("amount", "QA(rev_raw)")], "(SELECT * FROM raw) AS t", (Some "CONJ[P[status]]")));
   ((1, 1, 2, 2, 0, [("o.status", None); ("o.c_id", None)], ["o.rev"; "o.cd"], (Some ["Fs"]), None, None)%nat,
    ("QI(o_cte)", [("k1", "QA(k1)"); ("k2", "QA(k2)"); ("ca", "QA(ca)"); ("cb", "QA(cb)"); ("o_fk", "QA(o_fk)"); ("o_fk2", "QA(o_fk2)"); ("o_left", "QA(o_left)"); ("o_right", "QA(o_right)"); ("o_r2", "QA(o_r2)"); ("status", "QA(status)"); ("c_id * 1", "QA(c_id)"); ("CONCAT(CAST(k1 AS VARCHAR), '|', CAST(k2 AS VARCHAR))", "QA(cd_raw)"); ("amount", "QA(rev_raw)")], "(SELECT * FROM raw) AS t", (Some "CONJ[P[status]]")));
   ((1, 1, 2, 2, 1, [("o.status", None); ("o.c_id", None)], ["o.rev"; "o.cd"], (Some ["Fs"]), None, None)%nat,
    ("QI(o_cte)", [("k1", "QA(k1)"); ("k2", "QA(k2)"); ("ca", "QA(ca)"); ("cb", "QA(cb)"); ("o_fk", "QA(o_fk)"); ("o_fk2", "QA(o_fk2)"); ("o_left", "QA(o_left)"); ("o_right", "QA(o_right)"); ("o_r2", "QA(o_r2)"); ("jk", "QA(jk)"); ("id", "QA(id)"); ("status", "QA(status)"); ("c_id * 1", "QA(c_id)"); ("CONCAT(CAST(k1 AS VARCHAR), '|', CAST(k2 AS VARCHAR))", "QA(cd_raw)"); ("amount", "QA(rev_raw)")], "(SELECT * FROM raw) AS t", (Some "CONJ[P[status]]")));
   ((0, 0, 1, 1, 0, [], [], None, None, None)%nat,
    ("QI(o_cte)", [("id", "QA(id)"); ("c_id", "QA(c_id)"); ("o_fk", "QA(o_fk)")], "raw.o", None));
   ((0, 0, 1, 1, 0, [], ["o.rev"], None, None, None)%nat,
    ("QI(o_cte)", [("id", "QA(id)"); ("c_id", "QA(c_id)"); ("o_fk", "QA(o_fk)"); ("amount", "QA(rev_raw)")], "raw.o", None));
   ((0, 0, 1, 1, 0, [], ["o.cnt"; "o.cntstar"; "o.cntx"], None, None, None)%nat,
    ("QI(o_cte)", [("id", "QA(id)"); ("c_id", "QA(c_id)"); ("o_fk", "QA(o_fk)"); ("1", "QA(cnt_raw)"); ("1", "QA(cntstar_raw)"); ("x", "QA(cntx_raw)")], "raw.o", None));
   ((0, 0, 1, 1, 0, [], ["o.cd"; "o.cdx"], None, None, None)%nat,
    ("QI(o_cte)", [("id", "QA(id)"); ("c_id", "QA(c_id)"); ("o_fk", "QA(o_fk)"); ("id", "QA(cd_raw)"); ("u", "QA(cdx_raw)")], "raw.o", None));
   ((0, 0, 1, 1, 0, [], ["o.frev"; "o.fcnt"], None, None, None)%nat,
    ("QI(o_cte)", [("id", "QA(id)"); ("c_id", "QA(c_id)"); ("o_fk", "QA(o_fk)"); ("CASE WHEN CONJ[f] THEN x ELSE NULL END", "QA(fcnt_raw)"); ("CASE WHEN CONJ[status = 'a';x > 1] THEN amount ELSE NULL END", "QA(frev_raw)")], "raw.o", None));
   ((0, 0, 1, 1, 0, [], ["o.ratio"], None, None, None)%nat,
    ("QI(o_cte)", [("id", "QA(id)"); ("c_id", "QA(c_id)"); ("o_fk", "QA(o_fk)"); ("1", "QA(cnt_raw)"); ("amount", "QA(rev_raw)")], "raw.o", None));
   ((0, 0, 1, 1, 0, [], ["o.der"], None, None, None)%nat,
    ("QI(o_cte)", [("id", "QA(id)"); ("c_id", "QA(c_id)"); ("o_fk", "QA(o_fk)"); ("CASE WHEN CONJ[status = 'a';x > 1] THEN amount ELSE NULL END", "QA(frev_raw)"); ("amount", "QA(rev_raw)")], "raw.o", None));
   ((0, 0, 1, 1, 0, [], ["o.cyc"], None, None, None)%nat,
    ("QI(o_cte)", [("id", "QA(id)"); ("c_id", "QA(c_id)"); ("o_fk", "QA(o_fk)"); ("id", "QA(cd_raw)")], "raw.o", None));
   ((0, 0, 1, 1, 0, [], ["o.expr"], None, None, None)%nat,
    ("QI(o_cte)", [("id", "QA(id)"); ("c_id", "QA(c_id)"); ("o_fk", "QA(o_fk)"); ("amount", "QA(rev_raw)")], "raw.o", None));
   ((0, 0, 1, 1, 0, [], ["o.inline"], None, None, None)%nat,
    ("QI(o_cte)", [("id", "QA(id)"); ("c_id", "QA(c_id)"); ("o_fk", "QA(o_fk)"); ("price", "QA(price)"); ("qty", "QA(qty)"); ("status", "QA(status)"); ("amount", "QA(rev_raw)")], "raw.o", None));
   ((0, 0, 1, 1, 0, [], ["o.tc"; "c.other"], None, None, None)%nat,
    ("QI(o_cte)", [("id", "QA(id)"); ("c_id", "QA(c_id)"); ("o_fk", "QA(o_fk)")], "raw.o", None));
   ((0, 0, 1, 1, 0, [], ["gm"; "unknown"; "rev"], None, None, None)%nat,
    ("QI(o_cte)", [("id", "QA(id)"); ("c_id", "QA(c_id)"); ("o_fk", "QA(o_fk)"); ("amount", "QA(rev_raw)")], "raw.o", None));
   ((0, 0, 1, 1, 0, [], ["o.rev"; "o.rev"; "cnt"], None, None, None)%nat,
    ("QI(o_cte)", [("id", "QA(id)"); ("c_id", "QA(c_id)"); ("o_fk", "QA(o_fk)"); ("1", "QA(cnt_raw)"); ("amount", "QA(rev_raw)")], "raw.o", None));
   ((0, 0, 1, 1, 0, [], ["o.nometric"; "inline"], None, None, None)%nat,
    ("QI(o_cte)", [("id", "QA(id)"); ("c_id", "QA(c_id)"); ("o_fk", "QA(o_fk)"); ("price", "QA(price)"); ("qty", "QA(qty)"); ("status", "QA(status)"); ("amount", "QA(rev_raw)")], "raw.o", None));
   ((0, 0, 1, 1, 0, [("o.status", None)], [], None, None, None)%nat,
    ("QI(o_cte)", [("id", "QA(id)"); ("c_id", "QA(c_id)"); ("o_fk", "QA(o_fk)"); ("status", "QA(status)")], "raw.o", None));
   ((0, 0, 1, 1, 0, [("o.status", None)], ["o.rev"], None, None, None)%nat,
    ("QI(o_cte)", [("id", "QA(id)"); ("c_id", "QA(c_id)"); ("o_fk", "QA(o_fk)"); ("status", "QA(status)"); ("amount", "QA(rev_raw)")], "raw.o", None));
   ((0, 0, 1, 1, 0, [("o.status", None)], ["o.cnt"; "o.cntstar"; "o.cntx"], None, None, None)%nat,
    ("QI(o_cte)", [("id", "QA(id)"); ("c_id", "QA(c_id)"); ("o_fk", "QA(o_fk)"); ("status", "QA(status)"); ("1", "QA(cnt_raw)"); ("1", "QA(cntstar_raw)"); ("x", "QA(cntx_raw)")], "raw.o", None));
   ((0, 0, 1, 1, 0, [("o.status", None)], ["o.cd"; "o.cdx"], None, None, None)%nat,
    ("QI(o_cte)", [("id", "QA(id)"); ("c_id", "QA(c_id)"); ("o_fk", "QA(o_fk)"); ("status", "QA(status)"); ("id", "QA(cd_raw)"); ("u", "QA(cdx_raw)")], "raw.o", None));
   ((0, 0, 1, 1, 0, [("o.status", None)], ["o.frev"; "o.fcnt"], None, None, None)%nat,
    ("QI(o_cte)", [("id", "QA(id)"); ("c_id", "QA(c_id)"); ("o_fk", "QA(o_fk)"); ("status", "QA(status)"); ("CASE WHEN CONJ[f] THEN x ELSE NULL END", "QA(fcnt_raw)"); ("CASE WHEN CONJ[status = 'a';x > 1] THEN amount ELSE NULL END", "QA(frev_raw)")], "raw.o", None));
   ((0, 0, 1, 1, 0, [("o.status", None)], ["o.ratio"], None, None, None)%nat,
    ("QI(o_cte)", [("id", "QA(id)"); ("c_id", "QA(c_id)"); ("o_fk", "QA(o_fk)"); ("status", "QA(status)"); ("1", "QA(cnt_raw)"); ("amount", "QA(rev_raw)")], "raw.o", None));
   ((0, 0, 1, 1, 0, [("o.status", None)], ["o.der"], None, None, None)%nat,
    ("QI(o_cte)", [("id", "QA(id)"); ("c_id", "QA(c_id)"); ("o_fk", "QA(o_fk)"); ("status", "QA(status)"); ("CASE WHEN CONJ[status = 'a';x > 1] THEN amount ELSE NULL END", "QA(frev_raw)"); ("amount", "QA(rev_raw)")], "raw.o", None));
   ((0, 0, 1, 1, 0, [("o.status", None)], ["o.cyc"], None, None, None)%nat,
    ("QI(o_cte)", [("id", "QA(id)"); ("c_id", "QA(c_id)"); ("o_fk", "QA(o_fk)"); ("status", "QA(status)"); ("id", "QA(cd_raw)")], "raw.o", None));
   ((0, 0, 1, 1, 0, [("o.status", None)], ["o.expr"], None, None, None)%nat,
    ("QI(o_cte)", [("id", "QA(id)"); ("c_id", "QA(c_id)"); ("o_fk", "QA(o_fk)"); ("status", "QA(status)"); ("amount", "QA(rev_raw)")], "raw.o", None));
   ((0, 0, 1, 1, 0, [("o.status", None)], ["o.inline"], None, None, None)%nat,
    ("QI(o_cte)", [("id", "QA(id)"); ("c_id", "QA(c_id)"); ("o_fk", "QA(o_fk)"); ("status", "QA(status)"); ("price", "QA(price)"); ("qty", "QA(qty)"); ("amount", "QA(rev_raw)")], "raw.o", None));
   ((0, 0, 1, 1, 0, [("o.status", None)], ["o.tc"; "c.other"], None, None, None)%nat,
    ("QI(o_cte)", [("id", "QA(id)"); ("c_id", "QA(c_id)"); ("o_fk", "QA(o_fk)"); ("status", "QA(status)")], "raw.o", None));
   ((0, 0, 1, 1, 0, [("o.status", None)], ["gm"; "unknown"; "rev"], None, None, None)%nat,
    ("QI(o_cte)", [("id", "QA(id)"); ("c_id", "QA(c_id)"); ("o_fk", "QA(o_fk)"); ("status", "QA(status)"); ("amount", "QA(rev_raw)")], "raw.o", None));
   ((0, 0, 1, 1, 0, [("o.status", None)], ["o.rev"; "o.rev"; "cnt"], None, None, None)%nat,
    ("QI(o_cte)", [("id", "QA(id)"); ("c_id", "QA(c_id)"); ("o_fk", "QA(o_fk)"); ("status", "QA(status)"); ("1", "QA(cnt_raw)"); ("amount", "QA(rev_raw)")], "raw.o", None));
   ((0, 0, 1, 1, 0, [("o.status", None)], ["o.nometric"; "inline"], None, None, None)%nat,
    ("QI(o_cte)", [("id", "QA(id)"); ("c_id", "QA(c_id)"); ("o_fk", "QA(o_fk)"); ("status", "QA(status)"); ("price", "QA(price)"); ("qty", "QA(qty)"); ("amount", "QA(rev_raw)")], "raw.o", None));
   ((0, 0, 1, 1, 0, [("o.ts", None)], [], None, None, None)%nat,
    ("QI(o_cte)", [("id", "QA(id)"); ("c_id", "QA(c_id)"); ("o_fk", "QA(o_fk)"); ("TRUNC(day,created_at)", "QA(ts)")], "raw.o", None));
   ((0, 0, 1, 1, 0, [("o.ts", None)], ["o.rev"], None, None, None)%nat,
    ("QI(o_cte)", [("id", "QA(id)"); ("c_id", "QA(c_id)"); ("o_fk", "QA(o_fk)"); ("TRUNC(day,created_at)", "QA(ts)"); ("amount", "QA(rev_raw)")], "raw.o", None));
   ((0, 0, 1, 1, 0, [("o.ts", None)], ["o.cnt"; "o.cntstar"; "o.cntx"], None, None, None)%nat,
    ("QI(o_cte)", [("id", "QA(id)"); ("c_id", "QA(c_id)"); ("o_fk", "QA(o_fk)"); ("TRUNC(day,created_at)", "QA(ts)"); ("1", "QA(cnt_raw)"); ("1", "QA(cntstar_raw)"); ("x", "QA(cntx_raw)")], "raw.o", None));
   ((0, 0, 1, 1, 0, [("o.ts", None)], ["o.cd"; "o.cdx"], None, None, None)%nat,
    ("QI(o_cte)", [("id", "QA(id)"); ("c_id", "QA(c_id)"); ("o_fk", "QA(o_fk)"); ("TRUNC(day,created_at)", "QA(ts)"); ("id", "QA(cd_raw)"); ("u", "QA(cdx_raw)")], "raw.o", None));
   ((0, 0, 1, 1, 0, [("o.ts", None)], ["o.frev"; "o.fcnt"], None, None, None)%nat,
    ("QI(o_cte)", [("id", "QA(id)"); ("c_id", "QA(c_id)"); ("o_fk", "QA(o_fk)"); ("TRUNC(day,created_at)", "QA(ts)"); ("CASE WHEN CONJ[f] THEN x ELSE NULL END", "QA(fcnt_raw)"); ("CASE WHEN CONJ[status = 'a';x > 1] THEN amount ELSE NULL END", "QA(frev_raw)")], "raw.o", None));
   ((0, 0, 1, 1, 0, [("o.ts", None)], ["o.ratio"], None, None, None)%nat,
    ("QI(o_cte)", [("id", "QA(id)"); ("c_id", "QA(c_id)"); ("o_fk", "QA(o_fk)"); ("TRUNC(day,created_at)", "QA(ts)"); ("1", "QA(cnt_raw)"); ("amount", "QA(rev_raw)")], "raw.o", None));
   ((0, 0, 1, 1, 0, [("o.ts", None)], ["o.der"], None, None, None)%nat,
    ("QI(o_cte)", [("id", "QA(id)"); ("c_id", "QA(c_id)"); ("o_fk", "QA(o_fk)"); ("TRUNC(day,created_at)", "QA(ts)"); ("CASE WHEN CONJ[status = 'a';x > 1] THEN amount ELSE NULL END", "QA(frev_raw)"); ("amount", "QA(rev_raw)")], "raw.o", None));
   ((0, 0, 1, 1, 0, [("o.ts", None)], ["o.cyc"], None, None, None)%nat,
    ("QI(o_cte)", [("id", "QA(id)"); ("c_id", "QA(c_id)"); ("o_fk", "QA(o_fk)"); ("TRUNC(day,created_at)", "QA(ts)"); ("id", "QA(cd_raw)")], "raw.o", None));
   ((0, 0, 1, 1, 0, [("o.ts", None)], ["o.expr"], None, None, None)%nat,
    ("QI(o_cte)", [("id", "QA(id)"); ("c_id", "QA(c_id)"); ("o_fk", "QA(o_fk)"); ("TRUNC(day,created_at)", "QA(ts)"); ("amount", "QA(rev_raw)")], "raw.o", None));
   ((0, 0, 1, 1, 0, [("o.ts", None)], ["o.inline"], None, None, None)%nat,
    ("QI(o_cte)", [("id", "QA(id)"); ("c_id", "QA(c_id)"); ("o_fk", "QA(o_fk)"); ("TRUNC(day,created_at)", "QA(ts)"); ("price", "QA(price)"); ("qty", "QA(qty)"); ("status", "QA(status)"); ("amount", "QA(rev_raw)")], "raw.o", None));
   ((0, 0, 1, 1, 0, [("o.ts", None)], ["o.tc"; "c.other"], None, None, None)%nat,
    ("QI(o_cte)", [("id", "QA(id)"); ("c_id", "QA(c_id)"); ("o_fk", "QA(o_fk)"); ("TRUNC(day,created_at)", "QA(ts)")], "raw.o", None));
   ((0, 0, 1, 1, 0, [("o.ts", None)], ["gm"; "unknown"; "rev"], None, None, None)%nat,
    ("QI(o_cte)", [("id", "QA(id)"); ("c_id", "QA(c_id)"); ("o_fk", "QA(o_fk)"); ("TRUNC(day,created_at)", "QA(ts)"); ("amount", "QA(rev_raw)")], "raw.o", None));
   ((0, 0, 1, 1, 0, [("o.ts", None)], ["o.rev"; "o.rev"; "cnt"], None, None, None)%nat,
    ("QI(o_cte)", [("id", "QA(id)"); ("c_id", "QA(c_id)"); ("o_fk", "QA(o_fk)"); ("TRUNC(day,created_at)", "QA(ts)"); ("1", "QA(cnt_raw)"); ("amount", "QA(rev_raw)")], "raw.o", None));
   ((0, 0, 1, 1, 0, [("o.ts", None)], ["o.nometric"; "inline"], None, None, None)%nat,
    ("QI(o_cte)", [("id", "QA(id)"); ("c_id", "QA(c_id)"); ("o_fk", "QA(o_fk)"); ("TRUNC(day,created_at)", "QA(ts)"); ("price", "QA(price)"); ("qty", "QA(qty)"); ("status", "QA(status)"); ("amount", "QA(rev_raw)")], "raw.o", None));
   ((0, 0, 1, 1, 0, [("o.ts", (Some "month")); ("o.ts", (Some "year"))], [], None, None, None)%nat,
    ("QI(o_cte)", [("id", "QA(id)"); ("c_id", "QA(c_id)"); ("o_fk", "QA(o_fk)"); ("TRUNC(day,created_at)", "QA(ts)"); ("TRUNC(month,created_at)", "QA(ts__month)"); ("TRUNC(year,created_at)", "QA(ts__year)")], "raw.o", None));
   ((0, 0, 1, 1, 0, [("o.ts", (Some "month")); ("o.ts", (Some "year"))], ["o.rev"], None, None, None)%nat,
    ("QI(o_cte)", [("id", "QA(id)"); ("c_id", "QA(c_id)"); ("o_fk", "QA(o_fk)"); ("TRUNC(day,created_at)", "QA(ts)"); ("TRUNC(month,created_at)", "QA(ts__month)"); ("TRUNC(year,created_at)", "QA(ts__year)"); ("amount", "QA(rev_raw)")], "raw.o", None));
   ((0, 0, 1, 1, 0, [("o.ts", (Some "month")); ("o.ts", (Some "year"))], ["o.cnt"; "o.cntstar"; "o.cntx"], None, None, None)%nat,
    ("QI(o_cte)", [("id", "QA(id)"); ("c_id", "QA(c_id)"); ("o_fk", "QA(o_fk)"); ("TRUNC(day,created_at)", "QA(ts)"); ("TRUNC(month,created_at)", "QA(ts__month)"); ("TRUNC(year,created_at)", "QA(ts__year)"); ("1", "QA(cnt_raw)"); ("1", "QA(cntstar_raw)"); ("x", "QA(cntx_raw)")], "raw.o", None));
   ((0, 0, 1, 1, 0, [("o.ts", (Some "month")); ("o.ts", (Some "year"))], ["o.cd"; "o.cdx"], None, None, None)%nat,
    ("QI(o_cte)", [("id", "QA(id)"); ("c_id", "QA(c_id)"); ("o_fk", "QA(o_fk)"); ("TRUNC(day,created_at)", "QA(ts)"); ("TRUNC(month,created_at)", "QA(ts__month)"); ("TRUNC(year,created_at)", "QA(ts__year)"); ("id", "QA(cd_raw)"); ("u", "QA(cdx_raw)")], "raw.o", None));
   ((0, 0, 1, 1, 0, [("o.ts", (Some "month")); ("o.ts", (Some "year"))], ["o.frev"; "o.fcnt"], None, None, None)%nat,
    ("QI(o_cte)", [("id", "QA(id)"); ("c_id", "QA(c_id)"); ("o_fk", "QA(o_fk)"); ("TRUNC(day,created_at)", "QA(ts)"); ("TRUNC(month,created_at)", "QA(ts__month)"); ("TRUNC(year,created_at)", "QA(ts__year)"); ("CASE WHEN CONJ[f] THEN x ELSE NULL END", "QA(fcnt_raw)"); ("CASE WHEN CONJ[status = 'a';x > 1] THEN amount ELSE NULL END", "QA(frev_raw)")], "raw.o", None));
   ((0, 0, 1, 1, 0, [("o.ts", (Some "month")); ("o.ts", (Some "year"))], ["o.ratio"], None, None, None)%nat,
    ("QI(o_cte)", [("id", "QA(id)"); ("c_id", "QA(c_id)"); ("o_fk", "QA(o_fk)"); ("TRUNC(day,created_at)", "QA(ts)"); ("TRUNC(month,created_at)", "QA(ts__month)"); ("TRUNC(year,created_at)", "QA(ts__year)"); ("1", "QA(cnt_raw)"); ("amount", "QA(rev_raw)")], "raw.o", None));
   ((0, 0, 1, 1, 0, [("o.ts", (Some "month")); ("o.ts", (Some "year"))], ["o.der"], None, None, None)%nat,
    ("QI(o_cte)", [("id", "QA(id)"); ("c_id", "QA(c_id)"); ("o_fk", "QA(o_fk)"); ("TRUNC(day,created_at)", "QA(ts)"); ("TRUNC(month,created_at)", "QA(ts__month)"); ("TRUNC(year,created_at)", "QA(ts__year)"); ("CASE WHEN CONJ[status = 'a';x > 1] THEN amount ELSE NULL END", "QA(frev_raw)"); ("amount", "QA(rev_raw)")], "raw.o", None));
   ((0, 0, 1, 1, 0, [("o.ts", (Some "month")); ("o.ts", (Some "year"))], ["o.cyc"], None, None, None)%nat,
    ("QI(o_cte)", [("id", "QA(id)"); ("c_id", "QA(c_id)"); ("o_fk", "QA(o_fk)"); ("TRUNC(day,created_at)", "QA(ts)"); ("TRUNC(month,created_at)", "QA(ts__month)"); ("TRUNC(year,created_at)", "QA(ts__year)"); ("id", "QA(cd_raw)")], "raw.o", None));
   ((0, 0, 1, 1, 0, [("o.ts", (Some "month")); ("o.ts", (Some "year"))], ["o.expr"], None, None, None)%nat,
    ("QI(o_cte)", [("id", "QA(id)"); ("c_id", "QA(c_id)"); ("o_fk", "QA(o_fk)"); ("TRUNC(day,created_at)", "QA(ts)"); ("TRUNC(month,created_at)", "QA(ts__month)"); ("TRUNC(year,created_at)", "QA(ts__year)"); ("amount", "QA(rev_raw)")], "raw.o", None));
   ((0, 0, 1, 1, 0, [("o.ts", (Some "month")); ("o.ts", (Some "year"))], ["o.inline"], None, None, None)%nat,
    ("QI(o_cte)", [("id", "QA(id)"); ("c_id", "QA(c_id)"); ("o_fk", "QA(o_fk)"); ("TRUNC(day,created_at)", "QA(ts)"); ("TRUNC(month,created_at)", "QA(ts__month)"); ("TRUNC(year,created_at)", "QA(ts__year)"); ("price", "QA(price)"); ("qty", "QA(qty)"); ("status", "QA(status)"); ("amount", "QA(rev_raw)")], "raw.o", None));
   ((0, 0, 1, 1, 0, [("o.ts", (Some "month")); ("o.ts", (Some "year"))], ["o.tc"; "c.other"], None, None, None)%nat,
    ("QI(o_cte)", [("id", "QA(id)"); ("c_id", "QA(c_id)"); ("o_fk", "QA(o_fk)"); ("TRUNC(day,created_at)", "QA(ts)"); ("TRUNC(month,created_at)", "QA(ts__month)"); ("TRUNC(year,created_at)", "QA(ts__year)")], "raw.o", None));
   ((0, 0, 1, 1, 0, [("o.ts", (Some "month")); ("o.ts", (Some "year"))], ["gm"; "unknown"; "rev"], None, None, None)%nat,
    ("QI(o_cte)", [("id", "QA(id)"); ("c_id", "QA(c_id)"); ("o_fk", "QA(o_fk)"); ("TRUNC(day,created_at)", "QA(ts)"); ("TRUNC(month,created_at)", "QA(ts__month)"); ("TRUNC(year,created_at)", "QA(ts__year)"); ("amount", "QA(rev_raw)")], "raw.o", None));
   ((0, 0, 1, 1, 0, [("o.ts", (Some "month")); ("o.ts", (Some "year"))], ["o.rev"; "o.rev"; "cnt"], None, None, None)%nat,
    ("QI(o_cte)", [("id", "QA(id)"); ("c_id", "QA(c_id)"); ("o_fk", "QA(o_fk)"); ("TRUNC(day,created_at)", "QA(ts)"); ("TRUNC(month,created_at)", "QA(ts__month)"); ("TRUNC(year,created_at)", "QA(ts__year)"); ("1", "QA(cnt_raw)"); ("amount", "QA(rev_raw)")], "raw.o", None));
   ((0, 0, 1, 1, 0, [("o.ts", (Some "month")); ("o.ts", (Some "year"))], ["o.nometric"; "inline"], None, None, None)%nat,
    ("QI(o_cte)", [("id", "QA(id)"); ("c_id", "QA(c_id)"); ("o_fk", "QA(o_fk)"); ("TRUNC(day,created_at)", "QA(ts)"); ("TRUNC(month,created_at)", "QA(ts__month)"); ("TRUNC(year,created_at)", "QA(ts__year)"); ("price", "QA(price)"); ("qty", "QA(qty)"); ("status", "QA(status)"); ("amount", "QA(rev_raw)")], "raw.o", None));
   ((0, 0, 1, 1, 0, [("o.ts", (Some "month")); ("o.ts", (Some "month"))], [], None, None, None)%nat,
    ("QI(o_cte)", [("id", "QA(id)"); ("c_id", "QA(c_id)"); ("o_fk", "QA(o_fk)"); ("TRUNC(day,created_at)", "QA(ts)"); ("TRUNC(month,created_at)", "QA(ts__month)")], "raw.o", None));
   ((0, 0, 1, 1, 0, [("o.ts", (Some "month")); ("o.ts", (Some "month"))], ["o.rev"], None, None, None)%nat,
    ("QI(o_cte)", [("id", "QA(id)"); ("c_id", "QA(c_id)"); ("o_fk", "QA(o_fk)"); ("TRUNC(day,created_at)", "QA(ts)"); ("TRUNC(month,created_at)", "QA(ts__month)"); ("amount", "QA(rev_raw)")], "raw.o", None));
   ((0, 0, 1, 1, 0, [("o.ts", (Some "month")); ("o.ts", (Some "month"))], ["o.cnt"; "o.cntstar"; "o.cntx"], None, None, None)%nat,
    ("QI(o_cte)", [("id", "QA(id)"); ("c_id", "QA(c_id)"); ("o_fk", "QA(o_fk)"); ("TRUNC(day,created_at)", "QA(ts)"); ("TRUNC(month,created_at)", "QA(ts__month)"); ("1", "QA(cnt_raw)"); ("1", "QA(cntstar_raw)"); ("x", "QA(cntx_raw)")], "raw.o", None));
   ((0, 0, 1, 1, 0, [("o.ts", (Some "month")); ("o.ts", (Some "month"))], ["o.cd"; "o.cdx"], None, None, None)%nat,
    ("QI(o_cte)", [("id", "QA(id)"); ("c_id", "QA(c_id)"); ("o_fk", "QA(o_fk)"); ("TRUNC(day,created_at)", "QA(ts)"); ("TRUNC(month,created_at)", "QA(ts__month)"); ("id", "QA(cd_raw)"); ("u", "QA(cdx_raw)")], "raw.o", None));
   ((0, 0, 1, 1, 0, [("o.ts", (Some "month")); ("o.ts", (Some "month"))], ["o.frev"; "o.fcnt"], None, None, None)%nat,
    ("QI(o_cte)", [("id", "QA(id)"); ("c_id", "QA(c_id)"); ("o_fk", "QA(o_fk)"); ("TRUNC(day,created_at)", "QA(ts)"); ("TRUNC(month,created_at)", "QA(ts__month)"); ("CASE WHEN CONJ[f] THEN x ELSE NULL END", "QA(fcnt_raw)"); ("CASE WHEN CONJ[status = 'a';x > 1] THEN amount ELSE NULL END", "QA(frev_raw)")], "raw.o", None));
   ((0, 0, 1, 1, 0, [("o.ts", (Some "month")); ("o.ts", (Some "month"))], ["o.ratio"], None, None, None)%nat,
    ("QI(o_cte)", [("id", "QA(id)"); ("c_id", "QA(c_id)"); ("o_fk", "QA(o_fk)"); ("TRUNC(day,created_at)", "QA(ts)"); ("TRUNC(month,created_at)", "QA(ts__month)"); ("1", "QA(cnt_raw)"); ("amount", "QA(rev_raw)")], "raw.o", None));
   ((0, 0, 1, 1, 0, [("o.ts", (Some "month")); ("o.ts", (Some "month"))], ["o.der"], None, None, None)%nat,
    ("QI(o_cte)", [("id", "QA(id)"); ("c_id", "QA(c_id)"); ("o_fk", "QA(o_fk)"); ("TRUNC(day,created_at)", "QA(ts)"); ("TRUNC(month,created_at)", "QA(ts__month)"); ("CASE WHEN CONJ[status = 'a';x > 1] THEN amount ELSE NULL END", "QA(frev_raw)"); ("amount", "QA(rev_raw)")], "raw.o", None));
   ((0, 0, 1, 1, 0, [("o.ts", (Some "month")); ("o.ts", (Some "month"))], ["o.cyc"], None, None, None)%nat,
    ("QI(o_cte)", [("id", "QA(id)"); ("c_id", "QA(c_id)"); ("o_fk", "QA(o_fk)"); ("TRUNC(day,created_at)", "QA(ts)"); ("TRUNC(month,created_at)", "QA(ts__month)"); ("id", "QA(cd_raw)")], "raw.o", None));
   ((0, 0, 1, 1, 0, [("o.ts", (Some "month")); ("o.ts", (Some "month"))], ["o.expr"], None, None, None)%nat,
    ("QI(o_cte)", [("id", "QA(id)"); ("c_id", "QA(c_id)"); ("o_fk", "QA(o_fk)"); ("TRUNC(day,created_at)", "QA(ts)"); ("TRUNC(month,created_at)", "QA(ts__month)"); ("amount", "QA(rev_raw)")], "raw.o", None));
   ((0, 0, 1, 1, 0, [("o.ts", (Some "month")); ("o.ts", (Some "month"))], ["o.inline"], None, None, None)%nat,
    ("QI(o_cte)", [("id", "QA(id)"); ("c_id", "QA(c_id)"); ("o_fk", "QA(o_fk)"); ("TRUNC(day,created_at)", "QA(ts)"); ("TRUNC(month,created_at)", "QA(ts__month)"); ("price", "QA(price)"); ("qty", "QA(qty)"); ("status", "QA(status)"); ("amount", "QA(rev_raw)")], "raw.o", None));
   ((0, 0, 1, 1, 0, [("o.ts", (Some "month")); ("o.ts", (Some "month"))], ["o.tc"; "c.other"], None, None, None)%nat,
    ("QI(o_cte)", [("id", "QA(id)"); ("c_id", "QA(c_id)"); ("o_fk", "QA(o_fk)"); ("TRUNC(day,created_at)", "QA(ts)"); ("TRUNC(month,created_at)", "QA(ts__month)")], "raw.o", None));
   ((0, 0, 1, 1, 0, [("o.ts", (Some "month")); ("o.ts", (Some "month"))], ["gm"; "unknown"; "rev"], None, None, None)%nat,
    ("QI(o_cte)", [("id", "QA(id)"); ("c_id", "QA(c_id)"); ("o_fk", "QA(o_fk)"); ("TRUNC(day,created_at)", "QA(ts)"); ("TRUNC(month,created_at)", "QA(ts__month)"); ("amount", "QA(rev_raw)")], "raw.o", None));
   ((0, 0, 1, 1, 0, [("o.ts", (Some "month")); ("o.ts", (Some "month"))], ["o.rev"; "o.rev"; "cnt"], None, None, None)%nat,
    ("QI(o_cte)", [("id", "QA(id)"); ("c_id", "QA(c_id)"); ("o_fk", "QA(o_fk)"); ("TRUNC(day,created_at)", "QA(ts)"); ("TRUNC(month,created_at)", "QA(ts__month)"); ("1", "QA(cnt_raw)"); ("amount", "QA(rev_raw)")], "raw.o", None));
   ((0, 0, 1, 1, 0, [("o.ts", (Some "month")); ("o.ts", (Some "month"))], ["o.nometric"; "inline"], None, None, None)%nat,
    ("QI(o_cte)", [("id", "QA(id)"); ("c_id", "QA(c_id)"); ("o_fk", "QA(o_fk)"); ("TRUNC(day,created_at)", "QA(ts)"); ("TRUNC(month,created_at)", "QA(ts__month)"); ("price", "QA(price)"); ("qty", "QA(qty)"); ("status", "QA(status)"); ("amount", "QA(rev_raw)")], "raw.o", None));
   ((0, 0, 1, 1, 0, [("o.ts2", (Some "day")); ("o.xm", None)], [], None, None, None)%nat,
    ("QI(o_cte)", [("id", "QA(id)"); ("c_id", "QA(c_id)"); ("o_fk", "QA(o_fk)"); ("updated", "QA(ts2)"); ("a + 1", "QA(xm)"); ("TRUNC(day,updated)", "QA(ts2__day)")], "raw.o", None));
   ((0, 0, 1, 1, 0, [("o.ts2", (Some "day")); ("o.xm", None)], ["o.rev"], None, None, None)%nat,
    ("QI(o_cte)", [("id", "QA(id)"); ("c_id", "QA(c_id)"); ("o_fk", "QA(o_fk)"); ("updated", "QA(ts2)"); ("a + 1", "QA(xm)"); ("TRUNC(day,updated)", "QA(ts2__day)"); ("amount", "QA(rev_raw)")], "raw.o", None));
   ((0, 0, 1, 1, 0, [("o.ts2", (Some "day")); ("o.xm", None)], ["o.cnt"; "o.cntstar"; "o.cntx"], None, None, None)%nat,
    ("QI(o_cte)", [("id", "QA(id)"); ("c_id", "QA(c_id)"); ("o_fk", "QA(o_fk)"); ("updated", "QA(ts2)"); ("a + 1", "QA(xm)"); ("TRUNC(day,updated)", "QA(ts2__day)"); ("1", "QA(cnt_raw)"); ("1", "QA(cntstar_raw)"); ("x", "QA(cntx_raw)")], "raw.o", None));
   ((0, 0, 1, 1, 0, [("o.ts2", (Some "day")); ("o.xm", None)], ["o.cd"; "o.cdx"], None, None, None)%nat,
    ("QI(o_cte)", [("id", "QA(id)"); ("c_id", "QA(c_id)"); ("o_fk", "QA(o_fk)"); ("updated", "QA(ts2)"); ("a + 1", "QA(xm)"); ("TRUNC(day,updated)", "QA(ts2__day)"); ("id", "QA(cd_raw)"); ("u", "QA(cdx_raw)")], "raw.o", None));
   ((0, 0, 1, 1, 0, [("o.ts2", (Some "day")); ("o.xm", None)], ["o.frev"; "o.fcnt"], None, None, None)%nat,
    ("QI(o_cte)", [("id", "QA(id)"); ("c_id", "QA(c_id)"); ("o_fk", "QA(o_fk)"); ("updated", "QA(ts2)"); ("a + 1", "QA(xm)"); ("TRUNC(day,updated)", "QA(ts2__day)"); ("CASE WHEN CONJ[f] THEN x ELSE NULL END", "QA(fcnt_raw)"); ("CASE WHEN CONJ[status = 'a';x > 1] THEN amount ELSE NULL END", "QA(frev_raw)")], "raw.o", None));
   ((0, 0, 1, 1, 0, [("o.ts2", (Some "day")); ("o.xm", None)], ["o.ratio"], None, None, None)%nat,
    ("QI(o_cte)", [("id", "QA(id)"); ("c_id", "QA(c_id)"); ("o_fk", "QA(o_fk)"); ("updated", "QA(ts2)"); ("a + 1", "QA(xm)"); ("TRUNC(day,updated)", "QA(ts2__day)"); ("1", "QA(cnt_raw)"); ("amount", "QA(rev_raw)")], "raw.o", None));
   ((0, 0, 1, 1, 0, [("o.ts2", (Some "day")); ("o.xm", None)], ["o.der"], None, None, None)%nat,
    ("QI(o_cte)", [("id", "QA(id)"); ("c_id", "QA(c_id)"); ("o_fk", "QA(o_fk)"); ("updated", "QA(ts2)"); ("a + 1", "QA(xm)"); ("TRUNC(day,updated)", "QA(ts2__day)"); ("CASE WHEN CONJ[status = 'a';x > 1] THEN amount ELSE NULL END", "QA(frev_raw)"); ("amount", "QA(rev_raw)")], "raw.o", None));
   ((0, 0, 1, 1, 0, [("o.ts2", (Some "day")); ("o.xm", None)], ["o.cyc"], None, None, None)%nat,
    ("QI(o_cte)", [("id", "QA(id)"); ("c_id", "QA(c_id)"); ("o_fk", "QA(o_fk)"); ("updated", "QA(ts2)"); ("a + 1", "QA(xm)"); ("TRUNC(day,updated)", "QA(ts2__day)"); ("id", "QA(cd_raw)")], "raw.o", None));
   ((0, 0, 1, 1, 0, [("o.ts2", (Some "day")); ("o.xm", None)], ["o.expr"], None, None, None)%nat,
    ("QI(o_cte)", [("id", "QA(id)"); ("c_id", "QA(c_id)"); ("o_fk", "QA(o_fk)"); ("updated", "QA(ts2)"); ("a + 1", "QA(xm)"); ("TRUNC(day,updated)", "QA(ts2__day)"); ("amount", "QA(rev_raw)")], "raw.o", None));
   ((0, 0, 1, 1, 0, [("o.ts2", (Some "day")); ("o.xm", None)], ["o.inline"], None, None, None)%nat,
    ("QI(o_cte)", [("id", "QA(id)"); ("c_id", "QA(c_id)"); ("o_fk", "QA(o_fk)"); ("updated", "QA(ts2)"); ("a + 1", "QA(xm)"); ("TRUNC(day,updated)", "QA(ts2__day)"); ("price", "QA(price)"); ("qty", "QA(qty)"); ("status", "QA(status)"); ("amount", "QA(rev_raw)")], "raw.o", None));
   ((0, 0, 1, 1, 0, [("o.ts2", (Some "day")); ("o.xm", None)], ["o.tc"; "c.other"], None, None, None)%nat,
    ("QI(o_cte)", [("id", "QA(id)"); ("c_id", "QA(c_id)"); ("o_fk", "QA(o_fk)"); ("updated", "QA(ts2)"); ("a + 1", "QA(xm)"); ("TRUNC(day,updated)", "QA(ts2__day)")], "raw.o", None));
   ((0, 0, 1, 1, 0, [("o.ts2", (Some "day")); ("o.xm", None)], ["gm"; "unknown"; "rev"], None, None, None)%nat,
    ("QI(o_cte)", [("id", "QA(id)"); ("c_id", "QA(c_id)"); ("o_fk", "QA(o_fk)"); ("updated", "QA(ts2)"); ("a + 1", "QA(xm)"); ("TRUNC(day,updated)", "QA(ts2__day)"); ("amount", "QA(rev_raw)")], "raw.o", None));
   ((0, 0, 1, 1, 0, [("o.ts2", (Some "day")); ("o.xm", None)], ["o.rev"; "o.rev"; "cnt"], None, None, None)%nat,
    ("QI(o_cte)", [("id", "QA(id)"); ("c_id", "QA(c_id)"); ("o_fk", "QA(o_fk)"); ("updated", "QA(ts2)"); ("a + 1", "QA(xm)"); ("TRUNC(day,updated)", "QA(ts2__day)"); ("1", "QA(cnt_raw)"); ("amount", "QA(rev_raw)")], "raw.o", None));
   ((0, 0, 1, 1, 0, [("o.ts2", (Some "day")); ("o.xm", None)], ["o.nometric"; "inline"], None, None, None)%nat,
    ("QI(o_cte)", [("id", "QA(id)"); ("c_id", "QA(c_id)"); ("o_fk", "QA(o_fk)"); ("updated", "QA(ts2)"); ("a + 1", "QA(xm)"); ("TRUNC(day,updated)", "QA(ts2__day)"); ("price", "QA(price)"); ("qty", "QA(qty)"); ("status", "QA(status)"); ("amount", "QA(rev_raw)")], "raw.o", None));
   ((0, 0, 1, 1, 0, [("o.status", (Some "week"))], [], None, None, None)%nat,
    ("QI(o_cte)", [("id", "QA(id)"); ("c_id", "QA(c_id)"); ("o_fk", "QA(o_fk)"); ("status", "QA(status)")], "raw.o", None));
   ((0, 0, 1, 1, 0, [("o.status", (Some "week"))], ["o.rev"], None, None, None)%nat,
    ("QI(o_cte)", [("id", "QA(id)"); ("c_id", "QA(c_id)"); ("o_fk", "QA(o_fk)"); ("status", "QA(status)"); ("amount", "QA(rev_raw)")], "raw.o", None));
   ((0, 0, 1, 1, 0, [("o.status", (Some "week"))], ["o.cnt"; "o.cntstar"; "o.cntx"], None, None, None)%nat,
    ("QI(o_cte)", [("id", "QA(id)"); ("c_id", "QA(c_id)"); ("o_fk", "QA(o_fk)"); ("status", "QA(status)"); ("1", "QA(cnt_raw)"); ("1", "QA(cntstar_raw)"); ("x", "QA(cntx_raw)")], "raw.o", None));
   ((0, 0, 1, 1, 0, [("o.status", (Some "week"))], ["o.cd"; "o.cdx"], None, None, None)%nat,
    ("QI(o_cte)", [("id", "QA(id)"); ("c_id", "QA(c_id)"); ("o_fk", "QA(o_fk)"); ("status", "QA(status)"); ("id", "QA(cd_raw)"); ("u", "QA(cdx_raw)")], "raw.o", None));
   ((0, 0, 1, 1, 0, [("o.status", (Some "week"))], ["o.frev"; "o.fcnt"], None, None, None)%nat,
    ("QI(o_cte)", [("id", "QA(id)"); ("c_id", "QA(c_id)"); ("o_fk", "QA(o_fk)"); ("status", "QA(status)"); ("CASE WHEN CONJ[f] THEN x ELSE NULL END", "QA(fcnt_raw)"); ("CASE WHEN CONJ[status = 'a';x > 1] THEN amount ELSE NULL END", "QA(frev_raw)")], "raw.o", None));
   ((0, 0, 1, 1, 0, [("o.status", (Some "week"))], ["o.ratio"], None, None, None)%nat,
    ("QI(o_cte)", [("id", "QA(id)"); ("c_id", "QA(c_id)"); ("o_fk", "QA(o_fk)"); ("status", "QA(status)"); ("1", "QA(cnt_raw)"); ("amount", "QA(rev_raw)")], "raw.o", None));
   ((0, 0, 1, 1, 0, [("o.status", (Some "week"))], ["o.der"], None, None, None)%nat,
    ("QI(o_cte)", [("id", "QA(id)"); ("c_id", "QA(c_id)"); ("o_fk", "QA(o_fk)"); ("status", "QA(status)"); ("CASE WHEN CONJ[status = 'a';x > 1] THEN amount ELSE NULL END", "QA(frev_raw)"); ("amount", "QA(rev_raw)")], "raw.o", None));
   ((0, 0, 1, 1, 0, [("o.status", (Some "week"))], ["o.cyc"], None, None, None)%nat,
    ("QI(o_cte)", [("id", "QA(id)"); ("c_id", "QA(c_id)"); ("o_fk", "QA(o_fk)"); ("status", "QA(status)"); ("id", "QA(cd_raw)")], "raw.o", None));
   ((0, 0, 1, 1, 0, [("o.status", (Some "week"))], ["o.expr"], None, None, None)%nat,
    ("QI(o_cte)", [("id", "QA(id)"); ("c_id", "QA(c_id)"); ("o_fk", "QA(o_fk)"); ("status", "QA(status)"); ("amount", "QA(rev_raw)")], "raw.o", None));
   ((0, 0, 1, 1, 0, [("o.status", (Some "week"))], ["o.inline"], None, None, None)%nat,
    ("QI(o_cte)", [("id", "QA(id)"); ("c_id", "QA(c_id)"); ("o_fk", "QA(o_fk)"); ("status", "QA(status)"); ("price", "QA(price)"); ("qty", "QA(qty)"); ("amount", "QA(rev_raw)")], "raw.o", None));
   ((0, 0, 1, 1, 0, [("o.status", (Some "week"))], ["o.tc"; "c.other"], None, None, None)%nat,
    ("QI(o_cte)", [("id", "QA(id)"); ("c_id", "QA(c_id)"); ("o_fk", "QA(o_fk)"); ("status", "QA(status)")], "raw.o", None));
   ((0, 0, 1, 1, 0, [("o.status", (Some "week"))], ["gm"; "unknown"; "rev"], None, None, None)%nat,
    ("QI(o_cte)", [("id", "QA(id)"); ("c_id", "QA(c_id)"); ("o_fk", "QA(o_fk)"); ("status", "QA(status)"); ("amount", "QA(rev_raw)")], "raw.o", None));
   ((0, 0, 1, 1, 0, [("o.status", (Some "week"))], ["o.rev"; "o.rev"; "cnt"], None, None, None)%nat,
    ("QI(o_cte)", [("id", "QA(id)"); ("c_id", "QA(c_id)"); ("o_fk", "QA(o_fk)"); ("status", "QA(status)"); ("1", "QA(cnt_raw)"); ("amount", "QA(rev_raw)")], "raw.o", None));
   ((0, 0, 1, 1, 0, [("o.status", (Some "week"))], ["o.nometric"; "inline"], None, None, None)%nat,
    ("QI(o_cte)", [("id", "QA(id)"); ("c_id", "QA(c_id)"); ("o_fk", "QA(o_fk)"); ("status", "QA(status)"); ("price", "QA(price)"); ("qty", "QA(qty)"); ("amount", "QA(rev_raw)")], "raw.o", None));
   ((0, 0, 1, 1, 0, [("o.c_id", None); ("o.id", None)], [], None, None, None)%nat,
    ("QI(o_cte)", [("id", "QA(id)"); ("c_id", "QA(c_id)"); ("o_fk", "QA(o_fk)")], "raw.o", None));
   ((0, 0, 1, 1, 0, [("o.c_id", None); ("o.id", None)], ["o.rev"], None, None, None)%nat,
    ("QI(o_cte)", [("id", "QA(id)"); ("c_id", "QA(c_id)"); ("o_fk", "QA(o_fk)"); ("amount", "QA(rev_raw)")], "raw.o", None));
   ((0, 0, 1, 1, 0, [("o.c_id", None); ("o.id", None)], ["o.cnt"; "o.cntstar"; "o.cntx"], None, None, None)%nat,
    ("QI(o_cte)", [("id", "QA(id)"); ("c_id", "QA(c_id)"); ("o_fk", "QA(o_fk)"); ("1", "QA(cnt_raw)"); ("1", "QA(cntstar_raw)"); ("x", "QA(cntx_raw)")], "raw.o", None));
   ((0, 0, 1, 1, 0, [("o.c_id", None); ("o.id", None)], ["o.cd"; "o.cdx"], None, None, None)%nat,
    ("QI(o_cte)", [("id", "QA(id)"); ("c_id", "QA(c_id)"); ("o_fk", "QA(o_fk)"); ("id", "QA(cd_raw)"); ("u", "QA(cdx_raw)")], "raw.o", None));
   ((0, 0, 1, 1, 0, [("o.c_id", None); ("o.id", None)], ["o.frev"; "o.fcnt"], None, None, None)%nat,
    ("QI(o_cte)", [("id", "QA(id)"); ("c_id", "QA(c_id)"); ("o_fk", "QA(o_fk)"); ("CASE WHEN CONJ[f] THEN x ELSE NULL END", "QA(fcnt_raw)"); ("CASE WHEN CONJ[status = 'a';x > 1] THEN amount ELSE NULL END", "QA(frev_raw)")], "raw.o", None));
   ((0, 0, 1, 1, 0, [("o.c_id", None); ("o.id", None)], ["o.ratio"], None, None, None)%nat,
    ("QI(o_cte)", [("id", "QA(id)"); ("c_id", "QA(c_id)"); ("o_fk", "QA(o_fk)"); ("1", "QA(cnt_raw)"); ("amount", "QA(rev_raw)")], "raw.o", None));
   ((0, 0, 1, 1, 0, [("o.c_id", None); ("o.id", None)], ["o.der"], None, None, None)%nat,
    ("QI(o_cte)", [("id", "QA(id)"); ("c_id", "QA(c_id)"); ("o_fk", "QA(o_fk)"); ("CASE WHEN CONJ[status = 'a';x > 1] THEN amount ELSE NULL END", "QA(frev_raw)"); ("amount", "QA(rev_raw)")], "raw.o", None));
   ((0, 0, 1, 1, 0, [("o.c_id", None); ("o.id", None)], ["o.cyc"], None, None, None)%nat,
    ("QI(o_cte)", [("id", "QA(id)"); ("c_id", "QA(c_id)"); ("o_fk", "QA(o_fk)"); ("id", "QA(cd_raw)")], "raw.o", None));
   ((0, 0, 1, 1, 0, [("o.c_id", None); ("o.id", None)], ["o.expr"], None, None, None)%nat,
    ("QI(o_cte)", [("id", "QA(id)"); ("c_id", "QA(c_id)"); ("o_fk", "QA(o_fk)"); ("amount", "QA(rev_raw)")], "raw.o", None));
   ((0, 0, 1, 1, 0, [("o.c_id", None); ("o.id", None)], ["o.inline"], None, None, None)%nat,
    ("QI(o_cte)", [("id", "QA(id)"); ("c_id", "QA(c_id)"); ("o_fk", "QA(o_fk)"); ("price", "QA(price)"); ("qty", "QA(qty)"); ("status", "QA(status)"); ("amount", "QA(rev_raw)")], "raw.o", None));
   ((0, 0, 1, 1, 0, [("o.c_id", None); ("o.id", None)], ["o.tc"; "c.other"], None, None, None)%nat,
    ("QI(o_cte)", [("id", "QA(id)"); ("c_id", "QA(c_id)"); ("o_fk", "QA(o_fk)")], "raw.o", None));
   ((0, 0, 1, 1, 0, [("o.c_id", None); ("o.id", None)], ["gm"; "unknown"; "rev"], None, None, None)%nat,
    ("QI(o_cte)", [("id", "QA(id)"); ("c_id", "QA(c_id)"); ("o_fk", "QA(o_fk)"); ("amount", "QA(rev_raw)")], "raw.o", None));
   ((0, 0, 1, 1, 0, [("o.c_id", None); ("o.id", None)], ["o.rev"; "o.rev"; "cnt"], None, None, None)%nat,
    ("QI(o_cte)", [("id", "QA(id)"); ("c_id", "QA(c_id)"); ("o_fk", "QA(o_fk)"); ("1", "QA(cnt_raw)"); ("amount", "QA(rev_raw)")], "raw.o", None));
   ((0, 0, 1, 1, 0, [("o.c_id", None); ("o.id", None)], ["o.nometric"; "inline"], None, None, None)%nat,
    ("QI(o_cte)", [("id", "QA(id)"); ("c_id", "QA(c_id)"); ("o_fk", "QA(o_fk)"); ("price", "QA(price)"); ("qty", "QA(qty)"); ("status", "QA(status)"); ("amount", "QA(rev_raw)")], "raw.o", None));
   ((0, 0, 1, 1, 0, [("c.region", None); ("o.nodim", (Some "day"))], [], None, None, None)%nat,
    ("QI(o_cte)", [("id", "QA(id)"); ("c_id", "QA(c_id)"); ("o_fk", "QA(o_fk)")], "raw.o", None));
   ((0, 0, 1, 1, 0, [("c.region", None); ("o.nodim", (Some "day"))], ["o.rev"], None, None, None)%nat,
    ("QI(o_cte)", [("id", "QA(id)"); ("c_id", "QA(c_id)"); ("o_fk", "QA(o_fk)"); ("amount", "QA(rev_raw)")], "raw.o", None));
   ((0, 0, 1, 1, 0, [("c.region", None); ("o.nodim", (Some "day"))], ["o.cnt"; "o.cntstar"; "o.cntx"], None, None, None)%nat,
    ("QI(o_cte)", [("id", "QA(id)"); ("c_id", "QA(c_id)"); ("o_fk", "QA(o_fk)"); ("1", "QA(cnt_raw)"); ("1", "QA(cntstar_raw)"); ("x", "QA(cntx_raw)")], "raw.o", None));
   ((0, 0, 1, 1, 0, [("c.region", None); ("o.nodim", (Some "day"))], ["o.cd"; "o.cdx"], None, None, None)%nat,
    ("QI(o_cte)", [("id", "QA(id)"); ("c_id", "QA(c_id)"); ("o_fk", "QA(o_fk)"); ("id", "QA(cd_raw)"); ("u", "QA(cdx_raw)")], "raw.o", None));
   ((0, 0, 1, 1, 0, [("c.region", None); ("o.nodim", (Some "day"))], ["o.frev"; "o.fcnt"], None, None, None)%nat,
    ("QI(o_cte)", [("id", "QA(id)"); ("c_id", "QA(c_id)"); ("o_fk", "QA(o_fk)"); ("CASE WHEN CONJ[f] THEN x ELSE NULL END", "QA(fcnt_raw)"); ("CASE WHEN CONJ[status = 'a';x > 1] THEN amount ELSE NULL END", "QA(frev_raw)")], "raw.o", None));
   ((0, 0, 1, 1, 0, [("c.region", None); ("o.nodim", (Some "day"))], ["o.ratio"], None, None, None)%nat,
    ("QI(o_cte)", [("id", "QA(id)"); ("c_id", "QA(c_id)"); ("o_fk", "QA(o_fk)"); ("1", "QA(cnt_raw)"); ("amount", "QA(rev_raw)")], "raw.o", None));
   ((0, 0, 1, 1, 0, [("c.region", None); ("o.nodim", (Some "day"))], ["o.der"], None, None, None)%nat,
    ("QI(o_cte)", [("id", "QA(id)"); ("c_id", "QA(c_id)"); ("o_fk", "QA(o_fk)"); ("CASE WHEN CONJ[status = 'a';x > 1] THEN amount ELSE NULL END", "QA(frev_raw)"); ("amount", "QA(rev_raw)")], "raw.o", None));
   ((0, 0, 1, 1, 0, [("c.region", None); ("o.nodim", (Some "day"))], ["o.cyc"], None, None, None)%nat,
    ("QI(o_cte)", [("id", "QA(id)"); ("c_id", "QA(c_id)"); ("o_fk", "QA(o_fk)"); ("id", "QA(cd_raw)")], "raw.o", None));
   ((0, 0, 1, 1, 0, [("c.region", None); ("o.nodim", (Some "day"))], ["o.expr"], None, None, None)%nat,
    ("QI(o_cte)", [("id", "QA(id)"); ("c_id", "QA(c_id)"); ("o_fk", "QA(o_fk)"); ("amount", "QA(rev_raw)")], "raw.o", None));
   ((0, 0, 1, 1, 0, [("c.region", None); ("o.nodim", (Some "day"))], ["o.inline"], None, None, None)%nat,
    ("QI(o_cte)", [("id", "QA(id)"); ("c_id", "QA(c_id)"); ("o_fk", "QA(o_fk)"); ("price", "QA(price)"); ("qty", "QA(qty)"); ("status", "QA(status)"); ("amount", "QA(rev_raw)")], "raw.o", None));
   ((0, 0, 1, 1, 0, [("c.region", None); ("o.nodim", (Some "day"))], ["o.tc"; "c.other"], None, None, None)%nat,
    ("QI(o_cte)", [("id", "QA(id)"); ("c_id", "QA(c_id)"); ("o_fk", "QA(o_fk)")], "raw.o", None));
   ((0, 0, 1, 1, 0, [("c.region", None); ("o.nodim", (Some "day"))], ["gm"; "unknown"; "rev"], None, None, None)%nat,
    ("QI(o_cte)", [("id", "QA(id)"); ("c_id", "QA(c_id)"); ("o_fk", "QA(o_fk)"); ("amount", "QA(rev_raw)")], "raw.o", None));
   ((0, 0, 1, 1, 0, [("c.region", None); ("o.nodim", (Some "day"))], ["o.rev"; "o.rev"; "cnt"], None, None, None)%nat,
    ("QI(o_cte)", [("id", "QA(id)"); ("c_id", "QA(c_id)"); ("o_fk", "QA(o_fk)"); ("1", "QA(cnt_raw)"); ("amount", "QA(rev_raw)")], "raw.o", None));
   ((0, 0, 1, 1, 0, [("c.region", None); ("o.nodim", (Some "day"))], ["o.nometric"; "inline"], None, None, None)%nat,
    ("QI(o_cte)", [("id", "QA(id)"); ("c_id", "QA(c_id)"); ("o_fk", "QA(o_fk)"); ("price", "QA(price)"); ("qty", "QA(qty)"); ("status", "QA(status)"); ("amount", "QA(rev_raw)")], "raw.o", None));
   ((0, 0, 1, 1, 0, [("o.rev_raw", None)], [], None, None, None)%nat,
    ("QI(o_cte)", [("id", "QA(id)"); ("c_id", "QA(c_id)"); ("o_fk", "QA(o_fk)"); ("rr", "QA(rev_raw)")], "raw.o", None));
   ((0, 0, 1, 1, 0, [("o.rev_raw", None)], ["o.rev"], None, None, None)%nat,
    ("QI(o_cte)", [("id", "QA(id)"); ("c_id", "QA(c_id)"); ("o_fk", "QA(o_fk)"); ("rr", "QA(rev_raw)"); ("amount", "QA(rev_raw)")], "raw.o", None));
   ((0, 0, 1, 1, 0, [("o.rev_raw", None)], ["o.cnt"; "o.cntstar"; "o.cntx"], None, None, None)%nat,
    ("QI(o_cte)", [("id", "QA(id)"); ("c_id", "QA(c_id)"); ("o_fk", "QA(o_fk)"); ("rr", "QA(rev_raw)"); ("1", "QA(cnt_raw)"); ("1", "QA(cntstar_raw)"); ("x", "QA(cntx_raw)")], "raw.o", None));
   ((0, 0, 1, 1, 0, [("o.rev_raw", None)], ["o.cd"; "o.cdx"], None, None, None)%nat,
    ("QI(o_cte)", [("id", "QA(id)"); ("c_id", "QA(c_id)"); ("o_fk", "QA(o_fk)"); ("rr", "QA(rev_raw)"); ("id", "QA(cd_raw)"); ("u", "QA(cdx_raw)")], "raw.o", None));
   ((0, 0, 1, 1, 0, [("o.rev_raw", None)], ["o.frev"; "o.fcnt"], None, None, None)%nat,
    ("QI(o_cte)", [("id", "QA(id)"); ("c_id", "QA(c_id)"); ("o_fk", "QA(o_fk)"); ("rr", "QA(rev_raw)"); ("CASE WHEN CONJ[f] THEN x ELSE NULL END", "QA(fcnt_raw)"); ("CASE WHEN CONJ[status = 'a';x > 1] THEN amount ELSE NULL END", "QA(frev_raw)")], "raw.o", None));
   ((0, 0, 1, 1, 0, [("o.rev_raw", None)], ["o.ratio"], None, None, None)%nat,
    ("QI(o_cte)", [("id", "QA(id)"); ("c_id", "QA(c_id)"); ("o_fk", "QA(o_fk)"); ("rr", "QA(rev_raw)"); ("1", "QA(cnt_raw)"); ("amount", "QA(rev_raw)")], "raw.o", None));
   ((0, 0, 1, 1, 0, [("o.rev_raw", None)], ["o.der"], None, None, None)%nat,
    ("QI(o_cte)", [("id", "QA(id)"); ("c_id", "QA(c_id)"); ("o_fk", "QA(o_fk)"); ("rr", "QA(rev_raw)"); ("CASE WHEN CONJ[status = 'a';x > 1] THEN amount ELSE NULL END", "QA(frev_raw)"); ("amount", "QA(rev_raw)")], "raw.o", None));
   ((0, 0, 1, 1, 0, [("o.rev_raw", None)], ["o.cyc"], None, None, None)%nat,
    ("QI(o_cte)", [("id", "QA(id)"); ("c_id", "QA(c_id)"); ("o_fk", "QA(o_fk)"); ("rr", "QA(rev_raw)"); ("id", "QA(cd_raw)")], "raw.o", None));
   ((0, 0, 1, 1, 0, [("o.rev_raw", None)], ["o.expr"], None, None, None)%nat,
    ("QI(o_cte)", [("id", "QA(id)"); ("c_id", "QA(c_id)"); ("o_fk", "QA(o_fk)"); ("rr", "QA(rev_raw)"); ("amount", "QA(rev_raw)")], "raw.o", None));
   ((0, 0, 1, 1, 0, [("o.rev_raw", None)], ["o.inline"], None, None, None)%nat,
    ("QI(o_cte)", [("id", "QA(id)"); ("c_id", "QA(c_id)"); ("o_fk", "QA(o_fk)"); ("rr", "QA(rev_raw)"); ("price", "QA(price)"); ("qty", "QA(qty)"); ("status", "QA(status)"); ("amount", "QA(rev_raw)")], "raw.o", None));
   ((0, 0, 1, 1, 0, [("o.rev_raw", None)], ["o.tc"; "c.other"], None, None, None)%nat,
    ("QI(o_cte)", [("id", "QA(id)"); ("c_id", "QA(c_id)"); ("o_fk", "QA(o_fk)"); ("rr", "QA(rev_raw)")], "raw.o", None));
   ((0, 0, 1, 1, 0, [("o.rev_raw", None)], ["gm"; "unknown"; "rev"], None, None, None)%nat,
    ("QI(o_cte)", [("id", "QA(id)"); ("c_id", "QA(c_id)"); ("o_fk", "QA(o_fk)"); ("rr", "QA(rev_raw)"); ("amount", "QA(rev_raw)")], "raw.o", None));
   ((0, 0, 1, 1, 0, [("o.rev_raw", None)], ["o.rev"; "o.rev"; "cnt"], None, None, None)%nat,
    ("QI(o_cte)", [("id", "QA(id)"); ("c_id", "QA(c_id)"); ("o_fk", "QA(o_fk)"); ("rr", "QA(rev_raw)"); ("1", "QA(cnt_raw)"); ("amount", "QA(rev_raw)")], "raw.o", None));
   ((0, 0, 1, 1, 0, [("o.rev_raw", None)], ["o.nometric"; "inline"], None, None, None)%nat,
    ("QI(o_cte)", [("id", "QA(id)"); ("c_id", "QA(c_id)"); ("o_fk", "QA(o_fk)"); ("rr", "QA(rev_raw)"); ("price", "QA(price)"); ("qty", "QA(qty)"); ("status", "QA(status)"); ("amount", "QA(rev_raw)")], "raw.o", None));
   ((0, 1, 1, 1, 0, [], [], None, None, None)%nat,
    ("QI(o_cte)", [("id", "QA(id)"); ("c_id", "QA(c_id)"); ("o_fk", "QA(o_fk)")], "(SELECT * FROM raw) AS t", None));
   ((0, 1, 1, 1, 0, [], ["o.rev"], None, None, None)%nat,
    ("QI(o_cte)", [("id", "QA(id)"); ("c_id", "QA(c_id)"); ("o_fk", "QA(o_fk)"); ("amount", "QA(rev_raw)")], "(SELECT * FROM raw) AS t", None));
   ((0, 1, 1, 1, 0, [], ["o.cnt"; "o.cntstar"; "o.cntx"], None, None, None)%nat,
    ("QI(o_cte)", [("id", "QA(id)"); ("c_id", "QA(c_id)"); ("o_fk", "QA(o_fk)"); ("1", "QA(cnt_raw)"); ("1", "QA(cntstar_raw)"); ("x", "QA(cntx_raw)")], "(SELECT * FROM raw) AS t", None));
   ((0, 1, 1, 1, 0, [], ["o.cd"; "o.cdx"], None, None, None)%nat,
    ("QI(o_cte)", [("id", "QA(id)"); ("c_id", "QA(c_id)"); ("o_fk", "QA(o_fk)"); ("id", "QA(cd_raw)"); ("t.u", "QA(cdx_raw)")], "(SELECT * FROM raw) AS t", None));
   ((0, 1, 1, 1, 0, [], ["o.frev"; "o.fcnt"], None, None, None)%nat,
    ("QI(o_cte)", [("id", "QA(id)"); ("c_id", "QA(c_id)"); ("o_fk", "QA(o_fk)"); ("CASE WHEN CONJ[f] THEN x ELSE NULL END", "QA(fcnt_raw)"); ("CASE WHEN CONJ[status = 'a';x > 1] THEN amount ELSE NULL END", "QA(frev_raw)")], "(SELECT * FROM raw) AS t", None));
   ((0, 1, 1, 1, 0, [], ["o.ratio"], None, None, None)%nat,
    ("QI(o_cte)", [("id", "QA(id)"); ("c_id", "QA(c_id)"); ("o_fk", "QA(o_fk)"); ("1", "QA(cnt_raw)"); ("amount", "QA(rev_raw)")], "(SELECT * FROM raw) AS t", None));
   ((0, 1, 1, 1, 0, [], ["o.der"], None, None, None)%nat,
    ("QI(o_cte)", [("id", "QA(id)"); ("c_id", "QA(c_id)"); ("o_fk", "QA(o_fk)"); ("CASE WHEN CONJ[status = 'a';x > 1] THEN amount ELSE NULL END", "QA(frev_raw)"); ("amount", "QA(rev_raw)")], "(SELECT * FROM raw) AS t", None));
   ((0, 1, 1, 1, 0, [], ["o.cyc"], None, None, None)%nat,
    ("QI(o_cte)", [("id", "QA(id)"); ("c_id", "QA(c_id)"); ("o_fk", "QA(o_fk)"); ("id", "QA(cd_raw)")], "(SELECT * FROM raw) AS t", None));
   ((0, 1, 1, 1, 0, [], ["o.expr"], None, None, None)%nat,
    ("QI(o_cte)", [("id", "QA(id)"); ("c_id", "QA(c_id)"); ("o_fk", "QA(o_fk)"); ("amount", "QA(rev_raw)")], "(SELECT * FROM raw) AS t", None));
   ((0, 1, 1, 1, 0, [], ["o.inline"], None, None, None)%nat,
    ("QI(o_cte)", [("id", "QA(id)"); ("c_id", "QA(c_id)"); ("o_fk", "QA(o_fk)"); ("t.price", "QA(price)"); ("t.qty", "QA(qty)"); ("status", "QA(status)"); ("amount", "QA(rev_raw)")], "(SELECT * FROM raw) AS t", None));
   ((0, 1, 1, 1, 0, [], ["o.tc"; "c.other"], None, None, None)%nat,
    ("QI(o_cte)", [("id", "QA(id)"); ("c_id", "QA(c_id)"); ("o_fk", "QA(o_fk)")], "(SELECT * FROM raw) AS t", None));
   ((0, 1, 1, 1, 0, [], ["gm"; "unknown"; "rev"], None, None, None)%nat,
    ("QI(o_cte)", [("id", "QA(id)"); ("c_id", "QA(c_id)"); ("o_fk", "QA(o_fk)"); ("amount", "QA(rev_raw)")], "(SELECT * FROM raw) AS t", None));
   ((0, 1, 1, 1, 0, [], ["o.rev"; "o.rev"; "cnt"], None, None, None)%nat,
    ("QI(o_cte)", [("id", "QA(id)"); ("c_id", "QA(c_id)"); ("o_fk", "QA(o_fk)"); ("1", "QA(cnt_raw)"); ("amount", "QA(rev_raw)")], "(SELECT * FROM raw) AS t", None));
   ((0, 1, 1, 1, 0, [], ["o.nometric"; "inline"], None, None, None)%nat,
    ("QI(o_cte)", [("id", "QA(id)"); ("c_id", "QA(c_id)"); ("o_fk", "QA(o_fk)"); ("t.price", "QA(price)"); ("t.qty", "QA(qty)"); ("status", "QA(status)"); ("amount", "QA(rev_raw)")], "(SELECT * FROM raw) AS t", None));
   ((0, 1, 1, 1, 0, [("o.status", None)], [], None, None, None)%nat,
    ("QI(o_cte)", [("id", "QA(id)"); ("c_id", "QA(c_id)"); ("o_fk", "QA(o_fk)"); ("status", "QA(status)")], "(SELECT * FROM raw) AS t", None));
   ((0, 1, 1, 1, 0, [("o.status", None)], ["o.rev"], None, None, None)%nat,
    ("QI(o_cte)", [("id", "QA(id)"); ("c_id", "QA(c_id)"); ("o_fk", "QA(o_fk)"); ("status", "QA(status)"); ("amount", "QA(rev_raw)")], "(SELECT * FROM raw) AS t", None));
   ((0, 1, 1, 1, 0, [("o.status", None)], ["o.cnt"; "o.cntstar"; "o.cntx"], None, None, None)%nat,
    ("QI(o_cte)", [("id", "QA(id)"); ("c_id", "QA(c_id)"); ("o_fk", "QA(o_fk)"); ("status", "QA(status)"); ("1", "QA(cnt_raw)"); ("1", "QA(cntstar_raw)"); ("x", "QA(cntx_raw)")], "(SELECT * FROM raw) AS t", None));
   ((0, 1, 1, 1, 0, [("o.status", None)], ["o.cd"; "o.cdx"], None, None, None)%nat,
    ("QI(o_cte)", [("id", "QA(id)"); ("c_id", "QA(c_id)"); ("o_fk", "QA(o_fk)"); ("status", "QA(status)"); ("id", "QA(cd_raw)"); ("t.u", "QA(cdx_raw)")], "(SELECT * FROM raw) AS t", None));
   ((0, 1, 1, 1, 0, [("o.status", None)], ["o.frev"; "o.fcnt"], None, None, None)%nat,
    ("QI(o_cte)", [("id", "QA(id)"); ("c_id", "QA(c_id)"); ("o_fk", "QA(o_fk)"); ("status", "QA(status)"); ("CASE WHEN CONJ[f] THEN x ELSE NULL END", "QA(fcnt_raw)"); ("CASE WHEN CONJ[status = 'a';x > 1] THEN amount ELSE NULL END", "QA(frev_raw)")], "(SELECT * FROM raw) AS t", None));
   ((0, 1, 1, 1, 0, [("o.status", None)], ["o.ratio"], None, None, None)%nat,
    ("QI(o_cte)", [("id", "QA(id)"); ("c_id", "QA(c_id)"); ("o_fk", "QA(o_fk)"); ("status", "QA(status)"); ("1", "QA(cnt_raw)"); ("amount", "QA(rev_raw)")], "(SELECT * FROM raw) AS t", None));
   ((0, 1, 1, 1, 0, [("o.status", None)], ["o.der"], None, None, None)%nat,
    ("QI(o_cte)", [("id", "QA(id)"); ("c_id", "QA(c_id)"); ("o_fk", "QA(o_fk)"); ("status", "QA(status)"); ("CASE WHEN CONJ[status = 'a';x > 1] THEN amount ELSE NULL END", "QA(frev_raw)"); ("amount", "QA(rev_raw)")], "(SELECT * FROM raw) AS t", None));
   ((0, 1, 1, 1, 0, [("o.status", None)], ["o.cyc"], None, None, None)%nat,
    ("QI(o_cte)", [("id", "QA(id)"); ("c_id", "QA(c_id)"); ("o_fk", "QA(o_fk)"); ("status", "QA(status)"); ("id", "QA(cd_raw)")], "(SELECT * FROM raw) AS t", None));
   ((0, 1, 1, 1, 0, [("o.status", None)], ["o.expr"], None, None, None)%nat,
    ("QI(o_cte)", [("id", "QA(id)"); ("c_id", "QA(c_id)"); ("o_fk", "QA(o_fk)"); ("status", "QA(status)"); ("amount", "QA(rev_raw)")], "(SELECT * FROM raw) AS t", None));
   ((0, 1, 1, 1, 0, [("o.status", None)], ["o.inline"], None, None, None)%nat,
    ("QI(o_cte)", [("id", "QA(id)"); ("c_id", "QA(c_id)"); ("o_fk", "QA(o_fk)"); ("status", "QA(status)"); ("t.price", "QA(price)"); ("t.qty", "QA(qty)"); ("amount", "QA(rev_raw)")], "(SELECT * FROM raw) AS t", None));
   ((0, 1, 1, 1, 0, [("o.status", None)], ["o.tc"; "c.other"], None, None, None)%nat,
    ("QI(o_cte)", [("id", "QA(id)"); ("c_id", "QA(c_id)"); ("o_fk", "QA(o_fk)"); ("status", "QA(status)")], "(SELECT * FROM raw) AS t", None));
   ((0, 1, 1, 1, 0, [("o.status", None)], ["gm"; "unknown"; "rev"], None, None, None)%nat,
    ("QI(o_cte)", [("id", "QA(id)"); ("c_id", "QA(c_id)"); ("o_fk", "QA(o_fk)"); ("status", "QA(status)"); ("amount", "QA(rev_raw)")], "(SELECT * FROM raw) AS t", None));
   ((0, 1, 1, 1, 0, [("o.status", None)], ["o.rev"; "o.rev"; "cnt"], None, None, None)%nat,
    ("QI(o_cte)", [("id", "QA(id)"); ("c_id", "QA(c_id)"); ("o_fk", "QA(o_fk)"); ("status", "QA(status)"); ("1", "QA(cnt_raw)"); ("amount", "QA(rev_raw)")], "(SELECT * FROM raw) AS t", None));
   ((0, 1, 1, 1, 0, [("o.status", None)], ["o.nometric"; "inline"], None, None, None)%nat,
    ("QI(o_cte)", [("id", "QA(id)"); ("c_id", "QA(c_id)"); ("o_fk", "QA(o_fk)"); ("status", "QA(status)"); ("t.price", "QA(price)"); ("t.qty", "QA(qty)"); ("amount", "QA(rev_raw)")], "(SELECT * FROM raw) AS t", None));
   ((0, 1, 1, 1, 0, [("o.ts", None)], [], None, None, None)%nat,
    ("QI(o_cte)", [("id", "QA(id)"); ("c_id", "QA(c_id)"); ("o_fk", "QA(o_fk)"); ("TRUNC(day,created_at)", "QA(ts)")], "(SELECT * FROM raw) AS t", None));
   ((0, 1, 1, 1, 0, [("o.ts", None)], ["o.rev"], None, None, None)%nat,
    ("QI(o_cte)", [("id", "QA(id)"); ("c_id", "QA(c_id)"); ("o_fk", "QA(o_fk)"); ("TRUNC(day,created_at)", "QA(ts)"); ("amount", "QA(rev_raw)")], "(SELECT * FROM raw) AS t", None));
   ((0, 1, 1, 1, 0, [("o.ts", None)], ["o.cnt"; "o.cntstar"; "o.cntx"], None, None, None)%nat,
    ("QI(o_cte)", [("id", "QA(id)"); ("c_id", "QA(c_id)"); ("o_fk", "QA(o_fk)"); ("TRUNC(day,created_at)", "QA(ts)"); ("1", "QA(cnt_raw)"); ("1", "QA(cntstar_raw)"); ("x", "QA(cntx_raw)")], "(SELECT * FROM raw) AS t", None));
   ((0, 1, 1, 1, 0, [("o.ts", None)], ["o.cd"; "o.cdx"], None, None, None)%nat,
    ("QI(o_cte)", [("id", "QA(id)"); ("c_id", "QA(c_id)"); ("o_fk", "QA(o_fk)"); ("TRUNC(day,created_at)", "QA(ts)"); ("id", "QA(cd_raw)"); ("t.u", "QA(cdx_raw)")], "(SELECT * FROM raw) AS t", None));
   ((0, 1, 1, 1, 0, [("o.ts", None)], ["o.frev"; "o.fcnt"], None, None, None)%nat,
    ("QI(o_cte)", [("id", "QA(id)"); ("c_id", "QA(c_id)"); ("o_fk", "QA(o_fk)"); ("TRUNC(day,created_at)", "QA(ts)"); ("CASE WHEN CONJ[f] THEN x ELSE NULL END", "QA(fcnt_raw)"); ("CASE WHEN CONJ[status = 'a';x > 1] THEN amount ELSE NULL END", "QA(frev_raw)")], "(SELECT * FROM raw) AS t", None));
   ((0, 1, 1, 1, 0, [("o.ts", None)], ["o.ratio"], None, None, None)%nat,
    ("QI(o_cte)", [("id", "QA(id)"); ("c_id", "QA(c_id)"); ("o_fk", "QA(o_fk)"); ("TRUNC(day,created_at)", "QA(ts)"); ("1", "QA(cnt_raw)"); ("amount", "QA(rev_raw)")], "(SELECT * FROM raw) AS t", None));
   ((0, 1, 1, 1, 0, [("o.ts", None)], ["o.der"], None, None, None)%nat,
    ("QI(o_cte)", [("id", "QA(id)"); ("c_id", "QA(c_id)"); ("o_fk", "QA(o_fk)"); ("TRUNC(day,created_at)", "QA(ts)"); ("CASE WHEN CONJ[status = 'a';x > 1] THEN amount ELSE NULL END", "QA(frev_raw)"); ("amount", "QA(rev_raw)")], "(SELECT * FROM raw) AS t", None));
   ((0, 1, 1, 1, 0, [("o.ts", None)], ["o.cyc"], None, None, None)%nat,
    ("QI(o_cte)", [("id", "QA(id)"); ("c_id", "QA(c_id)"); ("o_fk", "QA(o_fk)"); ("TRUNC(day,created_at)", "QA(ts)"); ("id", "QA(cd_raw)")], "(SELECT * FROM raw) AS t", None));
   ((0, 1, 1, 1, 0, [("o.ts", None)], ["o.expr"], None, None, None)%nat,
    ("QI(o_cte)", [("id", "QA(id)"); ("c_id", "QA(c_id)"); ("o_fk", "QA(o_fk)"); ("TRUNC(day,created_at)", "QA(ts)"); ("amount", "QA(rev_raw)")], "(SELECT * FROM raw) AS t", None));
   ((0, 1, 1, 1, 0, [("o.ts", None)], ["o.inline"], None, None, None)%nat,
    ("QI(o_cte)", [("id", "QA(id)"); ("c_id", "QA(c_id)"); ("o_fk", "QA(o_fk)"); ("TRUNC(day,created_at)", "QA(ts)"); ("t.price", "QA(price)"); ("t.qty", "QA(qty)"); ("status", "QA(status)"); ("amount", "QA(rev_raw)")], "(SELECT * FROM raw) AS t", None));
   ((0, 1, 1, 1, 0, [("o.ts", None)], ["o.tc"; "c.other"], None, None, None)%nat,
    ("QI(o_cte)", [("id", "QA(id)"); ("c_id", "QA(c_id)"); ("o_fk", "QA(o_fk)"); ("TRUNC(day,created_at)", "QA(ts)")], "(SELECT * FROM raw) AS t", None));
   ((0, 1, 1, 1, 0, [("o.ts", None)], ["gm"; "unknown"; "rev"], None, None, None)%nat,
    ("QI(o_cte)", [("id", "QA(id)"); ("c_id", "QA(c_id)"); ("o_fk", "QA(o_fk)"); ("TRUNC(day,created_at)", "QA(ts)"); ("amount", "QA(rev_raw)")], "(SELECT * FROM raw) AS t", None));
   ((0, 1, 1, 1, 0, [("o.ts", None)], ["o.rev"; "o.rev"; "cnt"], None, None, None)%nat,
    ("QI(o_cte)", [("id", "QA(id)"); ("c_id", "QA(c_id)"); ("o_fk", "QA(o_fk)"); ("TRUNC(day,created_at)", "QA(ts)"); ("1", "QA(cnt_raw)"); ("amount", "QA(rev_raw)")], "(SELECT * FROM raw) AS t", None));
   ((0, 1, 1, 1, 0, [("o.ts", None)], ["o.nometric"; "inline"], None, None, None)%nat,
    ("QI(o_cte)", [("id", "QA(id)"); ("c_id", "QA(c_id)"); ("o_fk", "QA(o_fk)"); ("TRUNC(day,created_at)", "QA(ts)"); ("t.price", "QA(price)"); ("t.qty", "QA(qty)"); ("status", "QA(status)"); ("amount", "QA(rev_raw)")], "(SELECT * FROM raw) AS t", None));
   ((0, 1, 1, 1, 0, [("o.ts", (Some "month")); ("o.ts", (Some "year"))], [], None, None, None)%nat,
    ("QI(o_cte)", [("id", "QA(id)"); ("c_id", "QA(c_id)"); ("o_fk", "QA(o_fk)"); ("TRUNC(day,created_at)", "QA(ts)"); ("TRUNC(month,created_at)", "QA(ts__month)"); ("TRUNC(year,created_at)", "QA(ts__year)")], "(SELECT * FROM raw) AS t", None));
   ((0, 1, 1, 1, 0, [("o.ts", (Some "month")); ("o.ts", (Some "year"))], ["o.rev"], None, None, None)%nat,
    ("QI(o_cte)", [("id", "QA(id)"); ("c_id", "QA(c_id)"); ("o_fk", "QA(o_fk)"); ("TRUNC(day,created_at)", "QA(ts)"); ("TRUNC(month,created_at)", "QA(ts__month)"); ("TRUNC(year,created_at)", "QA(ts__year)"); ("amount", "QA(rev_raw)")], "(SELECT * FROM raw) AS t", None));
   ((0, 1, 1, 1, 0, [("o.ts", (Some "month")); ("o.ts", (Some "year"))], ["o.cnt"; "o.cntstar"; "o.cntx"], None, None, None)%nat,
    ("QI(o_cte)", [("id", "QA(id)"); ("c_id", "QA(c_id)"); ("o_fk", "QA(o_fk)"); ("TRUNC(day,created_at)", "QA(ts)"); ("TRUNC(month,created_at)", "QA(ts__month)"); ("TRUNC(year,created_at)", "QA(ts__year)"); ("1", "QA(cnt_raw)"); ("1", "QA(cntstar_raw)"); ("x", "QA(cntx_raw)")], "(SELECT * FROM raw) AS t", None));
   ((0, 1, 1, 1, 0, [("o.ts", (Some "month")); ("o.ts", (Some "year"))], ["o.cd"; "o.cdx"], None, None, None)%nat,
    ("QI(o_cte)", [("id", "QA(id)"); ("c_id", "QA(c_id)"); ("o_fk", "QA(o_fk)"); ("TRUNC(day,created_at)", "QA(ts)"); ("TRUNC(month,created_at)", "QA(ts__month)"); ("TRUNC(year,created_at)", "QA(ts__year)"); ("id", "QA(cd_raw)"); ("t.u", "QA(cdx_raw)")], "(SELECT * FROM raw) AS t", None));
   ((0, 1, 1, 1, 0, [("o.ts", (Some "month")); ("o.ts", (Some "year"))], ["o.frev"; "o.fcnt"], None, None, None)%nat,
    ("QI(o_cte)", [("id", "QA(id)"); ("c_id", "QA(c_id)"); ("o_fk", "QA(o_fk)"); ("TRUNC(day,created_at)", "QA(ts)"); ("TRUNC(month,created_at)", "QA(ts__month)"); ("TRUNC(year,created_at)", "QA(ts__year)"); ("CASE WHEN CONJ[f] THEN x ELSE NULL END", "QA(fcnt_raw)"); ("CASE WHEN CONJ[status = 'a';x > 1] THEN amount ELSE NULL END", "QA(frev_raw)")], "(SELECT * FROM raw) AS t", None));
   ((0, 1, 1, 1, 0, [("o.ts", (Some "month")); ("o.ts", (Some "year"))], ["o.ratio"], None, None, None)%nat,
    ("QI(o_cte)", [("id", "QA(id)"); ("c_id", "QA(c_id)"); ("o_fk", "QA(o_fk)"); ("TRUNC(day,created_at)", "QA(ts)"); ("TRUNC(month,created_at)", "QA(ts__month)"); ("TRUNC(year,created_at)", "QA(ts__year)"); ("1", "QA(cnt_raw)"); ("amount", "QA(rev_raw)")], "(SELECT * FROM raw) AS t", None));
   ((0, 1, 1, 1, 0, [("o.ts", (Some "month")); ("o.ts", (Some "year"))], ["o.der"], None, None, None)%nat,
    ("QI(o_cte)", [("id", "QA(id)"); ("c_id", "QA(c_id)"); ("o_fk", "QA(o_fk)"); ("TRUNC(day,created_at)", "QA(ts)"); ("TRUNC(month,created_at)", "QA(ts__month)"); ("TRUNC(year,created_at)", "QA(ts__year)"); ("CASE WHEN CONJ[status = 'a';x > 1] THEN amount ELSE NULL END", "QA(frev_raw)"); ("amount", "QA(rev_raw)")], "(SELECT * FROM raw) AS t", None));
   ((0, 1, 1, 1, 0, [("o.ts", (Some "month")); ("o.ts", (Some "year"))], ["o.cyc"], None, None, None)%nat,
    ("QI(o_cte)", [("id", "QA(id)"); ("c_id", "QA(c_id)"); ("o_fk", "QA(o_fk)"); ("TRUNC(day,created_at)", "QA(ts)"); ("TRUNC(month,created_at)", "QA(ts__month)"); ("TRUNC(year,created_at)", "QA(ts__year)"); ("id", "QA(cd_raw)")], "(SELECT * FROM raw) AS t", None));
   ((0, 1, 1, 1, 0, [("o.ts", (Some "month")); ("o.ts", (Some "year"))], ["o.expr"], None, None, None)%nat,
    ("QI(o_cte)", [("id", "QA(id)"); ("c_id", "QA(c_id)"); ("o_fk", "QA(o_fk)"); ("TRUNC(day,created_at)", "QA(ts)"); ("TRUNC(month,created_at)", "QA(ts__month)"); ("TRUNC(year,created_at)", "QA(ts__year)"); ("amount", "QA(rev_raw)")], "(SELECT * FROM raw) AS t", None));
   ((0, 1, 1, 1, 0, [("o.ts", (Some "month")); ("o.ts", (Some "year"))], ["o.inline"], None, None, None)%nat,
    ("QI(o_cte)", [("id", "QA(id)"); ("c_id", "QA(c_id)"); ("o_fk", "QA(o_fk)"); ("TRUNC(day,created_at)", "QA(ts)"); ("TRUNC(month,created_at)", "QA(ts__month)"); ("TRUNC(year,created_at)", "QA(ts__year)"); ("t.price", "QA(price)"); ("t.qty", "QA(qty)"); ("status", "QA(status)"); ("amount", "QA(rev_raw)")], "(SELECT * FROM raw) AS t", None));
   ((0, 1, 1, 1, 0, [("o.ts", (Some "month")); ("o.ts", (Some "year"))], ["o.tc"; "c.other"], None, None, None)%nat,
    ("QI(o_cte)", [("id", "QA(id)"); ("c_id", "QA(c_id)"); ("o_fk", "QA(o_fk)"); ("TRUNC(day,created_at)", "QA(ts)"); ("TRUNC(month,created_at)", "QA(ts__month)"); ("TRUNC(year,created_at)", "QA(ts__year)")], "(SELECT * FROM raw) AS t", None));
   ((0, 1, 1, 1, 0, [("o.ts", (Some "month")); ("o.ts", (Some "year"))], ["gm"; "unknown"; "rev"], None, None, None)%nat,
    ("QI(o_cte)", [("id", "QA(id)"); ("c_id", "QA(c_id)"); ("o_fk", "QA(o_fk)"); ("TRUNC(day,created_at)", "QA(ts)"); ("TRUNC(month,created_at)", "QA(ts__month)"); ("TRUNC(year,created_at)", "QA(ts__year)"); ("amount", "QA(rev_raw)")], "(SELECT * FROM raw) AS t", None));
   ((0, 1, 1, 1, 0, [("o.ts", (Some "month")); ("o.ts", (Some "year"))], ["o.rev"; "o.rev"; "cnt"], None, None, None)%nat,
    ("QI(o_cte)", [("id", "QA(id)"); ("c_id", "QA(c_id)"); ("o_fk", "QA(o_fk)"); ("TRUNC(day,created_at)", "QA(ts)"); ("TRUNC(month,created_at)", "QA(ts__month)"); ("TRUNC(year,created_at)", "QA(ts__year)"); ("1", "QA(cnt_raw)"); ("amount", "QA(rev_raw)")], "(SELECT * FROM raw) AS t", None));
   ((0, 1, 1, 1, 0, [("o.ts", (Some "month")); ("o.ts", (Some "year"))], ["o.nometric"; "inline"], None, None, None)%nat,
    ("QI(o_cte)", [("id", "QA(id)"); ("c_id", "QA(c_id)"); ("o_fk", "QA(o_fk)"); ("TRUNC(day,created_at)", "QA(ts)"); ("TRUNC(month,created_at)", "QA(ts__month)"); ("TRUNC(year,created_at)", "QA(ts__year)"); ("t.price", "QA(price)"); ("t.qty", "QA(qty)"); ("status", "QA(status)"); ("amount", "QA(rev_raw)")], "(SELECT * FROM raw) AS t", None));
   ((0, 1, 1, 1, 0, [("o.ts", (Some "month")); ("o.ts", (Some "month"))], [], None, None, None)%nat,
    ("QI(o_cte)", [("id", "QA(id)"); ("c_id", "QA(c_id)"); ("o_fk", "QA(o_fk)"); ("TRUNC(day,created_at)", "QA(ts)"); ("TRUNC(month,created_at)", "QA(ts__month)")], "(SELECT * FROM raw) AS t", None));
   ((0, 1, 1, 1, 0, [("o.ts", (Some "month")); ("o.ts", (Some "month"))], ["o.rev"], None, None, None)%nat,
    ("QI(o_cte)", [("id", "QA(id)"); ("c_id", "QA(c_id)"); ("o_fk", "QA(o_fk)"); ("TRUNC(day,created_at)", "QA(ts)"); ("TRUNC(month,created_at)", "QA(ts__month)"); ("amount", "QA(rev_raw)")], "(SELECT * FROM raw) AS t", None));
   ((0, 1, 1, 1, 0, [("o.ts", (Some "month")); ("o.ts", (Some "month"))], ["o.cnt"; "o.cntstar"; "o.cntx"], None, None, None)%nat,
    ("QI(o_cte)", [("id", "QA(id)"); ("c_id", "QA(c_id)"); ("o_fk", "QA(o_fk)"); ("TRUNC(day,created_at)", "QA(ts)"); ("TRUNC(month,created_at)", "QA(ts__month)"); ("1", "QA(cnt_raw)"); ("1", "QA(cntstar_raw)"); ("x", "QA(cntx_raw)")], "(SELECT * FROM raw) AS t", None));
   ((0, 1, 1, 1, 0, [("o.ts", (Some "month")); ("o.ts", (Some "month"))], ["o.cd"; "o.cdx"], None, None, None)%nat,
    ("QI(o_cte)", [("id", "QA(id)"); ("c_id", "QA(c_id)"); ("o_fk", "QA(o_fk)"); ("TRUNC(day,created_at)", "QA(ts)"); ("TRUNC(month,created_at)", "QA(ts__month)"); ("id", "QA(cd_raw)"); ("t.u", "QA(cdx_raw)")], "(SELECT * FROM raw) AS t", None));
   ((0, 1, 1, 1, 0, [("o.ts", (Some "month")); ("o.ts", (Some "month"))], ["o.frev"; "o.fcnt"], None, None, None)%nat,
    ("QI(o_cte)", [("id", "QA(id)"); ("c_id", "QA(c_id)"); ("o_fk", "QA(o_fk)"); ("TRUNC(day,created_at)", "QA(ts)"); ("TRUNC(month,created_at)", "QA(ts__month)"); ("CASE WHEN CONJ[f] THEN x ELSE NULL END", "QA(fcnt_raw)"); ("CASE WHEN CONJ[status = 'a';x > 1] THEN amount ELSE NULL END", "QA(frev_raw)")], "(SELECT * FROM raw) AS t", None));
   ((0, 1, 1, 1, 0, [("o.ts", (Some "month")); ("o.ts", (Some "month"))], ["o.ratio"], None, None, None)%nat,
    ("QI(o_cte)", [("id", "QA(id)"); ("c_id", "QA(c_id)"); ("o_fk", "QA(o_fk)"); ("TRUNC(day,created_at)", "QA(ts)"); ("TRUNC(month,created_at)", "QA(ts__month)"); ("1", "QA(cnt_raw)"); ("amount", "QA(rev_raw)")], "(SELECT * FROM raw) AS t", None));
   ((0, 1, 1, 1, 0, [("o.ts", (Some "month")); ("o.ts", (Some "month"))], ["o.der"], None, None, None)%nat,
    ("QI(o_cte)", [("id", "QA(id)"); ("c_id", "QA(c_id)"); ("o_fk", "QA(o_fk)"); ("TRUNC(day,created_at)", "QA(ts)"); ("TRUNC(month,created_at)", "QA(ts__month)"); ("CASE WHEN CONJ[status = 'a';x > 1] THEN amount ELSE NULL END", "QA(frev_raw)"); ("amount", "QA(rev_raw)")], "(SELECT * FROM raw) AS t", None));
   ((0, 1, 1, 1, 0, [("o.ts", (Some "month")); ("o.ts", (Some "month"))], ["o.cyc"], None, None, None)%nat,
    ("QI(o_cte)", [("id", "QA(id)"); ("c_id", "QA(c_id)"); ("o_fk", "QA(o_fk)"); ("TRUNC(day,created_at)", "QA(ts)"); ("TRUNC(month,created_at)", "QA(ts__month)"); ("id", "QA(cd_raw)")], "(SELECT * FROM raw) AS t", None));
   ((0, 1, 1, 1, 0, [("o.ts", (Some "month")); ("o.ts", (Some "month"))], ["o.expr"], None, None, None)%nat,
    ("QI(o_cte)", [("id", "QA(id)"); ("c_id", "QA(c_id)"); ("o_fk", "QA(o_fk)"); ("TRUNC(day,created_at)", "QA(ts)"); ("TRUNC(month,created_at)", "QA(ts__month)"); ("amount", "QA(rev_raw)")], "(SELECT * FROM raw) AS t", None));
   ((0, 1, 1, 1, 0, [("o.ts", (Some "month")); ("o.ts", (Some "month"))], ["o.inline"], None, None, None)%nat,
    ("QI(o_cte)", [("id", "QA(id)"); ("c_id", "QA(c_id)"); ("o_fk", "QA(o_fk)"); ("TRUNC(day,created_at)", "QA(ts)"); ("TRUNC(month,created_at)", "QA(ts__month)"); ("t.price", "QA(price)"); ("t.qty", "QA(qty)"); ("status", "QA(status)"); ("amount", "QA(rev_raw)")], "(SELECT * FROM raw) AS t", None));
   ((0, 1, 1, 1, 0, [("o.ts", (Some "month")); ("o.ts", (Some "month"))], ["o.tc"; "c.other"], None, None, None)%nat,
    ("QI(o_cte)", [("id", "QA(id)"); ("c_id", "QA(c_id)"); ("o_fk", "QA(o_fk)"); ("TRUNC(day,created_at)", "QA(ts)"); ("TRUNC(month,created_at)", "QA(ts__month)")], "(SELECT * FROM raw) AS t", None));
   ((0, 1, 1, 1, 0, [("o.ts", (Some "month")); ("o.ts", (Some "month"))], ["gm"; "unknown"; "rev"], None, None, None)%nat,
    ("QI(o_cte)", [("id", "QA(id)"); ("c_id", "QA(c_id)"); ("o_fk", "QA(o_fk)"); ("TRUNC(day,created_at)", "QA(ts)"); ("TRUNC(month,created_at)", "QA(ts__month)"); ("amount", "QA(rev_raw)")], "(SELECT * FROM raw) AS t", None));
   ((0, 1, 1, 1, 0, [("o.ts", (Some "month")); ("o.ts", (Some "month"))], ["o.rev"; "o.rev"; "cnt"], None, None, None)%nat,
    ("QI(o_cte)", [("id", "QA(id)"); ("c_id", "QA(c_id)"); ("o_fk", "QA(o_fk)"); ("TRUNC(day,created_at)", "QA(ts)"); ("TRUNC(month,created_at)", "QA(ts__month)"); ("1", "QA(cnt_raw)"); ("amount", "QA(rev_raw)")], "(SELECT * FROM raw) AS t", None));
   ((0, 1, 1, 1, 0, [("o.ts", (Some "month")); ("o.ts", (Some "month"))], ["o.nometric"; "inline"], None, None, None)%nat,
    ("QI(o_cte)", [("id", "QA(id)"); ("c_id", "QA(c_id)"); ("o_fk", "QA(o_fk)"); ("TRUNC(day,created_at)", "QA(ts)"); ("TRUNC(month,created_at)", "QA(ts__month)"); ("t.price", "QA(price)"); ("t.qty", "QA(qty)"); ("status", "QA(status)"); ("amount", "QA(rev_raw)")], "(SELECT * FROM raw) AS t", None));
   ((0, 1, 1, 1, 0, [("o.ts2", (Some "day")); ("o.xm", None)], [], None, None, None)%nat,
    ("QI(o_cte)", [("id", "QA(id)"); ("c_id", "QA(c_id)"); ("o_fk", "QA(o_fk)"); ("t.updated", "QA(ts2)"); ("t.a + 1", "QA(xm)"); ("TRUNC(day,t.updated)", "QA(ts2__day)")], "(SELECT * FROM raw) AS t", None));
   ((0, 1, 1, 1, 0, [("o.ts2", (Some "day")); ("o.xm", None)], ["o.rev"], None, None, None)%nat,
    ("QI(o_cte)", [("id", "QA(id)"); ("c_id", "QA(c_id)"); ("o_fk", "QA(o_fk)"); ("t.updated", "QA(ts2)"); ("t.a + 1", "QA(xm)"); ("TRUNC(day,t.updated)", "QA(ts2__day)"); ("amount", "QA(rev_raw)")], "(SELECT * FROM raw) AS t", None));
   ((0, 1, 1, 1, 0, [("o.ts2", (Some "day")); ("o.xm", None)], ["o.cnt"; "o.cntstar"; "o.cntx"], None, None, None)%nat,
    ("QI(o_cte)", [("id", "QA(id)"); ("c_id", "QA(c_id)"); ("o_fk", "QA(o_fk)"); ("t.updated", "QA(ts2)"); ("t.a + 1", "QA(xm)"); ("TRUNC(day,t.updated)", "QA(ts2__day)"); ("1", "QA(cnt_raw)"); ("1", "QA(cntstar_raw)"); ("x", "QA(cntx_raw)")], "(SELECT * FROM raw) AS t", None));
   ((0, 1, 1, 1, 0, [("o.ts2", (Some "day")); ("o.xm", None)], ["o.cd"; "o.cdx"], None, None, None)%nat,
    ("QI(o_cte)", [("id", "QA(id)"); ("c_id", "QA(c_id)"); ("o_fk", "QA(o_fk)"); ("t.updated", "QA(ts2)"); ("t.a + 1", "QA(xm)"); ("TRUNC(day,t.updated)", "QA(ts2__day)"); ("id", "QA(cd_raw)"); ("t.u", "QA(cdx_raw)")], "(SELECT * FROM raw) AS t", None));
   ((0, 1, 1, 1, 0, [("o.ts2", (Some "day")); ("o.xm", None)], ["o.frev"; "o.fcnt"], None, None, None)%nat,
    ("QI(o_cte)", [("id", "QA(id)"); ("c_id", "QA(c_id)"); ("o_fk", "QA(o_fk)"); ("t.updated", "QA(ts2)"); ("t.a + 1", "QA(xm)"); ("TRUNC(day,t.updated)", "QA(ts2__day)"); ("CASE WHEN CONJ[f] THEN x ELSE NULL END", "QA(fcnt_raw)"); ("CASE WHEN CONJ[status = 'a';x > 1] THEN amount ELSE NULL END", "QA(frev_raw)")], "(SELECT * FROM raw) AS t", None));
   ((0, 1, 1, 1, 0, [("o.ts2", (Some "day")); ("o.xm", None)], ["o.ratio"], None, None, None)%nat,
    ("QI(o_cte)", [("id", "QA(id)"); ("c_id", "QA(c_id)"); ("o_fk", "QA(o_fk)"); ("t.updated", "QA(ts2)"); ("t.a + 1", "QA(xm)"); ("TRUNC(day,t.updated)", "QA(ts2__day)"); ("1", "QA(cnt_raw)"); ("amount", "QA(rev_raw)")], "(SELECT * FROM raw) AS t", None));
   ((0, 1, 1, 1, 0, [("o.ts2", (Some "day")); ("o.xm", None)], ["o.der"], None, None, None)%nat,
    ("QI(o_cte)", [("id", "QA(id)"); ("c_id", "QA(c_id)"); ("o_fk", "QA(o_fk)"); ("t.updated", "QA(ts2)"); ("t.a + 1", "QA(xm)"); ("TRUNC(day,t.updated)", "QA(ts2__day)"); ("CASE WHEN CONJ[status = 'a';x > 1] THEN amount ELSE NULL END", "QA(frev_raw)"); ("amount", "QA(rev_raw)")], "(SELECT * FROM raw) AS t", None));
   ((0, 1, 1, 1, 0, [("o.ts2", (Some "day")); ("o.xm", None)], ["o.cyc"], None, None, None)%nat,
    ("QI(o_cte)", [("id", "QA(id)"); ("c_id", "QA(c_id)"); ("o_fk", "QA(o_fk)"); ("t.updated", "QA(ts2)"); ("t.a + 1", "QA(xm)"); ("TRUNC(day,t.updated)", "QA(ts2__day)"); ("id", "QA(cd_raw)")], "(SELECT * FROM raw) AS t", None));
   ((0, 1, 1, 1, 0, [("o.ts2", (Some "day")); ("o.xm", None)], ["o.expr"], None, None, None)%nat,
    ("QI(o_cte)", [("id", "QA(id)"); ("c_id", "QA(c_id)"); ("o_fk", "QA(o_fk)"); ("t.updated", "QA(ts2)"); ("t.a + 1", "QA(xm)"); ("TRUNC(day,t.updated)", "QA(ts2__day)"); ("amount", "QA(rev_raw)")], "(SELECT * FROM raw) AS t", None));
   ((0, 1, 1, 1, 0, [("o.ts2", (Some "day")); ("o.xm", None)], ["o.inline"], None, None, None)%nat,
    ("QI(o_cte)", [("id", "QA(id)"); ("c_id", "QA(c_id)"); ("o_fk", "QA(o_fk)"); ("t.updated", "QA(ts2)"); ("t.a + 1", "QA(xm)"); ("TRUNC(day,t.updated)", "QA(ts2__day)"); ("t.price", "QA(price)"); ("t.qty", "QA(qty)"); ("status", "QA(status)"); ("amount", "QA(rev_raw)")], "(SELECT * FROM raw) AS t", None));
   ((0, 1, 1, 1, 0, [("o.ts2", (Some "day")); ("o.xm", None)], ["o.tc"; "c.other"], None, None, None)%nat,
    ("QI(o_cte)", [("id", "QA(id)"); ("c_id", "QA(c_id)"); ("o_fk", "QA(o_fk)"); ("t.updated", "QA(ts2)"); ("t.a + 1", "QA(xm)"); ("TRUNC(day,t.updated)", "QA(ts2__day)")], "(SELECT * FROM raw) AS t", None));
   ((0, 1, 1, 1, 0, [("o.ts2", (Some "day")); ("o.xm", None)], ["gm"; "unknown"; "rev"], None, None, None)%nat,
    ("QI(o_cte)", [("id", "QA(id)"); ("c_id", "QA(c_id)"); ("o_fk", "QA(o_fk)"); ("t.updated", "QA(ts2)"); ("t.a + 1", "QA(xm)"); ("TRUNC(day,t.updated)", "QA(ts2__day)"); ("amount", "QA(rev_raw)")], "(SELECT * FROM raw) AS t", None));
   ((0, 1, 1, 1, 0, [("o.ts2", (Some "day")); ("o.xm", None)], ["o.rev"; "o.rev"; "cnt"], None, None, None)%nat,
    ("QI(o_cte)", [("id", "QA(id)"); ("c_id", "QA(c_id)"); ("o_fk", "QA(o_fk)"); ("t.updated", "QA(ts2)"); ("t.a + 1", "QA(xm)"); ("TRUNC(day,t.updated)", "QA(ts2__day)"); ("1", "QA(cnt_raw)"); ("amount", "QA(rev_raw)")], "(SELECT * FROM raw) AS t", None));
   ((0, 1, 1, 1, 0, [("o.ts2", (Some "day")); ("o.xm", None)], ["o.nometric"; "inline"], None, None, None)%nat,
    ("QI(o_cte)", [("id", "QA(id)"); ("c_id", "QA(c_id)"); ("o_fk", "QA(o_fk)"); ("t.updated", "QA(ts2)"); ("t.a + 1", "QA(xm)"); ("TRUNC(day,t.updated)", "QA(ts2__day)"); ("t.price", "QA(price)"); ("t.qty", "QA(qty)"); ("status", "QA(status)"); ("amount", "QA(rev_raw)")], "(SELECT * FROM raw) AS t", None));
   ((0, 1, 1, 1, 0, [("o.status", (Some "week"))], [], None, None, None)%nat,
    ("QI(o_cte)", [("id", "QA(id)"); ("c_id", "QA(c_id)"); ("o_fk", "QA(o_fk)"); ("status", "QA(status)")], "(SELECT * FROM raw) AS t", None));
   ((0, 1, 1, 1, 0, [("o.status", (Some "week"))], ["o.rev"], None, None, None)%nat,
    ("QI(o_cte)", [("id", "QA(id)"); ("c_id", "QA(c_id)"); ("o_fk", "QA(o_fk)"); ("status", "QA(status)"); ("amount", "QA(rev_raw)")], "(SELECT * FROM raw) AS t", None));
   ((0, 1, 1, 1, 0, [("o.status", (Some "week"))], ["o.cnt"; "o.cntstar"; "o.cntx"], None, None, None)%nat,
    ("QI(o_cte)", [("id", "QA(id)"); ("c_id", "QA(c_id)"); ("o_fk", "QA(o_fk)"); ("status", "QA(status)"); ("1", "QA(cnt_raw)"); ("1", "QA(cntstar_raw)"); ("x", "QA(cntx_raw)")], "(SELECT * FROM raw) AS t", None));
   ((0, 1, 1, 1, 0, [("o.status", (Some "week"))], ["o.cd"; "o.cdx"], None, None, None)%nat,
    ("QI(o_cte)", [("id", "QA(id)"); ("c_id", "QA(c_id)"); ("o_fk", "QA(o_fk)"); ("status", "QA(status)"); ("id", "QA(cd_raw)"); ("t.u", "QA(cdx_raw)")], "(SELECT * FROM raw) AS t", None));
   ((0, 1, 1, 1, 0, [("o.status", (Some "week"))], ["o.frev"; "o.fcnt"], None, None, None)%nat,
    ("QI(o_cte)", [("id", "QA(id)"); ("c_id", "QA(c_id)"); ("o_fk", "QA(o_fk)"); ("status", "QA(status)"); ("CASE WHEN CONJ[f] THEN x ELSE NULL END", "QA(fcnt_raw)"); ("CASE WHEN CONJ[status = 'a';x > 1] THEN amount ELSE NULL END", "QA(frev_raw)")], "(SELECT * FROM raw) AS t", None));
   ((0, 1, 1, 1, 0, [("o.status", (Some "week"))], ["o.ratio"], None, None, None)%nat,
    ("QI(o_cte)", [("id", "QA(id)"); ("c_id", "QA(c_id)"); ("o_fk", "QA(o_fk)"); ("status", "QA(status)"); ("1", "QA(cnt_raw)"); ("amount", "QA(rev_raw)")], "(SELECT * FROM raw) AS t", None));
   ((0, 1, 1, 1, 0, [("o.status", (Some "week"))], ["o.der"], None, None, None)%nat,
    ("QI(o_cte)", [("id", "QA(id)"); ("c_id", "QA(c_id)"); ("o_fk", "QA(o_fk)"); ("status", "QA(status)"); ("CASE WHEN CONJ[status = 'a';x > 1] THEN amount ELSE NULL END", "QA(frev_raw)"); ("amount", "QA(rev_raw)")], "(SELECT * FROM raw) AS t", None));
   ((0, 1, 1, 1, 0, [("o.status", (Some "week"))], ["o.cyc"], None, None, None)%nat,
    ("QI(o_cte)", [("id", "QA(id)"); ("c_id", "QA(c_id)"); ("o_fk", "QA(o_fk)"); ("status", "QA(status)"); ("id", "QA(cd_raw)")], "(SELECT * FROM raw) AS t", None));
   ((0, 1, 1, 1, 0, [("o.status", (Some "week"))], ["o.expr"], None, None, None)%nat,
    ("QI(o_cte)", [("id", "QA(id)"); ("c_id", "QA(c_id)"); ("o_fk", "QA(o_fk)"); ("status", "QA(status)"); ("amount", "QA(rev_raw)")], "(SELECT * FROM raw) AS t", None));
   ((0, 1, 1, 1, 0, [("o.status", (Some "week"))], ["o.inline"], None, None, None)%nat,
    ("QI(o_cte)", [("id", "QA(id)"); ("c_id", "QA(c_id)"); ("o_fk", "QA(o_fk)"); ("status", "QA(status)"); ("t.price", "QA(price)"); ("t.qty", "QA(qty)"); ("amount", "QA(rev_raw)")], "(SELECT * FROM raw) AS t", None));
   ((0, 1, 1, 1, 0, [("o.status", (Some "week"))], ["o.tc"; "c.other"], None, None, None)%nat,
    ("QI(o_cte)", [("id", "QA(id)"); ("c_id", "QA(c_id)"); ("o_fk", "QA(o_fk)"); ("status", "QA(status)")], "(SELECT * FROM raw) AS t", None));
   ((0, 1, 1, 1, 0, [("o.status", (Some "week"))], ["gm"; "unknown"; "rev"], None, None, None)%nat,
    ("QI(o_cte)", [("id", "QA(id)"); ("c_id", "QA(c_id)"); ("o_fk", "QA(o_fk)"); ("status", "QA(status)"); ("amount", "QA(rev_raw)")], "(SELECT * FROM raw) AS t", None));
   ((0, 1, 1, 1, 0, [("o.status", (Some "week"))], ["o.rev"; "o.rev"; "cnt"], None, None, None)%nat,
    ("QI(o_cte)", [("id", "QA(id)"); ("c_id", "QA(c_id)"); ("o_fk", "QA(o_fk)"); ("status", "QA(status)"); ("1", "QA(cnt_raw)"); ("amount", "QA(rev_raw)")], "(SELECT * FROM raw) AS t", None));
   ((0, 1, 1, 1, 0, [("o.status", (Some "week"))], ["o.nometric"; "inline"], None, None, None)%nat,
    ("QI(o_cte)", [("id", "QA(id)"); ("c_id", "QA(c_id)"); ("o_fk", "QA(o_fk)"); ("status", "QA(status)"); ("t.price", "QA(price)"); ("t.qty", "QA(qty)"); ("amount", "QA(rev_raw)")], "(SELECT * FROM raw) AS t", None));
   ((0, 1, 1, 1, 0, [("o.c_id", None); ("o.id", None)], [], None, None, None)%nat,
    ("QI(o_cte)", [("id", "QA(id)"); ("c_id", "QA(c_id)"); ("o_fk", "QA(o_fk)")], "(SELECT * FROM raw) AS t", None));
   ((0, 1, 1, 1, 0, [("o.c_id", None); ("o.id", None)], ["o.rev"], None, None, None)%nat,
    ("QI(o_cte)", [("id", "QA(id)"); ("c_id", "QA(c_id)"); ("o_fk", "QA(o_fk)"); ("amount", "QA(rev_raw)")], "(SELECT * FROM raw) AS t", None));
   ((0, 1, 1, 1, 0, [("o.c_id", None); ("o.id", None)], ["o.cnt"; "o.cntstar"; "o.cntx"], None, None, None)%nat,
    ("QI(o_cte)", [("id", "QA(id)"); ("c_id", "QA(c_id)"); ("o_fk", "QA(o_fk)"); ("1", "QA(cnt_raw)"); ("1", "QA(cntstar_raw)"); ("x", "QA(cntx_raw)")], "(SELECT * FROM raw) AS t", None));
   ((0, 1, 1, 1, 0, [("o.c_id", None); ("o.id", None)], ["o.cd"; "o.cdx"], None, None, None)%nat,
    ("QI(o_cte)", [("id", "QA(id)"); ("c_id", "QA(c_id)"); ("o_fk", "QA(o_fk)"); ("id", "QA(cd_raw)"); ("t.u", "QA(cdx_raw)")], "(SELECT * FROM raw) AS t", None));
   ((0, 1, 1, 1, 0, [("o.c_id", None); ("o.id", None)], ["o.frev"; "o.fcnt"], None, None, None)%nat,
    ("QI(o_cte)", [("id", "QA(id)"); ("c_id", "QA(c_id)"); ("o_fk", "QA(o_fk)"); ("CASE WHEN CONJ[f] THEN x ELSE NULL END", "QA(fcnt_raw)"); ("CASE WHEN CONJ[status = 'a';x > 1] THEN amount ELSE NULL END", "QA(frev_raw)")], "(SELECT * FROM raw) AS t", None));
   ((0, 1, 1, 1, 0, [("o.c_id", None); ("o.id", None)], ["o.ratio"], None, None, None)%nat,
    ("QI(o_cte)", [("id", "QA(id)"); ("c_id", "QA(c_id)"); ("o_fk", "QA(o_fk)"); ("1", "QA(cnt_raw)"); ("amount", "QA(rev_raw)")], "(SELECT * FROM raw) AS t", None));
   ((0, 1, 1, 1, 0, [("o.c_id", None); ("o.id", None)], ["o.der"], None, None, None)%nat,
    ("QI(o_cte)", [("id", "QA(id)"); ("c_id", "QA(c_id)"); ("o_fk", "QA(o_fk)"); ("CASE WHEN CONJ[status = 'a';x > 1] THEN amount ELSE NULL END", "QA(frev_raw)"); ("amount", "QA(rev_raw)")], "(SELECT * FROM raw) AS t", None));
   ((0, 1, 1, 1, 0, [("o.c_id", None); ("o.id", None)], ["o.cyc"], None, None, None)%nat,
    ("QI(o_cte)", [("id", "QA(id)"); ("c_id", "QA(c_id)"); ("o_fk", "QA(o_fk)"); ("id", "QA(cd_raw)")], "(SELECT * FROM raw) AS t", None));
   ((0, 1, 1, 1, 0, [("o.c_id", None); ("o.id", None)], ["o.expr"], None, None, None)%nat,
    ("QI(o_cte)", [("id", "QA(id)"); ("c_id", "QA(c_id)"); ("o_fk", "QA(o_fk)"); ("amount", "QA(rev_raw)")], "(SELECT * FROM raw) AS t", None));
   ((0, 1, 1, 1, 0, [("o.c_id", None); ("o.id", None)], ["o.inline"], None, None, None)%nat,
    ("QI(o_cte)", [("id", "QA(id)"); ("c_id", "QA(c_id)"); ("o_fk", "QA(o_fk)"); ("t.price", "QA(price)"); ("t.qty", "QA(qty)"); ("status", "QA(status)"); ("amount", "QA(rev_raw)")], "(SELECT * FROM raw) AS t", None));
   ((0, 1, 1, 1, 0, [("o.c_id", None); ("o.id", None)], ["o.tc"; "c.other"], None, None, None)%nat,
    ("QI(o_cte)", [("id", "QA(id)"); ("c_id", "QA(c_id)"); ("o_fk", "QA(o_fk)")], "(SELECT * FROM raw) AS t", None));
   ((0, 1, 1, 1, 0, [("o.c_id", None); ("o.id", None)], ["gm"; "unknown"; "rev"], None, None, None)%nat,
    ("QI(o_cte)", [("id", "QA(id)"); ("c_id", "QA(c_id)"); ("o_fk", "QA(o_fk)"); ("amount", "QA(rev_raw)")], "(SELECT * FROM raw) AS t", None));
   ((0, 1, 1, 1, 0, [("o.c_id", None); ("o.id", None)], ["o.rev"; "o.rev"; "cnt"], None, None, None)%nat,
    ("QI(o_cte)", [("id", "QA(id)"); ("c_id", "QA(c_id)"); ("o_fk", "QA(o_fk)"); ("1", "QA(cnt_raw)"); ("amount", "QA(rev_raw)")], "(SELECT * FROM raw) AS t", None));
   ((0, 1, 1, 1, 0, [("o.c_id", None); ("o.id", None)], ["o.nometric"; "inline"], None, None, None)%nat,
    ("QI(o_cte)", [("id", "QA(id)"); ("c_id", "QA(c_id)"); ("o_fk", "QA(o_fk)"); ("t.price", "QA(price)"); ("t.qty", "QA(qty)"); ("status", "QA(status)"); ("amount", "QA(rev_raw)")], "(SELECT * FROM raw) AS t", None));
   ((0, 1, 1, 1, 0, [("c.region", None); ("o.nodim", (Some "day"))], [], None, None, None)%nat,
    ("QI(o_cte)", [("id", "QA(id)"); ("c_id", "QA(c_id)"); ("o_fk", "QA(o_fk)")], "(SELECT * FROM raw) AS t", None));
   ((0, 1, 1, 1, 0, [("c.region", None); ("o.nodim", (Some "day"))], ["o.rev"], None, None, None)%nat,
    ("QI(o_cte)", [("id", "QA(id)"); ("c_id", "QA(c_id)"); ("o_fk", "QA(o_fk)"); ("amount", "QA(rev_raw)")], "(SELECT * FROM raw) AS t", None));
   ((0, 1, 1, 1, 0, [("c.region", None); ("o.nodim", (Some "day"))], ["o.cnt"; "o.cntstar"; "o.cntx"], None, None, None)%nat,
    ("QI(o_cte)", [("id", "QA(id)"); ("c_id", "QA(c_id)"); ("o_fk", "QA(o_fk)"); ("1", "QA(cnt_raw)"); ("1", "QA(cntstar_raw)"); ("x", "QA(cntx_raw)")], "(SELECT * FROM raw) AS t", None));
   ((0, 1, 1, 1, 0, [("c.region", None); ("o.nodim", (Some "day"))], ["o.cd"; "o.cdx"], None, None, None)%nat,
    ("QI(o_cte)", [("id", "QA(id)"); ("c_id", "QA(c_id)"); ("o_fk", "QA(o_fk)"); ("id", "QA(cd_raw)"); ("t.u", "QA(cdx_raw)")], "(SELECT * FROM raw) AS t", None));
   ((0, 1, 1, 1, 0, [("c.region", None); ("o.nodim", (Some "day"))], ["o.frev"; "o.fcnt"], None, None, None)%nat,
    ("QI(o_cte)", [("id", "QA(id)"); ("c_id", "QA(c_id)"); ("o_fk", "QA(o_fk)"); ("CASE WHEN CONJ[f] THEN x ELSE NULL END", "QA(fcnt_raw)"); ("CASE WHEN CONJ[status = 'a';x > 1] THEN amount ELSE NULL END", "QA(frev_raw)")], "(SELECT * FROM raw) AS t", None));
   ((0, 1, 1, 1, 0, [("c.region", None); ("o.nodim", (Some "day"))], ["o.ratio"], None, None, None)%nat,
    ("QI(o_cte)", [("id", "QA(id)"); ("c_id", "QA(c_id)"); ("o_fk", "QA(o_fk)"); ("1", "QA(cnt_raw)"); ("amount", "QA(rev_raw)")], "(SELECT * FROM raw) AS t", None));
   ((0, 1, 1, 1, 0, [("c.region", None); ("o.nodim", (Some "day"))], ["o.der"], None, None, None)%nat,
    ("QI(o_cte)", [("id", "QA(id)"); ("c_id", "QA(c_id)"); ("o_fk", "QA(o_fk)"); ("CASE WHEN CONJ[status = 'a';x > 1] THEN amount ELSE NULL END", "QA(frev_raw)"); ("amount", "QA(rev_raw)")], "(SELECT * FROM raw) AS t", None));
   ((0, 1, 1, 1, 0, [("c.region", None); ("o.nodim", (Some "day"))], ["o.cyc"], None, None, None)%nat,
    ("QI(o_cte)", [("id", "QA(id)"); ("c_id", "QA(c_id)"); ("o_fk", "QA(o_fk)"); ("id", "QA(cd_raw)")], "(SELECT * FROM raw) AS t", None));
   ((0, 1, 1, 1, 0, [("c.region", None); ("o.nodim", (Some "day"))], ["o.expr"], None, None, None)%nat,
    ("QI(o_cte)", [("id", "QA(id)"); ("c_id", "QA(c_id)"); ("o_fk", "QA(o_fk)"); ("amount", "QA(rev_raw)")], "(SELECT * FROM raw) AS t", None));
   ((0, 1, 1, 1, 0, [("c.region", None); ("o.nodim", (Some "day"))], ["o.inline"], None, None, None)%nat,
    ("QI(o_cte)", [("id", "QA(id)"); ("c_id", "QA(c_id)"); ("o_fk", "QA(o_fk)"); ("t.price", "QA(price)"); ("t.qty", "QA(qty)"); ("status", "QA(status)"); ("amount", "QA(rev_raw)")], "(SELECT * FROM raw) AS t", None));
   ((0, 1, 1, 1, 0, [("c.region", None); ("o.nodim", (Some "day"))], ["o.tc"; "c.other"], None, None, None)%nat,
    ("QI(o_cte)", [("id", "QA(id)"); ("c_id", "QA(c_id)"); ("o_fk", "QA(o_fk)")], "(SELECT * FROM raw) AS t", None));
   ((0, 1, 1, 1, 0, [("c.region", None); ("o.nodim", (Some "day"))], ["gm"; "unknown"; "rev"], None, None, None)%nat,
    ("QI(o_cte)", [("id", "QA(id)"); ("c_id", "QA(c_id)"); ("o_fk", "QA(o_fk)"); ("amount", "QA(rev_raw)")], "(SELECT * FROM raw) AS t", None));
   ((0, 1, 1, 1, 0, [("c.region", None); ("o.nodim", (Some "day"))], ["o.rev"; "o.rev"; "cnt"], None, None, None)%nat,
    ("QI(o_cte)", [("id", "QA(id)"); ("c_id", "QA(c_id)"); ("o_fk", "QA(o_fk)"); ("1", "QA(cnt_raw)"); ("amount", "QA(rev_raw)")], "(SELECT * FROM raw) AS t", None));
   ((0, 1, 1, 1, 0, [("c.region", None); ("o.nodim", (Some "day"))], ["o.nometric"; "inline"], None, None, None)%nat,
    ("QI(o_cte)", [("id", "QA(id)"); ("c_id", "QA(c_id)"); ("o_fk", "QA(o_fk)"); ("t.price", "QA(price)"); ("t.qty", "QA(qty)"); ("status", "QA(status)"); ("amount", "QA(rev_raw)")], "(SELECT * FROM raw) AS t", None));
   ((0, 1, 1, 1, 0, [("o.rev_raw", None)], [], None, None, None)%nat,
    ("QI(o_cte)", [("id", "QA(id)"); ("c_id", "QA(c_id)"); ("o_fk", "QA(o_fk)"); ("rr", "QA(rev_raw)")], "(SELECT * FROM raw) AS t", None));
   ((0, 1, 1, 1, 0, [("o.rev_raw", None)], ["o.rev"], None, None, None)%nat,
    ("QI(o_cte)", [("id", "QA(id)"); ("c_id", "QA(c_id)"); ("o_fk", "QA(o_fk)"); ("rr", "QA(rev_raw)"); ("amount", "QA(rev_raw)")], "(SELECT * FROM raw) AS t", None));
   ((0, 1, 1, 1, 0, [("o.rev_raw", None)], ["o.cnt"; "o.cntstar"; "o.cntx"], None, None, None)%nat,
    ("QI(o_cte)", [("id", "QA(id)"); ("c_id", "QA(c_id)"); ("o_fk", "QA(o_fk)"); ("rr", "QA(rev_raw)"); ("1", "QA(cnt_raw)"); ("1", "QA(cntstar_raw)"); ("x", "QA(cntx_raw)")], "(SELECT * FROM raw) AS t", None));
   ((0, 1, 1, 1, 0, [("o.rev_raw", None)], ["o.cd"; "o.cdx"], None, None, None)%nat,
    ("QI(o_cte)", [("id", "QA(id)"); ("c_id", "QA(c_id)"); ("o_fk", "QA(o_fk)"); ("rr", "QA(rev_raw)"); ("id", "QA(cd_raw)"); ("t.u", "QA(cdx_raw)")], "(SELECT * FROM raw) AS t", None));
   ((0, 1, 1, 1, 0, [("o.rev_raw", None)], ["o.frev"; "o.fcnt"], None, None, None)%nat,
    ("QI(o_cte)", [("id", "QA(id)"); ("c_id", "QA(c_id)"); ("o_fk", "QA(o_fk)"); ("rr", "QA(rev_raw)"); ("CASE WHEN CONJ[f] THEN x ELSE NULL END", "QA(fcnt_raw)"); ("CASE WHEN CONJ[status = 'a';x > 1] THEN amount ELSE NULL END", "QA(frev_raw)")], "(SELECT * FROM raw) AS t", None));
   ((0, 1, 1, 1, 0, [("o.rev_raw", None)], ["o.ratio"], None, None, None)%nat,
    ("QI(o_cte)", [("id", "QA(id)"); ("c_id", "QA(c_id)"); ("o_fk", "QA(o_fk)"); ("rr", "QA(rev_raw)"); ("1", "QA(cnt_raw)"); ("amount", "QA(rev_raw)")], "(SELECT * FROM raw) AS t", None));
   ((0, 1, 1, 1, 0, [("o.rev_raw", None)], ["o.der"], None, None, None)%nat,
    ("QI(o_cte)", [("id", "QA(id)"); ("c_id", "QA(c_id)"); ("o_fk", "QA(o_fk)"); ("rr", "QA(rev_raw)"); ("CASE WHEN CONJ[status = 'a';x > 1] THEN amount ELSE NULL END", "QA(frev_raw)"); ("amount", "QA(rev_raw)")], "(SELECT * FROM raw) AS t", None));
   ((0, 1, 1, 1, 0, [("o.rev_raw", None)], ["o.cyc"], None, None, None)%nat,
    ("QI(o_cte)", [("id", "QA(id)"); ("c_id", "QA(c_id)"); ("o_fk", "QA(o_fk)"); ("rr", "QA(rev_raw)"); ("id", "QA(cd_raw)")], "(SELECT * FROM raw) AS t", None));
   ((0, 1, 1, 1, 0, [("o.rev_raw", None)], ["o.expr"], None, None, None)%nat,
    ("QI(o_cte)", [("id", "QA(id)"); ("c_id", "QA(c_id)"); ("o_fk", "QA(o_fk)"); ("rr", "QA(rev_raw)"); ("amount", "QA(rev_raw)")], "(SELECT * FROM raw) AS t", None));
   ((0, 1, 1, 1, 0, [("o.rev_raw", None)], ["o.inline"], None, None, None)%nat,
    ("QI(o_cte)", [("id", "QA(id)"); ("c_id", "QA(c_id)"); ("o_fk", "QA(o_fk)"); ("rr", "QA(rev_raw)"); ("t.price", "QA(price)"); ("t.qty", "QA(qty)"); ("status", "QA(status)"); ("amount", "QA(rev_raw)")], "(SELECT * FROM raw) AS t", None));
   ((0, 1, 1, 1, 0, [("o.rev_raw", None)], ["o.tc"; "c.other"], None, None, None)%nat,
    ("QI(o_cte)", [("id", "QA(id)"); ("c_id", "QA(c_id)"); ("o_fk", "QA(o_fk)"); ("rr", "QA(rev_raw)")], "(SELECT * FROM raw) AS t", None));
   ((0, 1, 1, 1, 0, [("o.rev_raw", None)], ["gm"; "unknown"; "rev"], None, None, None)%nat,
    ("QI(o_cte)", [("id", "QA(id)"); ("c_id", "QA(c_id)"); ("o_fk", "QA(o_fk)"); ("rr", "QA(rev_raw)"); ("amount", "QA(rev_raw)")], "(SELECT * FROM raw) AS t", None));
   ((0, 1, 1, 1, 0, [("o.rev_raw", None)], ["o.rev"; "o.rev"; "cnt"], None, None, None)%nat,
    ("QI(o_cte)", [("id", "QA(id)"); ("c_id", "QA(c_id)"); ("o_fk", "QA(o_fk)"); ("rr", "QA(rev_raw)"); ("1", "QA(cnt_raw)"); ("amount", "QA(rev_raw)")], "(SELECT * FROM raw) AS t", None));
   ((0, 1, 1, 1, 0, [("o.rev_raw", None)], ["o.nometric"; "inline"], None, None, None)%nat,
    ("QI(o_cte)", [("id", "QA(id)"); ("c_id", "QA(c_id)"); ("o_fk", "QA(o_fk)"); ("rr", "QA(rev_raw)"); ("t.price", "QA(price)"); ("t.qty", "QA(qty)"); ("status", "QA(status)"); ("amount", "QA(rev_raw)")], "(SELECT * FROM raw) AS t", None));
   ((0, 0, 1, 1, 0, [], ["o.rev"], None, None, None)%nat,
    ("QI(o_cte)", [("id", "QA(id)"); ("c_id", "QA(c_id)"); ("o_fk", "QA(o_fk)"); ("amount", "QA(rev_raw)")], "raw.o", None));
   ((0, 0, 1, 1, 0, [("o.status", None)], ["o.rev"], None, None, None)%nat,
    ("QI(o_cte)", [("id", "QA(id)"); ("c_id", "QA(c_id)"); ("o_fk", "QA(o_fk)"); ("status", "QA(status)"); ("amount", "QA(rev_raw)")], "raw.o", None));
   ((0, 0, 1, 1, 0, [], ["o.rev"], None, None, (Some ["c_id"; "extra"; "rev"; "status"]))%nat,
    ("QI(o_cte)", [("id", "QA(id)"); ("c_id", "QA(c_id)"); ("o_fk", "QA(o_fk)"); ("status", "QA(status)"); ("extra", "QA(extra)"); ("amount", "QA(rev_raw)")], "raw.o", None));
   ((0, 0, 1, 1, 0, [("o.status", None)], ["o.rev"], None, None, (Some ["c_id"; "extra"; "rev"; "status"]))%nat,
    ("QI(o_cte)", [("id", "QA(id)"); ("c_id", "QA(c_id)"); ("o_fk", "QA(o_fk)"); ("status", "QA(status)"); ("extra", "QA(extra)"); ("amount", "QA(rev_raw)")], "raw.o", None));
   ((0, 0, 1, 1, 0, [], ["o.rev"], None, (Some ["o.status DESC"; "c.region ASC"; "plain"; "o.ts__month"]), None)%nat,
    ("QI(o_cte)", [("id", "QA(id)"); ("c_id", "QA(c_id)"); ("o_fk", "QA(o_fk)"); ("status", "QA(status)"); ("amount", "QA(rev_raw)")], "raw.o", None));
   ((0, 0, 1, 1, 0, [("o.status", None)], ["o.rev"], None, (Some ["o.status DESC"; "c.region ASC"; "plain"; "o.ts__month"]), None)%nat,
    ("QI(o_cte)", [("id", "QA(id)"); ("c_id", "QA(c_id)"); ("o_fk", "QA(o_fk)"); ("status", "QA(status)"); ("amount", "QA(rev_raw)")], "raw.o", None));
   ((0, 0, 1, 1, 0, [], ["o.rev"], None, (Some ["o.status DESC"; "c.region ASC"; "plain"; "o.ts__month"]), (Some ["c_id"; "extra"; "rev"; "status"]))%nat,
    ("QI(o_cte)", [("id", "QA(id)"); ("c_id", "QA(c_id)"); ("o_fk", "QA(o_fk)"); ("status", "QA(status)"); ("extra", "QA(extra)"); ("amount", "QA(rev_raw)")], "raw.o", None));
   ((0, 0, 1, 1, 0, [("o.status", None)], ["o.rev"], None, (Some ["o.status DESC"; "c.region ASC"; "plain"; "o.ts__month"]), (Some ["c_id"; "extra"; "rev"; "status"]))%nat,
    ("QI(o_cte)", [("id", "QA(id)"); ("c_id", "QA(c_id)"); ("o_fk", "QA(o_fk)"); ("status", "QA(status)"); ("extra", "QA(extra)"); ("amount", "QA(rev_raw)")], "raw.o", None));
   ((0, 0, 1, 1, 0, [], ["o.rev"], (Some []), None, None)%nat,
    ("QI(o_cte)", [("id", "QA(id)"); ("c_id", "QA(c_id)"); ("o_fk", "QA(o_fk)"); ("amount", "QA(rev_raw)")], "raw.o", None));
   ((0, 0, 1, 1, 0, [("o.status", None)], ["o.rev"], (Some []), None, None)%nat,
    ("QI(o_cte)", [("id", "QA(id)"); ("c_id", "QA(c_id)"); ("o_fk", "QA(o_fk)"); ("status", "QA(status)"); ("amount", "QA(rev_raw)")], "raw.o", None));
   ((0, 0, 1, 1, 0, [], ["o.rev"], (Some []), None, (Some ["c_id"; "extra"; "rev"; "status"]))%nat,
    ("QI(o_cte)", [("id", "QA(id)"); ("c_id", "QA(c_id)"); ("o_fk", "QA(o_fk)"); ("status", "QA(status)"); ("extra", "QA(extra)"); ("amount", "QA(rev_raw)")], "raw.o", None));
   ((0, 0, 1, 1, 0, [("o.status", None)], ["o.rev"], (Some []), None, (Some ["c_id"; "extra"; "rev"; "status"]))%nat,
    ("QI(o_cte)", [("id", "QA(id)"); ("c_id", "QA(c_id)"); ("o_fk", "QA(o_fk)"); ("status", "QA(status)"); ("extra", "QA(extra)"); ("amount", "QA(rev_raw)")], "raw.o", None));
   ((0, 0, 1, 1, 0, [], ["o.rev"], (Some []), (Some ["o.status DESC"; "c.region ASC"; "plain"; "o.ts__month"]), None)%nat,
    ("QI(o_cte)", [("id", "QA(id)"); ("c_id", "QA(c_id)"); ("o_fk", "QA(o_fk)"); ("status", "QA(status)"); ("amount", "QA(rev_raw)")], "raw.o", None));
   ((0, 0, 1, 1, 0, [("o.status", None)], ["o.rev"], (Some []), (Some ["o.status DESC"; "c.region ASC"; "plain"; "o.ts__month"]), None)%nat,
    ("QI(o_cte)", [("id", "QA(id)"); ("c_id", "QA(c_id)"); ("o_fk", "QA(o_fk)"); ("status", "QA(status)"); ("amount", "QA(rev_raw)")], "raw.o", None));
   ((0, 0, 1, 1, 0, [], ["o.rev"], (Some []), (Some ["o.status DESC"; "c.region ASC"; "plain"; "o.ts__month"]), (Some ["c_id"; "extra"; "rev"; "status"]))%nat,
    ("QI(o_cte)", [("id", "QA(id)"); ("c_id", "QA(c_id)"); ("o_fk", "QA(o_fk)"); ("status", "QA(status)"); ("extra", "QA(extra)"); ("amount", "QA(rev_raw)")], "raw.o", None));
   ((0, 0, 1, 1, 0, [("o.status", None)], ["o.rev"], (Some []), (Some ["o.status DESC"; "c.region ASC"; "plain"; "o.ts__month"]), (Some ["c_id"; "extra"; "rev"; "status"]))%nat,
    ("QI(o_cte)", [("id", "QA(id)"); ("c_id", "QA(c_id)"); ("o_fk", "QA(o_fk)"); ("status", "QA(status)"); ("extra", "QA(extra)"); ("amount", "QA(rev_raw)")], "raw.o", None));
   ((0, 0, 1, 1, 0, [], ["o.rev"], (Some ["Fs"]), None, None)%nat,
    ("QI(o_cte)", [("id", "QA(id)"); ("c_id", "QA(c_id)"); ("o_fk", "QA(o_fk)"); ("status", "QA(status)"); ("amount", "QA(rev_raw)")], "raw.o", (Some "CONJ[P[status]]")));
   ((0, 0, 1, 1, 0, [("o.status", None)], ["o.rev"], (Some ["Fs"]), None, None)%nat,
    ("QI(o_cte)", [("id", "QA(id)"); ("c_id", "QA(c_id)"); ("o_fk", "QA(o_fk)"); ("status", "QA(status)"); ("amount", "QA(rev_raw)")], "raw.o", (Some "CONJ[P[status]]")));
   ((0, 0, 1, 1, 0, [], ["o.rev"], (Some ["Fs"]), None, (Some ["c_id"; "extra"; "rev"; "status"]))%nat,
    ("QI(o_cte)", [("id", "QA(id)"); ("c_id", "QA(c_id)"); ("o_fk", "QA(o_fk)"); ("status", "QA(status)"); ("extra", "QA(extra)"); ("amount", "QA(rev_raw)")], "raw.o", (Some "CONJ[P[status]]")));
   ((0, 0, 1, 1, 0, [("o.status", None)], ["o.rev"], (Some ["Fs"]), None, (Some ["c_id"; "extra"; "rev"; "status"]))%nat,
    ("QI(o_cte)", [("id", "QA(id)"); ("c_id", "QA(c_id)"); ("o_fk", "QA(o_fk)"); ("status", "QA(status)"); ("extra", "QA(extra)"); ("amount", "QA(rev_raw)")], "raw.o", (Some "CONJ[P[status]]")));
   ((0, 0, 1, 1, 0, [], ["o.rev"], (Some ["Fs"]), (Some ["o.status DESC"; "c.region ASC"; "plain"; "o.ts__month"]), None)%nat,
    ("QI(o_cte)", [("id", "QA(id)"); ("c_id", "QA(c_id)"); ("o_fk", "QA(o_fk)"); ("status", "QA(status)"); ("amount", "QA(rev_raw)")], "raw.o", (Some "CONJ[P[status]]")));
   ((0, 0, 1, 1, 0, [("o.status", None)], ["o.rev"], (Some ["Fs"]), (Some ["o.status DESC"; "c.region ASC"; "plain"; "o.ts__month"]), None)%nat,
    ("QI(o_cte)", [("id", "QA(id)"); ("c_id", "QA(c_id)"); ("o_fk", "QA(o_fk)"); ("status", "QA(status)"); ("amount", "QA(rev_raw)")], "raw.o", (Some "CONJ[P[status]]")));
   ((0, 0, 1, 1, 0, [], ["o.rev"], (Some ["Fs"]), (Some ["o.status DESC"; "c.region ASC"; "plain"; "o.ts__month"]), (Some ["c_id"; "extra"; "rev"; "status"]))%nat,
    ("QI(o_cte)", [("id", "QA(id)"); ("c_id", "QA(c_id)"); ("o_fk", "QA(o_fk)"); ("status", "QA(status)"); ("extra", "QA(extra)"); ("amount", "QA(rev_raw)")], "raw.o", (Some "CONJ[P[status]]")));
   ((0, 0, 1, 1, 0, [("o.status", None)], ["o.rev"], (Some ["Fs"]), (Some ["o.status DESC"; "c.region ASC"; "plain"; "o.ts__month"]), (Some ["c_id"; "extra"; "rev"; "status"]))%nat,
    ("QI(o_cte)", [("id", "QA(id)"); ("c_id", "QA(c_id)"); ("o_fk", "QA(o_fk)"); ("status", "QA(status)"); ("extra", "QA(extra)"); ("amount", "QA(rev_raw)")], "raw.o", (Some "CONJ[P[status]]")));
   ((0, 0, 1, 1, 0, [], ["o.rev"], (Some ["Fcte"; "Fc"]), None, None)%nat,
    ("QI(o_cte)", [("id", "QA(id)"); ("c_id", "QA(c_id)"); ("o_fk", "QA(o_fk)"); ("updated", "QA(ts2)"); ("amount", "QA(rev_raw)")], "raw.o", (Some "CONJ[P[ts2];P[c.x]]")));
   ((0, 0, 1, 1, 0, [("o.status", None)], ["o.rev"], (Some ["Fcte"; "Fc"]), None, None)%nat,
    ("QI(o_cte)", [("id", "QA(id)"); ("c_id", "QA(c_id)"); ("o_fk", "QA(o_fk)"); ("status", "QA(status)"); ("updated", "QA(ts2)"); ("amount", "QA(rev_raw)")], "raw.o", (Some "CONJ[P[ts2];P[c.x]]")));
   ((0, 0, 1, 1, 0, [], ["o.rev"], (Some ["Fcte"; "Fc"]), None, (Some ["c_id"; "extra"; "rev"; "status"]))%nat,
    ("QI(o_cte)", [("id", "QA(id)"); ("c_id", "QA(c_id)"); ("o_fk", "QA(o_fk)"); ("status", "QA(status)"); ("updated", "QA(ts2)"); ("extra", "QA(extra)"); ("amount", "QA(rev_raw)")], "raw.o", (Some "CONJ[P[ts2];P[c.x]]")));
   ((0, 0, 1, 1, 0, [("o.status", None)], ["o.rev"], (Some ["Fcte"; "Fc"]), None, (Some ["c_id"; "extra"; "rev"; "status"]))%nat,
    ("QI(o_cte)", [("id", "QA(id)"); ("c_id", "QA(c_id)"); ("o_fk", "QA(o_fk)"); ("status", "QA(status)"); ("updated", "QA(ts2)"); ("extra", "QA(extra)"); ("amount", "QA(rev_raw)")], "raw.o", (Some "CONJ[P[ts2];P[c.x]]")));
   ((0, 0, 1, 1, 0, [], ["o.rev"], (Some ["Fcte"; "Fc"]), (Some ["o.status DESC"; "c.region ASC"; "plain"; "o.ts__month"]), None)%nat,
    ("QI(o_cte)", [("id", "QA(id)"); ("c_id", "QA(c_id)"); ("o_fk", "QA(o_fk)"); ("status", "QA(status)"); ("updated", "QA(ts2)"); ("amount", "QA(rev_raw)")], "raw.o", (Some "CONJ[P[ts2];P[c.x]]")));
   ((0, 0, 1, 1, 0, [("o.status", None)], ["o.rev"], (Some ["Fcte"; "Fc"]), (Some ["o.status DESC"; "c.region ASC"; "plain"; "o.ts__month"]), None)%nat,
    ("QI(o_cte)", [("id", "QA(id)"); ("c_id", "QA(c_id)"); ("o_fk", "QA(o_fk)"); ("status", "QA(status)"); ("updated", "QA(ts2)"); ("amount", "QA(rev_raw)")], "raw.o", (Some "CONJ[P[ts2];P[c.x]]")));
   ((0, 0, 1, 1, 0, [], ["o.rev"], (Some ["Fcte"; "Fc"]), (Some ["o.status DESC"; "c.region ASC"; "plain"; "o.ts__month"]), (Some ["c_id"; "extra"; "rev"; "status"]))%nat,
    ("QI(o_cte)", [("id", "QA(id)"); ("c_id", "QA(c_id)"); ("o_fk", "QA(o_fk)"); ("status", "QA(status)"); ("updated", "QA(ts2)"); ("extra", "QA(extra)"); ("amount", "QA(rev_raw)")], "raw.o", (Some "CONJ[P[ts2];P[c.x]]")));
   ((0, 0, 1, 1, 0, [("o.status", None)], ["o.rev"], (Some ["Fcte"; "Fc"]), (Some ["o.status DESC"; "c.region ASC"; "plain"; "o.ts__month"]), (Some ["c_id"; "extra"; "rev"; "status"]))%nat,
    ("QI(o_cte)", [("id", "QA(id)"); ("c_id", "QA(c_id)"); ("o_fk", "QA(o_fk)"); ("status", "QA(status)"); ("updated", "QA(ts2)"); ("extra", "QA(extra)"); ("amount", "QA(rev_raw)")], "raw.o", (Some "CONJ[P[ts2];P[c.x]]")));
   ((0, 0, 1, 1, 0, [], ["o.rev"], (Some ["BAD"]), None, None)%nat,
    ("QI(o_cte)", [("id", "QA(id)"); ("c_id", "QA(c_id)"); ("o_fk", "QA(o_fk)"); ("amount", "QA(rev_raw)")], "raw.o", (Some "CONJ[BAD]")));
   ((0, 0, 1, 1, 0, [("o.status", None)], ["o.rev"], (Some ["BAD"]), None, None)%nat,
    ("QI(o_cte)", [("id", "QA(id)"); ("c_id", "QA(c_id)"); ("o_fk", "QA(o_fk)"); ("status", "QA(status)"); ("amount", "QA(rev_raw)")], "raw.o", (Some "CONJ[BAD]")));
   ((0, 0, 1, 1, 0, [], ["o.rev"], (Some ["BAD"]), None, (Some ["c_id"; "extra"; "rev"; "status"]))%nat,
    ("QI(o_cte)", [("id", "QA(id)"); ("c_id", "QA(c_id)"); ("o_fk", "QA(o_fk)"); ("status", "QA(status)"); ("extra", "QA(extra)"); ("amount", "QA(rev_raw)")], "raw.o", (Some "CONJ[BAD]")));
   ((0, 0, 1, 1, 0, [("o.status", None)], ["o.rev"], (Some ["BAD"]), None, (Some ["c_id"; "extra"; "rev"; "status"]))%nat,
    ("QI(o_cte)", [("id", "QA(id)"); ("c_id", "QA(c_id)"); ("o_fk", "QA(o_fk)"); ("status", "QA(status)"); ("extra", "QA(extra)"); ("amount", "QA(rev_raw)")], "raw.o", (Some "CONJ[BAD]")));
   ((0, 0, 1, 1, 0, [], ["o.rev"], (Some ["BAD"]), (Some ["o.status DESC"; "c.region ASC"; "plain"; "o.ts__month"]), None)%nat,
    ("QI(o_cte)", [("id", "QA(id)"); ("c_id", "QA(c_id)"); ("o_fk", "QA(o_fk)"); ("status", "QA(status)"); ("amount", "QA(rev_raw)")], "raw.o", (Some "CONJ[BAD]")));
   ((0, 0, 1, 1, 0, [("o.status", None)], ["o.rev"], (Some ["BAD"]), (Some ["o.status DESC"; "c.region ASC"; "plain"; "o.ts__month"]), None)%nat,
    ("QI(o_cte)", [("id", "QA(id)"); ("c_id", "QA(c_id)"); ("o_fk", "QA(o_fk)"); ("status", "QA(status)"); ("amount", "QA(rev_raw)")], "raw.o", (Some "CONJ[BAD]")));
   ((0, 0, 1, 1, 0, [], ["o.rev"], (Some ["BAD"]), (Some ["o.status DESC"; "c.region ASC"; "plain"; "o.ts__month"]), (Some ["c_id"; "extra"; "rev"; "status"]))%nat,
    ("QI(o_cte)", [("id", "QA(id)"); ("c_id", "QA(c_id)"); ("o_fk", "QA(o_fk)"); ("status", "QA(status)"); ("extra", "QA(extra)"); ("amount", "QA(rev_raw)")], "raw.o", (Some "CONJ[BAD]")));
   ((0, 0, 1, 1, 0, [("o.status", None)], ["o.rev"], (Some ["BAD"]), (Some ["o.status DESC"; "c.region ASC"; "plain"; "o.ts__month"]), (Some ["c_id"; "extra"; "rev"; "status"]))%nat,
    ("QI(o_cte)", [("id", "QA(id)"); ("c_id", "QA(c_id)"); ("o_fk", "QA(o_fk)"); ("status", "QA(status)"); ("extra", "QA(extra)"); ("amount", "QA(rev_raw)")], "raw.o", (Some "CONJ[BAD]")));
   ((0, 0, 1, 1, 0, [], ["o.rev"], (Some ["Fmix"; "Fs"]), None, None)%nat,
    ("QI(o_cte)", [("id", "QA(id)"); ("c_id", "QA(c_id)"); ("o_fk", "QA(o_fk)"); ("status", "QA(status)"); ("a + 1", "QA(xm)"); ("amount", "QA(rev_raw)")], "raw.o", (Some "CONJ[P[xm,bare,c.y];P[status]]")));
   ((0, 0, 1, 1, 0, [("o.status", None)], ["o.rev"], (Some ["Fmix"; "Fs"]), None, None)%nat,
    ("QI(o_cte)", [("id", "QA(id)"); ("c_id", "QA(c_id)"); ("o_fk", "QA(o_fk)"); ("status", "QA(status)"); ("a + 1", "QA(xm)"); ("amount", "QA(rev_raw)")], "raw.o", (Some "CONJ[P[xm,bare,c.y];P[status]]")));
   ((0, 0, 1, 1, 0, [], ["o.rev"], (Some ["Fmix"; "Fs"]), None, (Some ["c_id"; "extra"; "rev"; "status"]))%nat,
    ("QI(o_cte)", [("id", "QA(id)"); ("c_id", "QA(c_id)"); ("o_fk", "QA(o_fk)"); ("status", "QA(status)"); ("a + 1", "QA(xm)"); ("extra", "QA(extra)"); ("amount", "QA(rev_raw)")], "raw.o", (Some "CONJ[P[xm,bare,c.y];P[status]]")));
   ((0, 0, 1, 1, 0, [("o.status", None)], ["o.rev"], (Some ["Fmix"; "Fs"]), None, (Some ["c_id"; "extra"; "rev"; "status"]))%nat,
    ("QI(o_cte)", [("id", "QA(id)"); ("c_id", "QA(c_id)"); ("o_fk", "QA(o_fk)"); ("status", "QA(status)"); ("a + 1", "QA(xm)"); ("extra", "QA(extra)"); ("amount", "QA(rev_raw)")], "raw.o", (Some "CONJ[P[xm,bare,c.y];P[status]]")));
   ((0, 0, 1, 1, 0, [], ["o.rev"], (Some ["Fmix"; "Fs"]), (Some ["o.status DESC"; "c.region ASC"; "plain"; "o.ts__month"]), None)%nat,
    ("QI(o_cte)", [("id", "QA(id)"); ("c_id", "QA(c_id)"); ("o_fk", "QA(o_fk)"); ("status", "QA(status)"); ("a + 1", "QA(xm)"); ("amount", "QA(rev_raw)")], "raw.o", (Some "CONJ[P[xm,bare,c.y];P[status]]")));
   ((0, 0, 1, 1, 0, [("o.status", None)], ["o.rev"], (Some ["Fmix"; "Fs"]), (Some ["o.status DESC"; "c.region ASC"; "plain"; "o.ts__month"]), None)%nat,
    ("QI(o_cte)", [("id", "QA(id)"); ("c_id", "QA(c_id)"); ("o_fk", "QA(o_fk)"); ("status", "QA(status)"); ("a + 1", "QA(xm)"); ("amount", "QA(rev_raw)")], "raw.o", (Some "CONJ[P[xm,bare,c.y];P[status]]")));
   ((0, 0, 1, 1, 0, [], ["o.rev"], (Some ["Fmix"; "Fs"]), (Some ["o.status DESC"; "c.region ASC"; "plain"; "o.ts__month"]), (Some ["c_id"; "extra"; "rev"; "status"]))%nat,
    ("QI(o_cte)", [("id", "QA(id)"); ("c_id", "QA(c_id)"); ("o_fk", "QA(o_fk)"); ("status", "QA(status)"); ("a + 1", "QA(xm)"); ("extra", "QA(extra)"); ("amount", "QA(rev_raw)")], "raw.o", (Some "CONJ[P[xm,bare,c.y];P[status]]")));
   ((0, 0, 1, 1, 0, [("o.status", None)], ["o.rev"], (Some ["Fmix"; "Fs"]), (Some ["o.status DESC"; "c.region ASC"; "plain"; "o.ts__month"]), (Some ["c_id"; "extra"; "rev"; "status"]))%nat,
    ("QI(o_cte)", [("id", "QA(id)"); ("c_id", "QA(c_id)"); ("o_fk", "QA(o_fk)"); ("status", "QA(status)"); ("a + 1", "QA(xm)"); ("extra", "QA(extra)"); ("amount", "QA(rev_raw)")], "raw.o", (Some "CONJ[P[xm,bare,c.y];P[status]]")));
   ((0, 1, 1, 1, 0, [], ["o.rev"], None, None, None)%nat,
    ("QI(o_cte)", [("id", "QA(id)"); ("c_id", "QA(c_id)"); ("o_fk", "QA(o_fk)"); ("amount", "QA(rev_raw)")], "(SELECT * FROM raw) AS t", None));
   ((0, 1, 1, 1, 0, [("o.status", None)], ["o.rev"], None, None, None)%nat,
    ("QI(o_cte)", [("id", "QA(id)"); ("c_id", "QA(c_id)"); ("o_fk", "QA(o_fk)"); ("status", "QA(status)"); ("amount", "QA(rev_raw)")], "(SELECT * FROM raw) AS t", None));
   ((0, 1, 1, 1, 0, [], ["o.rev"], None, None, (Some ["c_id"; "extra"; "rev"; "status"]))%nat,
    ("QI(o_cte)", [("id", "QA(id)"); ("c_id", "QA(c_id)"); ("o_fk", "QA(o_fk)"); ("status", "QA(status)"); ("t.extra", "QA(extra)"); ("amount", "QA(rev_raw)")], "(SELECT * FROM raw) AS t", None));
   ((0, 1, 1, 1, 0, [("o.status", None)], ["o.rev"], None, None, (Some ["c_id"; "extra"; "rev"; "status"]))%nat,
    ("QI(o_cte)", [("id", "QA(id)"); ("c_id", "QA(c_id)"); ("o_fk", "QA(o_fk)"); ("status", "QA(status)"); ("t.extra", "QA(extra)"); ("amount", "QA(rev_raw)")], "(SELECT * FROM raw) AS t", None));
   ((0, 1, 1, 1, 0, [], ["o.rev"], None, (Some ["o.status DESC"; "c.region ASC"; "plain"; "o.ts__month"]), None)%nat,
    ("QI(o_cte)", [("id", "QA(id)"); ("c_id", "QA(c_id)"); ("o_fk", "QA(o_fk)"); ("status", "QA(status)"); ("amount", "QA(rev_raw)")], "(SELECT * FROM raw) AS t", None));
   ((0, 1, 1, 1, 0, [("o.status", None)], ["o.rev"], None, (Some ["o.status DESC"; "c.region ASC"; "plain"; "o.ts__month"]), None)%nat,
    ("QI(o_cte)", [("id", "QA(id)"); ("c_id", "QA(c_id)"); ("o_fk", "QA(o_fk)"); ("status", "QA(status)"); ("amount", "QA(rev_raw)")], "(SELECT * FROM raw) AS t", None));
   ((0, 1, 1, 1, 0, [], ["o.rev"], None, (Some ["o.status DESC"; "c.region ASC"; "plain"; "o.ts__month"]), (Some ["c_id"; "extra"; "rev"; "status"]))%nat,
    ("QI(o_cte)", [("id", "QA(id)"); ("c_id", "QA(c_id)"); ("o_fk", "QA(o_fk)"); ("status", "QA(status)"); ("t.extra", "QA(extra)"); ("amount", "QA(rev_raw)")], "(SELECT * FROM raw) AS t", None));
   ((0, 1, 1, 1, 0, [("o.status", None)], ["o.rev"], None, (Some ["o.status DESC"; "c.region ASC"; "plain"; "o.ts__month"]), (Some ["c_id"; "extra"; "rev"; "status"]))%nat,
    ("QI(o_cte)", [("id", "QA(id)"); ("c_id", "QA(c_id)"); ("o_fk", "QA(o_fk)"); ("status", "QA(status)"); ("t.extra", "QA(extra)"); ("amount", "QA(rev_raw)")], "(SELECT * FROM raw) AS t", None));
   ((0, 1, 1, 1, 0, [], ["o.rev"], (Some []), None, None)%nat,
    ("QI(o_cte)", [("id", "QA(id)"); ("c_id", "QA(c_id)"); ("o_fk", "QA(o_fk)"); ("amount", "QA(rev_raw)")], "(SELECT * FROM raw) AS t", None));
   ((0, 1, 1, 1, 0, [("o.status", None)], ["o.rev"], (Some []), None, None)%nat,
    ("QI(o_cte)", [("id", "QA(id)"); ("c_id", "QA(c_id)"); ("o_fk", "QA(o_fk)"); ("status", "QA(status)"); ("amount", "QA(rev_raw)")], "(SELECT * FROM raw) AS t", None));
   ((0, 1, 1, 1, 0, [], ["o.rev"], (Some []), None, (Some ["c_id"; "extra"; "rev"; "status"]))%nat,
    ("QI(o_cte)", [("id", "QA(id)"); ("c_id", "QA(c_id)"); ("o_fk", "QA(o_fk)"); ("status", "QA(status)"); ("t.extra", "QA(extra)"); ("amount", "QA(rev_raw)")], "(SELECT * FROM raw) AS t", None));
   ((0, 1, 1, 1, 0, [("o.status", None)], ["o.rev"], (Some []), None, (Some ["c_id"; "extra"; "rev"; "status"]))%nat,
    ("QI(o_cte)", [("id", "QA(id)"); ("c_id", "QA(c_id)"); ("o_fk", "QA(o_fk)"); ("status", "QA(status)"); ("t.extra", "QA(extra)"); ("amount", "QA(rev_raw)")], "(SELECT * FROM raw) AS t", None));
   ((0, 1, 1, 1, 0, [], ["o.rev"], (Some []), (Some ["o.status DESC"; "c.region ASC"; "plain"; "o.ts__month"]), None)%nat,
    ("QI(o_cte)", [("id", "QA(id)"); ("c_id", "QA(c_id)"); ("o_fk", "QA(o_fk)"); ("status", "QA(status)"); ("amount", "QA(rev_raw)")], "(SELECT * FROM raw) AS t", None));
   ((0, 1, 1, 1, 0, [("o.status", None)], ["o.rev"], (Some []), (Some ["o.status DESC"; "c.region ASC"; "plain"; "o.ts__month"]), None)%nat,
    ("QI(o_cte)", [("id", "QA(id)"); ("c_id", "QA(c_id)"); ("o_fk", "QA(o_fk)"); ("status", "QA(status)"); ("amount", "QA(rev_raw)")], "(SELECT * FROM raw) AS t", None));
   ((0, 1, 1, 1, 0, [], ["o.rev"], (Some []), (Some ["o.status DESC"; "c.region ASC"; "plain"; "o.ts__month"]), (Some ["c_id"; "extra"; "rev"; "status"]))%nat,
    ("QI(o_cte)", [("id", "QA(id)"); ("c_id", "QA(c_id)"); ("o_fk", "QA(o_fk)"); ("status", "QA(status)"); ("t.extra", "QA(extra)"); ("amount", "QA(rev_raw)")], "(SELECT * FROM raw) AS t", None));
   ((0, 1, 1, 1, 0, [("o.status", None)], ["o.rev"], (Some []), (Some ["o.status DESC"; "c.region ASC"; "plain"; "o.ts__month"]), (Some ["c_id"; "extra"; "rev"; "status"]))%nat,
    ("QI(o_cte)", [("id", "QA(id)"); ("c_id", "QA(c_id)"); ("o_fk", "QA(o_fk)"); ("status", "QA(status)"); ("t.extra", "QA(extra)"); ("amount", "QA(rev_raw)")], "(SELECT * FROM raw) AS t", None));
   ((0, 1, 1, 1, 0, [], ["o.rev"], (Some ["Fs"]), None, None)%nat,
    ("QI(o_cte)", [("id", "QA(id)"); ("c_id", "QA(c_id)"); ("o_fk", "QA(o_fk)"); ("status", "QA(status)"); ("amount", "QA(rev_raw)")], "(SELECT * FROM raw) AS t", (Some "CONJ[P[status]]")));
   ((0, 1, 1, 1, 0, [("o.status", None)], ["o.rev"], (Some ["Fs"]), None, None)%nat,
    ("QI(o_cte)", [("id", "QA(id)"); ("c_id", "QA(c_id)"); ("o_fk", "QA(o_fk)"); ("status", "QA(status)"); ("amount", "QA(rev_raw)")], "(SELECT * FROM raw) AS t", (Some "CONJ[P[status]]")));
   ((0, 1, 1, 1, 0, [], ["o.rev"], (Some ["Fs"]), None, (Some ["c_id"; "extra"; "rev"; "status"]))%nat,
    ("QI(o_cte)", [("id", "QA(id)"); ("c_id", "QA(c_id)"); ("o_fk", "QA(o_fk)"); ("status", "QA(status)"); ("t.extra", "QA(extra)"); ("amount", "QA(rev_raw)")], "(SELECT * FROM raw) AS t", (Some "CONJ[P[status]]")));
   ((0, 1, 1, 1, 0, [("o.status", None)], ["o.rev"], (Some ["Fs"]), None, (Some ["c_id"; "extra"; "rev"; "status"]))%nat,
    ("QI(o_cte)", [("id", "QA(id)"); ("c_id", "QA(c_id)"); ("o_fk", "QA(o_fk)"); ("status", "QA(status)"); ("t.extra", "QA(extra)"); ("amount", "QA(rev_raw)")], "(SELECT * FROM raw) AS t", (Some "CONJ[P[status]]")));
   ((0, 1, 1, 1, 0, [], ["o.rev"], (Some ["Fs"]), (Some ["o.status DESC"; "c.region ASC"; "plain"; "o.ts__month"]), None)%nat,
    ("QI(o_cte)", [("id", "QA(id)"); ("c_id", "QA(c_id)"); ("o_fk", "QA(o_fk)"); ("status", "QA(status)"); ("amount", "QA(rev_raw)")], "(SELECT * FROM raw) AS t", (Some "CONJ[P[status]]")));
   ((0, 1, 1, 1, 0, [("o.status", None)], ["o.rev"], (Some ["Fs"]), (Some ["o.status DESC"; "c.region ASC"; "plain"; "o.ts__month"]), None)%nat,
    ("QI(o_cte)", [("id", "QA(id)"); ("c_id", "QA(c_id)"); ("o_fk", "QA(o_fk)"); ("status", "QA(status)"); ("amount", "QA(rev_raw)")], "(SELECT * FROM raw) AS t", (Some "CONJ[P[status]]")));
   ((0, 1, 1, 1, 0, [], ["o.rev"], (Some ["Fs"]), (Some ["o.status DESC"; "c.region ASC"; "plain"; "o.ts__month"]), (Some ["c_id"; "extra"; "rev"; "status"]))%nat,
    ("QI(o_cte)", [("id", "QA(id)"); ("c_id", "QA(c_id)"); ("o_fk", "QA(o_fk)"); ("status", "QA(status)"); ("t.extra", "QA(extra)"); ("amount", "QA(rev_raw)")], "(SELECT * FROM raw) AS t", (Some "CONJ[P[status]]")));
   ((0, 1, 1, 1, 0, [("o.status", None)], ["o.rev"], (Some ["Fs"]), (Some ["o.status DESC"; "c.region ASC"; "plain"; "o.ts__month"]), (Some ["c_id"; "extra"; "rev"; "status"]))%nat,
    ("QI(o_cte)", [("id", "QA(id)"); ("c_id", "QA(c_id)"); ("o_fk", "QA(o_fk)"); ("status", "QA(status)"); ("t.extra", "QA(extra)"); ("amount", "QA(rev_raw)")], "(SELECT * FROM raw) AS t", (Some "CONJ[P[status]]")));
   ((0, 1, 1, 1, 0, [], ["o.rev"], (Some ["Fcte"; "Fc"]), None, None)%nat,
    ("QI(o_cte)", [("id", "QA(id)"); ("c_id", "QA(c_id)"); ("o_fk", "QA(o_fk)"); ("t.updated", "QA(ts2)"); ("amount", "QA(rev_raw)")], "(SELECT * FROM raw) AS t", (Some "CONJ[P[ts2];P[c.x]]")));
   ((0, 1, 1, 1, 0, [("o.status", None)], ["o.rev"], (Some ["Fcte"; "Fc"]), None, None)%nat,
    ("QI(o_cte)", [("id", "QA(id)"); ("c_id", "QA(c_id)"); ("o_fk", "QA(o_fk)"); ("status", "QA(status)"); ("t.updated", "QA(ts2)"); ("amount", "QA(rev_raw)")], "(SELECT * FROM raw) AS t", (Some "CONJ[P[ts2];P[c.x]]")));
   ((0, 1, 1, 1, 0, [], ["o.rev"], (Some ["Fcte"; "Fc"]), None, (Some ["c_id"; "extra"; "rev"; "status"]))%nat,
    ("QI(o_cte)", [("id", "QA(id)"); ("c_id", "QA(c_id)"); ("o_fk", "QA(o_fk)"); ("status", "QA(status)"); ("t.updated", "QA(ts2)"); ("t.extra", "QA(extra)"); ("amount", "QA(rev_raw)")], "(SELECT * FROM raw) AS t", (Some "CONJ[P[ts2];P[c.x]]")));
   ((0, 1, 1, 1, 0, [("o.status", None)], ["o.rev"], (Some ["Fcte"; "Fc"]), None, (Some ["c_id"; "extra"; "rev"; "status"]))%nat,
    ("QI(o_cte)", [("id", "QA(id)"); ("c_id", "QA(c_id)"); ("o_fk", "QA(o_fk)"); ("status", "QA(status)"); ("t.updated", "QA(ts2)"); ("t.extra", "QA(extra)"); ("amount", "QA(rev_raw)")], "(SELECT * FROM raw) AS t", (Some "CONJ[P[ts2];P[c.x]]")));
   ((0, 1, 1, 1, 0, [], ["o.rev"], (Some ["Fcte"; "Fc"]), (Some ["o.status DESC"; "c.region ASC"; "plain"; "o.ts__month"]), None)%nat,
    ("QI(o_cte)", [("id", "QA(id)"); ("c_id", "QA(c_id)"); ("o_fk", "QA(o_fk)"); ("status", "QA(status)"); ("t.updated", "QA(ts2)"); ("amount", "QA(rev_raw)")], "(SELECT * FROM raw) AS t", (Some "CONJ[P[ts2];P[c.x]]")));
   ((0, 1, 1, 1, 0, [("o.status", None)], ["o.rev"], (Some ["Fcte"; "Fc"]), (Some ["o.status DESC"; "c.region ASC"; "plain"; "o.ts__month"]), None)%nat,
    ("QI(o_cte)", [("id", "QA(id)"); ("c_id", "QA(c_id)"); ("o_fk", "QA(o_fk)"); ("status", "QA(status)"); ("t.updated", "QA(ts2)"); ("amount", "QA(rev_raw)")], "(SELECT * FROM raw) AS t", (Some "CONJ[P[ts2];P[c.x]]")));
   ((0, 1, 1, 1, 0, [], ["o.rev"], (Some ["Fcte"; "Fc"]), (Some ["o.status DESC"; "c.region ASC"; "plain"; "o.ts__month"]), (Some ["c_id"; "extra"; "rev"; "status"]))%nat,
    ("QI(o_cte)", [("id", "QA(id)"); ("c_id", "QA(c_id)"); ("o_fk", "QA(o_fk)"); ("status", "QA(status)"); ("t.updated", "QA(ts2)"); ("t.extra", "QA(extra)"); ("amount", "QA(rev_raw)")], "(SELECT * FROM raw) AS t", (Some "CONJ[P[ts2];P[c.x]]")));
   ((0, 1, 1, 1, 0, [("o.status", None)], ["o.rev"], (Some ["Fcte"; "Fc"]), (Some ["o.status DESC"; "c.region ASC"; "plain"; "o.ts__month"]), (Some ["c_id"; "extra"; "rev"; "status"]))%nat,
    ("QI(o_cte)", [("id", "QA(id)"); ("c_id", "QA(c_id)"); ("o_fk", "QA(o_fk)"); ("status", "QA(status)"); ("t.updated", "QA(ts2)"); ("t.extra", "QA(extra)"); ("amount", "QA(rev_raw)")], "(SELECT * FROM raw) AS t", (Some "CONJ[P[ts2];P[c.x]]")));
   ((0, 1, 1, 1, 0, [], ["o.rev"], (Some ["BAD"]), None, None)%nat,
    ("QI(o_cte)", [("id", "QA(id)"); ("c_id", "QA(c_id)"); ("o_fk", "QA(o_fk)"); ("amount", "QA(rev_raw)")], "(SELECT * FROM raw) AS t", (Some "CONJ[BAD]")));
   ((0, 1, 1, 1, 0, [("o.status", None)], ["o.rev"], (Some ["BAD"]), None, None)%nat,
    ("QI(o_cte)", [("id", "QA(id)"); ("c_id", "QA(c_id)"); ("o_fk", "QA(o_fk)"); ("status", "QA(status)"); ("amount", "QA(rev_raw)")], "(SELECT * FROM raw) AS t", (Some "CONJ[BAD]")));
   ((0, 1, 1, 1, 0, [], ["o.rev"], (Some ["BAD"]), None, (Some ["c_id"; "extra"; "rev"; "status"]))%nat,
    ("QI(o_cte)", [("id", "QA(id)"); ("c_id", "QA(c_id)"); ("o_fk", "QA(o_fk)"); ("status", "QA(status)"); ("t.extra", "QA(extra)"); ("amount", "QA(rev_raw)")], "(SELECT * FROM raw) AS t", (Some "CONJ[BAD]")));
   ((0, 1, 1, 1, 0, [("o.status", None)], ["o.rev"], (Some ["BAD"]), None, (Some ["c_id"; "extra"; "rev"; "status"]))%nat,
    ("QI(o_cte)", [("id", "QA(id)"); ("c_id", "QA(c_id)"); ("o_fk", "QA(o_fk)"); ("status", "QA(status)"); ("t.extra", "QA(extra)"); ("amount", "QA(rev_raw)")], "(SELECT * FROM raw) AS t", (Some "CONJ[BAD]")));
   ((0, 1, 1, 1, 0, [], ["o.rev"], (Some ["BAD"]), (Some ["o.status DESC"; "c.region ASC"; "plain"; "o.ts__month"]), None)%nat,
    ("QI(o_cte)", [("id", "QA(id)"); ("c_id", "QA(c_id)"); ("o_fk", "QA(o_fk)"); ("status", "QA(status)"); ("amount", "QA(rev_raw)")], "(SELECT * FROM raw) AS t", (Some "CONJ[BAD]")));
   ((0, 1, 1, 1, 0, [("o.status", None)], ["o.rev"], (Some ["BAD"]), (Some ["o.status DESC"; "c.region ASC"; "plain"; "o.ts__month"]), None)%nat,
    ("QI(o_cte)", [("id", "QA(id)"); ("c_id", "QA(c_id)"); ("o_fk", "QA(o_fk)"); ("status", "QA(status)"); ("amount", "QA(rev_raw)")], "(SELECT * FROM raw) AS t", (Some "CONJ[BAD]")));
   ((0, 1, 1, 1, 0, [], ["o.rev"], (Some ["BAD"]), (Some ["o.status DESC"; "c.region ASC"; "plain"; "o.ts__month"]), (Some ["c_id"; "extra"; "rev"; "status"]))%nat,
    ("QI(o_cte)", [("id", "QA(id)"); ("c_id", "QA(c_id)"); ("o_fk", "QA(o_fk)"); ("status", "QA(status)"); ("t.extra", "QA(extra)"); ("amount", "QA(rev_raw)")], "(SELECT * FROM raw) AS t", (Some "CONJ[BAD]")));
   ((0, 1, 1, 1, 0, [("o.status", None)], ["o.rev"], (Some ["BAD"]), (Some ["o.status DESC"; "c.region ASC"; "plain"; "o.ts__month"]), (Some ["c_id"; "extra"; "rev"; "status"]))%nat,
    ("QI(o_cte)", [("id", "QA(id)"); ("c_id", "QA(c_id)"); ("o_fk", "QA(o_fk)"); ("status", "QA(status)"); ("t.extra", "QA(extra)"); ("amount", "QA(rev_raw)")], "(SELECT * FROM raw) AS t", (Some "CONJ[BAD]")));
   ((0, 1, 1, 1, 0, [], ["o.rev"], (Some ["Fmix"; "Fs"]), None, None)%nat,
    ("QI(o_cte)", [("id", "QA(id)"); ("c_id", "QA(c_id)"); ("o_fk", "QA(o_fk)"); ("status", "QA(status)"); ("t.a + 1", "QA(xm)"); ("amount", "QA(rev_raw)")], "(SELECT * FROM raw) AS t", (Some "CONJ[P[xm,bare,c.y];P[status]]")));
   ((0, 1, 1, 1, 0, [("o.status", None)], ["o.rev"], (Some ["Fmix"; "Fs"]), None, None)%nat,
    ("QI(o_cte)", [("id", "QA(id)"); ("c_id", "QA(c_id)"); ("o_fk", "QA(o_fk)"); ("status", "QA(status)"); ("t.a + 1", "QA(xm)"); ("amount", "QA(rev_raw)")], "(SELECT * FROM raw) AS t", (Some "CONJ[P[xm,bare,c.y];P[status]]")));
   ((0, 1, 1, 1, 0, [], ["o.rev"], (Some ["Fmix"; "Fs"]), None, (Some ["c_id"; "extra"; "rev"; "status"]))%nat,
    ("QI(o_cte)", [("id", "QA(id)"); ("c_id", "QA(c_id)"); ("o_fk", "QA(o_fk)"); ("status", "QA(status)"); ("t.a + 1", "QA(xm)"); ("t.extra", "QA(extra)"); ("amount", "QA(rev_raw)")], "(SELECT * FROM raw) AS t", (Some "CONJ[P[xm,bare,c.y];P[status]]")));
   ((0, 1, 1, 1, 0, [("o.status", None)], ["o.rev"], (Some ["Fmix"; "Fs"]), None, (Some ["c_id"; "extra"; "rev"; "status"]))%nat,
    ("QI(o_cte)", [("id", "QA(id)"); ("c_id", "QA(c_id)"); ("o_fk", "QA(o_fk)"); ("status", "QA(status)"); ("t.a + 1", "QA(xm)"); ("t.extra", "QA(extra)"); ("amount", "QA(rev_raw)")], "(SELECT * FROM raw) AS t", (Some "CONJ[P[xm,bare,c.y];P[status]]")));
   ((0, 1, 1, 1, 0, [], ["o.rev"], (Some ["Fmix"; "Fs"]), (Some ["o.status DESC"; "c.region ASC"; "plain"; "o.ts__month"]), None)%nat,
    ("QI(o_cte)", [("id", "QA(id)"); ("c_id", "QA(c_id)"); ("o_fk", "QA(o_fk)"); ("status", "QA(status)"); ("t.a + 1", "QA(xm)"); ("amount", "QA(rev_raw)")], "(SELECT * FROM raw) AS t", (Some "CONJ[P[xm,bare,c.y];P[status]]")));
   ((0, 1, 1, 1, 0, [("o.status", None)], ["o.rev"], (Some ["Fmix"; "Fs"]), (Some ["o.status DESC"; "c.region ASC"; "plain"; "o.ts__month"]), None)%nat,
    ("QI(o_cte)", [("id", "QA(id)"); ("c_id", "QA(c_id)"); ("o_fk", "QA(o_fk)"); ("status", "QA(status)"); ("t.a + 1", "QA(xm)"); ("amount", "QA(rev_raw)")], "(SELECT * FROM raw) AS t", (Some "CONJ[P[xm,bare,c.y];P[status]]")));
   ((0, 1, 1, 1, 0, [], ["o.rev"], (Some ["Fmix"; "Fs"]), (Some ["o.status DESC"; "c.region ASC"; "plain"; "o.ts__month"]), (Some ["c_id"; "extra"; "rev"; "status"]))%nat,
    ("QI(o_cte)", [("id", "QA(id)"); ("c_id", "QA(c_id)"); ("o_fk", "QA(o_fk)"); ("status", "QA(status)"); ("t.a + 1", "QA(xm)"); ("t.extra", "QA(extra)"); ("amount", "QA(rev_raw)")], "(SELECT * FROM raw) AS t", (Some "CONJ[P[xm,bare,c.y];P[status]]")));
   ((0, 1, 1, 1, 0, [("o.status", None)], ["o.rev"], (Some ["Fmix"; "Fs"]), (Some ["o.status DESC"; "c.region ASC"; "plain"; "o.ts__month"]), (Some ["c_id"; "extra"; "rev"; "status"]))%nat,
    ("QI(o_cte)", [("id", "QA(id)"); ("c_id", "QA(c_id)"); ("o_fk", "QA(o_fk)"); ("status", "QA(status)"); ("t.a + 1", "QA(xm)"); ("t.extra", "QA(extra)"); ("amount", "QA(rev_raw)")], "(SELECT * FROM raw) AS t", (Some "CONJ[P[xm,bare,c.y];P[status]]")));
   ((1, 0, 0, 0, 0, [], [], None, None, (Some ["rev"]))%nat,
    ("QI(o_cte)", [("k1", "QA(k1)"); ("k2", "QA(k2)"); ("amount", "QA(rev_raw)")], "raw.o", None));
   ((1, 0, 0, 0, 0, [], ["o.rev"], None, None, (Some ["rev"]))%nat,
    ("QI(o_cte)", [("k1", "QA(k1)"); ("k2", "QA(k2)"); ("amount", "QA(rev_raw)")], "raw.o", None));
   ((1, 0, 0, 0, 0, [], ["o.cnt"; "o.cntstar"; "o.cntx"], None, None, (Some ["rev"]))%nat,
    ("QI(o_cte)", [("k1", "QA(k1)"); ("k2", "QA(k2)"); ("1", "QA(cnt_raw)"); ("1", "QA(cntstar_raw)"); ("x", "QA(cntx_raw)"); ("amount", "QA(rev_raw)")], "raw.o", None));
   ((1, 0, 0, 0, 0, [], ["o.cd"; "o.cdx"], None, None, (Some ["rev"]))%nat,
    ("QI(o_cte)", [("k1", "QA(k1)"); ("k2", "QA(k2)"); ("CONCAT(CAST(k1 AS VARCHAR), '|', CAST(k2 AS VARCHAR))", "QA(cd_raw)"); ("u", "QA(cdx_raw)"); ("amount", "QA(rev_raw)")], "raw.o", None));
   ((1, 0, 0, 0, 0, [], ["o.frev"; "o.fcnt"], None, None, (Some ["rev"]))%nat,
    ("QI(o_cte)", [("k1", "QA(k1)"); ("k2", "QA(k2)"); ("CASE WHEN CONJ[f] THEN x ELSE NULL END", "QA(fcnt_raw)"); ("CASE WHEN CONJ[status = 'a';x > 1] THEN amount ELSE NULL END", "QA(frev_raw)"); ("amount", "QA(rev_raw)")], "raw.o", None));
   ((1, 0, 0, 0, 0, [], ["o.ratio"], None, None, (Some ["rev"]))%nat,
    ("QI(o_cte)", [("k1", "QA(k1)"); ("k2", "QA(k2)"); ("1", "QA(cnt_raw)"); ("amount", "QA(rev_raw)")], "raw.o", None));
   ((1, 0, 0, 0, 0, [], ["o.der"], None, None, (Some ["rev"]))%nat,
    ("QI(o_cte)", [("k1", "QA(k1)"); ("k2", "QA(k2)"); ("CASE WHEN CONJ[status = 'a';x > 1] THEN amount ELSE NULL END", "QA(frev_raw)"); ("amount", "QA(rev_raw)")], "raw.o", None));
   ((1, 0, 0, 0, 0, [], ["o.cyc"], None, None, (Some ["rev"]))%nat,
    ("QI(o_cte)", [("k1", "QA(k1)"); ("k2", "QA(k2)"); ("CONCAT(CAST(k1 AS VARCHAR), '|', CAST(k2 AS VARCHAR))", "QA(cd_raw)"); ("amount", "QA(rev_raw)")], "raw.o", None));
   ((1, 0, 0, 0, 0, [], ["o.expr"], None, None, (Some ["rev"]))%nat,
    ("QI(o_cte)", [("k1", "QA(k1)"); ("k2", "QA(k2)"); ("amount", "QA(rev_raw)")], "raw.o", None));
   ((1, 0, 0, 0, 0, [], ["o.inline"], None, None, (Some ["rev"]))%nat,
    ("QI(o_cte)", [("k1", "QA(k1)"); ("k2", "QA(k2)"); ("price", "QA(price)"); ("qty", "QA(qty)"); ("status", "QA(status)"); ("amount", "QA(rev_raw)")], "raw.o", None));
   ((1, 0, 0, 0, 0, [], ["o.tc"; "c.other"], None, None, (Some ["rev"]))%nat,
    ("QI(o_cte)", [("k1", "QA(k1)"); ("k2", "QA(k2)"); ("amount", "QA(rev_raw)")], "raw.o", None));
   ((1, 0, 0, 0, 0, [], ["gm"; "unknown"; "rev"], None, None, (Some ["rev"]))%nat,
    ("QI(o_cte)", [("k1", "QA(k1)"); ("k2", "QA(k2)"); ("amount", "QA(rev_raw)")], "raw.o", None));
   ((1, 0, 0, 0, 0, [], ["o.rev"; "o.rev"; "cnt"], None, None, (Some ["rev"]))%nat,
    ("QI(o_cte)", [("k1", "QA(k1)"); ("k2", "QA(k2)"); ("1", "QA(cnt_raw)"); ("amount", "QA(rev_raw)")], "raw.o", None));
   ((1, 0, 0, 0, 0, [], ["o.nometric"; "inline"], None, None, (Some ["rev"]))%nat,
    ("QI(o_cte)", [("k1", "QA(k1)"); ("k2", "QA(k2)"); ("price", "QA(price)"); ("qty", "QA(qty)"); ("status", "QA(status)"); ("amount", "QA(rev_raw)")], "raw.o", None));
   ((1, 1, 0, 0, 0, [], [], None, None, (Some ["rev"]))%nat,
    ("QI(o_cte)", [("k1", "QA(k1)"); ("k2", "QA(k2)"); ("amount", "QA(rev_raw)")], "(SELECT * FROM raw) AS t", None));
   ((1, 1, 0, 0, 0, [], ["o.rev"], None, None, (Some ["rev"]))%nat,
    ("QI(o_cte)", [("k1", "QA(k1)"); ("k2", "QA(k2)"); ("amount", "QA(rev_raw)")], "(SELECT * FROM raw) AS t", None));
   ((1, 1, 0, 0, 0, [], ["o.cnt"; "o.cntstar"; "o.cntx"], None, None, (Some ["rev"]))%nat,
    ("QI(o_cte)", [("k1", "QA(k1)"); ("k2", "QA(k2)"); ("1", "QA(cnt_raw)"); ("1", "QA(cntstar_raw)"); ("x", "QA(cntx_raw)"); ("amount", "QA(rev_raw)")], "(SELECT * FROM raw) AS t", None));
   ((1, 1, 0, 0, 0, [], ["o.cd"; "o.cdx"], None, None, (Some ["rev"]))%nat,
    ("QI(o_cte)", [("k1", "QA(k1)"); ("k2", "QA(k2)"); ("CONCAT(CAST(k1 AS VARCHAR), '|', CAST(k2 AS VARCHAR))", "QA(cd_raw)"); ("t.u", "QA(cdx_raw)"); ("amount", "QA(rev_raw)")], "(SELECT * FROM raw) AS t", None));
   ((1, 1, 0, 0, 0, [], ["o.frev"; "o.fcnt"], None, None, (Some ["rev"]))%nat,
    ("QI(o_cte)", [("k1", "QA(k1)"); ("k2", "QA(k2)"); ("CASE WHEN CONJ[f] THEN x ELSE NULL END", "QA(fcnt_raw)"); ("CASE WHEN CONJ[status = 'a';x > 1] THEN amount ELSE NULL END", "QA(frev_raw)"); ("amount", "QA(rev_raw)")], "(SELECT * FROM raw) AS t", None));
   ((1, 1, 0, 0, 0, [], ["o.ratio"], None, None, (Some ["rev"]))%nat,
    ("QI(o_cte)", [("k1", "QA(k1)"); ("k2", "QA(k2)"); ("1", "QA(cnt_raw)"); ("amount", "QA(rev_raw)")], "(SELECT * FROM raw) AS t", None));
   ((1, 1, 0, 0, 0, [], ["o.der"], None, None, (Some ["rev"]))%nat,
    ("QI(o_cte)", [("k1", "QA(k1)"); ("k2", "QA(k2)"); ("CASE WHEN CONJ[status = 'a';x > 1] THEN amount ELSE NULL END", "QA(frev_raw)"); ("amount", "QA(rev_raw)")], "(SELECT * FROM raw) AS t", None));
   ((1, 1, 0, 0, 0, [], ["o.cyc"], None, None, (Some ["rev"]))%nat,
    ("QI(o_cte)", [("k1", "QA(k1)"); ("k2", "QA(k2)"); ("CONCAT(CAST(k1 AS VARCHAR), '|', CAST(k2 AS VARCHAR))", "QA(cd_raw)"); ("amount", "QA(rev_raw)")], "(SELECT * FROM raw) AS t", None));
   ((1, 1, 0, 0, 0, [], ["o.expr"], None, None, (Some ["rev"]))%nat,
    ("QI(o_cte)", [("k1", "QA(k1)"); ("k2", "QA(k2)"); ("amount", "QA(rev_raw)")], "(SELECT * FROM raw) AS t", None));
   ((1, 1, 0, 0, 0, [], ["o.inline"], None, None, (Some ["rev"]))%nat,
    ("QI(o_cte)", [("k1", "QA(k1)"); ("k2", "QA(k2)"); ("t.price", "QA(price)"); ("t.qty", "QA(qty)"); ("status", "QA(status)"); ("amount", "QA(rev_raw)")], "(SELECT * FROM raw) AS t", None));
   ((1, 1, 0, 0, 0, [], ["o.tc"; "c.other"], None, None, (Some ["rev"]))%nat,
    ("QI(o_cte)", [("k1", "QA(k1)"); ("k2", "QA(k2)"); ("amount", "QA(rev_raw)")], "(SELECT * FROM raw) AS t", None));
   ((1, 1, 0, 0, 0, [], ["gm"; "unknown"; "rev"], None, None, (Some ["rev"]))%nat,
    ("QI(o_cte)", [("k1", "QA(k1)"); ("k2", "QA(k2)"); ("amount", "QA(rev_raw)")], "(SELECT * FROM raw) AS t", None));
   ((1, 1, 0, 0, 0, [], ["o.rev"; "o.rev"; "cnt"], None, None, (Some ["rev"]))%nat,
    ("QI(o_cte)", [("k1", "QA(k1)"); ("k2", "QA(k2)"); ("1", "QA(cnt_raw)"); ("amount", "QA(rev_raw)")], "(SELECT * FROM raw) AS t", None));
   ((1, 1, 0, 0, 0, [], ["o.nometric"; "inline"], None, None, (Some ["rev"]))%nat,
    ("QI(o_cte)", [("k1", "QA(k1)"); ("k2", "QA(k2)"); ("t.price", "QA(price)"); ("t.qty", "QA(qty)"); ("status", "QA(status)"); ("amount", "QA(rev_raw)")], "(SELECT * FROM raw) AS t", None))].
