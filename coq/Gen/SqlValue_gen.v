(* GENERATED on every run by translator/gen_sqlvalue.py from sidemantic/core/sql_definitions.py (_parse_scalar_literal) -- do not edit *)
From Coq Require Import String List ZArith.
Require Import V.Model.SqlValue.
Import ListNotations.
Open Scope string_scope.

(* value text -> what the parser of the SQL definition syntax makes of it *)
Definition sqlvalue_rows : list (string * sval) :=
  [("", (SStr ""));
   ("'", (SStr ""));
   ("''", (SStr ""));
   ("'''", (SStr "'"));
   ("''''", (SStr "'"));
   ("'a'", (SStr "a"));
   ("'it''s'", (SStr "it's"));
   ("'a''''b'", (SStr "a''b"));
   ("'''a'''", (SStr "'a'"));
   ("'status = ''done'''", (SStr "status = 'done'"));
   ("'CASE WHEN s = ''x'' THEN ''a, b'' ELSE '''' END'", (SStr "CASE WHEN s = 'x' THEN 'a, b' ELSE '' END"));
   ("""dq""", (SStr "dq"));
   ("""a''b""", (SStr "a''b"));
   ("""", (SStr ""));
   ("'pre-' || status || '-post'", (SStr "pre-' || status || '-post"));
   ("'a' || 'b'", (SStr "a' || 'b"));
   ("'unterminated", (SStr "'unterminated"));
   ("unstarted'", (SStr "unstarted'"));
   ("'mixed""", (SStr "'mixed"""));
   ("true", (SBool true));
   ("TRUE", (SBool true));
   ("False", (SBool false));
   ("null", SNone);
   ("None", SNone);
   ("NULL", SNone);
   ("none", SNone);
   ("nil", (SStr "nil"));
   ("0", (SInt (0)));
   ("42", (SInt (42)));
   ("-7", (SInt (-7)));
   ("+3", (SInt (3)));
   ("007", (SInt (7)));
   ("1.5", (SFloat "1.5"));
   ("-0.25", (SFloat "-0.25"));
   ("3.", (SStr "3."));
   (".5", (SStr ".5"));
   ("1e5", (SStr "1e5"));
   ("12abc", (SStr "12abc"));
   ("amount", (SStr "amount"));
   ("SUM(amount)", (SStr "SUM(amount)"));
   ("status = 'a'", (SStr "status = 'a'"));
   ("a b", (SStr "a b"));
   (" 'x'", (SStr " 'x'"));
   ("'x' ", (SStr "'x' "))].
