(* GENERATED on every run by translator/gen_small.py from sidemantic/sql/generator.py (_join_conjuncts, _wrap_with_fill_nulls, _parse_dimension_refs,
   _build_measure_aggregation_sql with _cte_ref / _cte_name / _quote_identifier / _is_simple_identifier inlined) -- do not edit *)
From Coq Require Import String List Bool.
Require Import V.Model.SmallFns.
Import ListNotations.
Open Scope string_scope.

Definition conj_rows : list (list (string * ckind) * string) :=
  [([], "");
   ([("a = 1", KOther)], "a = 1");
   ([("a = 1 OR b = 2", KOr)], "(a = 1 OR b = 2)");
   ([("a = 1", KOther); ("a = 1 OR b = 2", KOr)], "a = 1 AND (a = 1 OR b = 2)");
   ([("a = 1 OR b = 2", KOr); ("x > 0 AND y < 5", KOther)], "(a = 1 OR b = 2) AND x > 0 AND y < 5");
   ([("a = 1 OR b = 2", KOr); ("c IN (1, 2) OR d IS NULL", KOr)], "(a = 1 OR b = 2) AND (c IN (1, 2) OR d IS NULL)");
   ([("???", KUnparsable)], "???");
   ([("???", KUnparsable); ("a = 1 OR b = 2", KOr); ("NOT (p OR q)", KOther)], "??? AND (a = 1 OR b = 2) AND NOT (p OR q)");
   ([("(u OR v)", KOther); ("a = 1", KOther)], "(u OR v) AND a = 1");
   ([("x > 0 AND y < 5", KOther); ("x > 0 AND y < 5", KOther)], "x > 0 AND y < 5 AND x > 0 AND y < 5");
   ([("a = 1", KOther); ("x > 0 AND y < 5", KOther); ("c IN (1, 2) OR d IS NULL", KOr); ("a = 1", KOther)], "a = 1 AND x > 0 AND y < 5 AND (c IN (1, 2) OR d IS NULL) AND a = 1")].

Definition fill_rows : list (string * fillv * string) :=
  [("SUM(x)", FNone, "SUM(x)");
   ("SUM(x)", FText "0", "COALESCE(SUM(x), 0)");
   ("SUM(x)", FText "7", "COALESCE(SUM(x), 7)");
   ("SUM(x)", FText "-3", "COALESCE(SUM(x), -3)");
   ("SUM(x)", FText "1.5", "COALESCE(SUM(x), 1.5)");
   ("SUM(x)", FStr "n/a", "COALESCE(SUM(x), 'n/a')");
   ("SUM(x)", FStr "", "COALESCE(SUM(x), '')");
   ("SUM(x)", FStr "it's", "COALESCE(SUM(x), 'it''s')");
   ("SUM(x)", FText "True", "COALESCE(SUM(x), True)");
   ("SUM(x)", FText "False", "COALESCE(SUM(x), False)");
   ("a / NULLIF(b, 0)", FNone, "a / NULLIF(b, 0)");
   ("a / NULLIF(b, 0)", FText "0", "COALESCE(a / NULLIF(b, 0), 0)");
   ("a / NULLIF(b, 0)", FText "7", "COALESCE(a / NULLIF(b, 0), 7)");
   ("a / NULLIF(b, 0)", FText "-3", "COALESCE(a / NULLIF(b, 0), -3)");
   ("a / NULLIF(b, 0)", FText "1.5", "COALESCE(a / NULLIF(b, 0), 1.5)");
   ("a / NULLIF(b, 0)", FStr "n/a", "COALESCE(a / NULLIF(b, 0), 'n/a')");
   ("a / NULLIF(b, 0)", FStr "", "COALESCE(a / NULLIF(b, 0), '')");
   ("a / NULLIF(b, 0)", FStr "it's", "COALESCE(a / NULLIF(b, 0), 'it''s')");
   ("a / NULLIF(b, 0)", FText "True", "COALESCE(a / NULLIF(b, 0), True)");
   ("a / NULLIF(b, 0)", FText "False", "COALESCE(a / NULLIF(b, 0), False)");
   ("", FNone, "");
   ("", FText "0", "COALESCE(, 0)");
   ("", FText "7", "COALESCE(, 7)");
   ("", FText "-3", "COALESCE(, -3)");
   ("", FText "1.5", "COALESCE(, 1.5)");
   ("", FStr "n/a", "COALESCE(, 'n/a')");
   ("", FStr "", "COALESCE(, '')");
   ("", FStr "it's", "COALESCE(, 'it''s')");
   ("", FText "True", "COALESCE(, True)");
   ("", FText "False", "COALESCE(, False)")].

Definition dimref_rows : list (string * (string * option string)) :=
  [("orders.status", ("orders.status", None));
   ("orders.created__month", ("orders.created", Some "month"));
   ("orders.created__", ("orders.created", Some ""));
   ("orders.a__b__week", ("orders.a__b", Some "week"));
   ("__day", ("", Some "day"));
   ("orders.x_y", ("orders.x_y", None));
   ("o.created___month", ("o.created_", Some "month"));
   ("plain", ("plain", None));
   ("o.d__", ("o.d", Some ""));
   ("a.b__c.d__year", ("a.b__c.d", Some "year"))].

Definition aggsql_rows : list (string * string * string * string) :=
  [("sum", "orders", "revenue", "SUM(orders_cte.revenue_raw)");
   ("sum", "order items", "n", "SUM(""order items_cte"".n_raw)");
   ("sum", "t", "select", "SUM(t_cte.select_raw)");
   ("sum", "t", "x y", "SUM(t_cte.""x y_raw"")");
   ("count", "orders", "revenue", "COUNT(orders_cte.revenue_raw)");
   ("count", "order items", "n", "COUNT(""order items_cte"".n_raw)");
   ("count", "t", "select", "COUNT(t_cte.select_raw)");
   ("count", "t", "x y", "COUNT(t_cte.""x y_raw"")");
   ("count_distinct", "orders", "revenue", "COUNT(DISTINCT orders_cte.revenue_raw)");
   ("count_distinct", "order items", "n", "COUNT(DISTINCT ""order items_cte"".n_raw)");
   ("count_distinct", "t", "select", "COUNT(DISTINCT t_cte.select_raw)");
   ("count_distinct", "t", "x y", "COUNT(DISTINCT t_cte.""x y_raw"")");
   ("avg", "orders", "revenue", "AVG(orders_cte.revenue_raw)");
   ("avg", "order items", "n", "AVG(""order items_cte"".n_raw)");
   ("avg", "t", "select", "AVG(t_cte.select_raw)");
   ("avg", "t", "x y", "AVG(t_cte.""x y_raw"")");
   ("min", "orders", "revenue", "MIN(orders_cte.revenue_raw)");
   ("min", "order items", "n", "MIN(""order items_cte"".n_raw)");
   ("min", "t", "select", "MIN(t_cte.select_raw)");
   ("min", "t", "x y", "MIN(t_cte.""x y_raw"")");
   ("max", "orders", "revenue", "MAX(orders_cte.revenue_raw)");
   ("max", "order items", "n", "MAX(""order items_cte"".n_raw)");
   ("max", "t", "select", "MAX(t_cte.select_raw)");
   ("max", "t", "x y", "MAX(t_cte.""x y_raw"")");
   ("median", "orders", "revenue", "MEDIAN(orders_cte.revenue_raw)");
   ("median", "order items", "n", "MEDIAN(""order items_cte"".n_raw)");
   ("median", "t", "select", "MEDIAN(t_cte.select_raw)");
   ("median", "t", "x y", "MEDIAN(t_cte.""x y_raw"")");
   ("stddev", "orders", "revenue", "STDDEV(orders_cte.revenue_raw)");
   ("stddev", "order items", "n", "STDDEV(""order items_cte"".n_raw)");
   ("stddev", "t", "select", "STDDEV(t_cte.select_raw)");
   ("stddev", "t", "x y", "STDDEV(t_cte.""x y_raw"")");
   ("variance", "orders", "revenue", "VARIANCE(orders_cte.revenue_raw)");
   ("variance", "order items", "n", "VARIANCE(""order items_cte"".n_raw)");
   ("variance", "t", "select", "VARIANCE(t_cte.select_raw)");
   ("variance", "t", "x y", "VARIANCE(t_cte.""x y_raw"")");
   ("Sum", "orders", "revenue", "SUM(orders_cte.revenue_raw)");
   ("Sum", "order items", "n", "SUM(""order items_cte"".n_raw)");
   ("Sum", "t", "select", "SUM(t_cte.select_raw)");
   ("Sum", "t", "x y", "SUM(t_cte.""x y_raw"")")].
