(* GENERATED on every run by translator/gen_materialize.py from sidemantic/core/pre_aggregation.py (generate_materialization_sql) -- do not edit *)
From Coq Require Import String List Bool.
Require Import V.Model.MatShape.
Import ListNotations.
Open Scope string_scope.

(* the scripted model: known dimensions ts (time), cat, reg; measures with their aggregation literal and whether they have a sql expression *)
Definition script_dims : list string := ["ts"; "cat"; "reg"].
Definition script_measures : list (string * string * bool) := [("rev", "sum", true); ("cnt", "count", false); ("cntv", "count", true); ("mn", "min", true); ("mx", "max", true); ("av", "avg", true); ("cd", "count_distinct", true); ("med", "median", true)].

(* per scripted rollup: time dimension, granularity, dimensions, measures; the columns of the statement, its GROUP BY positions *)
Definition mat_rows : list (option string * option string * list string * list string * list col * list nat) :=
  [(None, None, [], [], [], []);
   (None, None, [], ["rev"], [CAgg "SUM" "rev"], []);
   (None, None, [], ["cnt"; "cntv"], [CAgg "COUNT*" "cnt"; CAgg "COUNT" "cntv"], []);
   (None, None, [], ["mn"; "mx"; "av"], [CAgg "MIN" "mn"; CAgg "MAX" "mx"; CAgg "AVG" "av"], []);
   (None, None, [], ["cd"; "med"; "rev"], [CAgg "COUNT DISTINCT" "cd"; CAgg "MEDIAN" "med"; CAgg "SUM" "rev"], []);
   (None, None, [], ["nope"; "rev"], [CAgg "SUM" "rev"], []);
   (None, None, ["cat"], [], [CDim "cat"], [1]);
   (None, None, ["cat"], ["rev"], [CDim "cat"; CAgg "SUM" "rev"], [1]);
   (None, None, ["cat"], ["cnt"; "cntv"], [CDim "cat"; CAgg "COUNT*" "cnt"; CAgg "COUNT" "cntv"], [1]);
   (None, None, ["cat"], ["mn"; "mx"; "av"], [CDim "cat"; CAgg "MIN" "mn"; CAgg "MAX" "mx"; CAgg "AVG" "av"], [1]);
   (None, None, ["cat"], ["cd"; "med"; "rev"], [CDim "cat"; CAgg "COUNT DISTINCT" "cd"; CAgg "MEDIAN" "med"; CAgg "SUM" "rev"], [1]);
   (None, None, ["cat"], ["nope"; "rev"], [CDim "cat"; CAgg "SUM" "rev"], [1]);
   (None, None, ["cat"; "reg"], [], [CDim "cat"; CDim "reg"], [1; 2]);
   (None, None, ["cat"; "reg"], ["rev"], [CDim "cat"; CDim "reg"; CAgg "SUM" "rev"], [1; 2]);
   (None, None, ["cat"; "reg"], ["cnt"; "cntv"], [CDim "cat"; CDim "reg"; CAgg "COUNT*" "cnt"; CAgg "COUNT" "cntv"], [1; 2]);
   (None, None, ["cat"; "reg"], ["mn"; "mx"; "av"], [CDim "cat"; CDim "reg"; CAgg "MIN" "mn"; CAgg "MAX" "mx"; CAgg "AVG" "av"], [1; 2]);
   (None, None, ["cat"; "reg"], ["cd"; "med"; "rev"], [CDim "cat"; CDim "reg"; CAgg "COUNT DISTINCT" "cd"; CAgg "MEDIAN" "med"; CAgg "SUM" "rev"], [1; 2]);
   (None, None, ["cat"; "reg"], ["nope"; "rev"], [CDim "cat"; CDim "reg"; CAgg "SUM" "rev"], [1; 2]);
   (None, None, ["reg"; "nope"], [], [CDim "reg"], [1]);
   (None, None, ["reg"; "nope"], ["rev"], [CDim "reg"; CAgg "SUM" "rev"], [1]);
   (None, None, ["reg"; "nope"], ["cnt"; "cntv"], [CDim "reg"; CAgg "COUNT*" "cnt"; CAgg "COUNT" "cntv"], [1]);
   (None, None, ["reg"; "nope"], ["mn"; "mx"; "av"], [CDim "reg"; CAgg "MIN" "mn"; CAgg "MAX" "mx"; CAgg "AVG" "av"], [1]);
   (None, None, ["reg"; "nope"], ["cd"; "med"; "rev"], [CDim "reg"; CAgg "COUNT DISTINCT" "cd"; CAgg "MEDIAN" "med"; CAgg "SUM" "rev"], [1]);
   (None, None, ["reg"; "nope"], ["nope"; "rev"], [CDim "reg"; CAgg "SUM" "rev"], [1]);
   ((Some "ts"), (Some "day"), [], [], [CTime "ts" "day"], [1]);
   ((Some "ts"), (Some "day"), [], ["rev"], [CTime "ts" "day"; CAgg "SUM" "rev"], [1]);
   ((Some "ts"), (Some "day"), [], ["cnt"; "cntv"], [CTime "ts" "day"; CAgg "COUNT*" "cnt"; CAgg "COUNT" "cntv"], [1]);
   ((Some "ts"), (Some "day"), [], ["mn"; "mx"; "av"], [CTime "ts" "day"; CAgg "MIN" "mn"; CAgg "MAX" "mx"; CAgg "AVG" "av"], [1]);
   ((Some "ts"), (Some "day"), [], ["cd"; "med"; "rev"], [CTime "ts" "day"; CAgg "COUNT DISTINCT" "cd"; CAgg "MEDIAN" "med"; CAgg "SUM" "rev"], [1]);
   ((Some "ts"), (Some "day"), [], ["nope"; "rev"], [CTime "ts" "day"; CAgg "SUM" "rev"], [1]);
   ((Some "ts"), (Some "day"), ["cat"], [], [CTime "ts" "day"; CDim "cat"], [1; 2]);
   ((Some "ts"), (Some "day"), ["cat"], ["rev"], [CTime "ts" "day"; CDim "cat"; CAgg "SUM" "rev"], [1; 2]);
   ((Some "ts"), (Some "day"), ["cat"], ["cnt"; "cntv"], [CTime "ts" "day"; CDim "cat"; CAgg "COUNT*" "cnt"; CAgg "COUNT" "cntv"], [1; 2]);
   ((Some "ts"), (Some "day"), ["cat"], ["mn"; "mx"; "av"], [CTime "ts" "day"; CDim "cat"; CAgg "MIN" "mn"; CAgg "MAX" "mx"; CAgg "AVG" "av"], [1; 2]);
   ((Some "ts"), (Some "day"), ["cat"], ["cd"; "med"; "rev"], [CTime "ts" "day"; CDim "cat"; CAgg "COUNT DISTINCT" "cd"; CAgg "MEDIAN" "med"; CAgg "SUM" "rev"], [1; 2]);
   ((Some "ts"), (Some "day"), ["cat"], ["nope"; "rev"], [CTime "ts" "day"; CDim "cat"; CAgg "SUM" "rev"], [1; 2]);
   ((Some "ts"), (Some "day"), ["cat"; "reg"], [], [CTime "ts" "day"; CDim "cat"; CDim "reg"], [1; 2; 3]);
   ((Some "ts"), (Some "day"), ["cat"; "reg"], ["rev"], [CTime "ts" "day"; CDim "cat"; CDim "reg"; CAgg "SUM" "rev"], [1; 2; 3]);
   ((Some "ts"), (Some "day"), ["cat"; "reg"], ["cnt"; "cntv"], [CTime "ts" "day"; CDim "cat"; CDim "reg"; CAgg "COUNT*" "cnt"; CAgg "COUNT" "cntv"], [1; 2; 3]);
   ((Some "ts"), (Some "day"), ["cat"; "reg"], ["mn"; "mx"; "av"], [CTime "ts" "day"; CDim "cat"; CDim "reg"; CAgg "MIN" "mn"; CAgg "MAX" "mx"; CAgg "AVG" "av"], [1; 2; 3]);
   ((Some "ts"), (Some "day"), ["cat"; "reg"], ["cd"; "med"; "rev"], [CTime "ts" "day"; CDim "cat"; CDim "reg"; CAgg "COUNT DISTINCT" "cd"; CAgg "MEDIAN" "med"; CAgg "SUM" "rev"], [1; 2; 3]);
   ((Some "ts"), (Some "day"), ["cat"; "reg"], ["nope"; "rev"], [CTime "ts" "day"; CDim "cat"; CDim "reg"; CAgg "SUM" "rev"], [1; 2; 3]);
   ((Some "ts"), (Some "day"), ["reg"; "nope"], [], [CTime "ts" "day"; CDim "reg"], [1; 2]);
   ((Some "ts"), (Some "day"), ["reg"; "nope"], ["rev"], [CTime "ts" "day"; CDim "reg"; CAgg "SUM" "rev"], [1; 2]);
   ((Some "ts"), (Some "day"), ["reg"; "nope"], ["cnt"; "cntv"], [CTime "ts" "day"; CDim "reg"; CAgg "COUNT*" "cnt"; CAgg "COUNT" "cntv"], [1; 2]);
   ((Some "ts"), (Some "day"), ["reg"; "nope"], ["mn"; "mx"; "av"], [CTime "ts" "day"; CDim "reg"; CAgg "MIN" "mn"; CAgg "MAX" "mx"; CAgg "AVG" "av"], [1; 2]);
   ((Some "ts"), (Some "day"), ["reg"; "nope"], ["cd"; "med"; "rev"], [CTime "ts" "day"; CDim "reg"; CAgg "COUNT DISTINCT" "cd"; CAgg "MEDIAN" "med"; CAgg "SUM" "rev"], [1; 2]);
   ((Some "ts"), (Some "day"), ["reg"; "nope"], ["nope"; "rev"], [CTime "ts" "day"; CDim "reg"; CAgg "SUM" "rev"], [1; 2]);
   ((Some "ts"), (Some "month"), [], [], [CTime "ts" "month"], [1]);
   ((Some "ts"), (Some "month"), [], ["rev"], [CTime "ts" "month"; CAgg "SUM" "rev"], [1]);
   ((Some "ts"), (Some "month"), [], ["cnt"; "cntv"], [CTime "ts" "month"; CAgg "COUNT*" "cnt"; CAgg "COUNT" "cntv"], [1]);
   ((Some "ts"), (Some "month"), [], ["mn"; "mx"; "av"], [CTime "ts" "month"; CAgg "MIN" "mn"; CAgg "MAX" "mx"; CAgg "AVG" "av"], [1]);
   ((Some "ts"), (Some "month"), [], ["cd"; "med"; "rev"], [CTime "ts" "month"; CAgg "COUNT DISTINCT" "cd"; CAgg "MEDIAN" "med"; CAgg "SUM" "rev"], [1]);
   ((Some "ts"), (Some "month"), [], ["nope"; "rev"], [CTime "ts" "month"; CAgg "SUM" "rev"], [1]);
   ((Some "ts"), (Some "month"), ["cat"], [], [CTime "ts" "month"; CDim "cat"], [1; 2]);
   ((Some "ts"), (Some "month"), ["cat"], ["rev"], [CTime "ts" "month"; CDim "cat"; CAgg "SUM" "rev"], [1; 2]);
   ((Some "ts"), (Some "month"), ["cat"], ["cnt"; "cntv"], [CTime "ts" "month"; CDim "cat"; CAgg "COUNT*" "cnt"; CAgg "COUNT" "cntv"], [1; 2]);
   ((Some "ts"), (Some "month"), ["cat"], ["mn"; "mx"; "av"], [CTime "ts" "month"; CDim "cat"; CAgg "MIN" "mn"; CAgg "MAX" "mx"; CAgg "AVG" "av"], [1; 2]);
   ((Some "ts"), (Some "month"), ["cat"], ["cd"; "med"; "rev"], [CTime "ts" "month"; CDim "cat"; CAgg "COUNT DISTINCT" "cd"; CAgg "MEDIAN" "med"; CAgg "SUM" "rev"], [1; 2]);
   ((Some "ts"), (Some "month"), ["cat"], ["nope"; "rev"], [CTime "ts" "month"; CDim "cat"; CAgg "SUM" "rev"], [1; 2]);
   ((Some "ts"), (Some "month"), ["cat"; "reg"], [], [CTime "ts" "month"; CDim "cat"; CDim "reg"], [1; 2; 3]);
   ((Some "ts"), (Some "month"), ["cat"; "reg"], ["rev"], [CTime "ts" "month"; CDim "cat"; CDim "reg"; CAgg "SUM" "rev"], [1; 2; 3]);
   ((Some "ts"), (Some "month"), ["cat"; "reg"], ["cnt"; "cntv"], [CTime "ts" "month"; CDim "cat"; CDim "reg"; CAgg "COUNT*" "cnt"; CAgg "COUNT" "cntv"], [1; 2; 3]);
   ((Some "ts"), (Some "month"), ["cat"; "reg"], ["mn"; "mx"; "av"], [CTime "ts" "month"; CDim "cat"; CDim "reg"; CAgg "MIN" "mn"; CAgg "MAX" "mx"; CAgg "AVG" "av"], [1; 2; 3]);
   ((Some "ts"), (Some "month"), ["cat"; "reg"], ["cd"; "med"; "rev"], [CTime "ts" "month"; CDim "cat"; CDim "reg"; CAgg "COUNT DISTINCT" "cd"; CAgg "MEDIAN" "med"; CAgg "SUM" "rev"], [1; 2; 3]);
   ((Some "ts"), (Some "month"), ["cat"; "reg"], ["nope"; "rev"], [CTime "ts" "month"; CDim "cat"; CDim "reg"; CAgg "SUM" "rev"], [1; 2; 3]);
   ((Some "ts"), (Some "month"), ["reg"; "nope"], [], [CTime "ts" "month"; CDim "reg"], [1; 2]);
   ((Some "ts"), (Some "month"), ["reg"; "nope"], ["rev"], [CTime "ts" "month"; CDim "reg"; CAgg "SUM" "rev"], [1; 2]);
   ((Some "ts"), (Some "month"), ["reg"; "nope"], ["cnt"; "cntv"], [CTime "ts" "month"; CDim "reg"; CAgg "COUNT*" "cnt"; CAgg "COUNT" "cntv"], [1; 2]);
   ((Some "ts"), (Some "month"), ["reg"; "nope"], ["mn"; "mx"; "av"], [CTime "ts" "month"; CDim "reg"; CAgg "MIN" "mn"; CAgg "MAX" "mx"; CAgg "AVG" "av"], [1; 2]);
   ((Some "ts"), (Some "month"), ["reg"; "nope"], ["cd"; "med"; "rev"], [CTime "ts" "month"; CDim "reg"; CAgg "COUNT DISTINCT" "cd"; CAgg "MEDIAN" "med"; CAgg "SUM" "rev"], [1; 2]);
   ((Some "ts"), (Some "month"), ["reg"; "nope"], ["nope"; "rev"], [CTime "ts" "month"; CDim "reg"; CAgg "SUM" "rev"], [1; 2]);
   ((Some "ts"), None, [], [], [], []);
   ((Some "ts"), None, [], ["rev"], [CAgg "SUM" "rev"], []);
   ((Some "ts"), None, [], ["cnt"; "cntv"], [CAgg "COUNT*" "cnt"; CAgg "COUNT" "cntv"], []);
   ((Some "ts"), None, [], ["mn"; "mx"; "av"], [CAgg "MIN" "mn"; CAgg "MAX" "mx"; CAgg "AVG" "av"], []);
   ((Some "ts"), None, [], ["cd"; "med"; "rev"], [CAgg "COUNT DISTINCT" "cd"; CAgg "MEDIAN" "med"; CAgg "SUM" "rev"], []);
   ((Some "ts"), None, [], ["nope"; "rev"], [CAgg "SUM" "rev"], []);
   ((Some "ts"), None, ["cat"], [], [CDim "cat"], [1]);
   ((Some "ts"), None, ["cat"], ["rev"], [CDim "cat"; CAgg "SUM" "rev"], [1]);
   ((Some "ts"), None, ["cat"], ["cnt"; "cntv"], [CDim "cat"; CAgg "COUNT*" "cnt"; CAgg "COUNT" "cntv"], [1]);
   ((Some "ts"), None, ["cat"], ["mn"; "mx"; "av"], [CDim "cat"; CAgg "MIN" "mn"; CAgg "MAX" "mx"; CAgg "AVG" "av"], [1]);
   ((Some "ts"), None, ["cat"], ["cd"; "med"; "rev"], [CDim "cat"; CAgg "COUNT DISTINCT" "cd"; CAgg "MEDIAN" "med"; CAgg "SUM" "rev"], [1]);
   ((Some "ts"), None, ["cat"], ["nope"; "rev"], [CDim "cat"; CAgg "SUM" "rev"], [1]);
   ((Some "ts"), None, ["cat"; "reg"], [], [CDim "cat"; CDim "reg"], [1; 2]);
   ((Some "ts"), None, ["cat"; "reg"], ["rev"], [CDim "cat"; CDim "reg"; CAgg "SUM" "rev"], [1; 2]);
   ((Some "ts"), None, ["cat"; "reg"], ["cnt"; "cntv"], [CDim "cat"; CDim "reg"; CAgg "COUNT*" "cnt"; CAgg "COUNT" "cntv"], [1; 2]);
   ((Some "ts"), None, ["cat"; "reg"], ["mn"; "mx"; "av"], [CDim "cat"; CDim "reg"; CAgg "MIN" "mn"; CAgg "MAX" "mx"; CAgg "AVG" "av"], [1; 2]);
   ((Some "ts"), None, ["cat"; "reg"], ["cd"; "med"; "rev"], [CDim "cat"; CDim "reg"; CAgg "COUNT DISTINCT" "cd"; CAgg "MEDIAN" "med"; CAgg "SUM" "rev"], [1; 2]);
   ((Some "ts"), None, ["cat"; "reg"], ["nope"; "rev"], [CDim "cat"; CDim "reg"; CAgg "SUM" "rev"], [1; 2]);
   ((Some "ts"), None, ["reg"; "nope"], [], [CDim "reg"], [1]);
   ((Some "ts"), None, ["reg"; "nope"], ["rev"], [CDim "reg"; CAgg "SUM" "rev"], [1]);
   ((Some "ts"), None, ["reg"; "nope"], ["cnt"; "cntv"], [CDim "reg"; CAgg "COUNT*" "cnt"; CAgg "COUNT" "cntv"], [1]);
   ((Some "ts"), None, ["reg"; "nope"], ["mn"; "mx"; "av"], [CDim "reg"; CAgg "MIN" "mn"; CAgg "MAX" "mx"; CAgg "AVG" "av"], [1]);
   ((Some "ts"), None, ["reg"; "nope"], ["cd"; "med"; "rev"], [CDim "reg"; CAgg "COUNT DISTINCT" "cd"; CAgg "MEDIAN" "med"; CAgg "SUM" "rev"], [1]);
   ((Some "ts"), None, ["reg"; "nope"], ["nope"; "rev"], [CDim "reg"; CAgg "SUM" "rev"], [1]);
   ((Some "nope"), (Some "day"), [], [], [], []);
   ((Some "nope"), (Some "day"), [], ["rev"], [CAgg "SUM" "rev"], []);
   ((Some "nope"), (Some "day"), [], ["cnt"; "cntv"], [CAgg "COUNT*" "cnt"; CAgg "COUNT" "cntv"], []);
   ((Some "nope"), (Some "day"), [], ["mn"; "mx"; "av"], [CAgg "MIN" "mn"; CAgg "MAX" "mx"; CAgg "AVG" "av"], []);
   ((Some "nope"), (Some "day"), [], ["cd"; "med"; "rev"], [CAgg "COUNT DISTINCT" "cd"; CAgg "MEDIAN" "med"; CAgg "SUM" "rev"], []);
   ((Some "nope"), (Some "day"), [], ["nope"; "rev"], [CAgg "SUM" "rev"], []);
   ((Some "nope"), (Some "day"), ["cat"], [], [CDim "cat"], [1]);
   ((Some "nope"), (Some "day"), ["cat"], ["rev"], [CDim "cat"; CAgg "SUM" "rev"], [1]);
   ((Some "nope"), (Some "day"), ["cat"], ["cnt"; "cntv"], [CDim "cat"; CAgg "COUNT*" "cnt"; CAgg "COUNT" "cntv"], [1]);
   ((Some "nope"), (Some "day"), ["cat"], ["mn"; "mx"; "av"], [CDim "cat"; CAgg "MIN" "mn"; CAgg "MAX" "mx"; CAgg "AVG" "av"], [1]);
   ((Some "nope"), (Some "day"), ["cat"], ["cd"; "med"; "rev"], [CDim "cat"; CAgg "COUNT DISTINCT" "cd"; CAgg "MEDIAN" "med"; CAgg "SUM" "rev"], [1]);
   ((Some "nope"), (Some "day"), ["cat"], ["nope"; "rev"], [CDim "cat"; CAgg "SUM" "rev"], [1]);
   ((Some "nope"), (Some "day"), ["cat"; "reg"], [], [CDim "cat"; CDim "reg"], [1; 2]);
   ((Some "nope"), (Some "day"), ["cat"; "reg"], ["rev"], [CDim "cat"; CDim "reg"; CAgg "SUM" "rev"], [1; 2]);
   ((Some "nope"), (Some "day"), ["cat"; "reg"], ["cnt"; "cntv"], [CDim "cat"; CDim "reg"; CAgg "COUNT*" "cnt"; CAgg "COUNT" "cntv"], [1; 2]);
   ((Some "nope"), (Some "day"), ["cat"; "reg"], ["mn"; "mx"; "av"], [CDim "cat"; CDim "reg"; CAgg "MIN" "mn"; CAgg "MAX" "mx"; CAgg "AVG" "av"], [1; 2]);
   ((Some "nope"), (Some "day"), ["cat"; "reg"], ["cd"; "med"; "rev"], [CDim "cat"; CDim "reg"; CAgg "COUNT DISTINCT" "cd"; CAgg "MEDIAN" "med"; CAgg "SUM" "rev"], [1; 2]);
   ((Some "nope"), (Some "day"), ["cat"; "reg"], ["nope"; "rev"], [CDim "cat"; CDim "reg"; CAgg "SUM" "rev"], [1; 2]);
   ((Some "nope"), (Some "day"), ["reg"; "nope"], [], [CDim "reg"], [1]);
   ((Some "nope"), (Some "day"), ["reg"; "nope"], ["rev"], [CDim "reg"; CAgg "SUM" "rev"], [1]);
   ((Some "nope"), (Some "day"), ["reg"; "nope"], ["cnt"; "cntv"], [CDim "reg"; CAgg "COUNT*" "cnt"; CAgg "COUNT" "cntv"], [1]);
   ((Some "nope"), (Some "day"), ["reg"; "nope"], ["mn"; "mx"; "av"], [CDim "reg"; CAgg "MIN" "mn"; CAgg "MAX" "mx"; CAgg "AVG" "av"], [1]);
   ((Some "nope"), (Some "day"), ["reg"; "nope"], ["cd"; "med"; "rev"], [CDim "reg"; CAgg "COUNT DISTINCT" "cd"; CAgg "MEDIAN" "med"; CAgg "SUM" "rev"], [1]);
   ((Some "nope"), (Some "day"), ["reg"; "nope"], ["nope"; "rev"], [CDim "reg"; CAgg "SUM" "rev"], [1])].
