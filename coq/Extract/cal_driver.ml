(* reads "<gran> <t>" per line (gran in hour day week month quarter year, t = microseconds since epoch), prints trunc gran t *)

let gran_of = function "hour" -> Hour | "day" -> Day | "week" -> Week | "month" -> Month | "quarter" -> Quarter | "year" -> Year | s -> failwith ("gran " ^ s)
let () =
  try while true do
    let line = input_line stdin in
    match String.split_on_char ' ' line with
    | [g; t] -> print_string (string_of_int (int_of_z (trunc (gran_of g) (z_of_int (int_of_string t))))); print_newline ()
    | _ -> ()
  done with End_of_file -> ()
