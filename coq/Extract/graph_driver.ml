(* line protocol (fields separated by one space, lists by commas, "-" = None, "~" = empty string):
     G                      start a new graph
     M name pk nrels        model (pk: -, s:<col>, l:<c1,c2>)
     R name type fk pk through tfk rfk
     Q a b                  print the outcome of find_relationship_path
     V m1,m2,...            print unjoinable pairs among the listed models
     A a                    print adjacency of a *)
let s (x : string) : char list = List.init (String.length x) (String.get x)
let str (l : char list) : string = String.of_seq (List.to_seq l)
let unesc x = if x = "~" then "" else x
let split_list x = if x = "" then [] else List.map (fun y -> s (unesc y)) (String.split_on_char ',' x)
let key_of x = if x = "-" then KNone else if String.length x >= 2 && String.sub x 0 2 = "s:" then KStr (s (unesc (String.sub x 2 (String.length x - 2))))
  else KList (split_list (String.sub x 2 (String.length x - 2)))
let opt_of x = if x = "-" then None else Some (s (unesc x))
let show_edge a e b = Printf.sprintf "%s>%s[%s|%s]%s" (str a) (str b) (String.concat "," (List.map str e.e_from_keys)) (String.concat "," (List.map str e.e_to_keys)) (str e.e_type)
let show = function
  | KeyErr -> "KEYERR" | NoJoinPath -> "NOPATH"
  | Path p -> "P:" ^ String.concat ";" (List.map (fun ((a, e), b) -> show_edge a e b) p)
let () =
  let models = ref [] in          (* reversed *)
  let cur = ref None in
  let flush () = (match !cur with Some (n, pk, rels) -> models := { g_name = n; g_pk = pk; g_rels = List.rev rels } :: !models | None -> ()); cur := None in
  let graph () = flush (); List.rev !models in
  try while true do
    let line = input_line stdin in
    match String.split_on_char ' ' line with
    | ["G"] -> models := []; cur := None
    | ["M"; n; pk; _] -> flush (); cur := Some (s n, key_of pk, [])
    | ["R"; n; ty; fk; pk; th; tfk; rfk] ->
        (match !cur with Some (mn, mpk, rels) ->
           cur := Some (mn, mpk, { r_name = s n; r_type = s ty; r_fk = key_of fk; r_pk = key_of pk; r_through = opt_of th; r_tfk = opt_of tfk; r_rfk = opt_of rfk } :: rels)
         | None -> failwith "R before M")
    | ["Q"; a; b] -> print_endline (show (find_relationship_path (graph ()) (s a) (s b)))
    | ["V"; ms] -> print_endline (String.concat ";" (List.map (fun (a, b) -> str a ^ "," ^ str b) (unjoinable_pairs (graph ()) (split_list ms))))
    | ["A"; a] -> print_endline (String.concat ";" (List.map (fun e -> show_edge (s a) e e.e_to) (adj (graph ()) (s a))))
    | ["F"; n; ty; fk] -> print_endline (String.concat "," (List.map str (foreign_key_columns (s (unesc n)) (s ty) (key_of fk))))
    | ["P"; pk] -> print_endline (String.concat "," (List.map str (rel_primary_key_columns (key_of pk))))
    | ["MP"; pk] -> print_endline (String.concat "," (List.map str (model_primary_key_columns (key_of pk))))
    | ["J"; ty; fk; tfk; rfk] ->
        let (a, b) = junction_keys (s ty) (key_of fk) (opt_of tfk) (opt_of rfk) in
        print_endline ((match a with KNone -> "-" | KStr x -> "s:" ^ str x | KList l -> "l:" ^ String.concat "," (List.map str l)) ^ " " ^ (match b with None -> "-" | Some x -> str x))
    | ["I"; t] -> print_endline (str (invert_relationship (s t)))
    | _ -> ()
  done with End_of_file -> ()
