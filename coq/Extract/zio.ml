(* conversions between the extracted Coq Z / positive and OCaml native ints (I/O only; 62-bit range) *)
let rec pos_of_int (n : int) : positive =
  if n = 1 then XH else if n land 1 = 0 then XO (pos_of_int (n lsr 1)) else XI (pos_of_int (n lsr 1))
let z_of_int (n : int) : z = if n = 0 then Z0 else if n > 0 then Zpos (pos_of_int n) else Zneg (pos_of_int (-n))
let rec int_of_pos (p : positive) : int = match p with XH -> 1 | XO q -> 2 * int_of_pos q | XI q -> 2 * int_of_pos q + 1
let int_of_z (z : z) : int = match z with Z0 -> 0 | Zpos p -> int_of_pos p | Zneg p -> - (int_of_pos p)
