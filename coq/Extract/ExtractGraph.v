(* Extraction of the graph / path model for volume correspondence.  ExtrOcamlBasic + ExtrOcamlString directives only
   (ascii -> char, string -> char list). *)
From Coq Require Import String Extraction ExtrOcamlBasic ExtrOcamlString.
Require Import V.Base.PyLib V.Gen.RelKeys_gen V.Model.Graph.
Extraction "Extract/graph_model.ml" find_relationship_path unjoinable_pairs adj foreign_key_columns rel_primary_key_columns junction_keys model_primary_key_columns invert_relationship.
