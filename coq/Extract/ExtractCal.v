(* Extraction of the calendar model for volume correspondence against DuckDB's DATE_TRUNC.
   Directives used: those of ExtrOcamlBasic only (bool, option, unit, list, prod, sumbool, sumor -> OCaml); Z/positive stay Coq datatypes. *)
From Coq Require Import ZArith Extraction ExtrOcamlBasic.
Require Import V.Base.Calendar V.Base.CalendarFacts.
Extraction "Extract/cal_model.ml" trunc civil days_from_civil.
