From Coq Require Import String List Bool.
Require Import V.Model.Effects.
Import ListNotations.

Lemma eff_eqb_eq : forall a b, eff_eqb a b = true -> a = b.
Proof.
  intros [[a1 a2] a3] [[b1 b2] b3] H. unfold eff_eqb in H. cbn [fst snd] in H.
  apply andb_true_iff in H. destruct H as [H H3]. apply andb_true_iff in H. destruct H as [H1 H2].
  apply String.eqb_eq in H1. apply String.eqb_eq in H2. apply String.eqb_eq in H3. subst. reflexivity.
Qed.

Lemma effects_closed_spec : forall l, effects_closed l = true -> forall e, In e l -> In e (modelled_writes ++ call_local_writes).
Proof.
  intros l H e He. unfold effects_closed in H. rewrite forallb_forall in H. specialize (H e He).
  unfold accounted in H. apply existsb_exists in H. destruct H as [x [Hx Hq]]. apply eff_eqb_eq in Hq. subst. exact Hx.
Qed.

(* a memo table on the graph, a process-wide cache, a functools cache on a helper, a caller's list extended in place: none is accounted for *)
Lemma unaccounted_examples :
  effects_closed [("sidemantic/core/semantic_graph.py:SemanticGraph.fanout_models", "store", "self._fanout_cache[]")] = false /\
  effects_closed [("sidemantic/core/preagg_matcher.py:PreAggregationMatcher._extract_filter_columns", "global", "_FILTER_COLUMNS_CACHE _FILTER_COLUMNS_CACHE[]")] = false /\
  effects_closed [("sidemantic/sql/generator.py:_parse_condition", "decorator", "lru_cache")] = false /\
  effects_closed [("sidemantic/sql/generator.py:SQLGenerator.generate", "argument", "filters via _prepare_filters(filters)")] = false.
Proof. vm_compute. repeat split; reflexivity. Qed.
