(* The extraction model against the regenerated behaviour table of QueryRewriter._extract_metrics_and_dimensions (Gen/RewriterTable_gen.v). *)
From Coq Require Import String List Bool.
Require Import V.Model.Rewriter V.Gen.RewriterTable_gen.
Import ListNotations.
Open Scope string_scope.

(* the method keeps aliases in a dict: a later alias of the same reference replaces the earlier one, at the earlier one's position *)
Fixpoint dict_set (k v : string) (l : list (string * string)) : list (string * string) :=
  match l with
  | [] => [(k, v)]
  | (k', v') :: r => if String.eqb k k' then (k, v) :: r else (k', v') :: dict_set k v r
  end.
Definition as_dict (l : list (string * string)) : list (string * string) := fold_left (fun acc kv => dict_set (fst kv) (snd kv) acc) l [].
Fixpoint strs_eqb (a b : list string) : bool :=
  match a, b with [], [] => true | x :: a', y :: b' => String.eqb x y && strs_eqb a' b' | _, _ => false end.
Fixpoint pairs_eqb (a b : list (string * string)) : bool :=
  match a, b with
  | [], [] => true
  | (x1, x2) :: a', (y1, y2) :: b' => String.eqb x1 y1 && String.eqb x2 y2 && pairs_eqb a' b'
  | _, _ => false
  end.
Definition extract_row_ok (row : option string * list proj * option (list string * list string * list (string * string))) : bool :=
  let '(inf, ps, res) := row in
  match extract_projs table_graph inf ps, res with
  | None, None => true
  | Some (m, d, a), Some (m', d', a') => strs_eqb m m' && strs_eqb d d' && pairs_eqb (as_dict a) a'
  | _, _ => false
  end.

Lemma extract_table_ok : forallb extract_row_ok extract_rows = true.
Proof. vm_compute. reflexivity. Qed.

(* WHERE splitting *)
Definition filter_row_ok (row : option wexpr * list string) : bool :=
  let '(w, res) := row in strs_eqb (match w with Some t => extract_filters t | None => [] end) res.
Lemma filter_table_ok : forallb filter_row_ok filter_rows = true.
Proof. vm_compute. reflexivity. Qed.
