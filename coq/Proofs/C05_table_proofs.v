(* The extraction model against the regenerated behaviour table of QueryRewriter._extract_metrics_and_dimensions (Gen/RewriterTable_gen.v). *)
From Coq Require Import String List Bool.
Require Import V.Model.Rewriter V.Gen.RewriterTable_gen.
Import ListNotations.
Open Scope string_scope.

(* the method keeps aliases in a dict: a later alias of the same reference replaces the earlier one, at the earlier one's position *)
Fixpoint dict_set (k v : string) (l : list (string * string)) : list (string * string) :=
  match l with
  | [] => [(k, v)]
  | (k', v') :: r => if String.eqb k k' then (k, v) :: r else (k', v') :: dict_set k v r
  end.
Definition as_dict (l : list (string * string)) : list (string * string) := fold_left (fun acc kv => dict_set (fst kv) (snd kv) acc) l [].
Fixpoint strs_eqb (a b : list string) : bool :=
  match a, b with [], [] => true | x :: a', y :: b' => String.eqb x y && strs_eqb a' b' | _, _ => false end.
Fixpoint pairs_eqb (a b : list (string * string)) : bool :=
  match a, b with
  | [], [] => true
  | (x1, x2) :: a', (y1, y2) :: b' => String.eqb x1 y1 && String.eqb x2 y2 && pairs_eqb a' b'
  | _, _ => false
  end.
Definition extract_row_ok (row : option string * list proj * option (list string * list string * list (string * string))) : bool :=
  let '(inf, ps, res) := row in
  match extract_projs table_graph inf ps, res with
  | None, None => true
  | Some (m, d, a), Some (m', d', a') => strs_eqb m m' && strs_eqb d d' && pairs_eqb (as_dict a) a'
  | _, _ => false
  end.

Lemma extract_table_ok : forallb extract_row_ok extract_rows = true.
Proof. vm_compute. reflexivity. Qed.

(* WHERE splitting.  Before it is split, an unqualified column of the WHERE clause is attributed to the single FROM table when that table is a registered model
   (not the virtual table `metrics`): _extract_filters passes the clause through _qualify_unaliased_columns(where, table) exactly then.  In the table the scripted
   qualification marks every atom it touched as <table>:<atom>. *)
Fixpoint wmap (f : string -> string) (w : wexpr) : wexpr :=
  match w with WAtom t => WAtom (f t) | WAnd a b => WAnd (wmap f a) (wmap f b) | WOr a b => WOr (wmap f a) (wmap f b) end.
Definition qualifies (g : rgraph) (inf : option string) : option string :=
  match inf with
  | Some t => if String.eqb t "metrics" then None else match find_rm (rg_models g) t with Some _ => Some t | None => None end
  | None => None
  end.
Definition filters_of (g : rgraph) (inf : option string) (w : option wexpr) : list string :=
  match w with
  | None => []
  | Some t => extract_filters (match qualifies g inf with Some m => wmap (fun a => m ++ ":" ++ a) t | None => t end)
  end.
Definition filter_row_ok (row : option string * option wexpr * list string) : bool :=
  let '(inf, w, res) := row in strs_eqb (filters_of table_graph inf w) res.
Lemma filter_table_ok : forallb filter_row_ok filter_rows = true.
Proof. vm_compute. reflexivity. Qed.

(* qualification does not change how the clause is split: the same number of filters, an OR still kept whole *)
Lemma extract_filters_wmap_length : forall f w, length (extract_filters (wmap f w)) = length (extract_filters w).
Proof.
  induction w as [t|a IHa b IHb|a IHa b IHb]; cbn [wmap extract_filters]; [reflexivity| |reflexivity].
  rewrite !app_length, IHa, IHb. reflexivity.
Qed.
