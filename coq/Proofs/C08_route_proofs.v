From Coq Require Import String List Bool.
Require Import V.Model.Valid V.Model.TryRoute V.Gen.TryRoute_gen.
Import ListNotations.
Open Scope string_scope.

Lemma tryroute_table_ok : forallb tryroute_row_ok tryroute_rows = true.
Proof. vm_compute. reflexivity. Qed.

Lemma mem_s_In : forall x l, mem_s x l = true <-> In x l.
Proof.
  intros x l. unfold mem_s. rewrite existsb_exists. split.
  - intros [y [Hy He]]. apply String.eqb_eq in He. subst. exact Hy.
  - intros H. exists x. split; [exact H|apply String.eqb_refl].
Qed.

(* every granularity some dimension carries is in the list of requested granularities (or was seen before) *)
Lemma grans_of_complete : forall dims seen d g, In (d, Some g) dims -> In g (grans_of dims seen) \/ In g seen.
Proof.
  induction dims as [|[d0 [g0|]] r IH]; intros seen d g H; cbn [grans_of].
  - destruct H.
  - destruct H as [H|H].
    + inversion H; subst. destruct (mem_s g seen) eqn:E; [right; apply mem_s_In; exact E|left; left; reflexivity].
    + destruct (mem_s g0 seen) eqn:E.
      * apply (IH seen d g H).
      * destruct (IH (g0 :: seen) d g H) as [H1|[H1|H1]]; [left; right; exact H1|left; left; exact H1|right; exact H1].
  - destruct H as [H|H]; [inversion H|]. apply (IH seen d g H).
Qed.

Lemma recheck_sound : forall asked req serves, fst (recheck asked req serves) = true -> forall g, In g req -> opt_is asked g = true \/ In g serves.
Proof.
  induction req as [|g0 r IH]; intros serves H g Hg; [destruct Hg|].
  cbn [recheck] in H. destruct (opt_is asked g0) eqn:Ea.
  - destruct Hg as [Hg|Hg]; [subst; left; exact Ea|apply IH; assumption].
  - destruct (mem_s g0 serves) eqn:Em.
    + destruct (recheck asked r serves) as [ok l] eqn:Er. cbn [fst] in H. subst ok.
      destruct Hg as [Hg|Hg]; [subst; right; apply mem_s_In; exact Em|].
      apply IH; [rewrite Er; reflexivity|exact Hg].
    + cbn [fst] in H. discriminate.
Qed.

(* a routed query: EVERY granularity requested by some dimension is the one the matcher was asked about, or one the matched rollup serves *)
Theorem try_route_all_granularities : forall model is_time hp dims mets filters find serves,
  fst (fst (try_route model is_time hp dims mets filters find serves)) = true ->
  forall d g, In (d, Some g) dims -> opt_is (last_gran dims None) g = true \/ In g serves.
Proof.
  intros model is_time hp dims mets filters find serves H d g Hd. unfold try_route in H.
  destruct (negb hp); [cbn in H; discriminate|].
  destruct (existsb _ dims); [cbn in H; discriminate|].
  destruct (negb find); [cbn in H; discriminate|].
  destruct (recheck (last_gran dims None) (grans_of dims []) serves) as [ok l] eqn:Er. cbn [fst] in H. subst ok.
  destruct (grans_of_complete dims [] d g Hd) as [Hin|[]].
  apply (recheck_sound (last_gran dims None) (grans_of dims []) serves); [rewrite Er; reflexivity|exact Hin].
Qed.

(* ... and the matcher was asked, so a routed query never bypasses it; a bare time dimension or a model without rollups is never routed *)
Theorem try_route_asks : forall model is_time hp dims mets filters find serves,
  fst (fst (try_route model is_time hp dims mets filters find serves)) = true ->
  hp = true /\ find = true /\
  forallb (fun d => match snd d with None => negb (is_time (strip_model (fst d))) | Some _ => true end) dims = true.
Proof.
  intros model is_time hp dims mets filters find serves H. unfold try_route in H.
  destruct hp; [|cbn in H; discriminate]. cbn [negb] in H.
  destruct (existsb _ dims) eqn:Ex; [cbn in H; discriminate|].
  destruct find; [|cbn in H; discriminate].
  repeat split. apply forallb_forall. intros x Hx.
  destruct (snd x) eqn:Es; [reflexivity|].
  destruct (is_time (strip_model (fst x))) eqn:Et; [|reflexivity].
  exfalso. assert (existsb (fun d => match snd d with None => is_time (strip_model (fst d)) | Some _ => false end) dims = true) as Hc.
  { apply existsb_exists. exists x. split; [exact Hx|]. rewrite Es. exact Et. }
  rewrite Hc in Ex. discriminate.
Qed.
