(* C19: for the build-locally / publish-once / snapshot-once skeleton, every finished call only ever read the serial
   adjacency, for ANY number of threads and ANY schedule. *)
From Coq Require Import List Arith Bool Lia.
Require Import V.Model.Conc.
Import ListNotations.

Section Safe.
Variable A : Type.
Variable good a0 empty : A.
Notation shared := (shared A).
Notation local := (local A).
Notation stepF := (step A good empty fixed_prog).
Notation runF := (run A good empty fixed_prog).

Definition linv (sh : shared) (l : local) : Prop :=
  (pc A l = 2 -> loc A l = good) /\ (pc A l = 3 -> val A sh = good) /\ (pc A l = 4 -> val A sh = good) /\
  (pc A l = 5 -> snap A l = good) /\ Forall (fun x => x = good) (reads A l) /\ pc A l <= 6.
Definition Inv (s : state A) : Prop :=
  (dirty A (fst s) = false -> val A (fst s) = good) /\ Forall (linv (fst s)) (snd s).

Lemma Forall_update {P : local -> Prop} ls i l : Forall P ls -> P l -> Forall P (update A ls i l).
Proof. revert i; induction ls as [|x r IH]; intros i H Hl; cbn; [constructor|]. inversion H; subst. destruct i; constructor; auto. Qed.
Lemma nth_error_Forall {P : local -> Prop} ls i l : Forall P ls -> nth_error ls i = Some l -> P l.
Proof. intros H E. rewrite Forall_forall in H. apply H. eapply nth_error_In; eauto. Qed.

Lemma linv_mono sh sh' l : linv sh l -> (val A sh = good -> val A sh' = good) -> linv sh' l.
Proof.
  intros (H2 & H3 & H4 & H5 & H6 & H7) Hv. unfold linv.
  split; [exact H2|]. split; [intros E; apply Hv, H3, E|]. split; [intros E; apply Hv, H4, E|]. split; [exact H5|]. split; [exact H6|exact H7].
Qed.

Ltac slinv := unfold linv; cbn; repeat split; try lia; try (let H := fresh "HH" in intros H; try discriminate H).

Lemma step_inv s i : Inv s -> Inv (stepF s i).
Proof.
  intros [Hd Hf]. unfold step. destruct s as [sh ls]. cbn [fst snd] in *.
  destruct (nth_error ls i) as [l|] eqn:E; [|split; assumption].
  pose proof (nth_error_Forall ls i l Hf E) as (L2 & L3 & L4 & L5 & L6 & L7).
  unfold step_thread, fixed_prog.
  destruct (pc A l) as [|[|[|[|[|[|[|n]]]]]]] eqn:Epc; cbn [nth_error fst snd]; try lia.
  - (* 0: read the flag *) split; [exact Hd|]. apply Forall_update; [exact Hf|].
    destruct (dirty A sh) eqn:Ed; slinv; auto; try (apply Hd; reflexivity).
  - (* 1: local build *) split; [exact Hd|]. apply Forall_update; [exact Hf|]. slinv; auto.
  - (* 2: publish *) rewrite (L2 eq_refl). split; [cbn; auto|].
    apply Forall_update.
    + eapply Forall_impl; [|exact Hf]. intros x Hx. eapply linv_mono; [exact Hx|]. cbn. auto.
    + slinv; auto.
  - (* 3: clear the flag *) split; [cbn; intros _; apply L3; reflexivity|].
    apply Forall_update.
    + eapply Forall_impl; [|exact Hf]. intros x Hx. eapply linv_mono; [exact Hx|]. cbn. auto.
    + slinv; auto; try (apply L3; reflexivity).
  - (* 4: snapshot *) split; [exact Hd|]. apply Forall_update; [exact Hf|]. slinv; auto; try (apply L4; reflexivity).
  - (* 5: search over the snapshot *) split; [exact Hd|]. apply Forall_update; [exact Hf|]. slinv; auto;
    try (constructor; [apply L5; reflexivity|exact L6]).
  - (* finished *) split; [exact Hd|]. apply Forall_update; [exact Hf|]. unfold linv. rewrite Epc. repeat split; auto; intros; try lia.
Qed.

Lemma init_inv n : Inv (init A a0 n).
Proof.
  split; [cbn; discriminate|]. cbn. apply Forall_forall. intros l Hl. apply repeat_spec in Hl. subst. slinv. constructor.
Qed.

Lemma run_inv sched : forall s, Inv s -> Inv (runF sched s).
Proof. induction sched as [|i r IH]; intros s Hs; cbn; [exact Hs|]. apply IH, step_inv, Hs. Qed.

Theorem fixed_safe n sched l :
  In l (snd (runF sched (init A a0 n))) -> Forall (fun x => x = good) (reads A l).
Proof.
  intros Hin. destruct (run_inv sched _ (init_inv n)) as [_ Hf]. rewrite Forall_forall in Hf.
  destruct (Hf l Hin) as (_ & _ & _ & _ & L6 & _). exact L6.
Qed.

(* the cache invariant (also used by C15): once the flag is clean the published dict is the serial adjacency *)
Theorem fixed_cache_inv n sched : let s := runF sched (init A a0 n) in dirty A (fst s) = false -> val A (fst s) = good.
Proof. cbn. destruct (run_inv sched _ (init_inv n)) as [Hd _]. exact Hd. Qed.

(* progress / non-vacuity: a thread that is scheduled 6 times finishes and has performed its read *)
Lemma single_thread_reads : let s := runF [0;0;0;0;0;0] (init A a0 1) in
  exists l, snd s = [l] /\ finished A fixed_prog l = true /\ reads A l = [good].
Proof. cbn. eexists. repeat split. Qed.
End Safe.

(* the clear-and-refill skeleton is NOT safe: a concrete two-thread schedule after which a finished call has read the cleared dict *)
Definition buggy_prog : list action := [IfDirty 3; ClearInPlace; FillInPlace; SetFlagFalse; ReadShared; ReadShared].
Definition bad_sched := [1; 0; 0; 0; 0; 0; 1; 0; 1; 1; 1; 1; 1].
Example buggy_refuted : all_reads_good buggy_prog 2 bad_sched = false /\ all_finished buggy_prog 2 bad_sched = true.
Proof. vm_compute. split; reflexivity. Qed.
