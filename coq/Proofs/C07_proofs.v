(* C07: calendar floors for every timestamp, additive roll-up of sum / count, default time dimension iff. *)
From Coq Require Import ZArith String List Bool Lia.
Require Import V.Base.Calendar V.Base.CalendarFacts V.Model.Refresh V.Proofs.C18_proofs V.Proofs.Regroup_proofs V.Model.TimeDim.
Import ListNotations.

(* q-buckets are unions of p-buckets exactly when every q-boundary is a p-boundary *)
Definition nested (q p : gran) : Prop :=
  match q, p with
  | Hour, Hour | Day, (Hour|Day) | Week, (Hour|Day|Week) | Month, (Hour|Day|Month)
  | Quarter, (Hour|Day|Month|Quarter) | Year, (Hour|Day|Month|Quarter|Year) => True
  | _, _ => False end.

Lemma trunc_compose q p t : nested q p -> trunc q (trunc p t) = trunc q t.
Proof. intros H. apply (floor_compose _ _ _ _ (trunc_floor q) (trunc_floor p)). apply boundary_incl. exact H. Qed.

Open Scope Z_scope.
(* additive roll-up: the SUM at a coarse bucket B (for a value d of the other dimension) = the sum, over the fine buckets that
   truncate to B, of the fine SUMs -- for every table and every timestamp *)
Theorem additive_sum q p (B d : Z) (b : list brow) : nested q p ->
  zsum (map r_sum (filter (fun x => (trunc q (r_bucket x) =? B) && (r_dim x =? d)) (materialize (trunc p) b)))
  = zsum (map b_v (filter (fun y => (trunc q (b_ts y) =? B) && (b_dim y =? d)) b)).
Proof.
  intros H. set (pk := fun k : Z * Z => (trunc q (fst k) =? B) && (snd k =? d)).
  transitivity (zsum (map b_v (filter (fun y => pk (bkey (trunc p) y)) b))); [exact (sum_regroup (trunc p) pk b)|].
  f_equal. f_equal. apply filter_ext. intros y. unfold pk, bkey. cbn [fst snd]. rewrite trunc_compose by exact H. reflexivity.
Qed.
Theorem additive_count q p (B d : Z) (b : list brow) : nested q p ->
  zsum (map r_cnt (filter (fun x => (trunc q (r_bucket x) =? B) && (r_dim x =? d)) (materialize (trunc p) b)))
  = Z.of_nat (length (filter (fun y => (trunc q (b_ts y) =? B) && (b_dim y =? d)) b)).
Proof.
  intros H. set (pk := fun k : Z * Z => (trunc q (fst k) =? B) && (snd k =? d)).
  transitivity (Z.of_nat (length (filter (fun y => pk (bkey (trunc p) y)) b))); [exact (count_regroup (trunc p) pk b)|].
  f_equal. f_equal. apply filter_ext. intros y. unfold pk, bkey. cbn [fst snd]. rewrite trunc_compose by exact H. reflexivity.
Qed.
(* weeks do not nest into months: a witness where re-truncation changes the bucket *)
Example week_not_nested : trunc Month (trunc Week 1706745600000000) <> trunc Month 1706745600000000.   (* Thu 2024-02-01 *)
Proof. vm_compute. discriminate. Qed.
Close Scope Z_scope.

(* ---------- default time dimension ---------- *)
Open Scope string_scope.
(* the added references are exactly: for the FIRST occurrence of each metric model that has a default time dimension and no
   time dimension among the requested dimensions (and was not served before), its default reference unless already requested *)
Lemma add_defaults_in ms dims : forall mm wt ck added r,
  In r (add_defaults ms dims mm wt ck added) ->
  In r added \/ (exists m, find_tm ms (dr_model r) = Some m /\ In (dr_model r) mm /\ tm_default m = Some (dr_dim r) /\ dr_gran r = tm_grain m
                           /\ mem_s (dr_model r) wt = false /\ existsb (dref_eqb r) dims = false).
Proof.
  induction mm as [|mn mm IH]; intros wt ck added r H; cbn [add_defaults] in H; [left; exact H|].
  destruct (mem_s mn ck).
  { destruct (IH _ _ _ _ H) as [|(m & A & B & C)]; [left; assumption|right; exists m; repeat split; try tauto; right; tauto]. }
  destruct (find_tm ms mn) as [m|] eqn:Em.
  2: { destruct (IH _ _ _ _ H) as [|(m & A & B & C)]; [left; assumption|right; exists m; repeat split; try tauto; right; tauto]. }
  destruct (tm_default m) as [d|] eqn:Ed.
  2: { destruct (IH _ _ _ _ H) as [|(m' & A & B & C)]; [left; assumption|right; exists m'; repeat split; try tauto; right; tauto]. }
  destruct (mem_s mn wt) eqn:Ew.
  { destruct (IH _ _ _ _ H) as [|(m' & A & B & C)]; [left; assumption|right; exists m'; repeat split; try tauto; right; tauto]. }
  set (ref := {| dr_model := mn; dr_dim := d; dr_gran := tm_grain m |}) in *.
  destruct (IH _ _ _ _ H) as [Hin|(m' & A & B & C & D & E & F)].
  - destruct (existsb (dref_eqb ref) dims || existsb (dref_eqb ref) added) eqn:Ex; [left; exact Hin|].
    apply in_app_or in Hin. destruct Hin as [Hin|[<-|[]]]; [left; exact Hin|].
    right. exists m. cbn [dr_model dr_dim dr_gran]. apply orb_false_iff in Ex. destruct Ex as [Ex _].
    repeat split; auto. left. reflexivity.
  - right. exists m'. repeat split; auto; [right; exact B|].
    cbn [mem_s existsb] in E. apply orb_false_iff in E. tauto.
Qed.

(* soundness direction of the iff, on the full function: a dimension that was added belongs to a model with a requested (dotted)
   metric, is that model's default time dimension at its default grain, and no time dimension of the model was requested *)
Theorem default_added_only_if ms metrics dims r :
  In r (apply_defaults ms metrics dims) -> ~ In r dims ->
  exists m, find_tm ms (dr_model r) = Some m /\ In (Some (dr_model r)) metrics /\ tm_default m = Some (dr_dim r) /\ dr_gran r = tm_grain m
            /\ mem_s (dr_model r) (models_with_time ms dims) = false.
Proof.
  unfold apply_defaults. intros H Hn. apply in_app_or in H. destruct H as [H|H]; [contradiction|].
  apply add_defaults_in in H. destruct H as [[]|(m & A & B & C & D & E & _)].
  exists m. repeat split; auto. apply in_flat_map in B. destruct B as ([x|] & Hx & Hm); [|destruct Hm]. destruct Hm as [<-|[]]. exact Hx.
Qed.
(* requested dimensions are never dropped or reordered *)
Theorem default_keeps_requested ms metrics dims : exists added, apply_defaults ms metrics dims = (dims ++ added)%list.
Proof. unfold apply_defaults. eauto. Qed.

(* non-vacuity / completeness on an example: added exactly when a metric of the model is requested and no time dimension of it is *)
Definition ex_models := [ {| tm_name := "orders"; tm_dims := [ {| td_name := "created"; td_is_time := true |}; {| td_name := "status"; td_is_time := false |} ];
                              tm_default := Some "created"; tm_grain := Some "month" |};
                           {| tm_name := "customers"; tm_dims := [ {| td_name := "signup"; td_is_time := true |} ]; tm_default := None; tm_grain := None |} ].
Example default_examples :
  apply_defaults ex_models [Some "orders"; None; Some "orders"] [ {| dr_model := "orders"; dr_dim := "status"; dr_gran := None |} ]
    = [ {| dr_model := "orders"; dr_dim := "status"; dr_gran := None |}; {| dr_model := "orders"; dr_dim := "created"; dr_gran := Some "month" |} ]
  /\ apply_defaults ex_models [Some "orders"] [ {| dr_model := "orders"; dr_dim := "created"; dr_gran := Some "day" |} ] = [ {| dr_model := "orders"; dr_dim := "created"; dr_gran := Some "day" |} ]
  /\ apply_defaults ex_models [Some "customers"; None] [] = []
  /\ gran_errors ex_models {| dr_model := "orders"; dr_dim := "status"; dr_gran := Some "month" |} = 1
  /\ gran_errors ex_models {| dr_model := "orders"; dr_dim := "created"; dr_gran := Some "month" |} = 0
  /\ gran_errors ex_models {| dr_model := "orders"; dr_dim := "created"; dr_gran := Some "fortnight" |} = 1.
Proof. repeat split; reflexivity. Qed.

(* a granularity on a non-time field is always an error *)
Theorem nontime_gran_rejected ms d g m : dr_gran d = Some g -> find_tm ms (dr_model d) = Some m ->
  existsb (fun x => String.eqb (td_name x) (dr_dim d)) (tm_dims m) = true -> is_time_dim m (dr_dim d) = false -> 1 <= gran_errors ms d.
Proof. intros Hg Hm He Ht. unfold gran_errors. rewrite Hg, Hm, He, Ht. cbn. lia. Qed.
