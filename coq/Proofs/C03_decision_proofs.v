(* Whether a query takes the multi-fact form: the verdict of _needs_preaggregation_for_fanout extracted from generator.py (Gen/MultiFact_gen.v) is the
   decision function below on every scripted scenario, and that function is Model/Plan.needs_multifact for any graph and query. *)
From Coq Require Import String List Bool Arith.
Require Import V.Base.PyLib V.Gen.RelKeys_gen V.Model.Graph V.Model.Sem V.Model.Single V.Model.Mult V.Model.Join V.Model.Plan V.Gen.MultiFact_gen
               V.Proofs.C02_symagg_proofs.
Import ListNotations.
Open Scope string_scope.

Definition has_m2o (p : option (list string)) : bool :=
  match p with Some l => existsb (fun t => String.eqb t "many_to_one") l | None => false end.
Fixpoint lookup_path (tbl : list (string * string * option (list string))) (a b : string) : option (list string) :=
  match tbl with
  | [] => None
  | (x, y, p) :: r => if String.eqb x a && String.eqb y b then p else lookup_path r a b
  end.
Definition somes_s (l : list (option string)) : list string := flat_map (fun o => match o with Some m => [m] | None => [] end) l.
(* at least two metrics, of at least two models, and some pair of metric models with a many_to_one hop on the path between them (either way) *)
Definition multifact_model (metrics : list (option string)) (path : string -> string -> option (list string)) : bool :=
  let mm := dedupe (somes_s metrics) [] in
  Nat.leb 2 (length metrics) && Nat.leb 2 (length mm) &&
  existsb (fun ab => has_m2o (path (fst ab) (snd ab)) || has_m2o (path (snd ab) (fst ab))) (pairs_of mm).
Definition multifact_row_ok (row : list (option string) * list (string * string * option (list string)) * bool) : bool :=
  let '(metrics, paths, verdict) := row in Bool.eqb (multifact_model metrics (lookup_path paths)) verdict.

Theorem multifact_table_ok : forallb multifact_row_ok multifact_rows = true.
Proof. vm_compute. reflexivity. Qed.

Lemma somes_map_some l : somes_s (map (fun m : pmetric => Some (pmt_model m)) l) = map pmt_model l.
Proof. unfold somes_s. induction l as [|x l IH]; [reflexivity|]. cbn. f_equal. exact IH. Qed.

Lemma path_has_m2o g a b : path_has g a b "many_to_one" = has_m2o (path_types g a b).
Proof.
  unfold path_has, path_types, has_m2o. destruct (find_relationship_path g a b) as [p| |]; try reflexivity.
  induction p as [|x p IH]; [reflexivity|]. cbn [existsb map]. rewrite IH. reflexivity.
Qed.

Theorem plan_multifact_is_model g q :
  needs_multifact g q = multifact_model (map (fun m => Some (pmt_model m)) (pq_metrics q)) (path_types g).
Proof.
  unfold needs_multifact, multifact_model. rewrite somes_map_some, map_length.
  f_equal. induction (pairs_of (dedupe (map pmt_model (pq_metrics q)) [])) as [|[a b] r IH]; [reflexivity|].
  cbn [existsb fst snd]. rewrite IH, !path_has_m2o. reflexivity.
Qed.
