From Coq Require Import String List Bool Arith.
Require Import V.Base.PyLib V.Model.Valid V.Model.Plan V.Model.Required V.Model.SmallFns V.Model.TryRoute V.Model.MultiFactShape V.Gen.MultiFactShape_gen.
Import ListNotations.
Open Scope string_scope.

Fixpoint strs_eqb (a b : list string) : bool := match a, b with [], [] => true | x :: a', y :: b' => String.eqb x y && strs_eqb a' b' | _, _ => false end.
Definition opt_eqb (a b : option string) : bool := match a, b with Some x, Some y => String.eqb x y | None, None => true | _, _ => false end.
Fixpoint list_eqb {A} (e : A -> A -> bool) (a b : list A) : bool := match a, b with [], [] => true | x :: a', y :: b' => e x y && list_eqb e a' b' | _, _ => false end.
Definition sub_eqb (a b : list string * list string * list string) : bool :=
  let '(a1, a2, a3) := a in let '(b1, b2, b3) := b in strs_eqb a1 b1 && strs_eqb a2 b2 && strs_eqb a3 b3.
Definition sel_eqb (a b : bool * list string * string) : bool :=
  let '(a1, a2, a3) := a in let '(b1, b2, b3) := b in Bool.eqb a1 b1 && strs_eqb a2 b2 && String.eqb a3 b3.
Definition join_eqb (a b : bool * string * list string) : bool :=
  let '(a1, a2, a3) := a in let '(b1, b2, b3) := b in Bool.eqb a1 b1 && String.eqb a2 b2 && strs_eqb a3 b3.
Definition shape_eqb (a b : mf_shape) : bool :=
  match a, b with
  | Fallback, Fallback => true
  | Shape c1 s1 l1 f1 j1 w1 o1 li1 of1, Shape c2 s2 l2 f2 j2 w2 o2 li2 of2 =>
      strs_eqb c1 c2 && list_eqb sub_eqb s1 s2 && list_eqb sel_eqb l1 l2 && String.eqb f1 f2 && list_eqb join_eqb j1 j2 && opt_eqb w1 w2 && opt_eqb o1 o2 && opt_eqb li1 li2 && opt_eqb of1 of2
  | _, _ => false
  end.
Definition mfshape_row_ok (row : mf_input * list (string * string) * mf_shape) : bool := let '(inp, al, sh) := row in shape_eqb (mf_build inp al) sh.

Lemma mfshape_table_ok : forallb mfshape_row_ok mfshape_rows = true.
Proof. vm_compute. reflexivity. Qed.

(* for ANY query in the multi-fact form: every later sub-query is joined with the FIRST one, on ALL the dimension columns of the query (one condition per requested
   dimension reference, granularity included), or cross-joined when there are none -- the join Model/MultiFact.outer_rows describes *)
Theorem joins_on_all_dimension_columns : forall metrics dims filters segments order_by limit offset aliases ctes subs sels first joins w o l f,
  mf_build (metrics, dims, filters, segments, order_by, limit, offset) aliases = Shape ctes subs sels first joins w o l f ->
  ctes = map (fun m => m ++ "_preagg") (metric_models_of metrics) /\
  first = match ctes with c :: _ => c | [] => "" end /\
  joins = map (fun c => match dims with
                        | [] => (false, c, [])
                        | _ => (true, c, map (fun d => first ++ "." ++ dim_col d ++ "=" ++ c ++ "." ++ dim_col d) dims) end) (tl ctes).
Proof.
  intros metrics dims filters segments order_by limit offset aliases ctes subs sels first joins w o l f H.
  unfold mf_build in H. destruct (Nat.ltb (length (metric_models_of metrics)) 2); [discriminate|].
  inversion H; subst. repeat split.
Qed.

(* ... and every sub-query is asked for the same dimensions and the same row filters *)
Theorem sub_queries_share_dimensions_and_filters : forall inp aliases ctes subs sels first joins w o l f,
  mf_build inp aliases = Shape ctes subs sels first joins w o l f ->
  forall s1 s2, In s1 subs -> In s2 subs -> snd (fst s1) = snd (fst s2) /\ snd s1 = snd s2.
Proof.
  intros [[[[[[metrics dims] filters] segments] order_by] limit] offset] aliases ctes subs sels first joins w o l f H s1 s2 H1 H2.
  unfold mf_build in H. destruct (Nat.ltb (length (metric_models_of metrics)) 2); [discriminate|].
  inversion H; subst. clear H. apply in_map_iff in H1. apply in_map_iff in H2.
  destruct H1 as [m1 [E1 _]]. destruct H2 as [m2 [E2 _]]. subst. cbn [fst snd]. split; reflexivity.
Qed.
