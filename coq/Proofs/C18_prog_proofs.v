(* The statement programs extracted from pre_aggregation.py (Gen/Refresh_gen.v), interpreted by Model/RefreshProg.exec, compute
   exactly Model/Refresh.step -- so every C18 theorem about `step` is a theorem about the extracted programs. *)
From Coq Require Import ZArith List Bool String Lia.
Require Import V.Model.Refresh V.Model.RefreshProg V.Gen.Refresh_gen V.Proofs.C18_proofs.
Import ListNotations.
Open Scope Z_scope.

Section P.
Variable tr : Z -> Z.

(* the program run for one refresh operation on a state: which extracted program, which source statement, which lookback *)
Definition run_prog (s : state) (o : op) : option env :=
  let e := {| target := rollup s; temp := None |} in
  let W := watermark (rollup s) in
  match o with
  | SetBase _ => Some e
  | Full => exec (src_plain tr (base s)) W 0 refresh_full_prog e
  | CliFull => exec (src_plain tr (base s)) W 0 refresh_full_prog e
  | Incr => exec (src_gt tr (base s)) W 0 (refresh_incr_prog (exists_ s) (has_wm s) false) e
  | Merge L => exec (src_ge tr (base s)) W L (refresh_merge_prog (exists_ s) (has_wm s) (negb (L =? 0))) e
  | CliIncr => exec (src_gt tr (base s)) W 0 (refresh_incr_prog (exists_ s) (has_wm s) false) e
  | CliMerge => exec (src_ge tr (base s)) W 0 (refresh_merge_prog (exists_ s) (has_wm s) false) e
  end.

Lemma filter_ext' {A} (p q : A -> bool) l : (forall x, p x = q x) -> filter p l = filter q l.
Proof. intros H. induction l as [|x l IH]; [reflexivity|]. cbn. rewrite H, IH. reflexivity. Qed.

Lemma keep_below w (r : list rrow) :
  filter (fun x => negb (w <=? r_bucket x)) r = filter (fun x => r_bucket x <? w) r.
Proof. apply filter_ext'. intros x. rewrite Z.ltb_antisym. reflexivity. Qed.

Theorem prog_refines_step s o : is_refresh o = true ->
  run_prog s o = Some {| target := rollup (step tr s o); temp := None |}.
Proof.
  destruct s as [b ro]. destruct o as [b'| | |L| | |]; cbn [is_refresh]; intros Ho; try discriminate;
    unfold run_prog, exists_, has_wm; cbn [rollup base step].
  - (* Full *) destruct ro as [r|]; reflexivity.
  - (* Incr *) destruct ro as [[|x r]|]; reflexivity.
  - (* Merge *)
    destruct (L =? 0) eqn:EL; cbn [negb].
    + apply Z.eqb_eq in EL. subst L. rewrite Z.sub_0_r.
      destruct ro as [[|x r]|]; cbn -[watermark materialize filter]; unfold merge; rewrite ?keep_below; reflexivity.
    + destruct ro as [[|x r]|]; cbn -[watermark materialize filter]; unfold merge; rewrite ?keep_below; reflexivity.
  - (* CliFull *) destruct ro as [r|]; reflexivity.
  - (* CliIncr *) destruct ro as [[|x r]|]; reflexivity.
  - (* CliMerge *)
    rewrite Z.sub_0_r.
    destruct ro as [[|x r]|]; cbn -[watermark materialize filter]; unfold merge; rewrite ?keep_below; reflexivity.
Qed.

(* whole histories through the extracted programs: the rollup table after the history is the model's *)
Fixpoint run_progs (h : list op) (s : state) : option state :=
  match h with
  | [] => Some s
  | o :: h' =>
    match o with
    | SetBase b' => run_progs h' {| base := b'; rollup := rollup s |}
    | _ => match run_prog s o with
           | Some e => run_progs h' {| base := base s; rollup := target e |}
           | None => None
           end
    end
  end.

Theorem progs_refine_run h : forall s, run_progs h s = Some (run tr h s).
Proof.
  induction h as [|o h IH]; intros s; [reflexivity|].
  cbn [run_progs run fold_left]. destruct o as [b'| | |L| | |];
    try (rewrite prog_refines_step by reflexivity; cbn [target]; rewrite IH; f_equal; fold (run tr h);
         f_equal; destruct s; reflexivity).
  rewrite IH. reflexivity.
Qed.
End P.

Definition expected_dispatch : list (string * string) :=
  [("full", "_refresh_full"); ("incremental", "_refresh_incremental"); ("merge", "_refresh_merge"); ("engine", "_refresh_engine")]%string.
