(* C09: the regenerated granularity-compatibility function is calendar-sound, for every timestamp. *)
From Coq Require Import ZArith List Bool Lia String.
Require Import V.Base.Calendar V.Base.CalendarFacts V.Base.PyLib V.Gen.GranCompat_gen.
Import ListNotations.
Open Scope string_scope.

Definition gran_of (s : string) : option gran :=
  if String.eqb s "hour" then Some Hour else if String.eqb s "day" then Some Day else
  if String.eqb s "week" then Some Week else if String.eqb s "month" then Some Month else
  if String.eqb s "quarter" then Some Quarter else if String.eqb s "year" then Some Year else None.
(* truncation by granularity *name*; a name DuckDB does not know is never truncated by the layer (identity) *)
Definition trunc_s (s : string) (t : Z) : Z := match gran_of s with Some g => trunc g t | None => t end.

Lemma trunc_idem g t : trunc g (trunc g t) = trunc g t.
Proof. apply (floor_compose _ _ _ _ (trunc_floor g) (trunc_floor g)); auto. Qed.

Definition known := ["hour"; "day"; "week"; "month"; "quarter"; "year"].

Lemma gran_of_known s g : gran_of s = Some g -> In s known.
Proof.
  unfold gran_of, known.
  repeat (match goal with |- context [String.eqb s ?x] => destruct (String.eqb_spec s x) as [->|_]; [intros _; cbn; auto 10|] end).
  intros H; discriminate H.
Qed.

(* the table knows exactly the six calendar names *)
Lemma table_keys_known : map fst GRANULARITY_HIERARCHY = ["year"; "quarter"; "month"; "week"; "day"; "hour"].
Proof. reflexivity. Qed.

Definition gran_name (g : gran) : string :=
  match g with Hour => "hour" | Day => "day" | Week => "week" | Month => "month" | Quarter => "quarter" | Year => "year" end.
Lemma trunc_s_name g t : trunc_s (gran_name g) t = trunc g t.
Proof. destruct g; reflexivity. Qed.
Lemma known_name q : In q known -> exists g, q = gran_name g.
Proof.
  intros H. cbn in H.
  destruct H as [<-|[<-|[<-|[<-|[<-|[<-|[]]]]]]];
  [exists Hour|exists Day|exists Week|exists Month|exists Quarter|exists Year]; reflexivity.
Qed.

Lemma sound_gran g1 g2 : is_granularity_compatible (gran_name g1) (gran_name g2) = true ->
  forall t, trunc g1 (trunc g2 t) = trunc g1 t.
Proof.
  intros H t.
  apply (floor_compose (boundary g1) (boundary g2) (trunc g1) (trunc g2) (trunc_floor g1) (trunc_floor g2)).
  apply boundary_incl.
  destruct g1, g2; try exact I; vm_compute in H; discriminate H.
Qed.

Lemma sound_known : forall q p, In q known -> In p known -> is_granularity_compatible q p = true ->
  forall t, trunc_s q (trunc_s p t) = trunc_s q t.
Proof.
  intros q p Hq Hp H t.
  destruct (known_name _ Hq) as [g1 ->]. destruct (known_name _ Hp) as [g2 ->].
  rewrite !trunc_s_name. apply sound_gran. exact H.
Qed.

Lemma assoc_none_unknown s : assoc_get GRANULARITY_HIERARCHY s = None -> gran_of s = None.
Proof.
  unfold gran_of. cbn [assoc_get GRANULARITY_HIERARCHY].
  repeat (match goal with |- context [String.eqb s ?x] => destruct (String.eqb_spec s x) as [->|?]; [cbn; try discriminate|] end).
  reflexivity.
Qed.

Lemma assoc_some_known s l : assoc_get GRANULARITY_HIERARCHY s = Some l -> In s known.
Proof.
  intros H. apply assoc_get_in in H. cbn in H.
  repeat (destruct H as [H|H]; [injection H as <- <-; cbn; tauto|]). contradiction.
Qed.

Lemma sound_all : forall q p, is_granularity_compatible q p = true ->
  forall t, trunc_s q (trunc_s p t) = trunc_s q t.
Proof.
  intros q p H t.
  destruct (assoc_get GRANULARITY_HIERARCHY q) as [ql|] eqn:Eq;
  destruct (assoc_get GRANULARITY_HIERARCHY p) as [pl|] eqn:Ep.
  - apply sound_known; eauto using assoc_some_known.
  - (* unknown p: the code must have compared the names *)
    unfold is_granularity_compatible in H. rewrite Eq, Ep in H. cbn [is_none orb] in H.
    apply String.eqb_eq in H. subst p. congruence.
  - unfold is_granularity_compatible in H. rewrite Eq, Ep in H. cbn [is_none orb] in H.
    apply String.eqb_eq in H. subst p. congruence.
  - unfold trunc_s. rewrite (assoc_none_unknown _ Eq), (assoc_none_unknown _ Ep). reflexivity.
Qed.

(* exactness on the known names: every refusal is justified by a witness timestamp *)
Definition witnesses : list Z := [1706745600000000 (* 2024-02-01 *); 1706832000000000 (* 2024-02-02 *); 1706835600000000 (* 2024-02-02 01:00 *); 1714521600000000 (* 2024-05-01 *) ; 1717286400000000 (* 2024-06-02 *); 1707955200000000 (* 2024-02-15 *); 1727740800000000 (* 2024-10-01 *); 1735689600000000 (* 2025-01-01 *)]%Z.
Definition refusal_justified (q p : string) : bool :=
  is_granularity_compatible q p || existsb (fun t => negb (Z.eqb (trunc_s q (trunc_s p t)) (trunc_s q t))) witnesses.
Lemma exact_known : forallb (fun q => forallb (refusal_justified q) known) known = true.
Proof. vm_compute. reflexivity. Qed.

Lemma week_never_feeds : forall q, In q ["month"; "quarter"; "year"] -> is_granularity_compatible q "week" = false.
Proof. intros q H. cbn in H. repeat (destruct H as [<-|H]; [vm_compute; reflexivity|]). contradiction. Qed.

(* a finer query is never served from a coarser rollup: on the six names, compatible q p = true implies every
   p-bucket start is... stated directly through the calendar: if some timestamp distinguishes the two truncations the pair is refused *)
Lemma finer_refused : forall q p, In q known -> In p known ->
  (exists t, trunc_s q (trunc_s p t) <> trunc_s q t) -> is_granularity_compatible q p = false.
Proof.
  intros q p Hq Hp [t Ht]. destruct (is_granularity_compatible q p) eqn:E; [|reflexivity].
  exfalso. apply Ht. apply sound_known; assumption.
Qed.

Lemma unknown_only_self : forall q p, gran_of q = None \/ gran_of p = None ->
  (gran_of q = None /\ gran_of p = None) \/ is_granularity_compatible q p = false.
Proof.
  intros q p Hu.
  destruct (assoc_get GRANULARITY_HIERARCHY q) as [ql|] eqn:Eq;
  destruct (assoc_get GRANULARITY_HIERARCHY p) as [pl|] eqn:Ep.
  - exfalso. apply assoc_some_known in Eq. apply assoc_some_known in Ep. cbn in Eq, Ep.
    destruct Hu as [Hu|Hu].
    + repeat (destruct Eq as [<-|Eq]; [vm_compute in Hu; discriminate|]). contradiction.
    + repeat (destruct Ep as [<-|Ep]; [vm_compute in Hu; discriminate|]). contradiction.
  - right. unfold is_granularity_compatible. rewrite Eq, Ep. cbn [is_none orb].
    apply String.eqb_neq. intros ->. congruence.
  - right. unfold is_granularity_compatible. rewrite Eq, Ep. cbn [is_none orb].
    apply String.eqb_neq. intros ->. congruence.
  - left. split; apply assoc_none_unknown; assumption.
Qed.

(* non-vacuity: the premise of C09_sound is met by real pairs, and the conclusion is not trivial there *)
Example sound_nonvacuous : is_granularity_compatible "month" "day" = true /\ trunc_s "day" 1707955200000001%Z <> 1707955200000001%Z.
Proof. split; vm_compute; [reflexivity|discriminate]. Qed.
