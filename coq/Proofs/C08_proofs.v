(* Proofs for C08: re-aggregating a rollup built by the materialisation statement = aggregating the base rows, for SUM, COUNT,
   MIN, MAX and AVG-as-SUM/COUNT, for every table and ANY predicate on the rollup key (group membership and filters on rollup
   columns); the regenerated derivability function only admits those; refutations for everything the code used to admit. *)
From Coq Require Import ZArith String List Bool Lia.
Require Import V.Base.PyLib V.Base.Calendar V.Base.CalendarFacts V.Model.Refresh V.Model.Preagg V.Proofs.C18_proofs V.Proofs.Regroup_proofs V.Proofs.C07_proofs
               V.Gen.Derivable_gen V.Gen.GranCompat_gen.
Import ListNotations.
Open Scope list_scope.
Open Scope Z_scope.

(* ---------- a "best element" fold (min / max) over a partition of a bag ---------- *)
Section Best.
Variable R : Z -> Z -> Prop.
Variable pick : Z -> Z -> Z.
Hypothesis R_refl : forall a, R a a.
Hypothesis R_trans : forall a b c, R a b -> R b c -> R a c.
Hypothesis R_antisym : forall a b, R a b -> R b a -> a = b.
Hypothesis pick_spec : forall a b, (pick a b = a /\ R a b) \/ (pick a b = b /\ R b a).

Definition lbest (l : list Z) : option Z := match l with [] => None | x :: r => Some (fold_right pick x r) end.
Definition obest (a b : option Z) : option Z :=
  match a, b with Some x, Some y => Some (pick x y) | Some x, None | None, Some x => Some x | None, None => None end.
Definition is_best (o : option Z) (l : list Z) : Prop :=
  match o with None => l = [] | Some m => In m l /\ forall y, In y l -> R m y end.

Lemma fold_pick_char z zs : In (fold_right pick z zs) (z :: zs) /\ forall y, In y (z :: zs) -> R (fold_right pick z zs) y.
Proof.
  induction zs as [|a zs [Hin Hle]]; cbn [fold_right].
  - split; [left; reflexivity | intros y [<-|[]]; apply R_refl].
  - destruct (pick_spec a (fold_right pick z zs)) as [[E Hr]|[E Hr]]; rewrite E; split.
    + right; left; reflexivity.
    + intros y [<-|[<-|Hy]]; [eapply R_trans; [exact Hr|apply Hle; left; reflexivity] | apply R_refl | eapply R_trans; [exact Hr|apply Hle; right; exact Hy]].
    + destruct Hin as [Hin|Hin]; [left; exact Hin | right; right; exact Hin].
    + intros y [<-|[<-|Hy]]; [apply Hle; left; reflexivity | exact Hr | apply Hle; right; exact Hy].
Qed.
Lemma lbest_is_best l : is_best (lbest l) l.
Proof. destruct l as [|x r]; [reflexivity|]. exact (fold_pick_char x r). Qed.
Lemma is_best_unique a b l : is_best a l -> is_best b l -> a = b.
Proof.
  destruct a as [m|], b as [m'|]; cbn; intros Ha Hb; try reflexivity.
  - destruct Ha as [I1 L1], Hb as [I2 L2]. f_equal. apply R_antisym; [apply L1, I2|apply L2, I1].
  - subst l. destruct Ha as [[] _].
  - subst l. destruct Hb as [[] _].
Qed.
Lemma is_best_same_elements o l l' : (forall x, In x l <-> In x l') -> is_best o l -> is_best o l'.
Proof.
  intros E. destruct o as [m|]; cbn.
  - intros [I L]. split; [apply E, I|]. intros y Hy. apply L, E, Hy.
  - intros ->. destruct l' as [|x r]; [reflexivity|]. exfalso. apply (E x). left. reflexivity.
Qed.
Lemma obest_app a b l1 l2 : is_best a l1 -> is_best b l2 -> is_best (obest a b) (l1 ++ l2).
Proof.
  destruct a as [x|], b as [y|]; cbn; intros Ha Hb.
  - destruct Ha as [I1 L1], Hb as [I2 L2]. destruct (pick_spec x y) as [[E Hr]|[E Hr]]; rewrite E; split.
    + apply in_or_app. left. exact I1.
    + intros z Hz. apply in_app_or in Hz as [Hz|Hz]; [apply L1, Hz|eapply R_trans; [exact Hr|apply L2, Hz]].
    + apply in_or_app. right. exact I2.
    + intros z Hz. apply in_app_or in Hz as [Hz|Hz]; [eapply R_trans; [exact Hr|apply L1, Hz]|apply L2, Hz].
  - subst l2. rewrite app_nil_r. exact Ha.
  - subst l1. exact Hb.
  - subst. reflexivity.
Qed.
(* the best of the per-group bests = the best of the concatenation *)
Lemma fold_obest_concat (gs : list (list Z)) : is_best (fold_right obest None (map lbest gs)) (concat gs).
Proof. induction gs as [|g gs IH]; cbn [map fold_right concat]; [reflexivity|]. apply obest_app; [apply lbest_is_best|exact IH]. Qed.
End Best.

(* ---------- the rollup and its re-aggregation ---------- *)
Section Routing.
Variable tr : Z -> Z.
Variable f : list Z -> Z.
Notation key := (Z * Z)%type.
Notation keys b := (first_occ (map (bkey tr) b)).
Notation mat := (materialize_p tr f).

Lemma filter_map_comm {A B} (g : A -> B) (p : B -> bool) (l : list A) : filter p (map g l) = map g (filter (fun x => p (g x)) l).
Proof. induction l as [|x l IH]; cbn; [reflexivity|]. destruct (p (g x)); cbn; rewrite IH; reflexivity. Qed.

Lemma keys_cover b y : In y b -> In (bkey tr y) (keys b).
Proof. intros Hy. apply (proj2 (first_occ_In tr _ _)). apply in_map. exact Hy. Qed.

Theorem routed_sum_ok (sel : key -> bool) (b : list brow) : routed_sum sel (mat b) = zsum (base_vals tr sel b).
Proof.
  unfold routed_sum, sel_rows, base_vals. rewrite !filtered_sum. unfold materialize_p. rewrite map_map.
  transitivity (zsum (map (fun k => if sel k then zsum (map b_v (at_b tr b k)) else 0) (keys b))).
  - f_equal. apply map_ext. intros [k1 k2]. reflexivity.
  - apply over_keys; [apply first_occ_NoDup|apply keys_cover].
Qed.

Lemma length_as_sum {A} (l : list A) : Z.of_nat (length l) = zsum (map (fun _ => 1) l).
Proof. induction l as [|x l IH]; [reflexivity|]. cbn [length map]. unfold zsum in *. cbn [fold_right]. rewrite <- IH. lia. Qed.

Theorem routed_count_ok (sel : key -> bool) (b : list brow) : routed_count sel (mat b) = Z.of_nat (length (base_vals tr sel b)).
Proof.
  unfold routed_count, sel_rows, base_vals. rewrite filtered_sum. unfold materialize_p. rewrite map_map.
  transitivity (zsum (map (fun k => if sel k then zsum (map (fun _ => 1) (at_b tr b k)) else 0) (keys b))).
  - f_equal. apply map_ext. intros [k1 k2]. cbn [pkey p_bucket p_dim p_cnt fst snd]. unfold vals_at. rewrite map_length, length_as_sum. reflexivity.
  - rewrite (over_keys tr (fun _ => 1) sel _ b (first_occ_NoDup _) (keys_cover b)).
    rewrite <- filtered_sum, map_length, length_as_sum. reflexivity.
Qed.

(* the selected base values and the values of the selected buckets are the same bag elements *)
Lemma selected_elements (sel : key -> bool) (b : list brow) v :
  In v (concat (map (vals_at tr b) (filter sel (keys b)))) <-> In v (base_vals tr sel b).
Proof.
  unfold base_vals, vals_at, at_b. rewrite in_concat. split.
  - intros [l [Hl Hv]]. apply in_map_iff in Hl as [k [<- Hk]]. apply filter_In in Hk as [_ Hs].
    apply in_map_iff in Hv as [y [<- Hy]]. apply filter_In in Hy as [Hy Hk]. apply in_map_iff. exists y. split; [reflexivity|].
    apply filter_In. split; [exact Hy|]. destruct (key_eqb_spec (bkey tr y) k) as [->|]; [exact Hs|discriminate].
  - intros Hv. apply in_map_iff in Hv as [y [<- Hy]]. apply filter_In in Hy as [Hy Hs].
    exists (map b_v (filter (fun x => key_eqb (bkey tr x) (bkey tr y)) b)). split.
    + apply in_map_iff. exists (bkey tr y). split; [reflexivity|]. apply filter_In. split; [apply keys_cover, Hy|exact Hs].
    + apply in_map. apply filter_In. split; [exact Hy|]. destruct (key_eqb_spec (bkey tr y) (bkey tr y)); congruence.
Qed.

Lemma routed_best_shape (pick : Z -> Z -> Z) (proj : prow -> option Z) (sel : key -> bool) (b : list brow) :
  (forall k, proj {| p_bucket := fst k; p_dim := snd k; p_sum := zsum (vals_at tr b k); p_cnt := Z.of_nat (length (vals_at tr b k));
                     p_min := lmin (vals_at tr b k); p_max := lmax (vals_at tr b k); p_other := f (vals_at tr b k) |} = lbest pick (vals_at tr b k)) ->
  map proj (sel_rows sel (mat b)) = map (lbest pick) (map (vals_at tr b) (filter sel (keys b))).
Proof.
  intros Hp. unfold sel_rows, materialize_p. rewrite filter_map_comm, !map_map.
  erewrite filter_ext; [|intros [k1 k2]; reflexivity]. apply map_ext. intros k. apply Hp.
Qed.

Theorem routed_min_ok (sel : key -> bool) (b : list brow) : routed_min sel (mat b) = lmin (base_vals tr sel b).
Proof.
  assert (Hs : forall a c, (Z.min a c = a /\ a <= c) \/ (Z.min a c = c /\ c <= a)) by (intros a c; lia).
  apply (is_best_unique Z.le Z.le_antisymm) with (l := base_vals tr sel b).
  - unfold routed_min. rewrite (routed_best_shape Z.min p_min) by (intros k; reflexivity).
    eapply is_best_same_elements; [apply selected_elements|].
    apply (fold_obest_concat Z.le Z.min Z.le_refl Z.le_trans Hs).
  - apply (lbest_is_best Z.le Z.min Z.le_refl Z.le_trans Hs).
Qed.
Theorem routed_max_ok (sel : key -> bool) (b : list brow) : routed_max sel (mat b) = lmax (base_vals tr sel b).
Proof.
  assert (Hs : forall a c, (Z.max a c = a /\ a >= c) \/ (Z.max a c = c /\ c >= a)) by (intros a c; lia).
  assert (Ht : forall a c d, a >= c -> c >= d -> a >= d) by (intros; lia).
  assert (Hr : forall a, a >= a) by (intros; lia).
  assert (Ha : forall a c, a >= c -> c >= a -> a = c) by (intros; lia).
  apply (is_best_unique Z.ge Ha) with (l := base_vals tr sel b).
  - unfold routed_max. rewrite (routed_best_shape Z.max p_max) by (intros k; reflexivity).
    eapply is_best_same_elements; [apply selected_elements|].
    apply (fold_obest_concat Z.ge Z.max Hr Ht Hs).
  - apply (lbest_is_best Z.ge Z.max Hr Ht Hs).
Qed.

(* a result group exists in the routed query exactly when it exists in the base query *)
Theorem routed_group_ok (sel : key -> bool) (b : list brow) : has_group sel (mat b) = true <-> base_vals tr sel b <> [].
Proof.
  unfold has_group, base_vals. rewrite existsb_exists. split.
  - intros [x [Hx Hs]]. unfold materialize_p in Hx. apply in_map_iff in Hx as [k [<- Hk]]. cbn [pkey p_bucket p_dim] in Hs.
    apply (proj1 (first_occ_In tr _ _)) in Hk. apply in_map_iff in Hk as [y [E Hy]].
    assert (Hin : In y (filter (fun y0 => sel (bkey tr y0)) b)).
    { apply filter_In. split; [exact Hy|]. rewrite E. destruct k; exact Hs. }
    destruct (filter (fun y0 => sel (bkey tr y0)) b); [destruct Hin|discriminate].
  - intros Hne. destruct (filter (fun y => sel (bkey tr y)) b) as [|y l] eqn:E; [contradiction|].
    assert (Hy : In y (filter (fun y => sel (bkey tr y)) b)) by (rewrite E; left; reflexivity). apply filter_In in Hy as [Hy Hs].
    exists {| p_bucket := fst (bkey tr y); p_dim := snd (bkey tr y); p_sum := zsum (vals_at tr b (bkey tr y)); p_cnt := Z.of_nat (length (vals_at tr b (bkey tr y)));
              p_min := lmin (vals_at tr b (bkey tr y)); p_max := lmax (vals_at tr b (bkey tr y)); p_other := f (vals_at tr b (bkey tr y)) |}.
    split; [|cbn [pkey p_bucket p_dim]; destruct (bkey tr y); exact Hs].
    unfold materialize_p. apply in_map_iff. exists (bkey tr y). split; [reflexivity|apply keys_cover, Hy].
Qed.
End Routing.

(* ---------- NULL measure values ---------- *)
Section RoutingNull.
Variable tr : Z -> Z.
Notation key := (Z * Z)%type.

Lemma somes_sum {A} (g : A -> list Z) (l : list A) : zsum (somes (map (fun k => osum (g k)) l)) = zsum (map (fun k => zsum (g k)) l).
Proof.
  induction l as [|k l IH]; [reflexivity|]. cbn [map somes flat_map]. fold (somes (map (fun k0 => osum (g k0)) l)).
  destruct (g k) as [|z zs] eqn:E; cbn [osum app]; unfold zsum in *; cbn [fold_right] in *; [rewrite IH; reflexivity|].
  rewrite <- IH. cbn [fold_right]. reflexivity.
Qed.
Lemma somes_nil {A} (g : A -> list Z) (l : list A) : somes (map (fun k => osum (g k)) l) = [] <-> forall k, In k l -> g k = [].
Proof.
  induction l as [|k l IH]; [split; [intros _ x []|reflexivity]|]. cbn [map somes flat_map]. fold (somes (map (fun k0 => osum (g k0)) l)).
  destruct (g k) as [|z zs] eqn:E; cbn [osum app].
  - rewrite IH. split; [intros H x [<-|Hx]; [exact E|apply H, Hx]|intros H x Hx; apply H; right; exact Hx].
  - split; [discriminate|]. intros H. specialize (H k (or_introl eq_refl)). congruence.
Qed.
Lemma osum_eq xs ys : (xs = [] <-> ys = []) -> zsum xs = zsum ys -> osum xs = osum ys.
Proof.
  intros He Hs. destruct xs as [|x xs], ys as [|y ys]; cbn [osum]; try reflexivity.
  - destruct He as [He _]. specialize (He eq_refl). discriminate.
  - destruct He as [_ He]. specialize (He eq_refl). discriminate.
  - rewrite Hs. reflexivity.
Qed.

Lemma nkeys_cover (b : list nrow) y : In y (non_null_rows b) -> In (bkey tr y) (first_occ (map (nkey tr) b)).
Proof.
  intros Hy. unfold non_null_rows in Hy. apply in_map_iff in Hy as [x [<- Hx]]. apply filter_In in Hx as [Hx _].
  apply (proj2 (first_occ_In tr _ _)). apply in_map_iff. exists x. split; [reflexivity|exact Hx].
Qed.

Lemma routed_n_shape (sel : key -> bool) (b : list nrow) (proj : pnrow -> option Z) (g : key -> list Z) :
  (forall k, proj {| pn_bucket := fst k; pn_dim := snd k; pn_sum := osum (vals_at tr (non_null_rows b) k);
                     pn_cnt := Z.of_nat (length (vals_at tr (non_null_rows b) k)) |} = osum (g k)) ->
  map proj (filter (fun x => sel (pnkey x)) (materialize_n tr b)) = map (fun k => osum (g k)) (filter sel (first_occ (map (nkey tr) b))).
Proof.
  intros Hp. unfold materialize_n. rewrite (filter_map_comm _ (fun x => sel (pnkey x))), map_map.
  erewrite filter_ext; [|intros [k1 k2]; reflexivity]. apply map_ext. intros k. apply Hp.
Qed.

(* SUM with NULLs: the routed SUM over the selected rollup rows (NULL bucket sums ignored; NULL if nothing is left) = the SUM of
   the non-NULL values of the selected base rows (NULL if there is none) *)
Theorem routed_sum_null_ok (sel : key -> bool) (b : list nrow) : routed_sum_n sel (materialize_n tr b) = base_sum_n tr sel b.
Proof.
  unfold routed_sum_n, base_sum_n.
  rewrite (routed_n_shape sel b pn_sum (vals_at tr (non_null_rows b))) by (intros k; reflexivity).
  set (b' := non_null_rows b). set (ks := first_occ (map (nkey tr) b)).
  apply osum_eq.
  - rewrite somes_nil. unfold base_vals. split.
    + intros H. destruct (filter (fun y => sel (bkey tr y)) b') as [|y l] eqn:E; [reflexivity|]. exfalso.
      assert (Hy : In y (filter (fun y => sel (bkey tr y)) b')) by (rewrite E; left; reflexivity). apply filter_In in Hy as [Hy Hs].
      assert (Hk : In (bkey tr y) (filter sel ks)) by (apply filter_In; split; [apply nkeys_cover, Hy|exact Hs]).
      specialize (H _ Hk). unfold vals_at, at_b in H.
      assert (Hin : In y (filter (fun x => key_eqb (bkey tr x) (bkey tr y)) b')) by (apply filter_In; split; [exact Hy|destruct (key_eqb_spec (bkey tr y) (bkey tr y)); congruence]).
      destruct (filter (fun x => key_eqb (bkey tr x) (bkey tr y)) b'); [destruct Hin|discriminate].
    + intros H k Hk. apply filter_In in Hk as [_ Hs]. unfold vals_at, at_b.
      destruct (filter (fun x => key_eqb (bkey tr x) k) b') as [|y l] eqn:E; [reflexivity|]. exfalso.
      assert (Hy : In y (filter (fun x => key_eqb (bkey tr x) k) b')) by (rewrite E; left; reflexivity). apply filter_In in Hy as [Hy Hk].
      assert (Hin : In y (filter (fun y => sel (bkey tr y)) b')).
      { apply filter_In. split; [exact Hy|]. destruct (key_eqb_spec (bkey tr y) k) as [->|]; [exact Hs|discriminate]. }
      apply map_eq_nil in H. rewrite H in Hin. destruct Hin.
  - rewrite somes_sum. unfold base_vals. rewrite !filtered_sum.
    apply (over_keys tr b_v sel ks b'); [apply first_occ_NoDup|apply nkeys_cover].
Qed.
(* COUNT(v) with NULLs: the SUM of the stored counts = the number of non-NULL values among the selected base rows *)
Theorem routed_count_null_ok (sel : key -> bool) (b : list nrow) :
  routed_count_n sel (materialize_n tr b) = Z.of_nat (length (base_vals tr sel (non_null_rows b))).
Proof.
  unfold routed_count_n, base_vals. rewrite filtered_sum. unfold materialize_n. rewrite map_map.
  set (b' := non_null_rows b). set (ks := first_occ (map (nkey tr) b)).
  transitivity (zsum (map (fun k => if sel k then zsum (map (fun _ => 1) (at_b tr b' k)) else 0) ks)).
  - f_equal. apply map_ext. intros [k1 k2]. cbn [pnkey pn_bucket pn_dim pn_cnt fst snd]. unfold vals_at. rewrite map_length, length_as_sum. reflexivity.
  - rewrite (over_keys tr (fun _ => 1) sel ks b' (first_occ_NoDup _) (nkeys_cover b)).
    rewrite <- filtered_sum, map_length, length_as_sum. reflexivity.
Qed.
End RoutingNull.

(* ---------- rolling the time bucket up to a coarser nested granularity ---------- *)
(* selecting by the re-truncated BUCKET (what the routed query groups by) = selecting by the truncated timestamp *)
Theorem rollup_granularity q p (g : Z -> Z -> bool) (b : list brow) : nested q p ->
  base_vals (trunc p) (fun k => g (trunc q (fst k)) (snd k)) b = map b_v (filter (fun y => g (trunc q (b_ts y)) (b_dim y)) b).
Proof.
  intros H. unfold base_vals. f_equal. apply filter_ext. intros y. unfold bkey. cbn [fst snd]. rewrite trunc_compose by exact H. reflexivity.
Qed.

(* the granularity check of the CODE (regenerated) only admits nested pairs *)
Definition gran_of (s : string) : option gran :=
  (if String.eqb s "hour" then Some Hour else if String.eqb s "day" then Some Day else if String.eqb s "week" then Some Week
   else if String.eqb s "month" then Some Month else if String.eqb s "quarter" then Some Quarter else if String.eqb s "year" then Some Year else None)%string.
Definition gran_names : list string := ["hour"; "day"; "week"; "month"; "quarter"; "year"]%string.
Lemma compatible_nested_table :
  forallb (fun q => forallb (fun p => negb (is_granularity_compatible q p) ||
     match gran_of q, gran_of p with
     | Some Hour, Some Hour | Some Day, Some (Hour|Day) | Some Week, Some (Hour|Day|Week) | Some Month, Some (Hour|Day|Month)
     | Some Quarter, Some (Hour|Day|Month|Quarter) | Some Year, Some (Hour|Day|Month|Quarter|Year) => true | _, _ => false end) gran_names) gran_names = true.
Proof. vm_compute. reflexivity. Qed.
Theorem compatible_nested q p gq gp : In q gran_names -> In p gran_names -> gran_of q = Some gq -> gran_of p = Some gp ->
  is_granularity_compatible q p = true -> nested gq gp.
Proof.
  intros Hq Hp Eq Ep Hc. pose proof compatible_nested_table as T. rewrite forallb_forall in T. specialize (T q Hq). rewrite forallb_forall in T. specialize (T p Hp).
  rewrite Hc, Eq, Ep in T. cbn [negb orb] in T. destruct gq, gp; cbn; try exact I; discriminate.
Qed.

(* ---------- the derivability function of the CODE (regenerated) ---------- *)
Open Scope string_scope.
Theorem derivable_sound name agg filters measures cm :
  is_measure_derivable name agg filters measures cm = true ->
  filters = [] /\ In name measures /\ exists a, agg = Some a /\ (agg_exact a = true \/ (a = "avg" /\ cm <> None)).
Proof.
  unfold is_measure_derivable. intros H.
  destruct (existsb (String.eqb name) measures) eqn:Em; cbn [negb] in H; [|discriminate].
  destruct filters as [|x fs]; cbn [list_truthy] in H; [|discriminate].
  split; [reflexivity|]. split.
  { apply existsb_exists in Em as [y [Hy E]]. apply String.eqb_eq in E. subst y. exact Hy. }
  destruct agg as [a|]; cbn [opt_truthy opt_in opt_eqb] in H; [|discriminate].
  exists a. split; [reflexivity|].
  destruct (negb (negb (a =? ""))) eqn:E0; [discriminate|].
  destruct (existsb (String.eqb a) ["sum"; "count"; "min"; "max"]) eqn:E1; [left; exact E1|].
  destruct (a =? "avg") eqn:E2.
  - right. apply String.eqb_eq in E2. split; [exact E2|]. destruct cm; [discriminate|discriminate].
  - destruct (a =? "count_distinct"); discriminate.
Qed.
Close Scope string_scope.

(* ---------- why everything else must not be routed: witnesses ---------- *)
Definition B (ts d v : Z) : brow := {| b_ts := ts; b_dim := d; b_v := v |}.
Definition day (t : Z) : Z := t / 10 * 10.                 (* a toy truncation: buckets of ten *)
Definition median (l : list Z) : Z := nth (Nat.div (length l) 2) l 0.     (* of a sorted list: enough for the witness *)
Definition all_keys (k : Z * Z) : bool := true.
(* SUM-re-aggregating a non-decomposable per-bucket value (the former "default: allow if present"): median of 1,2,9 | 4 *)
Example median_refuted :
  routed_other_as_sum all_keys (materialize_p day median [B 1 0 1; B 2 0 2; B 3 0 9; B 11 0 4]) = 6 /\ median [1; 2; 4; 9] = 4.
Proof. vm_compute. split; reflexivity. Qed.
(* a measure with its own filter: the rollup column aggregates every row (materialisation ignores the filter) *)
Example filtered_measure_refuted :
  routed_sum all_keys (materialize_p day median [B 1 0 5; B 2 1 7]) = 12 /\ zsum (map b_v (filter (fun y => b_dim y =? 0) [B 1 0 5; B 2 1 7])) = 5.
Proof. vm_compute. split; reflexivity. Qed.
(* AVG stored as AVG and then summed: (3 + 6) / 3 instead of 12 / 3 *)
Definition avg (l : list Z) : Z := zsum l / Z.of_nat (length l).
Example avg_stored_as_avg_refuted :
  let r := materialize_p day avg [B 1 0 2; B 2 0 4; B 11 0 6] in
  routed_other_as_sum all_keys r / routed_count all_keys r = 3 /\ routed_sum all_keys r / routed_count all_keys r = 4.
Proof. vm_compute. split; reflexivity. Qed.
(* a filter on the raw timestamp does not factor through the bucket: ts >= 5 rewritten to bucket >= 5 drops the row at ts = 7 *)
Example raw_time_filter_refuted :
  routed_sum (fun k => 5 <=? fst k) (materialize_p day median [B 7 0 1; B 12 0 2]) = 2 /\ zsum (map b_v (filter (fun y => 5 <=? b_ts y) [B 7 0 1; B 12 0 2])) = 3.
Proof. vm_compute. split; reflexivity. Qed.
(* a non-trivial instance of the theorems' setting *)
Example routing_nonvacuous :
  let b := [B 1 0 5; B 2 1 7; B 3 0 (-2); B 14 0 4; B 25 1 1] in
  routed_sum (fun k => snd k =? 0) (materialize_p day median b) = 7 /\ routed_min (fun k => snd k =? 0) (materialize_p day median b) = Some (-2) /\
  routed_count (fun k => fst k <? 20) (materialize_p day median b) = 4 /\ length (materialize_p day median b) = 4%nat.
Proof. vm_compute. repeat split; reflexivity. Qed.

(* ---------- the matcher's combination logic (Model/Satisfy.v) ---------- *)
Require Import V.Model.Satisfy.
Lemma can_satisfy_sound p qdims metrics qgran compatible fcols : can_satisfy p qdims metrics qgran compatible fcols = true ->
  (forall d, In d qdims -> rollup_column p d = true) /\ (forall m, In m metrics -> m = (true, true)) /\
  (forall cols c, fcols = Some cols -> In c cols -> rollup_column p c = true) /\
  (forall qg pg, qgran = Some qg -> p_gran p = Some pg -> qg <> ""%string -> pg <> ""%string -> compatible = true).
Proof.
  unfold can_satisfy. intros H. apply andb_true_iff in H. destruct H as [H Hf]. apply andb_true_iff in H. destruct H as [H Hg].
  apply andb_true_iff in H. destruct H as [Hd Hm]. repeat split.
  - intros d Hin. rewrite forallb_forall in Hd. exact (Hd d Hin).
  - intros [a b] Hin. rewrite forallb_forall in Hm. specialize (Hm _ Hin). cbn in Hm. apply andb_true_iff in Hm. destruct Hm as [-> ->]. reflexivity.
  - intros cols c -> Hin. rewrite forallb_forall in Hf. exact (Hf c Hin).
  - intros qg pg -> Hp Hq Hpg. rewrite Hp in Hg.
    destruct (String.eqb_spec qg ""%string) as [E|_]; [contradiction|]. destruct (String.eqb_spec pg ""%string) as [E|_]; [contradiction|]. exact Hg.
Qed.
