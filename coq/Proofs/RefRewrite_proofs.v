(* The reference-level model equals the regenerated tables on every row whose text parses; and for EVERY reference: a filter rewritten for a rollup has no reference qualified
   by the model any more, a reference of another table is left as it is, and an own reference to the rollup's time dimension reads the rollup's time column. *)
From Coq Require Import String List Bool.
Require Import V.Base.PyLib V.Model.Valid V.Model.CteShape V.Model.RefRewrite V.Gen.RefRewrite_gen.
Import ListNotations.
Open Scope string_scope.

Lemma cte_ref_table_ok : forallb (cte_ref_row_ok rr_models rr_texts) cte_ref_rows = true /\ parsed_rows rr_texts fst cte_ref_rows = 7.
Proof. vm_compute. split; reflexivity. Qed.
Lemma preagg_ref_table_ok : forallb (preagg_ref_row_ok rr_texts) preagg_ref_rows = true /\ parsed_rows rr_texts (fun r => fst (fst (fst r))) preagg_ref_rows = 28.
Proof. vm_compute. split; reflexivity. Qed.

Lemma rollup_ref_cases model td g r :
  (own model r = true /\ fst (to_rollup model td g r) = "") \/ (own model r = false /\ (to_rollup model td g r = r \/ fst r = "")).
Proof.
  unfold to_rollup. destruct (own model r) eqn:O.
  - left. split; [reflexivity|]. destruct td as [t|]; [|reflexivity]. destruct g as [gr|]; [|reflexivity].
    match goal with |- context [if ?c then _ else _] => destruct c end; reflexivity.
  - right. split; [reflexivity|]. destruct td as [t|]; [|left; reflexivity]. destruct g as [gr|]; [|left; reflexivity].
    destruct (str_truthy t && str_truthy gr && negb (str_truthy (fst r)) && String.eqb (snd r) t) eqn:C; [|left; reflexivity].
    right. apply andb_prop in C. destruct C as [C _]. apply andb_prop in C. destruct C as [_ C]. apply negb_true_iff in C. unfold str_truthy in C. apply negb_false_iff, String.eqb_eq in C. exact C.
Qed.
Lemma own_reference_unqualified model td g r : own model r = true -> fst (to_rollup model td g r) = "".
Proof. intros O. destruct (rollup_ref_cases model td g r) as [[_ H] | [H _]]; [exact H | congruence]. Qed.
Lemma other_table_untouched model td g r : own model r = false -> fst r <> "" -> to_rollup model td g r = r.
Proof. intros O N. destruct (rollup_ref_cases model td g r) as [[H _] | [_ [H | H]]]; [congruence | exact H | contradiction]. Qed.
Lemma time_dimension_reads_time_column model t g c : t <> "" -> g <> "" -> own model (c, t) = true \/ c = "" ->
  to_rollup model (Some t) (Some g) (c, t) = ("", t ++ "_" ++ g).
Proof.
  intros Ht Hg H. unfold to_rollup.
  assert (T : str_truthy t = true) by (unfold str_truthy; apply negb_true_iff, String.eqb_neq, Ht).
  assert (G : str_truthy g = true) by (unfold str_truthy; apply negb_true_iff, String.eqb_neq, Hg).
  destruct H as [O | ->].
  - rewrite O. cbn [fst snd]. rewrite T, G, String.eqb_refl. reflexivity.
  - destruct (own model ("", t)); cbn [fst snd]; rewrite T, G, String.eqb_refl; reflexivity.
Qed.
