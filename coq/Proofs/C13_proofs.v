(* Proofs for C13: detection depends on a file only through its suffix and the markers the tree mentions; a measured signature that
   passes `signature_ok` is detected whatever subset of its optional markers occurs; the merge is order-independent when model
   names are distinct. *)
From Coq Require Import String List Bool Permutation.
Require Import V.Model.Loader.
Import ListNotations.
Open Scope string_scope.
Open Scope list_scope.

Lemma eval_ext suffix has has' c : (forall m, In m (cond_markers c) -> has m = has' m) -> eval suffix has c = eval suffix has' c.
Proof.
  induction c as [m|s|l|a IHa b IHb|a IHa b IHb|a IHa]; cbn; intros H; try reflexivity.
  - apply H. left. reflexivity.
  - rewrite IHa, IHb; [reflexivity| |]; intros m Hm; apply H, in_or_app; [right|left]; exact Hm.
  - rewrite IHa, IHb; [reflexivity| |]; intros m Hm; apply H, in_or_app; [right|left]; exact Hm.
  - rewrite IHa; [reflexivity|exact H].
Qed.
(* the outcome for a file depends only on its own suffix and on which of the tree's markers its content holds *)
Theorem detect_ext t suffix has has' : (forall m, In m (tree_markers t) -> has m = has' m) -> detect t suffix has = detect t suffix has'.
Proof.
  induction t as [r|c a IHa b IHb]; cbn; intros H; [reflexivity|].
  rewrite (eval_ext suffix has has' c) by (intros m Hm; apply H, in_or_app; left; exact Hm).
  destruct (eval suffix has' c); [apply IHa|apply IHb]; intros m Hm; apply H, in_or_app; right; apply in_or_app; [left|right]; exact Hm.
Qed.

(* a measured signature that passes the check is detected as `expected` whichever sub-list of its optional markers occurs in the file *)
Theorem signature_sound t label suffix must may expected : signature_ok t (label, suffix, must, may, expected) = true ->
  forall sub, In sub (sublists may) -> forall has, (forall m, In m (tree_markers t) -> has m = mem m must || mem m sub) ->
  detect t suffix has = Some expected.
Proof.
  intros H sub Hs has Hh. unfold signature_ok in H. rewrite forallb_forall in H. specialize (H sub Hs).
  rewrite (detect_ext t suffix has (fun m => mem m must || mem m sub) Hh).
  destruct (detect t suffix (fun m => mem m must || mem m sub)) as [x|]; cbn in H; [|discriminate]. apply String.eqb_eq in H. congruence.
Qed.

Theorem observed_sound t label suffix sets expected : observed_ok t (label, suffix, sets, expected) = true ->
  forall present, In present sets -> forall has, (forall m, In m (tree_markers t) -> has m = mem m present) -> detect t suffix has = Some expected.
Proof.
  intros H present Hp has Hh. unfold observed_ok in H. rewrite forallb_forall in H. specialize (H present Hp).
  rewrite (detect_ext t suffix has (fun m => mem m present) Hh).
  destruct (detect t suffix (fun m => mem m present)) as [x|]; cbn in H; [|discriminate]. apply String.eqb_eq in H. congruence.
Qed.

(* ---------- merge ---------- *)
Lemma lookup_update1 m k v k' : lookup (update1 m k v) k' = if String.eqb k' k then Some v else lookup m k'.
Proof.
  induction m as [|[a b] r IH]; cbn.
  - destruct (String.eqb k' k); reflexivity.
  - destruct (String.eqb_spec k a) as [->|Hne]; cbn.
    + destruct (String.eqb k' a); reflexivity.
    + rewrite IH. destruct (String.eqb_spec k' a) as [->|Hn2]; [|reflexivity].
      destruct (String.eqb_spec a k); [congruence|reflexivity].
Qed.
Definition upd (acc : models) (kv : string * string) : models := update1 acc (fst kv) (snd kv).
Lemma lookup_app l1 l2 k : lookup (l1 ++ l2) k = match lookup l1 k with Some v => Some v | None => lookup l2 k end.
Proof. induction l1 as [|[a b] r IH]; [reflexivity|]. cbn. destruct (String.eqb k a); [reflexivity|exact IH]. Qed.
Lemma lookup_fold B : forall acc k, lookup (fold_left upd B acc) k = match lookup (rev B) k with Some v => Some v | None => lookup acc k end.
Proof.
  induction B as [|[a b] B IH]; intros acc k; [reflexivity|]. cbn [fold_left rev]. rewrite IH, lookup_app.
  destruct (lookup (rev B) k); [reflexivity|]. unfold upd. cbn [fst snd]. rewrite lookup_update1. cbn. destruct (String.eqb k a); reflexivity.
Qed.
Lemma merge_as_fold files : merge files = fold_left upd (concat files) [].
Proof.
  unfold merge. generalize (@nil (string * string)) as acc. induction files as [|f r IH]; intros acc; [reflexivity|].
  cbn [fold_left concat]. rewrite fold_left_app. rewrite IH. reflexivity.
Qed.
Lemma lookup_in L k v : NoDup (map fst L) -> In (k, v) L -> lookup L k = Some v.
Proof.
  induction L as [|[a b] r IH]; intros Hnd Hin; [destruct Hin|]. cbn in *. inversion Hnd as [|? ? Ha Hr]; subst.
  destruct Hin as [E|Hin]; [injection E as -> ->; rewrite String.eqb_refl; reflexivity|].
  destruct (String.eqb_spec k a) as [->|_]; [exfalso; apply Ha; apply in_map_iff; exists (a, v); split; [reflexivity|exact Hin]|apply IH; assumption].
Qed.
Lemma lookup_none L k : ~ In k (map fst L) -> lookup L k = None.
Proof.
  induction L as [|[a b] r IH]; intros H; [reflexivity|]. cbn in *. destruct (String.eqb_spec k a) as [->|_]; [exfalso; apply H; left; reflexivity|apply IH; tauto].
Qed.
(* when no model name is defined twice, the merged result holds every file's models, each with its own definition *)
Theorem merge_lookup files k v : NoDup (map fst (concat files)) -> In (k, v) (concat files) -> lookup (merge files) k = Some v.
Proof.
  intros Hnd Hin. rewrite merge_as_fold, lookup_fold. rewrite (lookup_in (rev (concat files)) k v); [reflexivity| |apply in_rev in Hin; exact Hin].
  rewrite map_rev. apply NoDup_rev, Hnd.
Qed.
Theorem merge_lookup_none files k : ~ In k (map fst (concat files)) -> lookup (merge files) k = None.
Proof.
  intros H. rewrite merge_as_fold, lookup_fold. rewrite lookup_none; [reflexivity|]. rewrite map_rev. intros Hin. apply H, in_rev, Hin.
Qed.
(* hence the loaded models do not depend on the order in which the files are enumerated *)
Theorem merge_order_free files files' : Permutation files files' -> NoDup (map fst (concat files)) -> forall k, lookup (merge files) k = lookup (merge files') k.
Proof.
  intros P Hnd k.
  assert (Pc : Permutation (concat files) (concat files')).
  { clear Hnd. induction P; cbn; [constructor|apply Permutation_app_head; assumption|rewrite !app_assoc; apply Permutation_app_tail, Permutation_app_comm|eapply Permutation_trans; eauto]. }
  assert (Hnd' : NoDup (map fst (concat files'))) by (eapply Permutation_NoDup; [apply Permutation_map, Pc|exact Hnd]).
  destruct (in_dec string_dec k (map fst (concat files))) as [Hin|Hnin].
  - apply in_map_iff in Hin as [[k' v] [E Hin]]. cbn in E. subst k'.
    rewrite (merge_lookup files k v Hnd Hin), (merge_lookup files' k v Hnd' (Permutation_in _ Pc Hin)). reflexivity.
  - rewrite (merge_lookup_none files k Hnin), (merge_lookup_none files' k); [reflexivity|].
    intros Hin. apply Hnin. eapply Permutation_in; [apply Permutation_sym, Permutation_map, Pc|exact Hin].
Qed.
