(* C01: the single-model plan equals the reference semantics, for every definition, query and table (any size). *)
From Coq Require Import ZArith String List Bool Lia.
Require Import V.Model.Sem V.Model.Single.
Import ListNotations.
Open Scope nat_scope.

Lemma apply_agg_non_null a col1 col2 : non_null col1 = non_null col2 -> apply_agg a col1 = apply_agg a col2.
Proof. intros H. unfold apply_agg. rewrite H. reflexivity. Qed.

Lemma groups_map {A B} (f : A -> B) (kf : B -> list val) (l : list A) :
  groups kf (map f l) = map (fun '(k, g) => (k, map f g)) (groups (fun x => kf (f x)) l).
Proof.
  unfold groups. rewrite map_map, map_map. apply map_ext. intros k. f_equal.
  induction l as [|x l IH]; cbn; [reflexivity|]. destruct (key_eqb (kf (f x)) k); cbn; rewrite IH; reflexivity.
Qed.
Lemma groups_ext {A} (kf1 kf2 : A -> list val) (l : list A) : (forall x, kf1 x = kf2 x) -> groups kf1 l = groups kf2 l.
Proof.
  intros H. unfold groups. rewrite (map_ext _ _ H). apply map_ext. intros k. f_equal.
  induction l as [|x l IH]; cbn; [reflexivity|]. rewrite H, IH. reflexivity.
Qed.

Lemma firstn_app_exact {A} (l1 l2 : list A) : firstn (length l1) (l1 ++ l2) = l1.
Proof. induction l1; cbn; [destruct l2; reflexivity | f_equal; assumption]. Qed.
Lemma skipn_app_exact {A} (l1 l2 : list A) : skipn (length l1) (l1 ++ l2) = l2.
Proof. induction l1; cbn; [reflexivity | assumption]. Qed.
Lemma nth_app_right {A} (l1 l2 : list A) j d : nth (length l1 + j) (l1 ++ l2) d = nth j l2 d.
Proof. rewrite app_nth2 by lia. f_equal. lia. Qed.

(* CASE WHEN p THEN x ELSE NULL aggregated = aggregated over the rows satisfying p (every aggregate ignores NULLs) *)
Lemma agg_case_filter a (p : row -> bool) (e : row -> val) (g : list row) :
  apply_agg a (map (fun r => if p r then e r else VNull) g) = apply_agg a (map e (filter p g)).
Proof.
  apply apply_agg_non_null. unfold non_null.
  induction g as [|r g IH]; cbn; [reflexivity|].
  destruct (p r); cbn; [destruct (is_null (e r)); cbn; rewrite IH; reflexivity | exact IH].
Qed.

Section WithPk.
Variable pk : list nat.
Variable q : squery.
Hypothesis Hcd : composite_cd_free pk q.

Lemma base_eq m r : In m (sq_metrics q) -> raw_base pk m r = spec_base pk m r.
Proof.
  intros Hm. unfold raw_base, spec_base. destruct (ms_expr m) eqn:E; [reflexivity|].
  destruct (ms_agg m) eqn:Ea; try reflexivity.
  all: destruct Hcd as [H1|Hall]; [destruct pk as [|c [|c2 l]]; cbn in H1; try lia; reflexivity|].
  all: destruct (Hall m Hm) as [H|H]; congruence.
Qed.

Lemma raw_col_eq m r : In m (sq_metrics q) ->
  raw_col pk m r = if all_hold (ms_filters m) r then spec_base pk m r else VNull.
Proof.
  intros Hm. unfold raw_col. destruct (ms_filters m) as [|f fs]; rewrite base_eq by assumption; reflexivity.
Qed.

Lemma raw_col_spec m g : In m (sq_metrics q) ->
  apply_agg (ms_agg m) (map (raw_col pk m) g) = spec_metric pk m g.
Proof.
  intros Hm. unfold spec_metric.
  rewrite (map_ext _ _ (fun r => raw_col_eq m r Hm)). apply agg_case_filter.
Qed.

Lemma per_group (g : list row) :
  map (fun '(j, a) => apply_agg a (map (fun r => nth (length (sq_dims q) + j) r VNull)
           (map (fun r => map (eval r) (sq_dims q) ++ map (fun m => raw_col pk m r) (sq_metrics q)) g)))
      (combine (seq 0 (length (map ms_agg (sq_metrics q)))) (map ms_agg (sq_metrics q)))
  = map (fun m => spec_metric pk m g) (sq_metrics q).
Proof.
  set (nd := length (sq_dims q)).
  transitivity (map (fun m => apply_agg (ms_agg m) (map (raw_col pk m) g)) (sq_metrics q)).
  2: { apply map_ext_in. intros m Hm. apply raw_col_spec. exact Hm. }
  generalize (sq_metrics q) as ms. intros ms.
  assert (forall (pre ms : list measure),
    map (fun '(j, a) => apply_agg a (map (fun r => nth (nd + j) r VNull)
             (map (fun r => map (eval r) (sq_dims q) ++ map (fun m => raw_col pk m r) (pre ++ ms)) g)))
        (combine (seq (length pre) (length (map ms_agg ms))) (map ms_agg ms))
    = map (fun m => apply_agg (ms_agg m) (map (raw_col pk m) g)) ms) as G.
  { intros pre ms0. revert pre. induction ms0 as [|m ms0 IH]; intros pre; cbn [map length seq combine]; [reflexivity|].
    f_equal.
    - f_equal. rewrite map_map. apply map_ext. intros r.
      replace (nd + length pre) with (length (map (eval r) (sq_dims q)) + length pre) by (unfold nd; rewrite map_length; reflexivity).
      rewrite nth_app_right, map_app.
      replace (length pre) with (length (map (fun m0 => raw_col pk m0 r) pre) + 0) by (rewrite map_length; lia).
      rewrite nth_app_right. reflexivity.
    - specialize (IH (pre ++ [m])). rewrite app_length in IH. cbn in IH. rewrite Nat.add_1_r in IH.
      rewrite <- app_assoc in IH. cbn in IH. exact IH. }
  apply (G [] ms).
Qed.

(* before ORDER BY / LIMIT / OFFSET: the generated plan's rows are exactly the rows the property prescribes, in the same order *)
Theorem plan_eq_spec_groups rows :
  outer (length (sq_dims q)) (map ms_agg (sq_metrics q)) (sq_ungrouped q) (cte pk q rows) = spec_groups pk q rows.
Proof.
  unfold outer, spec_groups, cte.
  set (rows' := filter (all_hold (sq_filters q)) rows).
  set (nd := length (sq_dims q)).
  destruct (sq_ungrouped q).
  - rewrite map_map. apply map_ext. intros r.
    assert (nd = length (map (eval r) (sq_dims q))) as -> by (unfold nd; rewrite map_length; reflexivity).
    rewrite firstn_app_exact, skipn_app_exact, map_map. f_equal.
    apply map_ext_in. intros m Hm. rewrite raw_col_eq by assumption. reflexivity.
  - destruct (Nat.eqb nd 0) eqn:E0.
    + cbn [map]. f_equal. f_equal. apply per_group.
    + rewrite groups_map, map_map.
      assert (Hk : forall r, firstn nd (map (eval r) (sq_dims q) ++ map (fun m => raw_col pk m r) (sq_metrics q)) = map (eval r) (sq_dims q)).
      { intros r. unfold nd. rewrite <- (map_length (eval r) (sq_dims q)). apply firstn_app_exact. }
      rewrite (groups_ext _ _ _ Hk).
      apply map_ext. intros [k g]. f_equal. apply per_group.
Qed.

Theorem run_eq_spec rows : run_model pk q rows = spec pk q rows.
Proof. unfold run_model, spec. rewrite plan_eq_spec_groups. reflexivity. Qed.
End WithPk.

(* ---------- what the reference semantics itself guarantees (so that the theorem above is not a tautology) ---------- *)
(* one output row per distinct combination of dimension values among the rows passing the filters *)
Lemma key_eqb_refl k : key_eqb k k = true.
Proof. unfold key_eqb. destruct (key_eq_dec k k); congruence. Qed.
Lemma key_eqb_true a b : key_eqb a b = true -> a = b.
Proof. unfold key_eqb. destruct (key_eq_dec a b); congruence. Qed.
Lemma first_occ_In ks k : In k (first_occ ks) <-> In k ks.
Proof.
  induction ks as [|a r IH]; cbn; [tauto|]. rewrite filter_In, IH. split.
  - intros [H|[H _]]; auto.
  - intros [H|H]; [auto|]. destruct (key_eq_dec k a) as [->|Hne]; [left; reflexivity|right; split; auto].
    unfold key_eqb. destruct (key_eq_dec k a); [contradiction|reflexivity].
Qed.
Lemma first_occ_NoDup ks : NoDup (first_occ ks).
Proof.
  induction ks as [|a r IH]; cbn; constructor.
  - rewrite filter_In. intros [_ H]. rewrite key_eqb_refl in H. discriminate.
  - apply NoDup_filter, IH.
Qed.

Theorem spec_groups_keys pk q rows : sq_ungrouped q = false -> length (sq_dims q) <> 0 ->
  let keys := map fst (spec_groups pk q rows) in
  NoDup keys /\ forall k, In k keys <-> exists r, In r rows /\ all_hold (sq_filters q) r = true /\ map (eval r) (sq_dims q) = k.
Proof.
  intros Hu Hn. unfold spec_groups. rewrite Hu. destruct (Nat.eqb_spec (length (sq_dims q)) 0); [contradiction|].
  cbn zeta. rewrite map_map. unfold groups. rewrite map_map.
  rewrite (map_ext (fun x => fst (let '(k, g) := (x, filter (fun x0 => key_eqb (map (eval x0) (sq_dims q)) x) (filter (all_hold (sq_filters q)) rows)) in (k, map (fun m => spec_metric pk m g) (sq_metrics q)))) (fun x => x)) by reflexivity.
  rewrite map_id. split; [apply first_occ_NoDup|].
  intros k. rewrite first_occ_In, in_map_iff. split.
  - intros (r & E & Hr). apply filter_In in Hr. exists r. tauto.
  - intros (r & H1 & H2 & H3). exists r. split; [assumption|]. apply filter_In. tauto.
Qed.

(* ---------- known-finding witnesses ---------- *)
Definition cd_measure := {| ms_agg := ACountDistinct; ms_expr := None; ms_filters := [] |}.
Definition pipe_rows : list row := [ [VStr "x|y"; VStr "z"]; [VStr "x"; VStr "y|z"] ].
Definition pipe_query := {| sq_dims := []; sq_metrics := [cd_measure]; sq_filters := []; sq_order := []; sq_limit := None; sq_offset := None; sq_ungrouped := false |}.
Example composite_pipe_refuted :
  run_model [0; 1] pipe_query pipe_rows = [([], [RVal (VInt 1)])] /\ spec [0; 1] pipe_query pipe_rows = [([], [RVal (VInt 2)])].
Proof. split; vm_compute; reflexivity. Qed.

(* non-vacuity: a model with NULLs and duplicates, two dimensions (one an expression), filtered measures of several kinds *)
Definition ex_rows : list row :=
  [ [VInt 1; VStr "a"; VInt 10; VInt 1]; [VInt 2; VStr "a"; VNull; VInt 1]; [VInt 3; VStr "b"; VInt 5; VInt 2];
    [VInt 4; VNull; VInt 7; VInt 2]; [VInt 5; VStr "a"; VInt 10; VNull]; [VInt 6; VStr "b"; VInt (-3); VInt 2] ]%Z.
Definition ex_query :=
  {| sq_dims := [Col 1; Add (Col 3) (Lit (VInt 1%Z))];
     sq_metrics := [ {| ms_agg := ASum; ms_expr := Some (Col 2); ms_filters := [] |};
                     {| ms_agg := ACount; ms_expr := Some (Col 2); ms_filters := [Cmp CGt (Col 0) (Lit (VInt 1%Z))] |};
                     {| ms_agg := ACountDistinct; ms_expr := None; ms_filters := [] |};
                     {| ms_agg := AOther "median"; ms_expr := Some (Col 2); ms_filters := [] |} ];
     sq_filters := [Not (IsNull (Col 0))]; sq_order := [(2, true)]; sq_limit := Some 3; sq_offset := Some 1; sq_ungrouped := false |}.
Example ex_nonvacuous : composite_cd_free [0] ex_query /\ length (run_model [0] ex_query ex_rows) = 3 /\
  nth 0 (run_model [0] ex_query ex_rows) ([], []) = ([VStr "a"; VNull], [RVal (VInt 10%Z); RVal (VInt 1%Z); RVal (VInt 1%Z); RBag "median" [VInt 10%Z]]).
Proof. split; [left; reflexivity|]. split; vm_compute; reflexivity. Qed.
