(* The model of _parse_scalar_literal equals the regenerated table on every row; and for EVERY text s, the single-quoted literal with doubled quotes denotes s. *)
From Coq Require Import String Ascii List Bool Arith ZArith.
Require Import V.Model.SqlValue V.Gen.SqlValue_gen.
Import ListNotations.
Open Scope string_scope.

Lemma sqlvalue_table_ok : forallb sqlvalue_row_ok sqlvalue_rows = true.
Proof. vm_compute. reflexivity. Qed.

Lemma double_empty s : double s = "" -> s = "".
Proof. destruct s as [|c r]; simpl; [reflexivity|]. destruct (Ascii.eqb c sq); discriminate. Qed.

Lemma undouble_other c x : Ascii.eqb c sq = false -> undouble (String c x) = String c (undouble x).
Proof. intros E. destruct x as [|d r']; [reflexivity|]. change (undouble (String c (String d r'))) with (if Ascii.eqb c sq && Ascii.eqb d sq then String sq (undouble r') else String c (undouble (String d r'))). rewrite E. reflexivity. Qed.
Lemma undouble_pair x : undouble (String sq (String sq x)) = String sq (undouble x).
Proof. change (undouble (String sq (String sq x))) with (if Ascii.eqb sq sq && Ascii.eqb sq sq then String sq (undouble x) else String sq (undouble (String sq x))). rewrite Ascii.eqb_refl. reflexivity. Qed.
Lemma undouble_double s : undouble (double s) = s.
Proof.
  induction s as [|c r IH]; [reflexivity|]. cbn [double]. destruct (Ascii.eqb c sq) eqn:E.
  - apply Ascii.eqb_eq in E. subst c. rewrite undouble_pair, IH. reflexivity.
  - rewrite (undouble_other _ _ E), IH. reflexivity.
Qed.

Lemma last_char_app s c : last_char (s ++ String c "") = Some c.
Proof.
  induction s as [|a r IH]; [reflexivity|]. cbn [append last_char]. destruct (r ++ String c "") eqn:E.
  - destruct r; discriminate.
  - exact IH.
Qed.
Lemma drop_last_app s c : drop_last (s ++ String c "") = s.
Proof.
  induction s as [|a r IH]; [reflexivity|]. cbn [append drop_last]. destruct (r ++ String c "") eqn:E.
  - destruct r; discriminate.
  - rewrite IH. reflexivity.
Qed.

Theorem quoted_literal_roundtrip s : parse_scalar (quote s) = SStr s.
Proof.
  unfold quote. set (x := double s).
  assert (L : last_char (String sq (x ++ String sq "")) = Some sq) by (apply (last_char_app (String sq x) sq)).
  unfold parse_scalar. rewrite L. rewrite Ascii.eqb_refl. cbn [orb andb].
  change (tail (String sq (x ++ String sq ""))) with (x ++ String sq "").
  rewrite drop_last_app. unfold x. rewrite undouble_double. reflexivity.
Qed.
